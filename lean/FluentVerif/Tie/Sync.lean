import FluentVerif.Gen.Sync
import FluentVerif.Gen.Consts
import FluentVerif.Proto.Types
/-! Obligations over the regenerated facts (`Gen/*.lean`), re-checked on every run.  Each is a
`decide` in the kernel over the tables the translator produced from /repo's working tree. -/
set_option maxRecDepth 100000
namespace FV.Tie
open FV.Lk FV.Gen

/-- TCP client: every access to `session` / `TransportPhase` / the connection is covered by its
access policy, on every path of every exported method -/
theorem client_lockset : check client = true := by decide

/-- websocket client: every access to `session` and `err` is under its lock -/
theorem wsClient_lockset : check wsClient = true := by decide

/-- websocket connection: `connState` under `stateLock`, every `Conn.WriteMessage` under `writeLock` -/
theorem wsConn_lockset : check wsConn = true := by decide

/-- the frame-reading methods of the underlying connection (`ReadMessage`, `NextReader`, `ReadJSON`)
are called only from the read loop … -/
theorem readMessage_only_in_readLoop : wsConn_call_wsread = ["go runReadLoop"] := by decide
/-- … which is spawned only by `Listen` -/
theorem readLoop_spawned_only_by_Listen : wsConn_spawn_runReadLoop = ["Listen"] := by decide
/- every call of a frame-writing method of the underlying connection (`WriteMessage`, `NextWriter`,
`WriteControl`, `WritePreparedMessage`, `WriteJSON`) is a `write wswrite` node of the graph, wherever it
is: `wsConn_lockset` covers them all, no single-site obligation is needed. -/

/-- nothing else in the `ws` package — the constructor, the handler closures it installs, methods of other types —
calls a frame-writing or frame-reading method of the underlying connection: every such call is a node of the graph
`wsConn_lockset` covers -/
theorem wire_calls_only_in_methods : wsConn_outside_wire = [] := by decide

/-- the admission gate of `CloseWithMsg` is the pair the policy puts under `closeLock`: the `Closed()` test and the
clearing of the Open bit (both are nodes of the graph, so `wsConn_lockset` demands `closeLock` around each) … -/
theorem close_gate_sites : wsConn_gate_closeGate = ["CloseWithMsg:Closed", "CloseWithMsg:unsetConnState"] := by decide
/-- … and that of `Listen` the pair under `listenLock` -/
theorem listen_gate_sites : wsConn_gate_listenGate = ["Listen:hasConnState", "Listen:setConnState"] := by decide
/-- the state word is only ever changed by setting or clearing bits inside one `stateLock` section: no method stores a
whole value computed from an earlier snapshot -/
theorem connState_no_plain_store : wsConn_plainstore_connState = [] := by decide

/-! protocol constants of the source equal the model's -/
theorem const_size : Consts.OptSize = kSize := by decide
theorem const_chunk : Consts.OptChunk = kChunk := by decide
theorem const_compressed : Consts.OptCompressed = kCompressed := by decide
theorem const_gzip : Consts.OptValGZIP = vGzip := by decide
theorem const_exttype : Consts.extensionType = 0 := by decide
theorem const_etlen : Consts.eventTimeLen = 8 := by decide
theorem const_helo : Consts.MsgTypeHelo = [0x48, 0x45, 0x4c, 0x4f] := by decide
theorem const_ping : Consts.MsgTypePing = [0x50, 0x49, 0x4e, 0x47] := by decide
theorem const_pong : Consts.MsgTypePong = [0x50, 0x4f, 0x4e, 0x47] := by decide

end FV.Tie
