import FluentVerif.Gen.Chunk
import FluentVerif.Tie.Codec
/-! # `GetChunk` is what the source says now

The body of `protocol.GetChunk`, regenerated from /repo's working tree on every run (`Gen/Chunk.lean`), run on any byte string
(`Sk.Ch.runG`), gives exactly the result of the model `getChunk` (`Proto/Chunk.lean`) that C10, C11 and C12 are proved about and
that the client model uses for `RawMessage.Chunk()`. -/
namespace FV.Tie
open FV FV.Sk.Ch FV.Gen.Chunk

/-- the key the regenerated loop compares with is the `chunk` option key of the model -/
theorem chunkKey_is_kChunk : chunkKeyBits.map (·.map UInt8.ofNat) = some kChunk := by decide

theorem skipP_nil (p : Path) : skipP p [] = .err := by cases p <;> rfl

theorem readMapHeader_of_not_map (b : Bytes) (h : nextIsMap b = false) : readMapHeader b = .err := by
  unfold nextIsMap at h; unfold readMapHeader
  split at h <;> simp_all

/-- the key loop of the regenerated body is the model's `getChunkKeys` -/
theorem gloop_keys (n : Nat) (k : G → Res Bytes) (hk : ∀ g, k g = .err) (g : G) :
    gloop kChunk [.readKey, .ifKeyIsChunk [.retReadMapKey], .skip] n k g = getChunkKeys n g.b := by
  induction n generalizing g with
  | zero => simp [gloop, getChunkKeys, hk]
  | succ n ih =>
    simp only [gloop, gexecs, gexec, getChunkKeys]
    apply Res.bind_congr; intro key r
    split
    · rfl
    · apply Res.bind_congr; intro _ r2
      exact ih _

theorem GetChunk_is_model (b : Bytes) : runG kChunk GetChunk b = getChunk b := by
  simp only [runG, GetChunk, gexecs, gexec, getChunk]
  apply Res.bind_congr; intro sz b1
  split
  · rfl
  · apply Res.bind_congr; intro _ b2
    by_cases he : b2.isEmpty
    · have : b2 = [] := by simpa using he
      subst this
      have hh : header ([] : Bytes) = none := rfl
      simp [isTimestampType, hh, skipP_nil, Res.bind]
    · simp only [he, Bool.false_eq_true, if_false]
      by_cases ht : isTimestampType b2 = true
      · simp only [ht, if_true]
        split
        · first | rfl | simp [Res.bind]
        · apply Res.bind_congr; intro _ b3
          apply Res.bind_congr; intro _ b4
          by_cases hm : nextIsMap b4 = true
          · simp only [hm, if_true]
            apply Res.bind_congr; intro n b5
            exact gloop_keys n _ (fun _ => by simp [gexecs, gexec]) _
          · have hm' : nextIsMap b4 = false := by simpa using hm
            simp [hm', readMapHeader_of_not_map b4 hm', Res.bind]
      · have ht' : isTimestampType b2 = false := by simpa using ht
        simp only [ht', Bool.false_eq_true, if_false, Res.ok_bind']
        apply Res.bind_congr; intro _ b4
        by_cases hm : nextIsMap b4 = true
        · simp only [hm, if_true]
          apply Res.bind_congr; intro n b5
          exact gloop_keys n _ (fun _ => by simp [gexecs, gexec]) _
        · have hm' : nextIsMap b4 = false := by simpa using hm
          simp [hm', readMapHeader_of_not_map b4 hm', Res.bind]

end FV.Tie
