import FluentVerif.Gen.Handshake
/-! # The handshake helpers, `makeChunkID` and the `Chunk()` methods are what the source says now (C05, C12) -/
namespace FV.Tie
open FV FV.Tcp FV.Sk.Hs

variable (H : Bytes → Bytes)

/-- `computeHexDigest`, as the regenerated body computes it -/
def digestSem (salt hostname nonce key : Bytes) : Bytes :=
  (runHD H salt hostname nonce key Gen.Handshake.computeHexDigest {}).getD []

theorem computeHexDigest_is_model (salt hostname nonce key : Bytes) :
    runHD H salt hostname nonce key Gen.Handshake.computeHexDigest {} = some (hexDigest H salt hostname nonce key) := by
  simp [Gen.Handshake.computeHexDigest, runHD, hexDigest, List.append_assoc]

theorem digestSem_eq (salt hostname nonce key : Bytes) : digestSem H salt hostname nonce key = hexDigest H salt hostname nonce key := by
  simp [digestSem, computeHexDigest_is_model]

/-- `validateDigest`, as the regenerated body computes it -/
def validateSem (received key nonce salt hostname : Bytes) : Option Bool :=
  runVD (digestSem H) received key nonce salt hostname Gen.Handshake.validateDigest none

theorem validateDigest_is_model (received key nonce salt hostname : Bytes) :
    validateSem H received key nonce salt hostname = some (received == hexDigest H salt hostname nonce key) := by
  simp only [validateSem, Gen.Handshake.validateDigest, runVD, digestSem_eq]
  by_cases h : received = hexDigest H salt hostname nonce key <;> simp [h]

theorem ValidatePingDigest_is_model (p : Ping) (key nonce : Bytes) :
    runVPing (validateSem H) p key nonce Gen.Handshake.ValidatePingDigest = some (validatePing H p key nonce) := by
  simp [Gen.Handshake.ValidatePingDigest, runVPing, validateDigest_is_model, validatePing]

theorem ValidatePongDigest_is_model (p : Pong) (key nonce salt : Bytes) :
    runVPong (validateSem H) p key nonce salt Gen.Handshake.ValidatePongDigest = some (validatePong H p key nonce salt) := by
  simp [Gen.Handshake.ValidatePongDigest, runVPong, validateDigest_is_model, validatePong]

/-- `NewPing(c.Hostname, c.AuthInfo.SharedKey, salt, nonce)` is the model's PING -/
theorem NewPing_is_model (cfg : Cfg) (salt nonce : Bytes) :
    Gen.Handshake.NewPing = [.retMakePing] ∧
    runMkPing (digestSem H) cfg.hostname (cfg.sharedKey.getD []) salt nonce none Gen.Handshake.makePing none none
      = some (pingMsg H cfg salt nonce) := by
  refine ⟨rfl, ?_⟩
  simp [Gen.Handshake.makePing, runMkPing, pingMsg, digestSem_eq, hexDigest]

theorem NewPingWithAuth_shape : Gen.Handshake.NewPingWithAuth = [.retMakePingAuth] := rfl

theorem NewPong_is_model (auth : Bool) (reason hostname key nonce : Bytes) (ping : Ping) :
    runNewPong (digestSem H) auth reason hostname key nonce ping Gen.Handshake.NewPong none none
      = some (newPong H auth reason hostname key nonce ping) := by
  simp [Gen.Handshake.NewPong, runNewPong, newPong, digestSem_eq]

/-- `makeChunkID`, as the regenerated body computes it -/
theorem makeChunkID_is_model (draw : Bytes) : runMkChunk draw Gen.Handshake.makeChunkID none = some (FV.makeChunkID draw) := by
  simp [Gen.Handshake.makeChunkID, runMkChunk, FV.makeChunkID]

theorem Chunk_is_model (opts : Option Options) (draw : Bytes) :
    runChunk (runMkChunk draw Gen.Handshake.makeChunkID none) Gen.Handshake.Message_Chunk { opts := opts } = some (chunkCall opts draw) := by
  simp only [makeChunkID_is_model, Gen.Handshake.Message_Chunk, runChunk, chunkCall]
  by_cases h : (opts.getD {}).chunk = [] <;> simp [h]

/-- the four `Chunk()` methods have the same body -/
theorem Chunk_bodies_equal : Gen.Handshake.MessageExt_Chunk = Gen.Handshake.Message_Chunk ∧ Gen.Handshake.Forward_Chunk = Gen.Handshake.Message_Chunk
    ∧ Gen.Handshake.Packed_Chunk = Gen.Handshake.Message_Chunk := by decide

end FV.Tie
