import FluentVerif.Tie.WsClient
import FluentVerif.Props.C17
/-! # C17's theorems restated for the regenerated bodies of the websocket client's `Send` / `SendRaw` -/
namespace FV.Tie
open FV FV.WsC FV.Sk.WsCl FV.Gen.WsClient

/-- **C17 / C09 over the regenerated `Send`**: a nil result means exactly one binary frame with the message's encoding was handed to the
current session's connection, and nothing else changed there -/
theorem C17_Send_regenerated (i : In) (s : St) (e : Bytes) (he : i.enc = some e) (r : St × Bool)
    (hr : runW i (wsConnectSem i) WSClient_Send s = some r) (hok : r.2 = true) :
    ∃ c, s.session = some c ∧ framesOf r.1 c = framesOf s c ++ [(binaryFrame, e)] := by
  have hm := WSClient_Send_is_model i s
  rw [hr, he] at hm
  simp only [Option.map_some, Option.some.injEq] at hm
  have h2 : (step s (.send (some e) i.writeFails)).2 = .ok := by rw [← hm]; simp [outOf, hok]
  obtain ⟨c, hc, hf⟩ := C17_send_one_frame s e i.writeFails h2
  refine ⟨c, hc, ?_⟩
  rw [← hm] at hf
  exact hf

/-- **C17 (sticky error) over the regenerated `SendRaw`**: once the listener's error is stored, `SendRaw` fails and writes nothing -/
theorem C17_SendRaw_sticky_regenerated (i : In) (s : St) (h : s.sticky = true) :
    runW i (wsConnectSem i) WSClient_SendRaw s = some (s, false) := by
  have hm := WSClient_SendRaw_is_model i s
  simp only [step, C17_sticky s i.raw i.writeFails h] at hm
  cases hr : runW i (wsConnectSem i) WSClient_SendRaw s with
  | none => simp [hr] at hm
  | some r =>
    rw [hr] at hm
    simp only [Option.map_some, Option.some.injEq, Prod.mk.injEq] at hm
    obtain ⟨h1, h2⟩ := hm
    rcases r with ⟨s', ok⟩
    cases ok <;> simp_all [outOf]

end FV.Tie
