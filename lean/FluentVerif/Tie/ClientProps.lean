import FluentVerif.Tie.Client
import FluentVerif.Props.C04
import FluentVerif.Props.C05
import FluentVerif.Props.C06
import FluentVerif.Props.C09
/-! # The property theorems, restated for the regenerated method bodies

`Tie/Client.lean` proves that running the regenerated bodies of the TCP client's methods is the sequential model's `step`.  Here the
property theorems of C04, C05, C06 and C09 are restated with `runC … Gen.Client.Client_M` in place of the model function: statements
about what the source — as re-read on this run — does. -/
namespace FV.Tie
open FV FV.Tcp FV.Sk.Cl FV.Gen.Client

variable (H : Bytes → Bytes)

/-- **C04 over the regenerated `Send`**: with acks required, in transport phase, for a message that `Chunk()` and the encoder accept:
success ⇔ the connection accepted every byte ∧ the response starts with a map the ack decoder accepts whose `ack` is this chunk id -/
theorem C04_Send_regenerated (cfg : Cfg) (i : In) (s : St) (id : Nat) (e : Bytes)
    (hs : s.session = some (id, true)) (hack : cfg.requireAck = true) (he : encOf cfg i = some e) :
    (runC H cfg i (callees H cfg i) Client_Send s).2 = .ok ↔
      ((doWrite e i.fault).2 = .ok ∧ ∃ a r, Ack.unmarshal .stream {} i.resp = .ok a r ∧ a.ack = i.chunk) := by
  rw [Client_Send_is_model, he]
  exact C04_success_iff cfg s id e i.chunk i.fault i.resp hs hack

/-- **C09 over the regenerated `Send`**: a nil result means the connection accepted the whole encoding, in one write, in transport phase -/
theorem C09_Send_regenerated (cfg : Cfg) (i : In) (s : St) (e : Bytes) (he : encOf cfg i = some e)
    (h : (runC H cfg i (callees H cfg i) Client_Send s).2 = .ok) :
    ∃ id, s.session = some (id, true) ∧
      Ev.write id e .ok ∈ newEvents s (runC H cfg i (callees H cfg i) Client_Send s).1 := by
  rw [Client_Send_is_model, he] at h ⊢
  exact C09_ok_all cfg s e i.chunk i.fault i.resp h

/-- **C06 over the regenerated `Send` / `SendRaw`**: outside a live session in transport phase they return an error and touch nothing -/
theorem C06_Send_regenerated (cfg : Cfg) (i : In) (s : St) (h : s.session = none ∨ ∃ id, s.session = some (id, false)) :
    runC H cfg i (callees H cfg i) Client_Send s = (s, .err) ∧ runC H cfg i (callees H cfg i) Client_SendRaw s = (s, .err) := by
  rw [Client_Send_is_model, Client_SendRaw_is_model]
  exact ⟨C06_send_needs_transport cfg s _ _ _ _ h, C06_sendRaw_needs_transport s _ _ h⟩

/-- **C05 over the regenerated `Handshake`**: the session enters transport phase exactly when the peer's bytes are a HELO with options
and a PONG with `auth_result = true` carrying the digest for this salt, nonce and key, and the PING went out whole -/
theorem C05_Handshake_regenerated (cfg : Cfg) (i : In) (s : St) (id : Nat) (hs : s.session = some (id, false)) :
    (runC H cfg i (callees H cfg i) Client_Handshake s).1.session = some (id, true) ↔
      ∃ h rest0 ho p rest,
        Helo.unmarshal .stream {} i.helo = .ok h rest0 ∧ h.options = some ho ∧
        (doWrite (pingMsg H cfg i.salt ho.nonce).marshal i.fault).2 = .ok ∧
        Pong.unmarshal .stream {} (rest0 ++ i.pong) = .ok p rest ∧
        p.authResult = true ∧ p.digest = H (i.salt ++ p.hostname ++ ho.nonce ++ cfg.sharedKey.getD []) := by
  rw [Client_Handshake_is_model]
  exact C05_accept_iff H cfg s id i.helo i.salt i.pong i.fault hs

end FV.Tie
