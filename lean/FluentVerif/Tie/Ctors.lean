import FluentVerif.Gen.Ctors
import FluentVerif.Client.Helpers
/-! # The packed / compressed constructors are what the source says now (C03, C07) -/
namespace FV.Tie
open FV FV.Sk.Ct FV.Gen.Ctors

def fromBytesSem (tag b : Bytes) : Option Packed := runFromBytes tag b NewPackedForwardMessageFromBytes

theorem NewPackedForwardMessageFromBytes_is_model (tag b : Bytes) :
    fromBytesSem tag b = some { tag := tag, stream := b, options := none } := rfl

theorem NewPackedForwardMessage_is_model (tag : Bytes) (es : List (Instant × GoVal)) :
    runNewPacked fromBytesSem tag es NewPackedForwardMessage {} = some (newPacked tag es) := by
  simp only [NewPackedForwardMessage, runNewPacked, newPacked, NewPackedForwardMessageFromBytes_is_model]
  cases marshalPacked es <;> simp

def compressedFromBytesSem (cd : Codec) (pooled : Compressor) (tag payload : Bytes) : Option (Option Packed) :=
  runCompressedFromBytes cd pooled fromBytesSem tag payload NewCompressedPackedForwardMessageFromBytes {}

theorem NewCompressedPackedForwardMessageFromBytes_is_model (cd : Codec) (pooled : Compressor) (tag payload : Bytes) :
    compressedFromBytesSem cd pooled tag payload = some (newCompressedFromBytes cd pooled tag payload) := by
  simp only [compressedFromBytesSem, NewCompressedPackedForwardMessageFromBytes, runCompressedFromBytes, newCompressedFromBytes,
    NewPackedForwardMessageFromBytes_is_model, Option.bind]
  cases h : (pooled.reset).write cd payload <;> simp [h]

theorem NewCompressedPackedForwardMessage_is_model (cd : Codec) (pooled : Compressor) (tag : Bytes) (es : List (Instant × GoVal)) :
    runNewCompressed (compressedFromBytesSem cd pooled) tag es NewCompressedPackedForwardMessage {} = some (newCompressed cd pooled tag es) := by
  simp only [NewCompressedPackedForwardMessage, runNewCompressed, newCompressed, NewCompressedPackedForwardMessageFromBytes_is_model]
  cases hm : marshalPacked es with
  | none => simp
  | some b =>
    simp only [Option.bind]
    cases hc : newCompressedFromBytes cd pooled tag b <;> simp [hc]

/-- `GzipCompressor`: `Write` is one write and the close of the member, whichever fails first; `Reset` empties the buffer and restarts
the writer on it (or creates both on first use); `Bytes` is the buffer — the three facts `Compressor.write / reset / buffer` model -/
theorem GzipCompressor_shape :
    GzipCompressor_Write = [.gzWrite, .gzClose, .retErr] ∧ GzipCompressor_Reset = [.ifFirstUseInit, .bufReset, .gzReset] ∧
    GzipCompressor_Bytes = [.retBuffer] := by decide

/-- the three plain constructors build what the helper model (`Helper.wire`) encodes: the second of the call for `NewMessage`, the
instant itself for `NewMessageExt`, the entries with `size = len(entries)` for `NewForwardMessage` — no other option -/
theorem plain_constructors (now : Instant) (tag : Bytes) (r : GoVal) (es : List (Instant × GoVal)) :
    runNewMessage now tag r NewMessage = some (tag, now.sec, r) ∧
    runNewMessageExt (runEventTimeNow now EventTimeNow) tag r NewMessageExt = some (tag, now, r) ∧
    runNewForward tag es NewForwardMessage = some (tag, es, some { size := some es.length }) := ⟨rfl, rfl, rfl⟩

/-- `RawMessage.EncodeMsg` hands the writer the bytes verbatim, `nil` for an empty message; `RawMessage.Chunk` is `GetChunk` -/
theorem RawMessage_is_model (rm : Bytes) :
    runRawEncode rm RawMessage_EncodeMsg = some (if rm.isEmpty then [0xc0] else rm) ∧ RawMessage_Chunk = [.retGetChunk] := ⟨rfl, rfl⟩

end FV.Tie
