import FluentVerif.Gen.Transport
/-! # `EventTime`'s binary form and the packed-stream functions are what the source says now (C03, C10, C13, C19) -/
namespace FV.Tie
open FV FV.Sk.Tr FV.Gen.Transport

theorem EventTime_MarshalBinaryTo_is_model (t : Instant) : runMB t EventTime_MarshalBinaryTo {} = some (encodeET t) := by
  simp [EventTime_MarshalBinaryTo, runMB, encodeET]

theorem EventTime_UnmarshalBinary_is_model (p : Bytes) : runUB p EventTime_UnmarshalBinary {} = some (decodeET p) := by
  simp only [EventTime_UnmarshalBinary, runUB, decodeET]
  split <;> simp

theorem whileEntries_is_model (f : Nat) (b : Bytes) (acc : List EntryExt) : whileEntries f b acc = unmarshalPackedF f b acc := by
  induction f generalizing b acc with
  | zero => rfl
  | succ f ih =>
    simp only [whileEntries, unmarshalPackedF]
    split
    · rfl
    · split <;> simp_all

theorem EntryList_UnmarshalPacked_is_model (b : Bytes) : runUP b EntryList_UnmarshalPacked {} = some (unmarshalPacked b) := by
  simp [EntryList_UnmarshalPacked, runUP, unmarshalPacked, whileEntries_is_model]

theorem EntryList_MarshalPacked_is_model (es : List (Instant × GoVal)) :
    runMP es EntryList_MarshalPacked {} = some (marshalPacked es) := by
  simp only [EntryList_MarshalPacked, runMP, marshalPacked]
  cases marshalEntries es <;> simp

theorem EntryList_Equal_is_model {α : Type} [DecidableEq α] (l1 l2 : List α) :
    runEQ l1 l2 EntryList_Equal {} = some (Equal.equal l1 l2) := by
  simp only [EntryList_Equal, runEQ, Equal.equal]
  by_cases h : l1.length = l2.length <;> simp [h]

/-- the order matters: a buffer written before it is reset, or a body without the reset, is not a run -/
example : runMP [] [.poolGet, .deferPut, .forEncode, .retCopy] {} = none := rfl

end FV.Tie
