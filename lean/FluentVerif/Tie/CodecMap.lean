import FluentVerif.Tie.Codec
/-! # The msgp-generated map decoders (`MessageOptions`, `AckMessage`, `HeloOpts`, and `Helo` with its inlined options) are their models

The regenerated bodies (`Gen/Codec.lean`) contain the key loop `for n > 0 { n--; key; switch key { case …; default: Skip } }`
(`Stmt.mapLoop`, evaluated by `Sk.loopN` / `Sk.execCases`).  `loopN_eq_readFields` shows, by induction on the number of keys, that
the loop is the model's `readFields` over the handler table, provided one pass of the `switch` does what the table's handler for
that key does (`T_step`, by cases on the key).  Both paths share the body shape; the path only selects the key reader and `Skip`. -/
namespace FV.Tie
open FV FV.Sk FV.Gen.Codec

/-- what the model's `readFields` does with one key: the handler from the table, or skip the value -/
def handlerStep {σ τ} (p : Path) (emb : τ → σ) (h : Bytes → Option (τ → Bytes → Res τ)) (key : Bytes) (k : σ → Bytes → Res σ) (t : τ) (b : Bytes) : Res σ :=
  match h key with
  | some f => (f t b).bind fun t' b' => k (emb t') b'
  | none => (skipP p b).bind fun _ b2 => k (emb t) b2

/-- the key loop of a generated map decoder is the model's `readFields`, given that the `switch` selects what the model's
handler table selects; `emb` places the decoded struct inside the receiver (the identity, or — for `Helo`, whose options decoder is
inlined — the struct behind the options pointer) -/
theorem loopN_eq_readFields {σ τ} (p : Path) (emb : τ → σ) (h : Bytes → Option (τ → Bytes → Res τ))
    (step : Bytes → (σ → Bytes → Res σ) → σ → Bytes → Res σ)
    (hstep : ∀ key k t b, step key k (emb t) b = handlerStep p emb h key k t b)
    (n : Nat) (k : σ → Bytes → Res σ) (t : τ) (b : Bytes) :
    loopN p step n k (emb t) b = (readFields p h n t b).bind fun t' b' => k (emb t') b' := by
  induction n generalizing t b with
  | zero => simp [loopN, readFields, Res.bind]
  | succ n ih =>
    simp only [loopN, readFields, Res.bind_bind']
    apply Res.bind_congr; intro key b1
    rw [hstep]; unfold handlerStep
    cases h key with
    | some f => simp only [Res.bind_bind']; apply Res.bind_congr; intro t' b2; exact ih t' b2
    | none => simp only [Res.bind_bind']; apply Res.bind_congr; intro _ b2; exact ih t b2

theorem loopN_eq_readFields_id {σ} (p : Path) (h : Bytes → Option (σ → Bytes → Res σ))
    (step : Bytes → (σ → Bytes → Res σ) → σ → Bytes → Res σ)
    (hstep : ∀ key k t b, step key k t b = handlerStep p (fun t => t) h key k t b)
    (n : Nat) (k : σ → Bytes → Res σ) (t : σ) (b : Bytes) :
    loopN p step n k t b = (readFields p h n t b).bind fun t' b' => k t' b' :=
  loopN_eq_readFields p (fun t => t) h step hstep n k t b

theorem Res.bind_ok_id {α} (x : Res α) : (x.bind fun a r => Res.ok a r) = x := by cases x <;> rfl

macro "sk_case" : tactic => `(tactic|
  simp only [if_true, execs, exec, evalCond, runPrim, setVal, OptionsF, AckF, HeloOptsF, HeloF, Options.sizeField, isNilV, Option.bind, Option.map,
    Res.bind_bind', Res.map_eq_bind, Res.ok_bind', Res.ite_bind])

theorem Options_step (p : Path) (key : Bytes) (k : Options → Bytes → Res Options) (s : Options) (b : Bytes) :
    execCases OptionsF p [
      .case [115, 105, 122, 101] [.iteElse .nextNil [.read .none .nil, .set .Size .nil] [.ite (.fieldNil .Size) [.set .Size .newInt], .read .SizeDeref .int64]],
      .case [99, 104, 117, 110, 107] [.read .Chunk .str],
      .case [99, 111, 109, 112, 114, 101, 115, 115, 101, 100] [.read .Compressed .str],
      .dflt [.read .none .skip]] key (fun _ s'' b'' => k s'' b'') 0 s b
    = handlerStep p (fun t => t) Options.handlers key k s b := by
  unfold handlerStep
  have e1 : ([115, 105, 122, 101] : List Nat).map UInt8.ofNat = kSize := by decide
  have e2 : ([99, 104, 117, 110, 107] : List Nat).map UInt8.ofNat = kChunk := by decide
  have e3 : ([99, 111, 109, 112, 114, 101, 115, 115, 101, 100] : List Nat).map UInt8.ofNat = kCompressed := by decide
  simp only [execCases, Options.handlers, e1, e2, e3]
  rcases s with ⟨sz, ch, co⟩
  have n12 : kChunk ≠ kSize := by decide
  have n13 : kCompressed ≠ kSize := by decide
  have n23 : kCompressed ≠ kChunk := by decide
  by_cases h1 : key = kSize
  · subst h1; sk_case; cases sz <;> simp
  · by_cases h2 : key = kChunk
    · subst h2; simp only [if_neg n12]; sk_case
    · by_cases h3 : key = kCompressed
      · subst h3; simp only [if_neg n13, if_neg n23]; sk_case
      · simp only [if_neg h1, if_neg h2, if_neg h3]; sk_case

theorem MessageOptions_UnmarshalMsg_is_model (recv : Options) (b : Bytes) :
    run OptionsF .bytes MessageOptions_UnmarshalMsg recv b = Options.unmarshal .bytes recv b := by
  simp only [run, MessageOptions_UnmarshalMsg, execs, exec, runPrim, Options.unmarshal, Res.bind_bind', Res.map_eq_bind, Res.ok_bind']
  apply Res.bind_congr; intro n b1
  exact (loopN_eq_readFields_id .bytes Options.handlers _ (fun key k t b => Options_step .bytes key k t b) n _ recv b1).trans (Res.bind_ok_id _)

theorem MessageOptions_DecodeMsg_is_model (recv : Options) (b : Bytes) :
    run OptionsF .stream MessageOptions_DecodeMsg recv b = Options.unmarshal .stream recv b := by
  simp only [run, MessageOptions_DecodeMsg, execs, exec, runPrim, Options.unmarshal, Res.bind_bind', Res.map_eq_bind, Res.ok_bind']
  apply Res.bind_congr; intro n b1
  exact (loopN_eq_readFields_id .stream Options.handlers _ (fun key k t b => Options_step .stream key k t b) n _ recv b1).trans (Res.bind_ok_id _)

theorem Ack_step (p : Path) (key : Bytes) (k : Ack → Bytes → Res Ack) (s : Ack) (b : Bytes) :
    execCases AckF p [.case [97, 99, 107] [.read .Ack .str], .dflt [.read .none .skip]] key (fun _ s'' b'' => k s'' b'') 0 s b
    = handlerStep p (fun t => t) Ack.handlers key k s b := by
  unfold handlerStep
  have e1 : ([97, 99, 107] : List Nat).map UInt8.ofNat = kAck := by decide
  simp only [execCases, Ack.handlers, e1]
  by_cases h1 : key = kAck
  · subst h1; sk_case
  · simp only [if_neg h1]; sk_case

theorem AckMessage_UnmarshalMsg_is_model (recv : Ack) (b : Bytes) :
    run AckF .bytes AckMessage_UnmarshalMsg recv b = Ack.unmarshal .bytes recv b := by
  simp only [run, AckMessage_UnmarshalMsg, execs, exec, runPrim, Ack.unmarshal, Res.bind_bind', Res.map_eq_bind, Res.ok_bind']
  apply Res.bind_congr; intro n b1
  exact (loopN_eq_readFields_id .bytes Ack.handlers _ (fun key k t b => Ack_step .bytes key k t b) n _ recv b1).trans (Res.bind_ok_id _)

theorem AckMessage_DecodeMsg_is_model (recv : Ack) (b : Bytes) :
    run AckF .stream AckMessage_DecodeMsg recv b = Ack.unmarshal .stream recv b := by
  simp only [run, AckMessage_DecodeMsg, execs, exec, runPrim, Ack.unmarshal, Res.bind_bind', Res.map_eq_bind, Res.ok_bind']
  apply Res.bind_congr; intro n b1
  exact (loopN_eq_readFields_id .stream Ack.handlers _ (fun key k t b => Ack_step .stream key k t b) n _ recv b1).trans (Res.bind_ok_id _)

theorem key_nonce_auth : kAuth ≠ kNonce := by decide
theorem key_nonce_keepalive : kKeepalive ≠ kNonce := by decide
theorem key_auth_keepalive : kKeepalive ≠ kAuth := by decide
theorem keyb_nonce : ([110, 111, 110, 99, 101] : List Nat).map UInt8.ofNat = kNonce := by decide
theorem keyb_auth : ([97, 117, 116, 104] : List Nat).map UInt8.ofNat = kAuth := by decide
theorem keyb_keepalive : ([107, 101, 101, 112, 97, 108, 105, 118, 101] : List Nat).map UInt8.ofNat = kKeepalive := by decide

theorem HeloOpts_step (p : Path) (key : Bytes) (k : HeloOpts → Bytes → Res HeloOpts) (s : HeloOpts) (b : Bytes) :
    execCases HeloOptsF p [
      .case [110, 111, 110, 99, 101] [.read .Nonce .bin],
      .case [97, 117, 116, 104] [.read .Auth .bin],
      .case [107, 101, 101, 112, 97, 108, 105, 118, 101] [.read .Keepalive .bool],
      .dflt [.read .none .skip]] key (fun _ s'' b'' => k s'' b'') 0 s b
    = handlerStep p (fun t => t) HeloOpts.handlers key k s b := by
  unfold handlerStep
  simp only [execCases, HeloOpts.handlers, keyb_nonce, keyb_auth, keyb_keepalive]
  by_cases h1 : key = kNonce
  · subst h1; sk_case
  · by_cases h2 : key = kAuth
    · subst h2; simp only [if_neg key_nonce_auth]; sk_case
    · by_cases h3 : key = kKeepalive
      · subst h3; simp only [if_neg key_nonce_keepalive, if_neg key_auth_keepalive]; sk_case
      · simp only [if_neg h1, if_neg h2, if_neg h3]; sk_case

theorem HeloOpts_UnmarshalMsg_is_model (recv : HeloOpts) (b : Bytes) :
    run HeloOptsF .bytes HeloOpts_UnmarshalMsg recv b = HeloOpts.unmarshal .bytes recv b := by
  simp only [run, HeloOpts_UnmarshalMsg, execs, exec, runPrim, HeloOpts.unmarshal, Res.bind_bind', Res.map_eq_bind, Res.ok_bind']
  apply Res.bind_congr; intro n b1
  exact (loopN_eq_readFields_id .bytes HeloOpts.handlers _ (fun key k t b => HeloOpts_step .bytes key k t b) n _ recv b1).trans (Res.bind_ok_id _)

theorem HeloOpts_DecodeMsg_is_model (recv : HeloOpts) (b : Bytes) :
    run HeloOptsF .stream HeloOpts_DecodeMsg recv b = HeloOpts.unmarshal .stream recv b := by
  simp only [run, HeloOpts_DecodeMsg, execs, exec, runPrim, HeloOpts.unmarshal, Res.bind_bind', Res.map_eq_bind, Res.ok_bind']
  apply Res.bind_congr; intro n b1
  exact (loopN_eq_readFields_id .stream HeloOpts.handlers _ (fun key k t b => HeloOpts_step .stream key k t b) n _ recv b1).trans (Res.bind_ok_id _)

/-- `Helo`: msgp inlines the options decoder; the loop works on the struct behind `z.Options` -/
theorem Helo_step (p : Path) (mt : Bytes) (key : Bytes) (k : Helo → Bytes → Res Helo) (t : HeloOpts) (b : Bytes) :
    execCases HeloF p [
      .case [110, 111, 110, 99, 101] [.read .OptionsNonce .bin],
      .case [97, 117, 116, 104] [.read .OptionsAuth .bin],
      .case [107, 101, 101, 112, 97, 108, 105, 118, 101] [.read .OptionsKeepalive .bool],
      .dflt [.read .none .skip]] key (fun _ s'' b'' => k s'' b'') 0 { mtype := mt, options := some t } b
    = handlerStep p (fun t => ({ mtype := mt, options := some t } : Helo)) HeloOpts.handlers key k t b := by
  unfold handlerStep
  simp only [execCases, HeloOpts.handlers, keyb_nonce, keyb_auth, keyb_keepalive]
  by_cases h1 : key = kNonce
  · subst h1; sk_case
  · by_cases h2 : key = kAuth
    · subst h2; simp only [if_neg key_nonce_auth]; sk_case
    · by_cases h3 : key = kKeepalive
      · subst h3; simp only [if_neg key_nonce_keepalive, if_neg key_auth_keepalive]; sk_case
      · simp only [if_neg h1, if_neg h2, if_neg h3]; sk_case

theorem HeloF_put_mt (s : Bytes) (m : Helo) : HeloF.put .MessageType (.str s) m = some { m with mtype := s } := rfl
theorem HeloF_put_nil (m : Helo) : HeloF.put .Options .nilPtr m = some { m with options := none } := rfl
theorem HeloF_put_new (o : Option HeloOpts) (m : Helo) : HeloF.put .Options (.hopts o) m = some { m with options := o } := rfl
theorem HeloF_get_options (m : Helo) : HeloF.get .Options m = some (.hopts m.options) := rfl
theorem HeloF_get_mt (m : Helo) : HeloF.get .MessageType m = none := rfl
theorem HeloF_get_sz (m : Helo) : HeloF.get .sz m = none := rfl
theorem HeloF_get_none (m : Helo) : HeloF.get .none m = none := rfl

macro "sk_helo" p:term : tactic => `(tactic| (
  simp only [run, execs, exec, runPrim, evalCond, setVal, isNilV, HeloF_put_mt, HeloF_put_nil, HeloF_put_new, HeloF_get_options, HeloF_get_mt,
    HeloF_get_sz, HeloF_get_none, Option.bind, Helo.unmarshal, HeloOpts.unmarshal, Res.bind_bind', Res.map_eq_bind, Res.ok_bind', Res.ite_bind]
  apply Res.bind_congr; intro sz b1
  simp only [bne_iff_ne, ne_eq, ite_not, decide_not, Bool.not_eq_true', decide_eq_false_iff_not, decide_eq_true_eq]
  split
  · apply Res.bind_congr; intro mt b2
    split
    · rfl
    · rename_i opts _ _
      cases opts with
      | none =>
        simp only [Option.isNone, if_true, Option.getD]
        apply Res.bind_congr; intro n b3
        exact loopN_eq_readFields $p (fun t => ({ mtype := mt, options := some t } : Helo)) HeloOpts.handlers _
          (fun key k t b => Helo_step $p mt key k t b) n _ {} b3
      | some o =>
        simp only [Option.isNone, Option.getD]
        apply Res.bind_congr; intro n b3
        exact loopN_eq_readFields $p (fun t => ({ mtype := mt, options := some t } : Helo)) HeloOpts.handlers _
          (fun key k t b => Helo_step $p mt key k t b) n _ o b3
  · rfl))

theorem Helo_UnmarshalMsg_is_model (recv : Helo) (b : Bytes) :
    run HeloF .bytes Helo_UnmarshalMsg recv b = Helo.unmarshal .bytes recv b := by
  rcases recv with ⟨mt0, opts⟩
  simp only [Helo_UnmarshalMsg]
  sk_helo Path.bytes

theorem Helo_DecodeMsg_is_model (recv : Helo) (b : Bytes) :
    run HeloF .stream Helo_DecodeMsg recv b = Helo.unmarshal .stream recv b := by
  rcases recv with ⟨mt0, opts⟩
  simp only [Helo_DecodeMsg]
  sk_helo Path.stream

/-! ### EntryList decoders -/

theorem resizeTo_length (n : Nat) (l : List EntryExt) : (resizeTo n l).length = n := by
  simp [resizeTo]; omega

/-- one pass of the regenerated loop body on any element is the model's entry decoder (which ignores what the element held) -/
theorem entry_body (p : Path) (e : EntryExt) (b : Bytes) :
    execs EntryExtF p [.read .sz .arrayHeader, .ite (.szNe 2) [.retErr], .read .Timestamp .eventTime, .read .Record .intf]
      (fun _ e' b' => .ok e' b') 0 e b = EntryExt.unmarshal p {} b := by
  simp only [EntryExtF, EntryExt.unmarshal]; sk_slice

theorem mapEl_eq_readEntries (p : Path) (l : List EntryExt) (b : Bytes) :
    mapEl p [.read .sz .arrayHeader, .ite (.szNe 2) [.retErr], .read .Timestamp .eventTime, .read .Record .intf] l b
      = readEntries p l.length b := by
  induction l generalizing b with
  | nil => rfl
  | cons e es ih =>
    simp only [mapEl, readEntries, List.length_cons, entry_body]
    apply Res.bind_congr; intro e' b1
    rw [ih]

theorem EntryList_UnmarshalMsg_is_model (recv : List EntryExt) (b : Bytes) :
    runL .bytes EntryList_UnmarshalMsg recv b = EntryList.unmarshal .bytes b := by
  simp only [runL, EntryList_UnmarshalMsg, execL, exec, runPrim, EntryList.unmarshal, mapEl_eq_readEntries, resizeTo_length,
    Res.bind_bind', Res.map_eq_bind, Res.ok_bind']
  apply Res.bind_congr; intro n b1
  exact Res.bind_ok_id _

theorem EntryList_DecodeMsg_is_model (recv : List EntryExt) (b : Bytes) :
    runL .stream EntryList_DecodeMsg recv b = EntryList.unmarshal .stream b := by
  simp only [runL, EntryList_DecodeMsg, execL, exec, runPrim, EntryList.unmarshal, mapEl_eq_readEntries, resizeTo_length,
    Res.bind_bind', Res.map_eq_bind, Res.ok_bind']
  apply Res.bind_congr; intro n b1
  exact Res.bind_ok_id _

end FV.Tie
