import FluentVerif.Gen.Codec
/-! # The decoder models are what the source says now

`Gen/Codec.lean` is regenerated from /repo's working tree on every run: the bodies of the eight hand-written
decoders, statement by statement (`translator/codec.go`).  Each theorem below states that *running that regenerated
body* (`Sk.run`, `Sk/Interp.lean`) gives, for every receiver and every input, exactly the result of the decoder model
in `Proto/Decode.lean` — the definitions all of C01, C10, C13, C18 are proved about, and the ones the driver executes.
A change to a decoder's source changes the generated skeleton, and the proof here no longer checks unless the changed
body still computes the same function. -/
namespace FV.Tie
open FV FV.Sk FV.Gen.Codec

/-- on an empty input a nested options decode fails, like `readNil` … -/
theorem Options_unmarshal_nil (p : Path) (o : Options) : Options.unmarshal p o [] = .err := rfl
theorem Res.err_bind {α β} (f : α → Bytes → Res β) : (Res.err : Res α).bind f = .err := rfl
theorem Res.bind_congr {α β} {x : Res α} {f g : α → Bytes → Res β} (h : ∀ a r, f a r = g a r) : x.bind f = x.bind g := by
  cases x <;> simp [Res.bind, h]

macro "sk_slice" : tactic => `(tactic| (
  simp only [run, execs, exec, runPrim, setVal, evalCond, readOptionsOrNil, Res.bind_bind', Res.map_eq_bind,
    Res.ok_bind', Res.ite_bind]
  simp [Res.bind_bind', Res.ok_bind', Res.ite_bind]))

/-- the stream decoders' separate look at the error of `NextType` (`t == NilType || err != nil`, then
`if err != nil { return err }`) changes nothing: on an empty rest the nested decode fails as well.  Walk down the two
`bind` chains in step; where the conditions differ, split on whether the rest is empty. -/
macro "sk_stream" : tactic => `(tactic| (
  sk_slice
  repeat' (first
    | rfl
    | (apply Res.bind_congr; intro _ _)
    | (refine ite_congr rfl (fun _ => ?_) (fun _ => ?_))
    | (split <;> (try split) <;> (try split) <;> simp_all [isNil, Options_unmarshal_nil, Res.err_bind, readNil]))))

theorem Message_UnmarshalMsg_is_model (recv : Message) (b : Bytes) :
    run MessageF .bytes Message_UnmarshalMsg recv b = Message.unmarshal .bytes recv b := by
  simp only [Message_UnmarshalMsg, MessageF, Message.unmarshal]; sk_slice

theorem MessageExt_UnmarshalMsg_is_model (recv : MessageExt) (b : Bytes) :
    run MessageExtF .bytes MessageExt_UnmarshalMsg recv b = MessageExt.unmarshal .bytes recv b := by
  simp only [MessageExt_UnmarshalMsg, MessageExtF, MessageExt.unmarshal]; sk_slice

theorem Forward_UnmarshalMsg_is_model (recv : Forward) (b : Bytes) :
    run ForwardF .bytes Forward_UnmarshalMsg recv b = Forward.unmarshal .bytes recv b := by
  simp only [Forward_UnmarshalMsg, ForwardF, Forward.unmarshal]; sk_slice

theorem Packed_UnmarshalMsg_is_model (recv : Packed) (b : Bytes) :
    run PackedF .bytes Packed_UnmarshalMsg recv b = Packed.unmarshal .bytes recv b := by
  simp only [Packed_UnmarshalMsg, PackedF, Packed.unmarshal]; sk_slice

theorem Packed_DecodeMsg_is_model (recv : Packed) (b : Bytes) :
    run PackedF .stream Packed_DecodeMsg recv b = Packed.unmarshal .stream recv b := by
  simp only [Packed_DecodeMsg, PackedF, Packed.unmarshal]; sk_slice

theorem Message_DecodeMsg_is_model (recv : Message) (b : Bytes) :
    run MessageF .stream Message_DecodeMsg recv b = Message.unmarshal .stream recv b := by
  simp only [Message_DecodeMsg, MessageF, Message.unmarshal]; sk_stream

theorem MessageExt_DecodeMsg_is_model (recv : MessageExt) (b : Bytes) :
    run MessageExtF .stream MessageExt_DecodeMsg recv b = MessageExt.unmarshal .stream recv b := by
  simp only [MessageExt_DecodeMsg, MessageExtF, MessageExt.unmarshal]; sk_stream

theorem Forward_DecodeMsg_is_model (recv : Forward) (b : Bytes) :
    run ForwardF .stream Forward_DecodeMsg recv b = Forward.unmarshal .stream recv b := by
  simp only [Forward_DecodeMsg, ForwardF, Forward.unmarshal]; sk_stream

/-! ### msgp-generated tuple decoders (`Entry`, `EntryExt`, `Ping`, `Pong`): the receiver's old field values do not
show in the result, because every field is assigned before the function returns successfully -/

theorem Entry_UnmarshalMsg_is_model (recv : Entry) (b : Bytes) :
    run EntryF .bytes Entry_UnmarshalMsg recv b = Entry.unmarshal .bytes recv b := by
  simp only [Entry_UnmarshalMsg, EntryF, Entry.unmarshal]; sk_slice
theorem Entry_DecodeMsg_is_model (recv : Entry) (b : Bytes) :
    run EntryF .stream Entry_DecodeMsg recv b = Entry.unmarshal .stream recv b := by
  simp only [Entry_DecodeMsg, EntryF, Entry.unmarshal]; sk_slice
theorem EntryExt_UnmarshalMsg_is_model (recv : EntryExt) (b : Bytes) :
    run EntryExtF .bytes EntryExt_UnmarshalMsg recv b = EntryExt.unmarshal .bytes recv b := by
  simp only [EntryExt_UnmarshalMsg, EntryExtF, EntryExt.unmarshal]; sk_slice
theorem EntryExt_DecodeMsg_is_model (recv : EntryExt) (b : Bytes) :
    run EntryExtF .stream EntryExt_DecodeMsg recv b = EntryExt.unmarshal .stream recv b := by
  simp only [EntryExt_DecodeMsg, EntryExtF, EntryExt.unmarshal]; sk_slice
theorem Ping_UnmarshalMsg_is_model (recv : Ping) (b : Bytes) :
    run PingF .bytes Ping_UnmarshalMsg recv b = Ping.unmarshal .bytes recv b := by
  simp only [Ping_UnmarshalMsg, PingF, Ping.unmarshal]; sk_slice
theorem Ping_DecodeMsg_is_model (recv : Ping) (b : Bytes) :
    run PingF .stream Ping_DecodeMsg recv b = Ping.unmarshal .stream recv b := by
  simp only [Ping_DecodeMsg, PingF, Ping.unmarshal]; sk_slice
theorem Pong_UnmarshalMsg_is_model (recv : Pong) (b : Bytes) :
    run PongF .bytes Pong_UnmarshalMsg recv b = Pong.unmarshal .bytes recv b := by
  simp only [Pong_UnmarshalMsg, PongF, Pong.unmarshal]; sk_slice
theorem Pong_DecodeMsg_is_model (recv : Pong) (b : Bytes) :
    run PongF .stream Pong_DecodeMsg recv b = Pong.unmarshal .stream recv b := by
  simp only [Pong_DecodeMsg, PongF, Pong.unmarshal]; sk_slice

/-- the statement language is not vacuous: a statement the translator does not understand, a field of another type
and a missing return all make `run` panic, so none of the equalities above could hold for such a body -/
example : run MessageF .bytes [.unknown "x"] {} [] = .panic "statement not understood by the translator: x" := rfl
example : (run MessageF .bytes [.read .Tag .int64, .retOk] {} [0x01]).isPanic = true := by decide
example : (run MessageF .bytes [.read .Tag .str] {} [0xa0]).isPanic = true := by decide
/-- … and a body that stops after the tag leaves the rest of the message unread, where the model consumes it -/
example : (run MessageF .bytes [.read .sz .arrayHeader, .read .Tag .str, .retOk] {} [0x93, 0xa1, 0x41, 0x05, 0x80]).rest?
      = some [0x05, 0x80]
    ∧ (Message.unmarshal .bytes {} [0x93, 0xa1, 0x41, 0x05, 0x80]).rest? = some [] := by decide

end FV.Tie
