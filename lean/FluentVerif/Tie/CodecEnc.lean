import FluentVerif.Gen.Codec
/-! # The encoder models are what the source says now

As `Tie/Codec.lean`, for the encoders: running the regenerated bodies of `MarshalMsg` / `EncodeMsg`
(`Gen/Codec.lean`, from /repo's working tree on every run) on a message and the bytes the caller handed in gives
exactly those bytes followed by the encoder model's output (`Proto/Encode.lean`) — `.err` where the model has no
encoding (an unencodable record).  One model serves both paths; both bodies are proved equal to it. -/
namespace FV.Tie
open FV FV.Sk FV.Gen.Codec

/-- what the model says an encoder returns when asked to append to `pre` -/
def appended (pre : Bytes) (enc : Option Bytes) : ERes := ERes.ofOption (enc.map (pre ++ ·))

theorem key_ack : appendString kAck = [163, 97, 99, 107] := by decide
theorem key_nonce : appendString kNonce = [165, 110, 111, 110, 99, 101] := by decide
theorem key_auth : appendString kAuth = [164, 97, 117, 116, 104] := by decide
theorem key_keepalive : appendString kKeepalive = [169, 107, 101, 101, 112, 97, 108, 105, 118, 101] := by decide
theorem hdr2 : appendArrayHeader 2 = [146] := by decide
theorem hdr3 : appendArrayHeader 3 = [147] := by decide

macro "sk_unfold" : tactic => `(tactic|
  simp only [runEnc, eexecs, eexec, MessageSrc.get, MessageExtSrc.get, ForwardSrc.get, PackedSrc.get, EntrySrc.get, EntryExtSrc.get,
    PingSrc.get, PongSrc.get, AckSrc.get, HeloOptsSrc.get, HeloSrc.get, Option.bind, Option.map, encPrim, isNilPtr, Option.isNone])
macro "sk_fin" : tactic => `(tactic|
  simp_all [appended, ERes.ofOption, marshalOptPtr, appendNil, List.append_assoc, Message.marshal, MessageExt.marshal,
    Forward.marshal, Packed.marshal, Entry.marshal, EntryExt.marshal, Ping.marshal, Pong.marshal, Ack.marshal, HeloOpts.marshal,
    Helo.marshal, hdr2, hdr3, key_ack, key_nonce, key_auth, key_keepalive])

theorem Message_MarshalMsg_is_model (m : MessageSrc) (pre : Bytes) :
    runEnc MessageSrc.get Message_MarshalMsg m pre = appended pre (Message.marshal m.tag m.ts m.record m.options) := by
  rcases m with ⟨tag, ts, rec, opts⟩
  simp only [Message_MarshalMsg]; sk_unfold
  cases opts <;> cases hh : GoVal.encode rec <;> sk_fin

theorem Message_EncodeMsg_is_model (m : MessageSrc) (pre : Bytes) :
    runEnc MessageSrc.get Message_EncodeMsg m pre = appended pre (Message.marshal m.tag m.ts m.record m.options) := by
  rcases m with ⟨tag, ts, rec, opts⟩
  simp only [Message_EncodeMsg]; sk_unfold
  cases opts <;> cases hh : GoVal.encode rec <;> sk_fin

theorem MessageExt_MarshalMsg_is_model (m : MessageExtSrc) (pre : Bytes) :
    runEnc MessageExtSrc.get MessageExt_MarshalMsg m pre = appended pre (MessageExt.marshal m.tag m.ts m.record m.options) := by
  rcases m with ⟨tag, ts, rec, opts⟩
  simp only [MessageExt_MarshalMsg]; sk_unfold
  cases opts <;> cases hh : GoVal.encode rec <;> sk_fin

theorem MessageExt_EncodeMsg_is_model (m : MessageExtSrc) (pre : Bytes) :
    runEnc MessageExtSrc.get MessageExt_EncodeMsg m pre = appended pre (MessageExt.marshal m.tag m.ts m.record m.options) := by
  rcases m with ⟨tag, ts, rec, opts⟩
  simp only [MessageExt_EncodeMsg]; sk_unfold
  cases opts <;> cases hh : GoVal.encode rec <;> sk_fin

theorem Forward_MarshalMsg_is_model (m : ForwardSrc) (pre : Bytes) :
    runEnc ForwardSrc.get Forward_MarshalMsg m pre = appended pre (Forward.marshal m.tag m.entries m.options) := by
  rcases m with ⟨tag, es, opts⟩
  simp only [Forward_MarshalMsg]; sk_unfold
  cases opts <;> cases hh : EntryList.marshal es <;> sk_fin

theorem Forward_EncodeMsg_is_model (m : ForwardSrc) (pre : Bytes) :
    runEnc ForwardSrc.get Forward_EncodeMsg m pre = appended pre (Forward.marshal m.tag m.entries m.options) := by
  rcases m with ⟨tag, es, opts⟩
  simp only [Forward_EncodeMsg]; sk_unfold
  cases opts <;> cases hh : EntryList.marshal es <;> sk_fin

theorem Packed_MarshalMsg_is_model (m : Packed) (pre : Bytes) :
    runEnc PackedSrc.get Packed_MarshalMsg m pre = appended pre (some (Packed.marshal m.tag m.stream m.options)) := by
  rcases m with ⟨tag, st, opts⟩
  simp only [Packed_MarshalMsg]; sk_unfold
  cases opts <;> sk_fin

theorem Packed_EncodeMsg_is_model (m : Packed) (pre : Bytes) :
    runEnc PackedSrc.get Packed_EncodeMsg m pre = appended pre (some (Packed.marshal m.tag m.stream m.options)) := by
  rcases m with ⟨tag, st, opts⟩
  simp only [Packed_EncodeMsg]; sk_unfold
  cases opts <;> sk_fin

/-! ### msgp-generated encoders of the entry and handshake types -/

theorem Entry_MarshalMsg_is_model (m : EntrySrc) (pre : Bytes) :
    runEnc EntrySrc.get Entry_MarshalMsg m pre = appended pre (Entry.marshal m.ts m.record) := by
  rcases m with ⟨ts, rec⟩; simp only [Entry_MarshalMsg]; sk_unfold; cases hh : GoVal.encode rec <;> sk_fin
theorem Entry_EncodeMsg_is_model (m : EntrySrc) (pre : Bytes) :
    runEnc EntrySrc.get Entry_EncodeMsg m pre = appended pre (Entry.marshal m.ts m.record) := by
  rcases m with ⟨ts, rec⟩; simp only [Entry_EncodeMsg]; sk_unfold; cases hh : GoVal.encode rec <;> sk_fin
theorem EntryExt_MarshalMsg_is_model (m : EntryExtSrc) (pre : Bytes) :
    runEnc EntryExtSrc.get EntryExt_MarshalMsg m pre = appended pre (EntryExt.marshal m.ts m.record) := by
  rcases m with ⟨ts, rec⟩; simp only [EntryExt_MarshalMsg]; sk_unfold; cases hh : GoVal.encode rec <;> sk_fin
theorem EntryExt_EncodeMsg_is_model (m : EntryExtSrc) (pre : Bytes) :
    runEnc EntryExtSrc.get EntryExt_EncodeMsg m pre = appended pre (EntryExt.marshal m.ts m.record) := by
  rcases m with ⟨ts, rec⟩; simp only [EntryExt_EncodeMsg]; sk_unfold; cases hh : GoVal.encode rec <;> sk_fin
theorem Ping_MarshalMsg_is_model (m : Ping) (pre : Bytes) :
    runEnc PingSrc.get Ping_MarshalMsg m pre = appended pre (some m.marshal) := by
  simp only [Ping_MarshalMsg]; sk_unfold; sk_fin
theorem Ping_EncodeMsg_is_model (m : Ping) (pre : Bytes) :
    runEnc PingSrc.get Ping_EncodeMsg m pre = appended pre (some m.marshal) := by
  simp only [Ping_EncodeMsg]; sk_unfold; sk_fin
theorem Pong_MarshalMsg_is_model (m : Pong) (pre : Bytes) :
    runEnc PongSrc.get Pong_MarshalMsg m pre = appended pre (some m.marshal) := by
  simp only [Pong_MarshalMsg]; sk_unfold; sk_fin
theorem Pong_EncodeMsg_is_model (m : Pong) (pre : Bytes) :
    runEnc PongSrc.get Pong_EncodeMsg m pre = appended pre (some m.marshal) := by
  simp only [Pong_EncodeMsg]; sk_unfold; sk_fin
theorem Ack_MarshalMsg_is_model (m : Ack) (pre : Bytes) :
    runEnc AckSrc.get Ack_MarshalMsg m pre = appended pre (some m.marshal) := by
  simp only [Ack_MarshalMsg]; sk_unfold; sk_fin
theorem Ack_EncodeMsg_is_model (m : Ack) (pre : Bytes) :
    runEnc AckSrc.get Ack_EncodeMsg m pre = appended pre (some m.marshal) := by
  simp only [Ack_EncodeMsg]; sk_unfold; sk_fin
theorem HeloOpts_MarshalMsg_is_model (m : HeloOpts) (pre : Bytes) :
    runEnc HeloOptsSrc.get HeloOpts_MarshalMsg m pre = appended pre (some m.marshal) := by
  simp only [HeloOpts_MarshalMsg]; sk_unfold; sk_fin
theorem HeloOpts_EncodeMsg_is_model (m : HeloOpts) (pre : Bytes) :
    runEnc HeloOptsSrc.get HeloOpts_EncodeMsg m pre = appended pre (some m.marshal) := by
  simp only [HeloOpts_EncodeMsg]; sk_unfold; sk_fin
theorem Helo_MarshalMsg_is_model (m : Helo) (pre : Bytes) :
    runEnc HeloSrc.get Helo_MarshalMsg m pre = appended pre (some m.marshal) := by
  rcases m with ⟨mt, opts⟩; simp only [Helo_MarshalMsg]; cases opts <;> sk_unfold <;> sk_fin
theorem Helo_EncodeMsg_is_model (m : Helo) (pre : Bytes) :
    runEnc HeloSrc.get Helo_EncodeMsg m pre = appended pre (some m.marshal) := by
  rcases m with ⟨mt, opts⟩; simp only [Helo_EncodeMsg]; cases opts <;> sk_unfold <;> sk_fin

/-! ### `MessageOptions` (all three fields `omitempty`): msgp counts the fields that will be written, remembers the ones left out in a
bit mask, writes the map header from the count and the fields the mask allows -/

theorem key_size : appendString kSize = [164, 115, 105, 122, 101] := by decide
theorem key_chunk : appendString kChunk = [165, 99, 104, 117, 110, 107] := by decide
theorem key_compressed : appendString kCompressed = [170, 99, 111, 109, 112, 114, 101, 115, 115, 101, 100] := by decide

/-- one `simp` call with the definitions and the default simp set: the `↓reduceIte` pre-procedure decides each test before the
branches are unfolded (unfolding first would copy the rest of the body into both branches of seven tests) -/
macro "sk_opts" : tactic => `(tactic|
  simp [runEnc, eexecs, eexec, OptionsSrc.get, Option.bind, Option.map, encPrim, isNilPtr, Option.isNone,
    appended, ERes.ofOption, Options.marshal, b2n, List.append_assoc, key_size, key_chunk, key_compressed])

theorem MessageOptions_MarshalMsg_is_model (o : Options) (pre : Bytes) :
    runEnc OptionsSrc.get MessageOptions_MarshalMsg o pre = appended pre (some o.marshal) := by
  rcases o with ⟨sz, ch, co⟩
  simp only [MessageOptions_MarshalMsg]
  cases sz <;> cases ch <;> cases co <;> sk_opts

theorem MessageOptions_EncodeMsg_is_model (o : Options) (pre : Bytes) :
    runEnc OptionsSrc.get MessageOptions_EncodeMsg o pre = appended pre (some o.marshal) := by
  rcases o with ⟨sz, ch, co⟩
  simp only [MessageOptions_EncodeMsg]
  cases sz <;> cases ch <;> cases co <;> sk_opts

/-! ### EntryList encoders -/

/-- the loop appends the entries' encodings one after another; the first entry that cannot be encoded ends the call with its error -/
theorem eloop_entries (es : List (Instant × GoVal)) (k : St → ERes) (s : St) (hs : s.err = false) :
    eloop [.raw [146], .put .eventTime .Timestamp .checked, .put .intf .Record .checked] es k s
      = match marshalEntries es with
        | some bs => k { s with out := s.out ++ bs }
        | none => .err := by
  induction es generalizing s with
  | nil => simp [eloop, marshalEntries]
  | cons e es ih =>
    rcases e with ⟨t, r⟩
    simp only [eloop, eexecs, eexec, EntryExtSrc.get, Option.bind, encPrim, marshalEntries, EntryExt.marshal]
    cases hr : GoVal.encode r with
    | none => simp
    | some rb =>
      simp only [Option.map]
      rw [ih _ (by simp)]
      cases marshalEntries es <;> simp [List.append_assoc, hs]

theorem EntryList_MarshalMsg_is_model (es : List (Instant × GoVal)) (pre : Bytes) :
    runLE EntryList_MarshalMsg es pre = appended pre (EntryList.marshal es) := by
  simp only [runLE, EntryList_MarshalMsg, eexecL, eexec]
  rw [eloop_entries _ _ _ rfl]
  simp only [EntryList.marshal, appended, ERes.ofOption]
  cases marshalEntries es <;> simp [List.append_assoc]

theorem EntryList_EncodeMsg_is_model (es : List (Instant × GoVal)) (pre : Bytes) :
    runLE EntryList_EncodeMsg es pre = appended pre (EntryList.marshal es) := by
  simp only [runLE, EntryList_EncodeMsg, eexecL, eexec]
  rw [eloop_entries _ _ _ rfl]
  simp only [EntryList.marshal, appended, ERes.ofOption]
  cases marshalEntries es <;> simp [List.append_assoc]

/-- not vacuous: an unknown statement, a nil options pointer handed to its encoder and a missing return are panics -/
example : runEnc MessageSrc.get [.unknown "x"] ⟨[], 0, .nil, none⟩ [] = .panic "statement not understood by the translator: x" := rfl
example : runEnc MessageSrc.get [.put .options .Options .checked, .ret] ⟨[], 0, .nil, none⟩ []
    = .panic "nil pointer dereference, or a field of another type" := rfl
example : runEnc MessageSrc.get [.raw [148]] ⟨[], 0, .nil, none⟩ [] = .panic "missing return" := rfl
/-- the Go variable `err` is state: an unchecked failing call is reported by the final return -/
example : runEnc ForwardSrc.get [.put .entryList .Entries .unchecked, .ret] ⟨[], [({ sec := 0, nsec := 0 }, .bad)], none⟩ [] = .err := by
  decide

end FV.Tie
