import FluentVerif.Tie.Codec
import FluentVerif.Tie.CodecEnc
import FluentVerif.Props.C01
import FluentVerif.Props.C02
import FluentVerif.Props.C10
import FluentVerif.Props.C13
import FluentVerif.Props.C18
/-! # The codec property theorems, restated for the regenerated bodies (`Message`, both paths)

`Tie/Codec.lean` and `Tie/CodecEnc.lean` prove that running the regenerated decoder and encoder bodies is `Message.unmarshal` /
`Message.marshal`.  Here C01, C02, C10, C13 and C18 are restated for `Message` with `Sk.run … Gen.Codec.Message_…` and
`Sk.runEnc … Gen.Codec.Message_MarshalMsg` in place of the model functions: what the source — as re-read on this run — does.  (The
other twelve types go the same way through their `…_is_model` theorems; `Message` is spelled out as the pattern.) -/
namespace FV.Tie
open FV FV.Sk FV.Gen.Codec

/-- the decoder body of the path: `UnmarshalMsg` for the slice path, `DecodeMsg` for the stream path -/
def Message_dec : Path → List Stmt
  | .bytes => Message_UnmarshalMsg
  | .stream => Message_DecodeMsg

theorem Message_dec_is_model (p : Path) (recv : Message) (b : Bytes) :
    run MessageF p (Message_dec p) recv b = Message.unmarshal p recv b := by
  cases p
  · exact Message_UnmarshalMsg_is_model recv b
  · exact Message_DecodeMsg_is_model recv b

/-- **C01 over the regenerated bodies**: what `MarshalMsg`'s body appends for a representable message, the decoder body of either
path reads back as exactly that message, into any receiver, leaving exactly what follows -/
theorem C01_Message_regenerated (p : Path) (recv : Message) (m : MessageSrc) (e x : Bytes)
    (htag : lenOK m.tag) (hts : inInt64 m.ts) (hrec : m.record.WF) (hopts : optPtrWF m.options)
    (he : runEnc MessageSrc.get Message_MarshalMsg m [] = .ok e) :
    run MessageF p (Message_dec p) recv (e ++ x)
      = .ok { tag := m.tag, ts := m.ts, record := m.record.toObj, options := m.options } x := by
  rw [Message_dec_is_model]
  rw [Message_MarshalMsg_is_model] at he
  have he' : Message.marshal m.tag m.ts m.record m.options = some e := by
    cases hm : Message.marshal m.tag m.ts m.record m.options with
    | none => simp [appended, ERes.ofOption, hm] at he
    | some e' => simp [appended, ERes.ofOption, hm] at he; simp [he]
  exact C01_Message p recv m.tag m.ts m.record m.options e x htag hts hrec hopts he'

/-- **C13**: a successful run of the decoder body consumes exactly one msgpack value -/
theorem C13_Message_regenerated (p : Path) (recv : Message) (b : Bytes) (v r) :
    run MessageF p (Message_dec p) recv b = .ok v r → Reads1 b r := by
  rw [Message_dec_is_model]; exact C13_Message p recv b v r

/-- **C18**: the result does not depend on what the receiver held -/
theorem C18_Message_regenerated (p : Path) (recv : Message) (b : Bytes) :
    run MessageF p (Message_dec p) recv b = run MessageF p (Message_dec p) {} b := by
  rw [Message_dec_is_model, Message_dec_is_model]; exact C18_Message p recv b

/-- **C10**: no input makes the decoder body panic (and the interpreter's own panics — an unknown statement, a field of another type, a
missing return — are excluded with it) -/
theorem C10_Message_regenerated (p : Path) (recv : Message) (b : Bytes) : (run MessageF p (Message_dec p) recv b).NoPanic := by
  rw [Message_dec_is_model]; exact C10_noPanic_Message p recv b

/-- the bytes a run of the regenerated encoder body appended to nothing are the model's encoding -/
theorem Message_enc_ok (m : MessageSrc) (e : Bytes) (he : runEnc MessageSrc.get Message_MarshalMsg m [] = .ok e) :
    Message.marshal m.tag m.ts m.record m.options = some e := by
  rw [Message_MarshalMsg_is_model] at he
  cases hm : Message.marshal m.tag m.ts m.record m.options with
  | none => simp [appended, ERes.ofOption, hm] at he
  | some e' => simp [appended, ERes.ofOption, hm] at he; simp [he]

/-- **C02 over the regenerated `MarshalMsg` body**: what it emits for a representable message with a map record is exactly one msgpack
value that satisfies the Forward v1 grammar for Message mode -/
theorem C02_Message_regenerated (tag : Bytes) (ts : Int) (kvs : GoKVs) (opts : Option Options) (e : Bytes)
    (htag : lenOK tag) (hts : inInt64 ts) (hrec : (GoVal.map kvs).WF) (hopts : optPtrWF opts)
    (he : runEnc MessageSrc.get Message_MarshalMsg ⟨tag, ts, .map kvs, opts⟩ [] = .ok e) :
    ∃ o, parse e = some (o, []) ∧ Spec.isMessage o = true :=
  C02_Message tag ts kvs opts e htag hts hrec hopts (Message_enc_ok ⟨tag, ts, .map kvs, opts⟩ e he)

end FV.Tie
