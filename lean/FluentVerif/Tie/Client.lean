import FluentVerif.Gen.Client
import FluentVerif.Client.Helpers
/-! # The methods of the TCP client are what the source says now

`Gen/Client.lean` holds the bodies of `Client.Send`, `SendRaw`, `checkAck`, `writeAll`, `Connect`, `Disconnect`, `Reconnect`,
`connect`, `disconnect`, `TransportPhase` and `Handshake` as regenerated from /repo's working tree on every run
(`translator/client.go`).  Running them (`Sk.Cl.runC`) on any client state, under any configuration and any behaviour of the
peer, the factory and the network, gives exactly the result and the events of the sequential client model's `step`
(`Client/Tcp.lean`) — the definitions C04, C05, C06, C08, C09, C10, C14 are proved about. -/
namespace FV.Tie
open FV FV.Tcp FV.Sk.Cl FV.Gen.Client

variable (H : Bytes → Bytes)

/-- the methods the bodies call, computed from their own regenerated bodies -/
def callees (cfg : Cfg) (i : In) : Callees where
  checkAck := fun l => cexecs H cfg i {} Client_checkAck (fun l => (l.st, .panic)) l
  connect := fun l => cexecs H cfg i {} Client_connect (fun l => (l.st, .panic)) l
  disconnect := fun l => cexecs H cfg i {} Client_disconnect (fun l => (l.st, .panic)) l

/-- `writeAll` is one `Write`, and a short write without an error is made an error: what `doWrite`'s status other than `ok`
means to the callers (`writeAllThen`, `retWriteAll`) -/
theorem writeAll_shape : Gen.Client.writeAll = [.connWrite, .shortIsError, .retErrVar] := rfl

/-- `enc = none` in the model: `Chunk()` failed or returned the empty id (it is called, and its result looked at, only when acks are
required), or the encoder failed -/
def encOf (cfg : Cfg) (i : In) : Option Bytes := if cfg.requireAck && (i.chunkErr || i.chunk = []) then none else i.encoding

theorem Client_Send_is_model (cfg : Cfg) (i : In) (s : St) :
    runC H cfg i (callees H cfg i) Client_Send s = Tcp.send cfg s (encOf cfg i) i.chunk i.fault i.resp := by
  simp only [runC, Client_Send, callees, Client_checkAck, cexecs, cexec, Tcp.send, encOf]
  rcases hs : s.session with _ | ⟨id, tp⟩
  · simp
  · cases tp <;> cases hr : cfg.requireAck <;> cases hc : i.chunkErr <;> cases he : i.encoding <;> by_cases hk : i.chunk = [] <;> simp [hs, hk] <;>
      (cases hw : (doWrite _ i.fault).2 <;> simp [hw, St.emit, hs]) <;>
      (cases ht : cfg.timeout <;> simp [ht, St.emit, hs]) <;>
      (split <;> simp_all)

/-- the repaired `Send`: with acks required, a message whose chunk id is empty is refused before anything is encoded or written
(`C04_empty_id_witness` shows what would happen otherwise) -/
theorem Client_Send_empty_chunk_refused (cfg : Cfg) (i : In) (s : St) (hack : cfg.requireAck = true) (hk : i.chunk = []) :
    runC H cfg i (callees H cfg i) Client_Send s = (s, .err) := by
  rw [Client_Send_is_model, encOf, hack, hk]
  simp only [Bool.true_and, Bool.or_true, decide_true, if_true, Tcp.send]
  rcases hs : s.session with _ | ⟨id, tp⟩
  · rfl
  · cases tp <;> simp

theorem Client_SendRaw_is_model (cfg : Cfg) (i : In) (s : St) :
    runC H cfg i (callees H cfg i) Client_SendRaw s = Tcp.sendRaw s i.raw i.fault := by
  simp only [runC, Client_SendRaw, cexecs, cexec, Tcp.sendRaw]
  rcases hs : s.session with _ | ⟨id, tp⟩
  · simp
  · cases tp <;> simp [hs]

theorem Client_Connect_is_model (cfg : Cfg) (i : In) (s : St) :
    runC H cfg i (callees H cfg i) Client_Connect s = step H cfg s (.connect i.dialOk i.closeErr) := by
  simp only [runC, Client_Connect, callees, Client_connect, cexecs, cexec, step, Tcp.connect]
  cases hs : s.session <;> cases hd : i.dialOk <;> cases hk : cfg.sharedKey <;> simp [St.emit]

theorem Client_Disconnect_is_model (cfg : Cfg) (i : In) (s : St) :
    runC H cfg i (callees H cfg i) Client_Disconnect s = step H cfg s .disconnect := by
  rcases s with ⟨sess, conns, log⟩
  simp only [runC, Client_Disconnect, callees, Client_disconnect, cexecs, cexec, step, Tcp.disconnect]
  rcases sess with _ | ⟨id, tp⟩ <;> simp

theorem Client_Reconnect_is_model (cfg : Cfg) (i : In) (s : St) :
    runC H cfg i (callees H cfg i) Client_Reconnect s = step H cfg s (.reconnect i.dialOk i.closeErr) := by
  simp only [runC, Client_Reconnect, callees, Client_connect, Client_disconnect, cexecs, cexec, step, Tcp.connect, Tcp.disconnect]
  rcases hs : s.session with _ | ⟨id, tp⟩ <;> cases hd : i.dialOk <;> cases hk : cfg.sharedKey <;> simp [hs, St.emit]

theorem Client_TransportPhase_is_model (cfg : Cfg) (i : In) (s : St) :
    runC H cfg i (callees H cfg i) Client_TransportPhase s = step H cfg s .transportPhase := by
  rcases s with ⟨sess, conns, log⟩
  rcases sess with _ | ⟨id, tp⟩ <;> rfl

theorem Client_Handshake_is_model (cfg : Cfg) (i : In) (s : St) :
    runC H cfg i (callees H cfg i) Client_Handshake s = Tcp.handshake H cfg s i.helo i.salt i.pong i.fault := by
  simp only [runC, Client_Handshake, cexecs, cexec, Tcp.handshake]
  rcases hs : s.session with _ | ⟨id, tp⟩
  · simp
  · simp only [Option.isNone, Bool.false_eq_true, if_false]
    cases hh : Helo.unmarshal .stream {} i.helo with
    | err => simp
    | panic w => simp
    | ok h rest0 =>
      rcases h with ⟨mt, opts⟩
      cases opts with
      | none => simp
      | some ho =>
        simp only [Option.bind, Option.isNone, Bool.false_eq_true, if_false, hs]
        cases hw : (doWrite (pingMsg H cfg i.salt ho.nonce).marshal i.fault).2 <;> simp [hw, St.emit, hs] <;>
        (cases hp : Pong.unmarshal .stream {} (rest0 ++ i.pong) <;> simp [hp, pongAccepted, validatePong, hexDigest]) <;>
        (rename_i p _; cases ha : p.authResult <;> simp [ha]) <;> (split <;> simp_all)

/-! ### the `Send*` helpers: each builds its message with one constructor from its own arguments and hands it to `Send` -/

/-- the constructor the helper model (`Client/Helpers.lean`, `Helper.wire`) uses for each helper, and whether it can fail -/
def Helper.goShape : Helper → String × String × Bool
  | .message _ _ => ("SendMessage", "NewMessage", false)
  | .messageExt _ _ => ("SendMessageExt", "NewMessageExt", false)
  | .forward _ _ => ("SendForward", "NewForwardMessage", false)
  | .packed _ _ => ("SendPacked", "NewPackedForwardMessage", true)
  | .compressed _ _ => ("SendCompressed", "NewCompressedPackedForwardMessage", true)
  | .packedBytes _ _ => ("SendPackedFromBytes", "NewPackedForwardMessageFromBytes", false)
  | .compressedBytes _ _ => ("SendCompressedFromBytes", "NewCompressedPackedForwardMessageFromBytes", true)

/-- every helper of the model is, in the source as it is now, `msg[, err] := protocol.<that constructor>(<its arguments>)` followed
by `Send(msg)` (skipped when the constructor failed) — and the source has no other `Send*` helper shape -/
theorem helpers_match_model (h : Helper) : Helper.goShape h ∈ Gen.Client.clientHelpers := by
  cases h <;> simp only [Helper.goShape] <;> decide

theorem helpers_all_modelled : Gen.Client.clientHelpers.length = 7 := by decide

end FV.Tie
