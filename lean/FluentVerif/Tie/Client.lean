import FluentVerif.Gen.Client
/-! # The sending methods of the TCP client are what the source says now

`Gen/Client.lean` holds the bodies of `Client.Send`, `Client.SendRaw`, `Client.checkAck` and `writeAll` as regenerated from
/repo's working tree on every run (`translator/client.go`).  Running them (`Sk.Cl.runC`) on any client state, under any
configuration and any behaviour of the peer and the network, gives exactly the result and the events of the sequential client
model's `send` / `sendRaw` (`Client/Tcp.lean`) — the definitions C04, C06, C08, C09 are proved about. -/
namespace FV.Tie
open FV FV.Tcp FV.Sk.Cl FV.Gen.Client

/-- `checkAck`, as the regenerated body computes it -/
def checkAckSem (cfg : Cfg) (i : In) : L → R :=
  fun l => cexecs cfg i (fun l => (l.st, .panic)) Client_checkAck (fun l => (l.st, .panic)) l

/-- `writeAll` is one `Write`, and a short write without an error is made an error: what `doWrite`'s status other than `ok`
means to the callers (`writeAllThen`, `retWriteAll`) -/
theorem writeAll_shape : Gen.Client.writeAll = [.connWrite, .shortIsError, .retErrVar] := rfl

/-- `enc = none` in the model: `Chunk()` (called only when acks are required) or the encoder failed -/
def encOf (cfg : Cfg) (i : In) : Option Bytes := if cfg.requireAck && i.chunkErr then none else i.encoding

theorem Client_Send_is_model (cfg : Cfg) (i : In) (s : St) :
    runC cfg i (checkAckSem cfg i) Client_Send s = Tcp.send cfg s (encOf cfg i) i.chunk i.fault i.resp := by
  simp only [runC, Client_Send, checkAckSem, Client_checkAck, cexecs, cexec, Tcp.send, encOf]
  rcases hs : s.session with _ | ⟨id, tp⟩
  · simp
  · cases tp <;> cases hr : cfg.requireAck <;> cases hc : i.chunkErr <;> cases he : i.encoding <;> simp [hs] <;>
      (cases hw : (doWrite _ i.fault).2 <;> simp [hw, St.emit, hs]) <;>
      (cases ht : cfg.timeout <;> simp [ht, St.emit, hs]) <;>
      (split <;> simp_all)

theorem Client_SendRaw_is_model (cfg : Cfg) (i : In) (s : St) :
    runC cfg i (checkAckSem cfg i) Client_SendRaw s = Tcp.sendRaw s i.raw i.fault := by
  simp only [runC, Client_SendRaw, cexecs, cexec, Tcp.sendRaw]
  rcases hs : s.session with _ | ⟨id, tp⟩
  · simp
  · cases tp <;> simp [hs]

end FV.Tie
