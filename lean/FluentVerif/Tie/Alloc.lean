import FluentVerif.Gen.Consts
/-! Obligation over the regenerated list of allocation sites (C10, memory clause): the only `make` calls
of `fluent/protocol` whose size is neither a constant nor a `len(…)` of existing data are the two the
model counts (`EntryList.alloc`, `Proto/Alloc.lean`).  A new site sized from the input breaks this
obligation; the model's figures would no longer account for the package's requests. -/
namespace FV.Tie

theorem count_sized_makes : FV.Gen.Consts.protocolCountSizedMakes =
    ["transport_gen.go:EntryList.DecodeMsg:EntryList:zb0002",
     "transport_gen.go:EntryList.UnmarshalMsg:EntryList:zb0002"] := by decide

end FV.Tie
