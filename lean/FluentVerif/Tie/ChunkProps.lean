import FluentVerif.Tie.Chunk
import FluentVerif.Props.C10
import FluentVerif.Props.C11
/-! # C11 and C10 restated for the regenerated body of `GetChunk` -/
namespace FV.Tie
open FV FV.Spec FV.Sk.Ch FV.Gen.Chunk

/-- **C11 over the regenerated `GetChunk`**: on every well-formed message of a Forward mode (without a token in the ext32 format, on
which msgp's stream `Skip` fails — open finding C11-ext32-skip) running the regenerated body agrees with what full decoding finds -/
theorem C11_GetChunk_regenerated (b : Bytes) (o : Obj) (h : parse b = some (o, [])) (hw : WellFormedMode o)
    (hx : hasExt32 b = false) :
    Agrees (runG kChunk GetChunk b) (chunkOf o) := by
  rw [GetChunk_is_model]; exact C11_agree b o h hw hx

/-- **C10 over the regenerated `GetChunk`**: no input makes it panic -/
theorem C10_GetChunk_regenerated (b : Bytes) : (runG kChunk GetChunk b).NoPanic := by
  rw [GetChunk_is_model]; exact C10_noPanic_getChunk b

end FV.Tie
