import FluentVerif.Gen.WsClient
/-! # The methods of the websocket client are what the source says now

The regenerated bodies of `WSClient.connect`, `Connect`, `Disconnect`, `Reconnect`, `Send`, `SendRaw` (`Gen/WsClient.lean`), run on
any state of the sequential websocket client model under any outcome of the factory, the encoder and the frame write, give exactly
the result and the state of the model's `step` (`Client/Ws.lean`) — the definitions C09 and C17 are proved about. -/
namespace FV.Tie
open FV FV.WsC FV.Sk.WsCl FV.Gen.WsClient

/-- `connect()`, as the regenerated body computes it -/
def wsConnectSem (i : In) (s : St) : St × Bool :=
  (runW i (fun s => (s, false)) WSClient_connect s).getD (s, false)

theorem WSClient_connect_is_model (i : In) (s : St) : wsConnectSem i s = WsC.connect s i.dialOk i.newConnOk := by
  simp only [wsConnectSem, runW, WSClient_connect, wexecs, wexec, WsC.connect]
  cases hd : i.dialOk <;> cases hn : i.newConnOk <;> simp

def outOf (ok : Bool) : Out := if ok then .ok else .err

theorem WSClient_Connect_is_model (i : In) (s : St) :
    (runW i (wsConnectSem i) WSClient_Connect s).map (fun r => (r.1, outOf r.2)) = some (step s (.connect i.dialOk i.newConnOk)) := by
  simp only [runW, WSClient_Connect, wexecs, wexec, step, WSClient_connect_is_model, outOf]
  cases hs : s.session <;> simp [WsC.connect] <;> cases hd : i.dialOk <;> cases hn : i.newConnOk <;> simp

theorem WSClient_Disconnect_is_model (i : In) (s : St) :
    (runW i (wsConnectSem i) WSClient_Disconnect s).map (fun r => (r.1, outOf r.2)) = some (step s .disconnect) := by
  simp [runW, WSClient_Disconnect, wexecs, wexec, step, outOf]

theorem WSClient_Reconnect_is_model (i : In) (s : St) :
    (runW i (wsConnectSem i) WSClient_Reconnect s).map (fun r => (r.1, outOf r.2)) = some (step s (.reconnect i.dialOk i.newConnOk)) := by
  simp only [runW, WSClient_Reconnect, wexecs, wexec, step, WSClient_connect_is_model, outOf]
  cases hd : i.dialOk <;> cases hn : i.newConnOk <;> simp [WsC.connect]

theorem WSClient_Send_is_model (i : In) (s : St) :
    (runW i (wsConnectSem i) WSClient_Send s).map (fun r => (r.1, outOf r.2)) = some (step s (.send i.enc i.writeFails)) := by
  simp only [runW, WSClient_Send, wexecs, wexec, step, writeFrame, outOf]
  cases hst : s.sticky <;> simp
  cases hs : s.session with
  | none => cases i.enc <;> simp
  | some id =>
    cases ho : isOpen s id <;> cases he : i.enc <;> cases hw : i.writeFails <;> simp [ho, hst]

theorem WSClient_SendRaw_is_model (i : In) (s : St) :
    (runW i (wsConnectSem i) WSClient_SendRaw s).map (fun r => (r.1, outOf r.2)) = some (step s (.sendRaw i.raw i.writeFails)) := by
  simp only [runW, WSClient_SendRaw, wexecs, wexec, step, writeFrame, outOf]
  cases hst : s.sticky <;> simp
  cases hs : s.session with
  | none => simp
  | some id => cases ho : isOpen s id <;> cases hw : i.writeFails <;> simp [ho, hst]

end FV.Tie
