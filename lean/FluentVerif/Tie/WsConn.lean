import FluentVerif.Gen.WsConn
/-! # The bodies of `ws.connection`'s methods are the ones the closers / reader models were written against

`fluent/client/ws/connection.go` is concurrent by nature; its lock structure and accesses are translated into the graphs of
`Gen/Sync.lean` and checked by the certified lockset checker, and its behaviour is modelled by the interleaving models
`Ws/Closers.lean` and `Ws/Reader.lean` (atomic steps pinned to graph nodes by `close_gate_sites`, `listen_gate_sites`, …).  What the
graphs do not see is the sequential content *between* the lock operations (which frame is written, which state bit is set, how the
close deadline is computed).  Here every statement of every method, as re-read from the source on this run, is compared with the text
the models were written against — no meaning is given to the statements, so any textual change is reported (without a failing input
unless the wsconn / wsconc suites find one) until this file has been brought up to date by someone who has looked at the change. -/
namespace FV.Tie

def wsConnExpected : List (String × List String) := [
  ("NewConnection", [
    "wsc := &connection{ Conn: conn, done: make(chan struct{}), connState: ConnStateOpen, logger: opts.Logger, }",
    "if wsc.logger == nil { wsc.logger = &noopLogger{} }",
    "if opts.CloseHandler == nil { opts.CloseHandler = wsc.handleClose }",
    "wsc.SetCloseHandler(func(code int, text string) error { return opts.CloseHandler(wsc, code, text) })",
    "if opts.PingHandler != nil { wsc.SetPingHandler(func(appData string) error { return opts.PingHandler(wsc, appData) }) }",
    "if opts.PongHandler != nil { wsc.SetPongHandler(func(appData string) error { return opts.PongHandler(wsc, appData) }) }",
    "if opts.ReadHandler == nil { opts.ReadHandler = func(c Connection, _ int, _ []byte, err error) error { if err != nil { wsc.logger.Println(\"Default ReadHandler error:\", err) _ = c.Close() } return err } }",
    "wsc.SetReadHandler(opts.ReadHandler)",
    "if opts.CloseDeadline == 0 { opts.CloseDeadline = DefaultCloseDeadline }",
    "wsc.closeDeadline = opts.CloseDeadline",
    "if err := wsc.SetReadDeadline(opts.ReadDeadline); err != nil { return nil, err }",
    "if err := wsc.SetWriteDeadline(opts.WriteDeadline); err != nil { return nil, err }",
    "return wsc, nil"]),
  ("connection.Close", [
    "return wsc.CloseWithMsg(websocket.CloseNormalClosure, \"closing connection\")"]),
  ("connection.CloseWithMsg", [
    "wsc.closeLock.Lock()",
    "if wsc.Closed() { wsc.closeLock.Unlock() return errors.New(\"multiple close calls\") }",
    "wsc.unsetConnState(ConnStateOpen)",
    "wsc.closeLock.Unlock()",
    "var err error",
    "if !wsc.hasConnState(ConnStateError) { wsc.logger.Printf(\"sending close message: code %d; msg '%s'\", closeCode, msg) wsc.setConnState(ConnStateCloseSent) err = wsc.WriteMessage( websocket.CloseMessage, websocket.FormatCloseMessage( closeCode, msg, ), ) if err == nil && wsc.hasConnState(ConnStateListening) { wsc.logger.Println(\"awaiting peer response\") select { case <-time.After(wsc.closeDeadline): err = errors.New(\"close deadline expired\") case <-wsc.done: } } }",
    "wsc.setConnState(ConnStateClosed)",
    "wsc.logger.Println(\"closing the connection\")",
    "if cerr := wsc.Conn.Close(); cerr != nil { err = cerr }",
    "return err"]),
  ("connection.Closed", [
    "return !wsc.hasConnState(ConnStateOpen)"]),
  ("connection.ConnState", [
    "wsc.stateLock.RLock()",
    "defer wsc.stateLock.RUnlock()",
    "return wsc.connState"]),
  ("connection.Listen", [
    "wsc.listenLock.Lock()",
    "if wsc.hasConnState(ConnStateListening) { wsc.listenLock.Unlock() return errors.New(\"already listening on this connection\") }",
    "wsc.logger.Println(\"listening\")",
    "wsc.setConnState(ConnStateListening)",
    "wsc.listenLock.Unlock()",
    "nextMsg := make(chan connMsg)",
    "go wsc.runReadLoop(nextMsg)",
    "var err error",
    "for msg := range nextMsg { if rerr := wsc.readHandler(wsc, msg.mt, msg.message, msg.err); rerr != nil { if msg.err != nil { wsc.logger.Println(\"handler returned error: \", msg.err.Error()) } if !websocket.IsCloseError(rerr, websocket.CloseNormalClosure) { err = rerr } } }",
    "return err"]),
  ("connection.NextReader", [
    "panic(\"use ReadHandler instead\")"]),
  ("connection.ReadHandler", [
    "return wsc.readHandler"]),
  ("connection.ReadMessage", [
    "panic(\"use ReadHandler instead\")"]),
  ("connection.SetReadHandler", [
    "wsc.readHandler = rh"]),
  ("connection.Write", [
    "if err := wsc.WriteMessage(websocket.BinaryMessage, data); err != nil { return 0, err }",
    "return len(data), nil"]),
  ("connection.WriteMessage", [
    "wsc.writeLock.Lock()",
    "defer wsc.writeLock.Unlock()",
    "return wsc.Conn.WriteMessage(messageType, data)"]),
  ("connection.handleClose", [
    "wsc.logger.Printf(\"close received: code %d; msg '%s'\", code, msg)",
    "wsc.setConnState(ConnStateCloseReceived)",
    "return nil"]),
  ("connection.hasConnState", [
    "wsc.stateLock.RLock()",
    "defer wsc.stateLock.RUnlock()",
    "return wsc.connState&cs != 0"]),
  ("connection.runReadLoop", [
    "defer func() { wsc.logger.Println(\"exiting read loop\") close(nextMsg) wsc.unsetConnState(ConnStateListening) wsc.doneOnce.Do(func() { close(wsc.done) }) }()",
    "msg := connMsg{}",
    "for { msg.mt, msg.message, msg.err = wsc.Conn.ReadMessage() verifAt(\"read.returned\", wsc) if msg.err != nil { if wsc.hasConnState(ConnStateClosed) && errors.Is(msg.err, net.ErrClosed) { break } var err net.Error if errors.As(msg.err, &err) || errors.Is(msg.err, net.ErrClosed) || websocket.IsCloseError(msg.err, websocket.CloseAbnormalClosure) { wsc.setConnState(ConnStateError) } } verifAt(\"before.send\", wsc) nextMsg <- msg if msg.err != nil { break } }"]),
  ("connection.setConnState", [
    "wsc.stateLock.Lock()",
    "defer wsc.stateLock.Unlock()",
    "wsc.connState |= cs"]),
  ("connection.unsetConnState", [
    "wsc.stateLock.Lock()",
    "defer wsc.stateLock.Unlock()",
    "if wsc.connState&cs == 0 { return }",
    "wsc.connState ^= cs"])
]

theorem wsConn_bodies_pinned : FV.Gen.WsConn.bodies = wsConnExpected := rfl

end FV.Tie
