import FluentVerif.Tie.Sync
import FluentVerif.Conc.Sections
/-! # C08 / C14 / C16 / C17 — the schedule halves, over the regenerated control-flow graphs

`check_sound` and `critical_section_exclusive` (proved once, for all programs) are instantiated
with the graphs the translator regenerates from /repo on every run (`Gen.client`, `Gen.wsClient`,
`Gen.wsConn`) and the discharged obligations of `Tie/Sync.lean`.  Schedules are arbitrary lists of
(goroutine, choice) pairs: any number of goroutines, any interleaving, any number of calls each. -/
set_option maxRecDepth 100000
namespace FV.Tie
open FV.Lk FV.Gen

/-- **C14 (race freedom)**: under every schedule no two goroutines are simultaneously at conflicting
accesses to `session`, `TransportPhase` or the connection in any methods of `Client` -/
theorem C14_race_free (sched : List (Tid × Nat)) (t1 t2 : Tid) (hne : t1 ≠ t2) (pc1 pc2 : Nat) (v : Var) (w2 : Bool)
    (h1 : (run client init sched).pc t1 = some pc1) (h2 : (run client init sched).pc t2 = some pc2)
    (a1 : accessOf client pc1 = some (v, true)) (a2 : accessOf client pc2 = some (v, w2)) : False :=
  check_sound client client_lockset sched t1 t2 hne pc1 pc2 v w2 h1 h2 a1 a2

/-- every use of the connection by `Client` happens holding the send mutex or the session lock
exclusively (kernel-checked over the regenerated graph) -/
theorem C08_wire_under_mutex : allUnder client 2 1 0 = true := by decide

/-- **C08**: the uses of the connection by different sends never overlap: while one goroutine is
anywhere inside its send-mutex section (the write of the complete encoding and, with RequireAck,
the whole ack exchange), no other goroutine is inside one — under every schedule, for any number of
senders.  With C09 (one write of the complete encoding per send, inside that section) the wire is
the concatenation of the complete encodings in the order the sections were entered, and at most one
send is waiting for an ack at any time. -/
theorem C08_sections_exclusive (sched : List (Tid × Nat)) (t1 t2 : Tid) (hne : t1 ≠ t2) (pc1 pc2 : Nat)
    (ls1 ls2 : LockSet) (m : Mode)
    (h1 : (run client init sched).pc t1 = some pc1) (h2 : (run client init sched).pc t2 = some pc2)
    (a1 : client.annot[pc1]? = some ls1) (a2 : client.annot[pc2]? = some ls2)
    (e1 : (1, Mode.ex) ∈ ls1) (e2 : (1, m) ∈ ls2) : False :=
  critical_section_exclusive client client_lockset sched t1 t2 hne pc1 pc2 ls1 ls2 1 m h1 h2 a1 a2 e1 e2

/-- **C08, as a statement about the sequence of events**: take any schedule `A` after which goroutine `t`
is inside a send section (it holds the send mutex exclusively and, like every sender, the session lock
shared), and any continuation `B` during which `t` does not leave the section (it executes neither the
mutex unlock nor the session-lock release).  Then every use of the connection that happens during `B`, by
any of any number of goroutines, is `t`'s own: nothing is written or read on the wire between the first
and the last byte of `t`'s message and its ack exchange.  With C09 (the section writes the complete
encoding) the wire is a concatenation of whole messages. -/
theorem C08_send_section_uninterrupted (A B : List (Tid × Nat)) (t : Tid)
    (h1 : (run client init A).locks.exH 1 = some t) (h0 : t ∈ (run client init A).locks.shH 0)
    (hno : ∀ e ∈ log client (run client init A) B, e.1 = t →
      opAt client e.2 ≠ some (.unlock 1) ∧ opAt client e.2 ≠ some (.runlock 0))
    (e : Tid × Nat) (he : e ∈ log client (run client init A) B) (w : Bool)
    (ha : accessOf client e.2 = some (2, w)) : e.1 = t :=
  section_uninterrupted client client_lockset 2 1 0 C08_wire_under_mutex A B t h1 h0 hno e he w ha

/-- the hypotheses of `C08_send_section_uninterrupted` are met on the regenerated graph: the translator's witness
schedule brings goroutine 0 to a use of the connection while it holds the send mutex exclusively and the session
lock shared (re-derived from the source on every run, checked here by evaluation) -/
theorem C08_section_reachable :
    (run client init client_witness_sendSection).locks.exH 1 = some 0 ∧
    (run client init client_witness_sendSection).locks.shH 0 = [0] ∧
    (((run client init client_witness_sendSection).pc 0).bind (accessOf client)).map (·.1) = some 2 := by decide

/-- every frame-writing call of `ws.connection` holds `writeLock` exclusively -/
theorem C16_writes_under_writeLock : allUnder wsConn 5 5 5 = true := by decide

/-- **C16, as a statement about the sequence of events**: while goroutine `t` holds `writeLock` (from any
reachable state, until `t` itself unlocks it), every frame-writing call on the underlying connection that
happens — data frame or close frame, by any goroutine — is `t`'s: frames are written one at a time. -/
theorem C16_write_section_uninterrupted (A B : List (Tid × Nat)) (t : Tid)
    (h1 : (run wsConn init A).locks.exH 5 = some t)
    (hno : ∀ e ∈ log wsConn (run wsConn init A) B, e.1 = t → opAt wsConn e.2 ≠ some (.unlock 5))
    (e : Tid × Nat) (he : e ∈ log wsConn (run wsConn init A) B) (w : Bool)
    (ha : accessOf wsConn e.2 = some (5, w)) : e.1 = t :=
  section_uninterrupted1 wsConn wsConn_lockset 5 5 C16_writes_under_writeLock A B t h1 hno e he w ha

/-- the hypothesis of `C16_write_section_uninterrupted` is met on the regenerated graph -/
theorem C16_section_reachable :
    (run wsConn init wsConn_witness_writeSection).locks.exH 5 = some 0 ∧
    (((run wsConn init wsConn_witness_writeSection).pc 0).bind (accessOf wsConn)).map (·.1) = some 5 := by decide

/-- **C17 (race freedom)** for `WSClient`: `session` and `err` -/
theorem C17_race_free (sched : List (Tid × Nat)) (t1 t2 : Tid) (hne : t1 ≠ t2) (pc1 pc2 : Nat) (v : Var) (w2 : Bool)
    (h1 : (run wsClient init sched).pc t1 = some pc1) (h2 : (run wsClient init sched).pc t2 = some pc2)
    (a1 : accessOf wsClient pc1 = some (v, true)) (a2 : accessOf wsClient pc2 = some (v, w2)) : False :=
  check_sound wsClient wsClient_lockset sched t1 t2 hne pc1 pc2 v w2 h1 h2 a1 a2

/-- **C16 (one writer)**: no two goroutines are ever simultaneously inside `Conn.WriteMessage` —
data frames from `Write`/`WriteMessage` and the close frame alike — nor at conflicting accesses to
the connection state -/
theorem C16_one_writer (sched : List (Tid × Nat)) (t1 t2 : Tid) (hne : t1 ≠ t2) (pc1 pc2 : Nat) (v : Var) (w2 : Bool)
    (h1 : (run wsConn init sched).pc t1 = some pc1) (h2 : (run wsConn init sched).pc t2 = some pc2)
    (a1 : accessOf wsConn pc1 = some (v, true)) (a2 : accessOf wsConn pc2 = some (v, w2)) : False :=
  check_sound wsConn wsConn_lockset sched t1 t2 hne pc1 pc2 v w2 h1 h2 a1 a2

end FV.Tie
