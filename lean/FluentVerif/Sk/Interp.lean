import FluentVerif.Proto.Decode
/-! # Decoder skeletons: the statement language the translator emits, and what it means

`translator/codec.go` walks the bodies of the hand-written decoders of `fluent/protocol`
(`Message`, `MessageExt`, `ForwardMessage`, `PackedForwardMessage`; `UnmarshalMsg` and `DecodeMsg`)
statement by statement and emits each as a `List Stmt` in `Gen/Codec.lean` — on every run, from /repo's
working tree.  A Go statement it does not recognise becomes `Stmt.unknown`, which evaluates to a panic, so
nothing is dropped silently.  This file gives the statements their meaning (`run`): reads are the msgp
primitives of `Msgp/Read.lean`, a failing read returns its error, a field that is assigned is assigned in the
receiver.  `Tie/Codec.lean` then proves, for every receiver and every input, that running the regenerated
skeleton *is* the decoder model the property theorems are about — so those theorems speak about what the source
says now, not about a transcription made once. -/
namespace FV.Sk

/-- the msgp read primitives and nested decoders the decoders call (either path) -/
inductive Prim
  | arrayHeader   -- ReadArrayHeaderBytes / Reader.ReadArrayHeader
  | str           -- ReadStringBytes / ReadString
  | int64         -- ReadInt64Bytes / ReadInt64; also ReadIntBytes / ReadInt (`int` is 64 bits wide)
  | intf          -- ReadIntfBytes / ReadIntf
  | eventTime     -- ReadExtensionBytes(bits, &EventTime) / ReadExtension(&EventTime)
  | bin           -- ReadBytesBytes(bits, scratch) / ReadBytes(scratch)
  | nil           -- ReadNilBytes / ReadNil
  | entryList     -- (*EntryList).UnmarshalMsg / DecodeMsg
  | options       -- (*MessageOptions).UnmarshalMsg / DecodeMsg, on the object the field points to
  | bool          -- ReadBoolBytes / ReadBool
  | mapHeader     -- ReadMapHeaderBytes / ReadMapHeader
  | skip          -- msgp.Skip / Reader.Skip: one value of any shape
deriving DecidableEq, Repr

/-- destinations: the count variable `sz`, nothing (`none`: a value read and dropped) and the fields of the receiver types, by
their Go names (`OptionsNonce` = `Options.Nonce`: a field behind the Helo's options pointer; `SizeDeref` = `*z.Size`) -/
inductive Fld | sz | none | Tag | Timestamp | Record | Options | Entries | EventStream
  | MessageType | ClientHostname | SharedKeySalt | SharedKeyHexDigest | Username | Password | AuthResult | Reason | ServerHostname
  | Nonce | Auth | Keepalive | Ack | OptionsNonce | OptionsAuth | OptionsKeepalive
  | Size | SizeDeref | Chunk | Compressed
  | other (name : String)
deriving DecidableEq, Repr

inductive Cond
  | szNotIn (a b : Nat)   -- sz != a && sz != b
  | szEq (a : Nat)        -- sz == a
  | szNe (a : Nat)        -- sz != a   (msgp-generated tuple decoders: `if zb0001 != 2`)
  | nextNil               -- NextType(bits) == NilType; `t, _ := dc.NextType(); t == NilType`; msgp.IsNil(bts) / dc.IsNil()
  | nextNilOrErr          -- stream: `t, err := dc.NextType(); t == NilType || err != nil`
  | nextErr               -- `err != nil` for the error of that NextType call
  | fieldNil (f : Fld)    -- `recv.f == nil` for a pointer-typed field
deriving DecidableEq, Repr

/-- right-hand sides of plain assignments to a field -/
inductive Rhs | nil | newOptions | emptyEntryList | newInt | newHeloOpts | other (src : String)
deriving DecidableEq, Repr

inductive Stmt
  | read (dst : Fld) (p : Prim)       -- `dst, [bits,] err = <prim>; if err != nil { return …err… }`
  | set (field : Fld) (v : Rhs)       -- `recv.field = nil | &MessageOptions{} | EntryList{} | new(int) | new(HeloOpts)`
  | ite (c : Cond) (thn : List Stmt)  -- `if c { thn }`
  | iteElse (c : Cond) (thn els : List Stmt)  -- `if c { thn } else { els }`
  | mapLoop (cases : List Stmt)       -- `for sz > 0 { sz--; field = <map key>; switch field { case …: …; default: … } }`; `.case`s, then `.dflt`
  | case (key : List Nat) (body : List Stmt)  -- one `case "<key>":` of that switch
  | dflt (body : List Stmt)           -- its `default:`
  | retErr                            -- `return …, <an error value>`
  | retRead (p : Prim)                -- `return <prim>` (its rest and its error are the function's)
  | retOk                             -- `return bits, err` / `return nil` / `o = bts; return` with `err` known to be nil
  | unknown (src : String)            -- anything the translator does not recognise

/-- values that travel between a primitive and a field -/
inductive V
  | nat (n : Nat) | str (b : Bytes) | i64 (i : Int) | obj (o : Obj) | et (t : Instant) | unit
  | entries (l : List EntryExt) | opts (o : Option Options) | bool (b : Bool)
  | nilPtr                      -- the `nil` of a plain assignment
  | optInt (o : Option Int)     -- `*int`
  | hopts (o : Option HeloOpts) -- `*HeloOpts`

/-- the fields of a receiver type, by their Go names -/
structure Fields (σ : Type) where
  put : Fld → V → σ → Option σ
  get : Fld → σ → Option V

/-- the value a `set` statement assigns -/
def setVal : Rhs → Option V
  | .nil => some .nilPtr
  | .newOptions => some (.opts (some {}))
  | .emptyEntryList => some (.entries [])
  | .newInt => some (.optInt (some 0))
  | .newHeloOpts => some (.hopts (some {}))
  | .other _ => none

/-- is this pointer-typed field value nil? -/
def isNilV : V → Option Bool
  | .opts o => some o.isNone
  | .optInt o => some o.isNone
  | .hopts o => some o.isNone
  | _ => none

/-- `none`: the condition is not one about this kind of value (evaluates to a panic) -/
def evalCond (p : Path) (sz : Nat) (b : Bytes) (fieldVal : Fld → Option V) : Cond → Option Bool
  | .szNotIn x y => some (sz != x && sz != y)
  | .szEq x => some (sz == x)
  | .szNe x => some (sz != x)
  | .nextNil => some (isNil b)
  | .nextNilOrErr => some (isNil b || (p == .stream && b.isEmpty))
  | .nextErr => some (p == .stream && b.isEmpty)
  | .fieldNil f => (fieldVal f).bind isNilV

/-- one primitive on the rest of the input; `cur` is the current value of the destination field (the receiver
of a nested decoder call) -/
def runPrim (p : Path) (cur : Option V) (b : Bytes) : Prim → Res V
  | .arrayHeader => (readArrayHeader b).map .nat
  | .mapHeader => (readMapHeader b).map .nat
  | .str => (readString b).map .str
  | .int64 => (readInt64 b).map .i64
  | .intf => (readIntf p b).map .obj
  | .eventTime => (readEventTime b).map .et
  | .bin => (readBytes b).map .str
  | .nil => (readNil b).map fun _ => .unit
  | .bool => (readBool b).map .bool
  | .skip => (skipP p b).map fun _ => .unit
  | .entryList => (EntryList.unmarshal p b).map .entries
  | .options =>
    match cur with
    | some (.opts (some o)) => (Options.unmarshal p o b).map fun o' => .opts (some o')
    | _ => .panic "nil pointer dereference: Options"

/-- the key loop of a msgp-generated map decoder: `n` times, read a key (`ReadMapKeyZC` / `ReadMapKeyPtr`) and run the
`switch` on it; `step key k` runs the selected case and continues with `k` -/
def loopN {σ} (p : Path) (step : Bytes → (σ → Bytes → Res σ) → σ → Bytes → Res σ) :
    Nat → (σ → Bytes → Res σ) → σ → Bytes → Res σ
  | 0, k, s, b => k s b
  | n+1, k, s, b => (readMapKey p b).bind fun key b1 => step key (fun s' b' => loopN p step n k s' b') s b1

mutual
/-- continuation-passing evaluation: `k` is what follows the statement -/
def exec {σ} (F : Fields σ) (p : Path) : Stmt → (Nat → σ → Bytes → Res σ) → Nat → σ → Bytes → Res σ
  | .read dst pr, k, sz, s, b =>
    (runPrim p (F.get dst s) b pr).bind fun v b' =>
      match dst, v with
      | .sz, .nat n => k n s b'
      | .sz, _ => .panic "sz is not a count"
      | .none, _ => k sz s b'
      | dst, v =>
        match F.put dst v s with
        | some s' => k sz s' b'
        | none => .panic "no such field, or a value of another type"
  | .set f v, k, sz, s, b =>
    match (setVal v).bind fun x => F.put f x s with
    | some s' => k sz s' b
    | none => .panic "assignment not understood"
  | .ite c thn, k, sz, s, b =>
    match evalCond p sz b (fun f => F.get f s) c with
    | some c => if c then execs F p thn k sz s b else k sz s b
    | none => .panic "condition on a field that is not a pointer"
  | .iteElse c thn els, k, sz, s, b =>
    match evalCond p sz b (fun f => F.get f s) c with
    | some c => if c then execs F p thn k sz s b else execs F p els k sz s b
    | none => .panic "condition on a field that is not a pointer"
  | .mapLoop cases, k, sz, s, b =>
    -- the loop runs `sz` down to zero; the statements after it see the count variable at 0
    loopN p (fun key k' s' b' => execCases F p cases key (fun _ s'' b'' => k' s'' b'') 0 s' b') sz (fun s' b' => k 0 s' b') s b
  | .case _ _, _, _, _, _ => .panic "a case outside a switch"
  | .dflt _, _, _, _, _ => .panic "a default outside a switch"
  | .retErr, _, _, _, _ => .err
  | .retRead pr, _, _, s, b => (runPrim p none b pr).map fun _ => s
  | .retOk, _, _, s, b => .ok s b
  | .unknown src, _, _, _, _ => .panic ("statement not understood by the translator: " ++ src)
def execs {σ} (F : Fields σ) (p : Path) : List Stmt → (Nat → σ → Bytes → Res σ) → Nat → σ → Bytes → Res σ
  | [], k, sz, s, b => k sz s b
  | st :: rest, k, sz, s, b => exec F p st (execs F p rest k) sz s b
/-- `switch msgp.UnsafeString(field)`: the first case whose label equals the key, else `default` -/
def execCases {σ} (F : Fields σ) (p : Path) : List Stmt → Bytes → (Nat → σ → Bytes → Res σ) → Nat → σ → Bytes → Res σ
  | [], _, k, sz, s, b => k sz s b            -- no case matches and there is no default: the switch does nothing
  | .case key body :: rest, fld, k, sz, s, b =>
    if fld = key.map UInt8.ofNat then execs F p body k sz s b else execCases F p rest fld k sz s b
  | .dflt body :: _, _, k, sz, s, b => execs F p body k sz s b
  | _ :: _, _, _, _, _, _ => .panic "a switch with something other than cases"
end

/-- a decoder body, run on a receiver and an input (falling off the end is not a Go function) -/
def run {σ} (F : Fields σ) (p : Path) (body : List Stmt) (recv : σ) (b : Bytes) : Res σ :=
  execs F p body (fun _ _ _ => .panic "missing return") 0 recv b

/-! ### the four receiver types -/

def MessageF : Fields Message where
  put f v m := match f, v with
    | .Tag, .str t => some { m with tag := t }
    | .Timestamp, .i64 i => some { m with ts := i }
    | .Record, .obj o => some { m with record := o }
    | .Options, .opts o => some { m with options := o }
    | .Options, .nilPtr => some { m with options := none }
    | _, _ => none
  get f m := match f with
    | .Options => some (.opts m.options)
    | _ => none

def MessageExtF : Fields MessageExt where
  put f v m := match f, v with
    | .Tag, .str t => some { m with tag := t }
    | .Timestamp, .et i => some { m with ts := i }
    | .Record, .obj o => some { m with record := o }
    | .Options, .opts o => some { m with options := o }
    | .Options, .nilPtr => some { m with options := none }
    | _, _ => none
  get f m := match f with
    | .Options => some (.opts m.options)
    | _ => none

def ForwardF : Fields Forward where
  put f v m := match f, v with
    | .Tag, .str t => some { m with tag := t }
    | .Entries, .entries l => some { m with entries := l }
    | .Options, .opts o => some { m with options := o }
    | .Options, .nilPtr => some { m with options := none }
    | _, _ => none
  get f m := match f with
    | .Options => some (.opts m.options)
    | _ => none

def PackedF : Fields Packed where
  put f v m := match f, v with
    | .Tag, .str t => some { m with tag := t }
    | .EventStream, .str t => some { m with stream := t }
    | .Options, .opts o => some { m with options := o }
    | .Options, .nilPtr => some { m with options := none }
    | _, _ => none
  get f m := match f with
    | .Options => some (.opts m.options)
    | _ => none

/-! ### the msgp-generated tuple types -/

def EntryF : Fields Entry where
  put f v m := match f, v with
    | .Timestamp, .i64 i => some { m with ts := i }
    | .Record, .obj o => some { m with record := o }
    | _, _ => none
  get _ _ := none

def EntryExtF : Fields EntryExt where
  put f v m := match f, v with
    | .Timestamp, .et i => some { m with ts := i }
    | .Record, .obj o => some { m with record := o }
    | _, _ => none
  get _ _ := none

def PingF : Fields Ping where
  put f v m := match f, v with
    | .MessageType, .str s => some { m with mtype := s }
    | .ClientHostname, .str s => some { m with hostname := s }
    | .SharedKeySalt, .str s => some { m with salt := s }
    | .SharedKeyHexDigest, .str s => some { m with digest := s }
    | .Username, .str s => some { m with username := s }
    | .Password, .str s => some { m with password := s }
    | _, _ => none
  get _ _ := none

def PongF : Fields Pong where
  put f v m := match f, v with
    | .MessageType, .str s => some { m with mtype := s }
    | .AuthResult, .bool b => some { m with authResult := b }
    | .Reason, .str s => some { m with reason := s }
    | .ServerHostname, .str s => some { m with hostname := s }
    | .SharedKeyHexDigest, .str s => some { m with digest := s }
    | _, _ => none
  get _ _ := none

/-! ### the msgp-generated map types -/

def OptionsF : Fields Options where
  put f v o := match f, v with
    | .Size, .nilPtr => some { o with size := none }
    | .Size, .optInt i => some { o with size := i }
    | .SizeDeref, .i64 i => o.size.map fun _ => { o with size := some i }   -- `*z.Size = …` through a nil pointer is a panic
    | .Chunk, .str s => some { o with chunk := s }
    | .Compressed, .str s => some { o with compressed := s }
    | _, _ => none
  get f o := match f with
    | .Size => some (.optInt o.size)
    | _ => none

def AckF : Fields Ack where
  put f v m := match f, v with
    | .Ack, .str s => some { m with ack := s }
    | _, _ => none
  get _ _ := none

def HeloOptsF : Fields HeloOpts where
  put f v m := match f, v with
    | .Nonce, .str s => some { m with nonce := s }
    | .Auth, .str s => some { m with auth := s }
    | .Keepalive, .bool b => some { m with keepalive := b }
    | _, _ => none
  get _ _ := none

/-- `z.Options.Nonce = …` with `z.Options == nil` is a panic -/
def HeloF : Fields Helo where
  put f v m := match f, v with
    | .MessageType, .str s => some { m with mtype := s }
    | .Options, .nilPtr => some { m with options := none }
    | .Options, .hopts o => some { m with options := o }
    | .OptionsNonce, .str s => m.options.map fun o => { m with options := some { o with nonce := s } }
    | .OptionsAuth, .str s => m.options.map fun o => { m with options := some { o with auth := s } }
    | .OptionsKeepalive, .bool b => m.options.map fun o => { m with options := some { o with keepalive := b } }
    | _, _ => none
  get f m := match f with
    | .Options => some (.hopts m.options)
    | _ => none

/-! ### EntryList: a list of entries, decoded element by element (msgp-generated) -/

inductive LStmt
  | plain (s : Stmt)
  | resize                         -- `if cap(*z) >= int(sz) { *z = (*z)[:sz] } else { *z = make(EntryList, sz) }`
  | forRange (body : List Stmt)    -- `for i := range *z { body }`, the body working on the element `(*z)[i]`

def ListF : Fields (List EntryExt) where
  put _ _ _ := none
  get _ _ := none

/-- the receiver after the resize: `sz` elements — the old ones where there were any (within the capacity the real slice may even
show older ones), zero values otherwise; the loop overwrites both fields of every element, so it does not matter which -/
def resizeTo (n : Nat) (l : List EntryExt) : List EntryExt := l.take n ++ List.replicate (n - l.length) { ts := { sec := 0, nsec := 0 }, record := .nil }

/-- one pass of the loop body per element, in order; an error inside the body is the function's error -/
def mapEl (p : Path) (body : List Stmt) : List EntryExt → Bytes → Res (List EntryExt)
  | [], b => .ok [] b
  | e :: es, b =>
    (execs EntryExtF p body (fun _ e' b' => .ok e' b') 0 e b).bind fun e' b1 => (mapEl p body es b1).map (e' :: ·)

def execL (p : Path) : List LStmt → (Nat → List EntryExt → Bytes → Res (List EntryExt)) → Nat → List EntryExt → Bytes → Res (List EntryExt)
  | [], k, sz, l, b => k sz l b
  | .plain st :: rest, k, sz, l, b => exec ListF p st (execL p rest k) sz l b
  | .resize :: rest, k, sz, l, b => execL p rest k sz (resizeTo sz l) b
  | .forRange body :: rest, k, sz, l, b => (mapEl p body l b).bind fun l' b' => execL p rest k sz l' b'

def runL (p : Path) (body : List LStmt) (recv : List EntryExt) (b : Bytes) : Res (List EntryExt) :=
  execL p body (fun _ _ _ => .panic "missing return") 0 recv b

end FV.Sk

namespace FV
/-! rewriting lemmas that bring `run` of a concrete skeleton and a decoder model to the same chain of `bind`s -/
theorem Res.bind_map' {α β γ} (x : Res α) (f : α → β) (g : β → Bytes → Res γ) :
    (x.map f).bind g = x.bind fun a r => g (f a) r := by cases x <;> rfl
theorem Res.map_eq_bind {α β} (x : Res α) (f : α → β) : x.map f = x.bind fun a r => .ok (f a) r := by
  cases x <;> rfl
theorem Res.bind_bind' {α β γ} (x : Res α) (f : α → Bytes → Res β) (g : β → Bytes → Res γ) :
    (x.bind f).bind g = x.bind fun a r => (f a r).bind g := by cases x <;> rfl
theorem Res.ok_bind' {α β} (a : α) (r : Bytes) (f : α → Bytes → Res β) : (Res.ok a r).bind f = f a r := rfl
theorem Res.ite_bind {α β} (c : Prop) [Decidable c] (x y : Res α) (f : α → Bytes → Res β) :
    (if c then x else y).bind f = if c then x.bind f else y.bind f := by split <;> rfl
end FV
