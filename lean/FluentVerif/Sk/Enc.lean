import FluentVerif.Sk.Interp
import FluentVerif.Proto.Encode
/-! # Encoder skeletons: the statement language for `MarshalMsg` / `EncodeMsg` bodies, and what it means

`translator/codec.go` emits the bodies of `MarshalMsg` and `EncodeMsg` of `Message`, `MessageExt`,
`PackedForwardMessage` (msgp-generated, `*_gen.go`) and `ForwardMessage` (hand-written) as `List EStmt`
(`Gen/Codec.lean`).  `runEnc` appends to the bytes the caller handed in; an encoding failure (an unencodable record)
is `.err`; the Go variable `err` is part of the state, because `ForwardMessage.MarshalMsg` assigns it without a check and
returns it.  I/O failures of the `Writer` are not part of this language (they are the client model's business):
on the stream path every write must be followed by its check, or the translator emits `.unknown`. -/
namespace FV.Sk

inductive EPrim
  | str        -- AppendString / WriteString
  | int64      -- AppendInt64 / WriteInt64
  | intf       -- AppendIntf / WriteIntf           (fails on an unencodable value)
  | eventTime  -- AppendExtension(&EventTime) / WriteExtension
  | bin        -- AppendBytes / WriteBytes
  | entryList  -- EntryList.MarshalMsg / EncodeMsg (fails on an unencodable record)
  | options    -- (*MessageOptions).MarshalMsg / EncodeMsg on the object the field points to
  | bool       -- AppendBool / WriteBool
deriving DecidableEq, Repr

/-- how the error of a call is treated -/
inductive Chk
  | noerr      -- the call returns no error (slice-path appends)
  | checked    -- `…, err = call; if err != nil { return … err … }`
  | unchecked  -- `…, err = call` and nothing else: `err` keeps the outcome
deriving DecidableEq, Repr

inductive EStmt
  | require                                   -- `o = msgp.Require(b, z.Msgsize())`: capacity only
  | raw (bs : List Nat)                       -- `o = append(o, 0x94, …)` / `en.Append(0x94, …)`
  | put (p : EPrim) (f : Fld) (c : Chk)       -- append the field's encoding
  | putNil                                    -- AppendNil / WriteNil
  | hdrSz                                     -- AppendArrayHeader(bits, sz) / WriteArrayHeader(uint32(size))
  | setSz (n : Nat)                           -- `sz = n`
  | ifNil (f : Fld) (thn els : List EStmt)    -- `if recv.f == nil { thn } else { els }`
  | ifNotNil (f : Fld) (thn els : List EStmt) -- `if recv.f != nil { thn } else { els }`
  | ifSzEq (n : Nat) (thn : List EStmt)       -- `if sz == n { thn }`
  | decSz                                     -- `zb0001Len--`      (msgp's omitempty bookkeeping: the count of fields that will be written)
  | orMask (bit : Nat)                        -- `zb0001Mask |= bit` (… and which are left out); `bit` is a single bit (the translator checks)
  | rawOrSz (base : Nat)                      -- `append(o, 0x80|uint8(zb0001Len))`: the fixmap header; the translator checks `base = 0x80`
                                              --   and a count that starts ≤ 15 and only goes down, so that `|` is `+`
  | ifEmpty (f : Fld) (thn : List EStmt)      -- `if recv.f == "" { thn }`
  | ifMaskClear (bit : Nat) (thn : List EStmt) -- `if (zb0001Mask & bit) == 0 { thn }`
  | ret                                       -- `return` / `return bits, err` / `return nil` (with err known nil)
  | unknown (src : String)

/-- values a field hands to an encoder primitive -/
inductive EV
  | str (b : Bytes) | i64 (i : Int) | goval (g : GoVal) | et (t : Instant)
  | entries (l : List (Instant × GoVal)) | opts (o : Option Options) | bool (b : Bool) | heloOpts (o : Option HeloOpts)
  | optInt (o : Option Int)

inductive ERes | ok (out : Bytes) | err | panic (why : String)
deriving DecidableEq

def ERes.ofOption : Option Bytes → ERes
  | some b => .ok b
  | none => .err

/-- the encoding a primitive appends for a field value: `some none` = the call fails, `none` = not applicable
(a nil pointer receiver, or a value of another type) -/
def encPrim : EPrim → EV → Option (Option Bytes)
  | .str, .str s => some (some (appendString s))
  | .int64, .i64 i => some (some (appendInt64 i))
  | .intf, .goval g => some g.encode
  | .eventTime, .et t => some (some (appendEventTime t))
  | .bin, .str s => some (some (appendBytes s))
  | .entryList, .entries l => some (EntryList.marshal l)
  | .options, .opts (some o) => some (some o.marshal)
  | .bool, .bool v => some (some (appendBool v))
  | _, _ => none

/-- the pointer-typed field values -/
def isNilPtr : EV → Option Bool
  | .opts o => some o.isNone
  | .heloOpts o => some o.isNone
  | .optInt o => some o.isNone
  | _ => none

structure St where
  sz : Nat := 0
  out : Bytes
  err : Bool := false
  mask : List Nat := []   -- the single bits set so far

mutual
def eexec {σ} (get : Fld → σ → Option EV) (src : σ) : EStmt → (St → ERes) → St → ERes
  | .require, k, s => k s
  | .raw bs, k, s => k { s with out := s.out ++ bs.map UInt8.ofNat }
  | .put p f c, k, s =>
    match (get f src).bind (encPrim p) with
    | none => .panic "nil pointer dereference, or a field of another type"
    | some (some e) => k { s with out := s.out ++ e, err := if c = .noerr then s.err else false }
    | some none =>
      match c with
      | .checked => .err
      | .unchecked => k { s with err := true }
      | .noerr => .panic "a call without an error result failed"
  | .putNil, k, s => k { s with out := s.out ++ appendNil }
  | .hdrSz, k, s => k { s with out := s.out ++ appendArrayHeader s.sz }
  | .setSz n, k, s => k { s with sz := n }
  | .ifNil f thn els, k, s =>
    match (get f src).bind isNilPtr with
    | some true => eexecs get src thn k s
    | some false => eexecs get src els k s
    | none => .panic "nil test on a field that is not a pointer"
  | .ifNotNil f thn els, k, s =>
    match (get f src).bind isNilPtr with
    | some true => eexecs get src els k s
    | some false => eexecs get src thn k s
    | none => .panic "nil test on a field that is not a pointer"
  | .ifSzEq n thn, k, s => if s.sz = n then eexecs get src thn k s else k s
  | .decSz, k, s => k { s with sz := s.sz - 1 }
  | .orMask bit, k, s => k { s with mask := bit :: s.mask }
  | .rawOrSz base, k, s => k { s with out := s.out ++ [UInt8.ofNat (base + s.sz)] }
  | .ifEmpty f thn, k, s =>
    match get f src with
    | some (.str v) => if v = [] then eexecs get src thn k s else k s
    | _ => .panic "emptiness test on a field that is not a string"
  | .ifMaskClear bit thn, k, s => if s.mask.contains bit then k s else eexecs get src thn k s
  | .ret, _, s => if s.err then .err else .ok s.out
  | .unknown w, _, _ => .panic ("statement not understood by the translator: " ++ w)
def eexecs {σ} (get : Fld → σ → Option EV) (src : σ) : List EStmt → (St → ERes) → St → ERes
  | [], k, s => k s
  | st :: rest, k, s => eexec get src st (eexecs get src rest k) s
end

/-- an encoder body, run on a message and the bytes the caller handed in -/
def runEnc {σ} (get : Fld → σ → Option EV) (body : List EStmt) (src : σ) (pre : Bytes) : ERes :=
  eexecs get src body (fun _ => .panic "missing return") { out := pre }

/-! ### the four message types as their encoders see them -/

structure MessageSrc where
  tag : Bytes
  ts : Int
  record : GoVal
  options : Option Options

structure MessageExtSrc where
  tag : Bytes
  ts : Instant
  record : GoVal
  options : Option Options

structure ForwardSrc where
  tag : Bytes
  entries : List (Instant × GoVal)
  options : Option Options

def MessageSrc.get : Fld → MessageSrc → Option EV
  | .Tag, m => some (.str m.tag)
  | .Timestamp, m => some (.i64 m.ts)
  | .Record, m => some (.goval m.record)
  | .Options, m => some (.opts m.options)
  | _, _ => none

def MessageExtSrc.get : Fld → MessageExtSrc → Option EV
  | .Tag, m => some (.str m.tag)
  | .Timestamp, m => some (.et m.ts)
  | .Record, m => some (.goval m.record)
  | .Options, m => some (.opts m.options)
  | _, _ => none

def ForwardSrc.get : Fld → ForwardSrc → Option EV
  | .Tag, m => some (.str m.tag)
  | .Entries, m => some (.entries m.entries)
  | .Options, m => some (.opts m.options)
  | _, _ => none

def PackedSrc.get : Fld → Packed → Option EV
  | .Tag, m => some (.str m.tag)
  | .EventStream, m => some (.str m.stream)
  | .Options, m => some (.opts m.options)
  | _, _ => none

/-! ### the msgp-generated types -/

structure EntrySrc where
  ts : Int
  record : GoVal

structure EntryExtSrc where
  ts : Instant
  record : GoVal

def EntrySrc.get : Fld → EntrySrc → Option EV
  | .Timestamp, m => some (.i64 m.ts)
  | .Record, m => some (.goval m.record)
  | _, _ => none

def EntryExtSrc.get : Fld → EntryExtSrc → Option EV
  | .Timestamp, m => some (.et m.ts)
  | .Record, m => some (.goval m.record)
  | _, _ => none

def PingSrc.get : Fld → Ping → Option EV
  | .MessageType, m => some (.str m.mtype)
  | .ClientHostname, m => some (.str m.hostname)
  | .SharedKeySalt, m => some (.str m.salt)
  | .SharedKeyHexDigest, m => some (.str m.digest)
  | .Username, m => some (.str m.username)
  | .Password, m => some (.str m.password)
  | _, _ => none

def PongSrc.get : Fld → Pong → Option EV
  | .MessageType, m => some (.str m.mtype)
  | .AuthResult, m => some (.bool m.authResult)
  | .Reason, m => some (.str m.reason)
  | .ServerHostname, m => some (.str m.hostname)
  | .SharedKeyHexDigest, m => some (.str m.digest)
  | _, _ => none

def AckSrc.get : Fld → Ack → Option EV
  | .Ack, m => some (.str m.ack)
  | _, _ => none

def HeloOptsSrc.get : Fld → HeloOpts → Option EV
  | .Nonce, m => some (.str m.nonce)
  | .Auth, m => some (.str m.auth)
  | .Keepalive, m => some (.bool m.keepalive)
  | _, _ => none

def OptionsSrc.get : Fld → Options → Option EV
  | .Size, o => some (.optInt o.size)
  | .SizeDeref, o => o.size.map .i64      -- `*z.Size` with `z.Size == nil` is not a value
  | .Chunk, o => some (.str o.chunk)
  | .Compressed, o => some (.str o.compressed)
  | _, _ => none

/-- `z.Options.Nonce` … behind a nil pointer are not values (Go would dereference nil) -/
def HeloSrc.get : Fld → Helo → Option EV
  | .MessageType, m => some (.str m.mtype)
  | .Options, m => some (.heloOpts m.options)
  | .OptionsNonce, m => m.options.map fun o => .str o.nonce
  | .OptionsAuth, m => m.options.map fun o => .str o.auth
  | .OptionsKeepalive, m => m.options.map fun o => .bool o.keepalive
  | _, _ => none

/-! ### EntryList encoders: header from the length, one pass of the body per element -/

inductive LEStmt
  | plain (s : EStmt)
  | hdrLen                          -- AppendArrayHeader(o, uint32(len(z))) / WriteArrayHeader(uint32(len(z)))
  | forRange (body : List EStmt)    -- `for i := range z { body }`, the body working on `z[i]`

def eloop (body : List EStmt) : List (Instant × GoVal) → (St → ERes) → St → ERes
  | [], k, s => k s
  | e :: es, k, s => eexecs EntryExtSrc.get ⟨e.1, e.2⟩ body (eloop body es k) s

def eexecL (src : List (Instant × GoVal)) : List LEStmt → (St → ERes) → St → ERes
  | [], k, s => k s
  | .plain st :: rest, k, s => eexec (fun _ (_ : List (Instant × GoVal)) => none) src st (eexecL src rest k) s
  | .hdrLen :: rest, k, s => eexecL src rest k { s with out := s.out ++ appendArrayHeader src.length }
  | .forRange body :: rest, k, s => eloop body src (eexecL src rest k) s

def runLE (body : List LEStmt) (src : List (Instant × GoVal)) (pre : Bytes) : ERes :=
  eexecL src body (fun _ => .panic "missing return") { out := pre }

end FV.Sk
