import FluentVerif.Client.Tcp
import FluentVerif.Proto.ChunkID
/-! # The handshake helpers of `fluent/protocol/handshake.go`, `makeChunkID` and the four `Chunk()` methods, as the translator emits them

Every statement is recognised by its exact source text (`translator/handshake.go`; anything else `.unknown`).  Small evaluators give
the token sequences their meaning; `none` is "not a run" (an unknown statement, a value used before it exists, no return).  `H` is the
hex SHA-512 digest of the bytes written to the hash, uninterpreted as everywhere else. -/
namespace FV.Sk.Hs
open FV FV.Tcp

inductive HStmt
  | newHash | writeSalt | writeHostname | checkErr | writeNonce | writeKey | sum | makeHex | hexEncode | toString | retDigest   -- computeHexDigest
  | computeExpected | checkErr1 | ifMismatchErr | retNil                                                                          -- validateDigest
  | retValidatePing | retValidatePong
  | digestForPing | buildPing | ifCreds | retMsgErr | retMakePing | retMakePingAuth                                               -- makePing …
  | ifNilArgsErr | ifNilOptionsErr | digestForPong | buildPong                                                                    -- NewPong
  | newUUID | retBase64                                                                                                            -- makeChunkID
  | ifNoOptionsNew | ifChunkSetRet | makeChunkID | storeChunk | retChunkErr                                                        -- Chunk()
  | unknown (src : String)
deriving DecidableEq, Repr

/-! ### `computeHexDigest(salt, hostname, nonce, sharedKey)`: what is written to the hash, in order, then summed and hex-encoded -/
structure HD where
  written : Option Bytes := none
  summed : Bool := false
  hexed : Bool := false

def runHD (H : Bytes → Bytes) (salt hostname nonce key : Bytes) : List HStmt → HD → Option Bytes
  | .newHash :: r, s => runHD H salt hostname nonce key r { s with written := some [] }
  | .writeSalt :: r, s => s.written.bind fun w => runHD H salt hostname nonce key r { s with written := some (w ++ salt) }
  | .writeHostname :: r, s => s.written.bind fun w => runHD H salt hostname nonce key r { s with written := some (w ++ hostname) }
  | .checkErr :: r, s => runHD H salt hostname nonce key r s          -- a hash never refuses a write
  | .writeNonce :: r, s => s.written.bind fun w => runHD H salt hostname nonce key r { s with written := some (w ++ nonce) }
  | .writeKey :: r, s => s.written.bind fun w => runHD H salt hostname nonce key r { s with written := some (w ++ key) }
  | .sum :: r, s => if s.summed then none else runHD H salt hostname nonce key r { s with summed := true }
  | .makeHex :: r, s => runHD H salt hostname nonce key r s
  | .hexEncode :: r, s => if s.summed then runHD H salt hostname nonce key r { s with hexed := true } else none
  | .toString :: r, s => runHD H salt hostname nonce key r s
  | .retDigest :: _, s => if s.hexed then s.written.map H else none
  | _, _ => none

/-! ### `validateDigest(received, key, nonce, salt, hostname)`: `true` = the nil error; the digest helper is the one above (`digest`) -/
def runVD (digest : Bytes → Bytes → Bytes → Bytes → Bytes) (received key nonce salt hostname : Bytes) : List HStmt → Option Bytes → Option Bool
  | .computeExpected :: r, _ => runVD digest received key nonce salt hostname r (some (digest salt hostname nonce key))   -- computeHexDigest(salt, hostname, nonce, key)
  | .checkErr1 :: r, e => runVD digest received key nonce salt hostname r e
  | .ifMismatchErr :: r, e => e.bind fun x => if received ≠ x then some false else runVD digest received key nonce salt hostname r e
  | .retNil :: _, e => e.map fun _ => true
  | _, _ => none

/-! ### `ValidatePingDigest(p, key, nonce)` / `ValidatePongDigest(p, key, nonce, salt)`: which fields go where -/
def runVPing (validate : Bytes → Bytes → Bytes → Bytes → Bytes → Option Bool) (p : Ping) (key nonce : Bytes) : List HStmt → Option Bool
  | [.retValidatePing] => validate p.digest key nonce p.salt p.hostname
  | _ => none

def runVPong (validate : Bytes → Bytes → Bytes → Bytes → Bytes → Option Bool) (p : Pong) (key nonce salt : Bytes) : List HStmt → Option Bool
  | [.retValidatePong] => validate p.digest key nonce salt p.hostname
  | _ => none

/-! ### `makePing(hostname, sharedKey, salt, nonce, creds…)`, `NewPing`, `NewPingWithAuth` -/
def runMkPing (digest : Bytes → Bytes → Bytes → Bytes → Bytes) (hostname key salt nonce : Bytes) (creds : Option (Bytes × Bytes)) :
    List HStmt → Option Bytes → Option Ping → Option Ping
  | .digestForPing :: r, _, p => runMkPing digest hostname key salt nonce creds r (some (digest salt hostname nonce key)) p   -- computeHexDigest(salt, hostname, nonce, sharedKey)
  | .buildPing :: r, d, _ => d.bind fun dg =>
      runMkPing digest hostname key salt nonce creds r d (some { mtype := [0x50, 0x49, 0x4e, 0x47], hostname := hostname, salt := salt, digest := dg })
  | .ifCreds :: r, d, p => p.bind fun pg =>
      runMkPing digest hostname key salt nonce creds r d (some (match creds with | some (u, w) => { pg with username := u, password := w } | none => pg))
  | .retMsgErr :: _, _, p => p
  | _, _, _ => none

/-! ### `NewPong(authResult, reason, hostname, sharedKey, helo, ping)` with non-nil `helo` (whose options carry `nonce`) and `ping` -/
def runNewPong (digest : Bytes → Bytes → Bytes → Bytes → Bytes) (auth : Bool) (reason hostname key nonce : Bytes) (ping : Ping) :
    List HStmt → Option Bytes → Option Pong → Option Pong
  | .ifNilArgsErr :: r, d, p => runNewPong digest auth reason hostname key nonce ping r d p
  | .ifNilOptionsErr :: r, d, p => runNewPong digest auth reason hostname key nonce ping r d p
  | .digestForPong :: r, _, p => runNewPong digest auth reason hostname key nonce ping r (some (digest ping.salt hostname nonce key)) p  -- (ping.SharedKeySalt, hostname, helo.Options.Nonce, sharedKey)
  | .buildPong :: r, d, _ => d.bind fun dg =>
      runNewPong digest auth reason hostname key nonce ping r d
        (some { mtype := [0x50, 0x4f, 0x4e, 0x47], authResult := auth, reason := reason, hostname := hostname, digest := dg })
  | .retMsgErr :: _, _, p => p
  | _, _, _ => none

/-! ### `makeChunkID()` on a 16-byte draw, and `Chunk()` -/
def runMkChunk (draw : Bytes) : List HStmt → Option Bytes → Option Bytes
  | .newUUID :: r, _ => runMkChunk draw r (some (uuidMask draw))      -- uuid.New(): version 4, RFC 4122 variant
  | .checkErr :: r, u => runMkChunk draw r u
  | .retBase64 :: _, u => u.map b64enc
  | _, _ => none

structure CK where
  opts : Option Options
  chunk : Option Bytes := none

/-- the options after the call and the id returned; `mk` is `makeChunkID` as evaluated above -/
def runChunk (mk : Option Bytes) : List HStmt → CK → Option (Option Options × Bytes)
  | .ifNoOptionsNew :: r, s => runChunk mk r { s with opts := some (s.opts.getD {}) }
  | .ifChunkSetRet :: r, s =>
    match s.opts with
    | some o => if o.chunk ≠ [] then some (some o, o.chunk) else runChunk mk r s
    | none => none                                                    -- msg.Options.Chunk through a nil pointer
  | .makeChunkID :: r, s => mk.bind fun id => runChunk mk r { s with chunk := some id }
  | .storeChunk :: r, s =>
    match s.opts, s.chunk with
    | some o, some id => runChunk mk r { s with opts := some { o with chunk := id } }
    | _, _ => none
  | .retChunkErr :: _, s => s.chunk.map fun id => (s.opts, id)
  | _, _ => none

end FV.Sk.Hs
