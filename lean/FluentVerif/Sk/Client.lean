import FluentVerif.Client.Tcp
/-! # Client method skeletons: the bodies of `Client.Send`, `SendRaw`, `checkAck`, `writeAll` as the translator emits them

`translator/client.go` re-reads these bodies of `fluent/client/client.go` on every run and emits them as `List CStmt`
(`Gen/Client.lean`); a statement that is not one of the idioms below is `.unknown`.  `runC` gives them their meaning over the
state and events of the sequential client model (`Client/Tcp.lean`): the peer and the network are inputs (`In`), exactly as for
the model's `step`.  Lock operations are kept in the skeleton for the reader but mean nothing here: the lock discipline is the
business of the control-flow graphs (`Gen/Sync.lean`, `Conc/`). -/
namespace FV.Sk.Cl
open FV FV.Tcp

inductive Src | buf | arg            -- `buf.Bytes()` / the method's byte-slice parameter
deriving DecidableEq, Repr

inductive CStmt
  | lock (l : String) (shared : Bool)         -- c.<l>.Lock() / RLock()
  | deferUnlock (l : String) (shared : Bool)  -- defer c.<l>.Unlock() / RUnlock()
  | ifNoSession (thn : List CStmt)            -- if c.session == nil { … }
  | ifNotTransport (thn : List CStmt)         -- if !c.session.TransportPhase { … }
  | ifRequireAck (thn : List CStmt)           -- if c.RequireAck { … }
  | ifTimeout (thn : List CStmt)              -- if c.Timeout != 0 { … }
  | chunk                                     -- if chunk, err = e.Chunk(); err != nil { return err }
  | encode                                    -- var buf bytes.Buffer; if err = msgp.Encode(&buf, e); err != nil { return err }
  | writeAllThen (s : Src)                    -- if err = writeAll(c.session.Connection, …); err != nil || !c.RequireAck { return err }
  | retWriteAll (s : Src)                     -- return writeAll(c.session.Connection, …)
  | connWrite                                 -- n, err := conn.Write(b)
  | shortIsError                              -- if err == nil && n < len(b) { err = io.ErrShortWrite }
  | setReadDeadline                           -- if err := c.session.Connection.SetReadDeadline(time.Now().Add(c.Timeout)); err != nil { return err }
  | decodeAck                                 -- var ack protocol.AckMessage; if err := msgp.Decode(c.session.Connection, &ack); err != nil { return err }
  | ifAckMismatch (thn : List CStmt)          -- if ack.Ack != chunk { … }
  | retErrNew                                 -- return errors.New(…) / fmt.Errorf(…)
  | retErrVar                                 -- return err
  | retNil                                    -- return nil
  | retCheckAck                               -- return c.checkAck(chunk)
  | unknown (src : String)

/-- what the environment decides for one call -/
structure In where
  chunkErr : Bool := false        -- `e.Chunk()` fails
  encoding : Option Bytes := none -- what `msgp.Encode(&buf, e)` produces (`none`: the message cannot be encoded)
  chunk : Bytes := []             -- the id `Chunk()` returned
  raw : Bytes := []               -- the byte-slice argument (SendRaw)
  fault : WFault := .none         -- what the connection does with the next `Write`
  resp : Bytes := []              -- what the peer has sent by the time the ack is read

/-- the locals of a method run -/
structure L where
  st : St
  err : Bool := false             -- the Go variable `err`
  buf : Option Bytes := none      -- `buf`, once encoded
  ack : Option Ack := none        -- `ack`, once decoded
  wrote : Option (Bytes × WStatus) := none  -- `n`, as what the connection accepted, and its own verdict

abbrev R := St × Out

mutual
def cexec (cfg : Cfg) (i : In) (callee : L → R) : CStmt → (L → R) → L → R
  | .lock _ _, k, l => k l
  | .deferUnlock _ _, k, l => k l
  | .ifNoSession thn, k, l => if l.st.session.isNone then cexecs cfg i callee thn k l else k l
  | .ifNotTransport thn, k, l =>
    match l.st.session with
    | some (_, tp) => if !tp then cexecs cfg i callee thn k l else k l
    | none => (l.st, .panic)                                          -- c.session.TransportPhase through a nil session
  | .ifRequireAck thn, k, l => if cfg.requireAck then cexecs cfg i callee thn k l else k l
  | .ifTimeout thn, k, l => if cfg.timeout then cexecs cfg i callee thn k l else k l
  | .chunk, k, l => if i.chunkErr then (l.st, .err) else k l
  | .encode, k, l =>
    match i.encoding with
    | some e => k { l with buf := some e }
    | none => (l.st, .err)
  | .writeAllThen src, k, l =>
    match l.st.session, (match src with | .buf => l.buf | .arg => some i.raw) with
    | some (id, _), some d =>
      let (acc, wst) := doWrite d i.fault
      let l' := { l with st := l.st.emit (.write id acc wst) }
      if wst ≠ .ok then (l'.st, .err) else if !cfg.requireAck then (l'.st, .ok) else k l'
    | _, _ => (l.st, .panic)
  | .retWriteAll src, _, l =>
    match l.st.session, (match src with | .buf => l.buf | .arg => some i.raw) with
    | some (id, _), some d =>
      let (acc, wst) := doWrite d i.fault
      ((l.st.emit (.write id acc wst)), if wst = .ok then .ok else .err)
    | _, _ => (l.st, .panic)
  | .connWrite, k, l => k l         -- only in the body of writeAll, whose meaning is `doWrite` (see `writeAll_shape`)
  | .shortIsError, k, l => k l
  | .setReadDeadline, k, l =>
    match l.st.session with
    | some (id, _) => k { l with st := l.st.emit (.deadline id) }
    | none => (l.st, .panic)
  | .decodeAck, k, l =>
    match Ack.unmarshal .stream {} i.resp with
    | .ok a _ => k { l with ack := some a }
    | _ => (l.st, .err)
  | .ifAckMismatch thn, k, l =>
    match l.ack with
    | some a => if a.ack ≠ i.chunk then cexecs cfg i callee thn k l else k l
    | none => (l.st, .panic)
  | .retErrNew, _, l => (l.st, .err)
  | .retErrVar, _, l => (l.st, if l.err then .err else .ok)
  | .retNil, _, l => (l.st, .ok)
  | .retCheckAck, _, l => callee l
  | .unknown _, _, l => (l.st, .panic)
def cexecs (cfg : Cfg) (i : In) (callee : L → R) : List CStmt → (L → R) → L → R
  | [], k, l => k l
  | st :: rest, k, l => cexec cfg i callee st (cexecs cfg i callee rest k) l
end

/-- a method body on a client state; falling off the end is not a Go function -/
def runC (cfg : Cfg) (i : In) (callee : L → R) (body : List CStmt) (s : St) : R :=
  cexecs cfg i callee body (fun l => (l.st, .panic)) { st := s }

end FV.Sk.Cl
