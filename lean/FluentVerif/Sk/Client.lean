import FluentVerif.Client.Tcp
/-! # Client method skeletons: the bodies of `Client.Send`, `SendRaw`, `checkAck`, `writeAll` as the translator emits them

`translator/client.go` re-reads these bodies of `fluent/client/client.go` on every run and emits them as `List CStmt`
(`Gen/Client.lean`); a statement that is not one of the idioms below is `.unknown`.  `runC` gives them their meaning over the
state and events of the sequential client model (`Client/Tcp.lean`): the peer and the network are inputs (`In`), exactly as for
the model's `step`.  Lock operations are kept in the skeleton for the reader but mean nothing here: the lock discipline is the
business of the control-flow graphs (`Gen/Sync.lean`, `Conc/`). -/
namespace FV.Sk.Cl
open FV FV.Tcp

inductive Src | buf | arg            -- `buf.Bytes()` / the method's byte-slice parameter
deriving DecidableEq, Repr

inductive CStmt
  | lock (l : String) (shared : Bool)         -- c.<l>.Lock() / RLock()
  | deferUnlock (l : String) (shared : Bool)  -- defer c.<l>.Unlock() / RUnlock()
  | ifNoSession (thn : List CStmt)            -- if c.session == nil { … }
  | ifNotTransport (thn : List CStmt)         -- if !c.session.TransportPhase { … }
  | ifRequireAck (thn : List CStmt)           -- if c.RequireAck { … }
  | ifTimeout (thn : List CStmt)              -- if c.Timeout != 0 { … }
  | chunk                                     -- if chunk, err = e.Chunk(); err != nil { return err }
  | ifChunkEmpty (thn : List CStmt)           -- if chunk == "" { … }
  | encode                                    -- var buf bytes.Buffer; if err = msgp.Encode(&buf, e); err != nil { return err }
  | writeAllThen (s : Src)                    -- if err = writeAll(c.session.Connection, …); err != nil || !c.RequireAck { return err }
  | retWriteAll (s : Src)                     -- return writeAll(c.session.Connection, …)
  | connWrite                                 -- n, err := conn.Write(b)
  | shortIsError                              -- if err == nil && n < len(b) { err = io.ErrShortWrite }
  | setReadDeadline                           -- if err := c.session.Connection.SetReadDeadline(time.Now().Add(c.Timeout)); err != nil { return err }
  | decodeAck                                 -- var ack protocol.AckMessage; if err := msgp.Decode(c.session.Connection, &ack); err != nil { return err }
  | ifAckMismatch (thn : List CStmt)          -- if ack.Ack != chunk { … }
  | retErrNew                                 -- return errors.New(…) / fmt.Errorf(…)
  | retErrVar                                 -- return err
  | retNil                                    -- return nil
  | retCheckAck                               -- return c.checkAck(chunk)
  -- lifecycle
  | ifSession (thn : List CStmt)              -- if c.session != nil { … }
  | dial                                      -- conn, err := c.New(); if err != nil { return err }
  | newSession                                -- c.session = &Session{Connection: conn}
  | ifNoSharedKey (thn : List CStmt)          -- if c.AuthInfo.SharedKey == nil { … }
  | setTransport                              -- c.session.TransportPhase = true
  | closeConn                                 -- err = c.session.Connection.Close()
  | clearSession                              -- c.session = nil
  | retNamedErr                               -- `return` in a function whose result is the named `err`
  | retConnect                                -- return c.connect()
  | retDisconnect                             -- return c.disconnect()
  | disconnectIgnore                          -- _ = c.disconnect()
  | retTransportPhase                         -- return c.session != nil && c.session.TransportPhase
  -- handshake
  | readHelo                                  -- var helo protocol.Helo; r := msgp.NewReader(c.session.Connection); err := helo.DecodeMsg(r); if err != nil { return err }
  | ifHeloNoOptions (thn : List CStmt)        -- if helo.Options == nil { … }
  | drawSalt                                  -- salt := make([]byte, 16); _, err = rand.Read(salt); if err != nil { return err }
  | newPing                                   -- ping, err := protocol.NewPing(c.Hostname, c.AuthInfo.SharedKey, salt, helo.Options.Nonce); if err != nil { return err }
  | encodePing                                -- err = msgp.Encode(c.session.Connection, ping); if err != nil { return err }
  | readPong                                  -- var pong protocol.Pong; err = pong.DecodeMsg(r); if err != nil { return err }
  | ifNotAuthResult (thn : List CStmt)        -- if !pong.AuthResult { … }
  | validatePong                              -- if err := protocol.ValidatePongDigest(&pong, c.AuthInfo.SharedKey, helo.Options.Nonce, salt); err != nil { return err }
  | unknown (src : String)

/-- what the environment decides for one call -/
structure In where
  chunkErr : Bool := false        -- `e.Chunk()` fails
  encoding : Option Bytes := none -- what `msgp.Encode(&buf, e)` produces (`none`: the message cannot be encoded)
  chunk : Bytes := []             -- the id `Chunk()` returned
  raw : Bytes := []               -- the byte-slice argument (SendRaw)
  fault : WFault := .none         -- what the connection does with the next `Write`
  resp : Bytes := []              -- what the peer has sent by the time the ack is read
  dialOk : Bool := true           -- the factory's `New()` succeeds
  closeErr : Bool := false        -- … and hands out a connection whose `Close` will report an error
  helo : Bytes := []              -- the bytes the peer sends first
  salt : Bytes := []              -- what `rand.Read` yields
  pong : Bytes := []              -- the bytes the peer sends after the PING

/-- the locals of a method run -/
structure L where
  st : St
  err : Bool := false             -- the Go variable `err`
  buf : Option Bytes := none      -- `buf`, once encoded
  ack : Option Ack := none        -- `ack`, once decoded
  wrote : Option (Bytes × WStatus) := none  -- `n`, as what the connection accepted, and its own verdict
  conn : Option Nat := none       -- `conn`, the connection the factory handed out
  heloV : Option Helo := none     -- `helo`, once decoded
  rest : Bytes := []              -- what the reader `r` holds beyond the HELO
  ping : Option Ping := none
  pongV : Option Pong := none

abbrev R := St × Out

/-- the methods a body calls, as functions already computed from their own regenerated bodies -/
structure Callees where
  checkAck : L → R := fun l => (l.st, .panic)
  connect : L → R := fun l => (l.st, .panic)
  disconnect : L → R := fun l => (l.st, .panic)

mutual
def cexec (H : Bytes → Bytes) (cfg : Cfg) (i : In) (callee : Callees) : CStmt → (L → R) → L → R
  | .lock _ _, k, l => k l
  | .deferUnlock _ _, k, l => k l
  | .ifNoSession thn, k, l => if l.st.session.isNone then cexecs H cfg i callee thn k l else k l
  | .ifNotTransport thn, k, l =>
    match l.st.session with
    | some (_, tp) => if !tp then cexecs H cfg i callee thn k l else k l
    | none => (l.st, .panic)                                          -- c.session.TransportPhase through a nil session
  | .ifRequireAck thn, k, l => if cfg.requireAck then cexecs H cfg i callee thn k l else k l
  | .ifTimeout thn, k, l => if cfg.timeout then cexecs H cfg i callee thn k l else k l
  | .chunk, k, l => if i.chunkErr then (l.st, .err) else k l
  | .ifChunkEmpty thn, k, l => if i.chunk = [] then cexecs H cfg i callee thn k l else k l
  | .encode, k, l =>
    match i.encoding with
    | some e => k { l with buf := some e }
    | none => (l.st, .err)
  | .writeAllThen src, k, l =>
    match l.st.session, (match src with | .buf => l.buf | .arg => some i.raw) with
    | some (id, _), some d =>
      let (acc, wst) := doWrite d i.fault
      let l' := { l with st := l.st.emit (.write id acc wst) }
      if wst ≠ .ok then (l'.st, .err) else if !cfg.requireAck then (l'.st, .ok) else k l'
    | _, _ => (l.st, .panic)
  | .retWriteAll src, _, l =>
    match l.st.session, (match src with | .buf => l.buf | .arg => some i.raw) with
    | some (id, _), some d =>
      let (acc, wst) := doWrite d i.fault
      ((l.st.emit (.write id acc wst)), if wst = .ok then .ok else .err)
    | _, _ => (l.st, .panic)
  | .connWrite, k, l => k l         -- only in the body of writeAll, whose meaning is `doWrite` (see `writeAll_shape`)
  | .shortIsError, k, l => k l
  | .setReadDeadline, k, l =>
    match l.st.session with
    | some (id, _) => k { l with st := l.st.emit (.deadline id) }
    | none => (l.st, .panic)
  | .decodeAck, k, l =>
    match Ack.unmarshal .stream {} i.resp with
    | .ok a _ => k { l with ack := some a }
    | _ => (l.st, .err)
  | .ifAckMismatch thn, k, l =>
    match l.ack with
    | some a => if a.ack ≠ i.chunk then cexecs H cfg i callee thn k l else k l
    | none => (l.st, .panic)
  | .retErrNew, _, l => (l.st, .err)
  | .retErrVar, _, l => (l.st, if l.err then .err else .ok)
  | .retNil, _, l => (l.st, .ok)
  | .retCheckAck, _, l => callee.checkAck l
  | .ifSession thn, k, l => if l.st.session.isSome then cexecs H cfg i callee thn k l else k l
  | .dial, k, l =>
    if i.dialOk then
      let id := l.st.conns.length
      k { l with conn := some id, st := { l.st with conns := l.st.conns ++ [{ closeErr := i.closeErr }], log := l.st.log ++ [.dial id] } }
    else (l.st.emit .dialFail, .err)
  | .newSession, k, l =>
    match l.conn with
    | some id => k { l with st := { l.st with session := some (id, false) } }
    | none => (l.st, .panic)
  | .ifNoSharedKey thn, k, l => if cfg.sharedKey.isNone then cexecs H cfg i callee thn k l else k l
  | .setTransport, k, l =>
    match l.st.session with
    | some (id, _) => k { l with st := { l.st with session := some (id, true) } }
    | none => (l.st, .panic)
  | .closeConn, k, l =>
    match l.st.session with
    | some (id, _) =>
      let ce := (l.st.conns[id]?).map (·.closeErr) |>.getD false
      k { l with err := ce, st := { l.st with conns := l.st.conns.modify id (fun c => { c with closed := c.closed + 1 }),
                                               log := l.st.log ++ [.close id] } }
    | none => (l.st, .panic)
  | .clearSession, k, l => k { l with st := { l.st with session := none } }
  | .retNamedErr, _, l => (l.st, if l.err then .err else .ok)
  | .retConnect, _, l => callee.connect l
  | .retDisconnect, _, l => callee.disconnect l
  | .disconnectIgnore, k, l => k { l with st := (callee.disconnect { st := l.st }).1 }
  | .retTransportPhase, _, l => (l.st, .bool (match l.st.session with | some (_, tp) => tp | none => false))
  | .readHelo, k, l =>
    match Helo.unmarshal .stream {} i.helo with
    | .ok h rest0 => k { l with heloV := some h, rest := rest0 }
    | .panic _ => (l.st, .panic)
    | .err => (l.st, .err)
  | .ifHeloNoOptions thn, k, l =>
    match l.heloV with
    | some h => if h.options.isNone then cexecs H cfg i callee thn k l else k l
    | none => (l.st, .panic)
  | .drawSalt, k, l => k l
  | .newPing, k, l =>
    match l.heloV.bind (·.options) with
    | some ho => k { l with ping := some (pingMsg H cfg i.salt ho.nonce) }
    | none => (l.st, .panic)                                          -- helo.Options.Nonce through a nil pointer
  | .encodePing, k, l =>
    match l.st.session, l.ping with
    | some (id, _), some p =>
      let (acc, wst) := doWrite p.marshal i.fault
      let l' := { l with st := l.st.emit (.write id acc wst) }
      if wst ≠ .ok then (l'.st, .err) else k l'
    | _, _ => (l.st, .panic)
  | .readPong, k, l =>
    match Pong.unmarshal .stream {} (l.rest ++ i.pong) with
    | .ok p _ => k { l with pongV := some p }
    | _ => (l.st, .err)
  | .ifNotAuthResult thn, k, l =>
    match l.pongV with
    | some p => if !p.authResult then cexecs H cfg i callee thn k l else k l
    | none => (l.st, .panic)
  | .validatePong, k, l =>
    match l.pongV, l.heloV.bind (·.options) with
    | some p, some ho => if validatePong H p (cfg.sharedKey.getD []) ho.nonce i.salt then k l else (l.st, .err)
    | _, _ => (l.st, .panic)
  | .unknown _, _, l => (l.st, .panic)
def cexecs (H : Bytes → Bytes) (cfg : Cfg) (i : In) (callee : Callees) : List CStmt → (L → R) → L → R
  | [], k, l => k l
  | st :: rest, k, l => cexec H cfg i callee st (cexecs H cfg i callee rest k) l
end

/-- a method body on a client state; falling off the end is not a Go function -/
def runC (H : Bytes → Bytes) (cfg : Cfg) (i : In) (callee : Callees) (body : List CStmt) (s : St) : R :=
  cexecs H cfg i callee body (fun l => (l.st, .panic)) { st := s }

end FV.Sk.Cl
