import FluentVerif.Proto.Decode
import FluentVerif.Proto.Encode
import FluentVerif.Proto.Equal
/-! # The small hand-written functions of `fluent/protocol/transport.go`, as the translator emits them

`EventTime.MarshalBinaryTo`, `EventTime.UnmarshalBinary`, `EntryList.UnmarshalPacked`, `EntryList.MarshalPacked`: each statement is
recognised by its exact source text (`translator/transport.go`); anything else is `.unknown`.  Each function gets its own small
evaluator over these tokens; `none` is "not a run of this function" (an unknown statement, a variable used before it is set, no
return). -/
namespace FV.Sk.Tr
open FV

inductive TStmt
  | utc | putSeconds | putNanos | retNil                       -- MarshalBinaryTo
  | ifLenWrong | getSeconds | getNanos | setUnix               -- UnmarshalBinary
  | locals | truncate | whileEntries | retBitsErr              -- UnmarshalPacked
  | poolGet | reset | deferPut | forEncode | retCopy           -- MarshalPacked
  | ifLenDiffer | makeFirst | copyFirst | makeSecond | copySecond | initMatches | initUsed | matchLoops | retMatchesEqLen   -- Equal
  | unknown (src : String)
deriving DecidableEq, Repr

/-! ### `func (et *EventTime) MarshalBinaryTo(b []byte) error`: the eight bytes written into `b` -/
structure MB where
  utc : Option Instant := none
  hi : Option Bytes := none      -- b[0:4]
  lo : Option Bytes := none      -- b[4:8]

def runMB (t : Instant) : List TStmt → MB → Option Bytes
  | .utc :: r, s => runMB t r { s with utc := some t }                 -- the same instant, expressed in UTC
  | .putSeconds :: r, s => s.utc.bind fun u => runMB t r { s with hi := some (be 4 (u.sec % 4294967296).toNat) }   -- uint32(utc.Unix())
  | .putNanos :: r, s => s.utc.bind fun u => runMB t r { s with lo := some (be 4 (u.nsec % 4294967296)) }          -- uint32(utc.Nanosecond())
  | .retNil :: _, s => s.hi.bind fun h => s.lo.map fun l => h ++ l
  | _, _ => none

/-! ### `func (et *EventTime) UnmarshalBinary(timeBytes []byte) error`: the instant stored, `some none` for the error return -/
structure UB where
  secs : Option Nat := none
  nanos : Option Nat := none
  time : Option Instant := none

def runUB (p : Bytes) : List TStmt → UB → Option (Option Instant)
  | .ifLenWrong :: r, s => if p.length ≠ 8 then some none else runUB p r s       -- eventTimeLen = 8 (pinned: `Tie.const_etlen`)
  | .getSeconds :: r, s => runUB p r { s with secs := some (beVal (p.take 4)) }
  | .getNanos :: r, s => runUB p r { s with nanos := some (beVal (p.drop 4)) }
  | .setUnix :: r, s =>
    match s.secs, s.nanos with
    | some sec, some n => runUB p r { s with time := some { sec := (sec : Int) + (n / 1000000000 : Nat), nsec := n % 1000000000 } }  -- time.Unix normalises
    | _, _ => none
  | .retNil :: _, s => s.time.map some
  | _, _ => none

/-! ### `func (el *EntryList) UnmarshalPacked(bits []byte) ([]byte, error)` -/
/-- `for len(bits) > 0 { if bits, err = entry.UnmarshalMsg(bits); err != nil { break }; *el = append(*el, entry) }` — the one `entry`
variable is the receiver of every pass (the entry decoder assigns both of its fields) -/
def whileEntries : Nat → Bytes → List EntryExt → List EntryExt × Bool
  | 0, _, acc => (acc.reverse, false)
  | f+1, b, acc =>
    if b.isEmpty then (acc.reverse, true)
    else match EntryExt.unmarshal .bytes {} b with
      | .ok e r => whileEntries f r (e :: acc)
      | _ => (acc.reverse, false)

structure UP where
  list : Option (List EntryExt) := none
  ok : Bool := true

def runUP (b : Bytes) : List TStmt → UP → Option (List EntryExt × Bool)
  | .locals :: r, s => runUP b r s
  | .truncate :: r, s => runUP b r { s with list := some [] }
  | .whileEntries :: r, s =>
    match s.list with
    | some [] => let (l, ok) := whileEntries (b.length + 1) b []; runUP b r { list := some l, ok := ok }
    | _ => none
  | .retBitsErr :: _, s => s.list.map fun l => (l, s.ok)
  | _, _ => none

/-! ### `func (el EntryList) MarshalPacked() ([]byte, error)`: `some none` for the error return -/
structure MP where
  buf : Option Bytes := none     -- the pooled buffer's contents, once it has been reset
  got : Bool := false

def runMP (es : List (Instant × GoVal)) : List TStmt → MP → Option (Option Bytes)
  | .poolGet :: r, s => runMP es r { s with got := true }
  | .reset :: r, s => if s.got then runMP es r { s with buf := some [] } else none
  | .deferPut :: r, s => runMP es r s
  | .forEncode :: r, s =>
    match s.buf with
    | some pre =>
      match marshalEntries es with
      | some bs => runMP es r { s with buf := some (pre ++ bs) }
      | none => some none                                              -- return nil, err
    | none => none                                                     -- written into a buffer that was not reset: whatever it held goes out too
  | .retCopy :: _, s => s.buf.map some
  | _, _ => none

/-! ### `func (el EntryList) Equal(e2 EntryList) bool` — over entries abstracted to a type with decidable equality ("same instant and
deeply equal record", as in `Proto/Equal.lean`) -/
structure EQ (α : Type) where
  first : Option (List α) := none
  second : Option (List α) := none
  cnt : Option Nat := none          -- `matches`
  used : Option (List (α × Bool)) := none     -- the second list with its `used` marks

/-- `for _, ea := range first { for i, eb := range second { if used[i] { continue }; if <equal> { used[i] = true; matches++; break } } }`:
the inner loop marks the first unused equal element (`Equal.markFirst`), the outer loop counts (`Equal.countMatches`) -/
def runEQ {α : Type} [DecidableEq α] (l1 l2 : List α) : List TStmt → EQ α → Option Bool
  | .ifLenDiffer :: r, s => if l1.length ≠ l2.length then some false else runEQ l1 l2 r s
  | .makeFirst :: r, s => runEQ l1 l2 r s
  | .copyFirst :: r, s => runEQ l1 l2 r { s with first := some l1 }
  | .makeSecond :: r, s => runEQ l1 l2 r s
  | .copySecond :: r, s => runEQ l1 l2 r { s with second := some l2 }
  | .initMatches :: r, s => runEQ l1 l2 r { s with cnt := some 0 }
  | .initUsed :: r, s => s.second.bind fun l => runEQ l1 l2 r { s with used := some (l.map (·, false)) }
  | .matchLoops :: r, s =>
    match s.first, s.used, s.cnt with
    | some f, some u, some m => runEQ l1 l2 r { s with cnt := some (m + Equal.countMatches f u) }
    | _, _, _ => none
  | .retMatchesEqLen :: _, s => s.cnt.map fun m => m == l1.length
  | _, _ => none

end FV.Sk.Tr
