import FluentVerif.Client.Ws
/-! # WSClient method skeletons and what they mean

`translator/wsclient.go` re-reads the bodies of `WSClient.connect`, `Connect`, `Disconnect`, `Reconnect`, `Send`, `SendRaw`
(`fluent/client/ws_client.go`) on every run and emits them as sequences of idioms recognised by their exact source text
(`Gen/WsClient.lean`; anything else `.unknown`).  `runW` interprets them over the state of the sequential websocket client model
(`Client/Ws.lean`).  The listener goroutine `connect` starts (`goListen`) has no effect of its own here: when and how it ends is
the environment's step `listenerEnds` of the model; locks and verification hooks mean nothing sequentially. -/
namespace FV.Sk.WsCl
open FV FV.WsC

inductive Src | buf | arg
deriving DecidableEq, Repr

inductive WStmt
  | lock                       -- c.sessionLock.Lock(); defer c.sessionLock.Unlock()
  | ifSession (thn : List WStmt)        -- if c.session != nil { … }
  | retErrNew                  -- return errors.New(…)
  | retConnect                 -- return c.connect()
  | dial                       -- conn, err := c.ConnectionFactory.New(); if err != nil { return err }
  | newConnection              -- connection, err := ws.NewConnection(conn, c.ConnectionOptions); if err != nil { return err }
  | newSession                 -- session := c.ConnectionFactory.NewSession(connection); c.session = session
  | goListen                   -- go func() { …; if err := session.Connection.Listen(); err != nil { c.setErr(err) }; … }()
  | retNil
  | closeIfOpen (assign : Bool) -- if c.session != nil && !c.session.Connection.Closed() { err|_ = c.session.Connection.Close() }
  | clearSession               -- c.session = nil
  | retNamedErr                -- return   (named result err)
  | connectElseClear           -- if err = c.connect(); err != nil { c.session = nil }
  | setErrVar                  -- c.setErr(err)
  | locals                     -- var ( err error; rawMessageData bytes.Buffer )
  | retIfSticky                -- if err = c.getErr(); err != nil { return err }
  | copySession                -- session := c.Session()
  | ifNoLiveSession (thn : List WStmt)  -- if session == nil || session.Connection.Closed() { … }
  | encode                     -- err = msgp.Encode(&rawMessageData, e); if err != nil { return err }; bytesData := rawMessageData.Bytes()
  | hook                       -- verifAt(…)
  | write (s : Src)            -- _, err = session.Connection.Write(…)
  | retErrVar                  -- return err
  | unknown (src : String)

structure In where
  dialOk : Bool := true
  newConnOk : Bool := true
  enc : Option Bytes := none
  raw : Bytes := []
  writeFails : Bool := false

structure W where
  st : St
  err : Bool := false
  sess : Option Nat := none      -- the local copy `session`
  dialed : Bool := false
  fresh : Option Nat := none     -- the connection `ws.NewConnection` returned
  buf : Option Bytes := none

/-- results: `none` = a Go panic / an impossible path -/
abbrev R := Option (St × Bool)     -- state, and whether the method returned a nil error

mutual
def wexec (i : In) (connectSem : St → St × Bool) : WStmt → (W → R) → W → R
  | .lock, k, w => k w
  | .hook, k, w => k w
  | .locals, k, w => k w
  | .goListen, k, w => k w
  | .ifSession thn, k, w => if w.st.session.isSome then wexecs i connectSem thn k w else k w
  | .retErrNew, _, w => some (w.st, false)
  | .retNil, _, w => some (w.st, true)
  | .retErrVar, _, w => some (w.st, !w.err)
  | .retNamedErr, _, w => some (w.st, !w.err)
  | .retConnect, _, w => some (connectSem w.st)
  | .dial, k, w => if i.dialOk then k { w with dialed := true } else some (w.st, false)
  | .newConnection, k, w =>
    if !w.dialed then none
    else if i.newConnOk then k { w with fresh := some w.st.conns.length, st := { w.st with conns := w.st.conns ++ [{}] } }
    else some ({ w.st with conns := w.st.conns ++ [{ usable := false }] }, false)
  | .newSession, k, w =>
    match w.fresh with
    | some id => k { w with st := { w.st with session := some id } }
    | none => none
  | .closeIfOpen _, k, w => k { w with st := closeCurrent w.st }      -- (the error of Close is not part of the model: it reports none)
  | .clearSession, k, w => k { w with st := { w.st with session := none } }
  | .connectElseClear, k, w =>
    let (s', ok) := connectSem w.st
    k { w with err := !ok, st := if ok then s' else { s' with session := none } }
  | .setErrVar, k, w => k { w with st := { w.st with sticky := w.err } }
  | .retIfSticky, k, w => if w.st.sticky then some (w.st, false) else k w
  | .copySession, k, w => k { w with sess := w.st.session }
  | .ifNoLiveSession thn, k, w =>
    match w.sess with
    | none => wexecs i connectSem thn k w
    | some id => if !isOpen w.st id then wexecs i connectSem thn k w else k w
  | .encode, k, w =>
    match i.enc with
    | some e => k { w with buf := some e }
    | none => some (w.st, false)
  | .write src, k, w =>
    match w.sess, (match src with | .buf => w.buf | .arg => some i.raw) with
    | some id, some d =>
      if i.writeFails then k { w with err := true }
      else k { w with err := false, st := modConn w.st id (fun c => { c with frames := c.frames ++ [(binaryFrame, d)] }) }
    | _, _ => none
  | .unknown _, _, _ => none
def wexecs (i : In) (connectSem : St → St × Bool) : List WStmt → (W → R) → W → R
  | [], k, w => k w
  | st :: rest, k, w => wexec i connectSem st (wexecs i connectSem rest k) w
end

def runW (i : In) (connectSem : St → St × Bool) (body : List WStmt) (s : St) : R :=
  wexecs i connectSem body (fun _ => none) { st := s }

end FV.Sk.WsCl
