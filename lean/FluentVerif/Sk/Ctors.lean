import FluentVerif.Proto.Packed
/-! # The packed / compressed constructors and `GzipCompressor`, as the translator emits them

Statements of `NewPackedForwardMessage`, `NewPackedForwardMessageFromBytes`, `NewCompressedPackedForwardMessage`,
`NewCompressedPackedForwardMessageFromBytes`, `GzipCompressor.Write / Reset / Bytes` recognised by their exact source text
(`translator/ctors.go`; anything else `.unknown`).  The evaluators return `none` for "not a run", `some none` for the error return. -/
namespace FV.Sk.Ct
open FV

inductive KStmt
  | asEntryList | marshalPacked | checkErrNil | lenEntries | fromBytes | setSizeOption | retMsgNil   -- NewPackedForwardMessage
  | retPlain                                                                                         -- NewPackedForwardMessageFromBytes
  | compressedFromBytes | ifOkSetSize | retMsgErr                                                    -- NewCompressedPackedForwardMessage
  | poolGet | reset | deferPut | writeOrErr | fromCopyOfBuffer | setGzipOption                       -- NewCompressed…FromBytes
  | gzWrite | gzClose | retErr | ifFirstUseInit | bufReset | gzReset | retBuffer                     -- GzipCompressor
  | buildMessageNowUnix | buildMessageExtNow | retMsg | retNowUTC | buildForward | retPfm            -- NewMessage, NewMessageExt, EventTimeNow, NewForwardMessage
  | ifEmptyWriteNil | writeRaw | retGetChunk                                                         -- RawMessage
  | unknown (src : String)
deriving DecidableEq, Repr

/-- `NewPackedForwardMessageFromBytes(tag, b)` -/
def runFromBytes (tag b : Bytes) : List KStmt → Option Packed
  | [.retPlain] => some { tag := tag, stream := b, options := none }
  | _ => none

structure NP where
  bits : Option (Option Bytes) := none   -- what MarshalPacked returned (`some none`: its error)
  len : Option Nat := none
  msg : Option Packed := none

/-- `NewPackedForwardMessage(tag, entries)`; `fromBytes` is `NewPackedForwardMessageFromBytes` as evaluated above -/
def runNewPacked (fromBytes : Bytes → Bytes → Option Packed) (tag : Bytes) (es : List (Instant × GoVal)) : List KStmt → NP → Option (Option Packed)
  | .asEntryList :: r, s => runNewPacked fromBytes tag es r s
  | .marshalPacked :: r, s => runNewPacked fromBytes tag es r { s with bits := some (marshalPacked es) }
  | .checkErrNil :: r, s =>
    match s.bits with
    | some none => some none
    | some (some _) => runNewPacked fromBytes tag es r s
    | none => none
  | .lenEntries :: r, s => runNewPacked fromBytes tag es r { s with len := some es.length }
  | .fromBytes :: r, s =>
    match s.bits with
    | some (some b) => (fromBytes tag b).bind fun m => runNewPacked fromBytes tag es r { s with msg := some m }
    | _ => none
  | .setSizeOption :: r, s =>
    match s.msg, s.len with
    | some m, some n => runNewPacked fromBytes tag es r { s with msg := some { m with options := some { size := some n } } }
    | _, _ => none
  | .retMsgNil :: _, s => s.msg.map some
  | _, _ => none

structure CB where
  comp : Option Compressor := none       -- `mc`, once taken from the pool
  wrote : Bool := false
  msg : Option Packed := none

/-- `NewCompressedPackedForwardMessageFromBytes(tag, payload)` with a pooled compressor in any prior state; the message's stream is
a *copy* of the compressor's buffer (`fromCopyOfBuffer`), which goes back to the pool -/
def runCompressedFromBytes (cd : Codec) (pooled : Compressor) (fromBytes : Bytes → Bytes → Option Packed) (tag payload : Bytes) :
    List KStmt → CB → Option (Option Packed)
  | .poolGet :: r, s => runCompressedFromBytes cd pooled fromBytes tag payload r { s with comp := some pooled }
  | .reset :: r, s => s.comp.bind fun c => runCompressedFromBytes cd pooled fromBytes tag payload r { s with comp := some c.reset }
  | .deferPut :: r, s => runCompressedFromBytes cd pooled fromBytes tag payload r s
  | .writeOrErr :: r, s => s.comp.bind fun c =>
      match c.write cd payload with
      | some c' => runCompressedFromBytes cd pooled fromBytes tag payload r { s with comp := some c', wrote := true }
      | none => some none
  | .fromCopyOfBuffer :: r, s => s.comp.bind fun c =>
      if s.wrote then (fromBytes tag c.buffer).bind fun m => runCompressedFromBytes cd pooled fromBytes tag payload r { s with msg := some m } else none
  | .setGzipOption :: r, s => s.msg.bind fun m =>
      runCompressedFromBytes cd pooled fromBytes tag payload r { s with msg := some { m with options := some { compressed := vGzip } } }
  | .retMsgNil :: _, s => s.msg.map some
  | _, _ => none

structure NC where
  bits : Option (Option Bytes) := none
  len : Option Nat := none
  res : Option (Option Packed) := none

/-- `NewCompressedPackedForwardMessage(tag, entries)`; `cfb` is the constructor above, already evaluated -/
def runNewCompressed (cfb : Bytes → Bytes → Option (Option Packed)) (tag : Bytes) (es : List (Instant × GoVal)) : List KStmt → NC → Option (Option Packed)
  | .asEntryList :: r, s => runNewCompressed cfb tag es r s
  | .marshalPacked :: r, s => runNewCompressed cfb tag es r { s with bits := some (marshalPacked es) }
  | .checkErrNil :: r, s =>
    match s.bits with
    | some none => some none
    | some (some _) => runNewCompressed cfb tag es r s
    | none => none
  | .lenEntries :: r, s => runNewCompressed cfb tag es r { s with len := some es.length }
  | .compressedFromBytes :: r, s =>
    match s.bits with
    | some (some b) => (cfb tag b).bind fun res => runNewCompressed cfb tag es r { s with res := some res }
    | _ => none
  | .ifOkSetSize :: r, s =>
    match s.res, s.len with
    | some (some m), some n => runNewCompressed cfb tag es r { s with res := some (some { m with options := some { (m.options.getD {}) with size := some n } }) }
    | some none, _ => runNewCompressed cfb tag es r s
    | _, _ => none
  | .retMsgErr :: _, s => s.res
  | _, _ => none

/-! ### `NewMessage`, `NewMessageExt` (with `EventTimeNow`), `NewForwardMessage`: `now` is the clock reading; no options but the size -/

/-- `(tag, timestamp, record)`, options nil -/
def runNewMessage (now : Instant) (tag : Bytes) (r : GoVal) : List KStmt → Option (Bytes × Int × GoVal)
  | [.buildMessageNowUnix, .retMsg] => some (tag, now.sec, r)            -- time.Now().UTC().Unix()
  | _ => none

def runEventTimeNow (now : Instant) : List KStmt → Option Instant
  | [.retNowUTC] => some now                                              -- EventTime{Time: time.Now().UTC()}
  | _ => none

def runNewMessageExt (etNow : Option Instant) (tag : Bytes) (r : GoVal) : List KStmt → Option (Bytes × Instant × GoVal)
  | [.buildMessageExtNow, .retMsg] => etNow.map fun t => (tag, t, r)
  | _ => none

/-- `(tag, entries, options)` -/
def runNewForward (tag : Bytes) (es : List (Instant × GoVal)) : List KStmt → Option (Bytes × List (Instant × GoVal) × Option Options)
  | [.lenEntries, .buildForward, .setSizeOption, .retPfm] => some (tag, es, some { size := some es.length })
  | _ => none

/-! ### `RawMessage.EncodeMsg`: the bytes handed to the writer; `RawMessage.Chunk` is `GetChunk` of the bytes -/
def runRawEncode (rm : Bytes) : List KStmt → Option Bytes
  | [.ifEmptyWriteNil, .writeRaw, .retErr] => some (if rm.isEmpty then appendNil else rm)
  | _ => none

end FV.Sk.Ct
