import FluentVerif.Proto.Chunk
/-! # The skeleton of `GetChunk` (fluent/protocol/chunk.go) and what it means

`translator/chunk.go` re-reads the body of `GetChunk` on every run and emits it as `List GStmt` (`Gen/Chunk.lean`); a statement it
does not recognise is `.unknown`.  The walker runs on a `*msgp.Reader` over the bytes it is given: the primitives are the stream
ones of `Msgp/Read.lean`.  The pooled reader (`poolGet`, `deferPoolPut`) means nothing for one call; its sharing between calls is
the business of the heap model (C07) and of the concurrent lookups in the chunk suite. -/
namespace FV.Sk.Ch
open FV

inductive GStmt
  | poolGet                      -- chunkReader := chunkReaderPool.Get().(*ChunkReader); chunkReader.Reset(b); reader := chunkReader.R
  | deferPoolPut                 -- defer func() { chunkReaderPool.Put(chunkReader) }()
  | readArrayHeader              -- sz, err := reader.ReadArrayHeader(); if err != nil { return "", … }
  | readMapHeader                -- sz, err = reader.ReadMapHeader(); if err != nil { return "", … }
  | ifSzEq (n : Nat) (thn : List GStmt)   -- if sz == n { … }
  | skip                         -- if err = reader.Skip(); err != nil { return "", … }
  | nextType                     -- t, err := reader.NextType(); if err != nil { return "", … }
  | ifTimeType (thn : List GStmt)         -- if t == msgp.ExtensionType || t == msgp.IntType || t == msgp.UintType { … }
  | ifNextNotMap (thn : List GStmt)       -- if t, err = reader.NextType(); t != msgp.MapType || err != nil { … }
  | forKeys (body : List GStmt)  -- for i := uint32(0); i < sz; i++ { … }
  | readKey                      -- keyBits, err := reader.ReadMapKeyPtr(); if err != nil { return "", … }
  | ifKeyIsChunk (thn : List GStmt)       -- if bytes.Equal(keyBits, chunkKeyBits) { … }
  | retReadMapKey                -- v, err := reader.ReadMapKey(nil); return string(v), err
  | retErr                       -- return "", <an error>
  | unknown (src : String)

structure G where
  sz : Nat := 0
  timeType : Bool := false       -- what the last `NextType` said: one of ExtensionType / IntType / UintType
  key : Bytes := []              -- `keyBits`
  b : Bytes                      -- what the reader has not consumed yet

def nextIsMap (b : Bytes) : Bool :=
  match header b with
  | some (.map _, _) => true
  | _ => false

mutual
def gexec (chunkKey : Bytes) : GStmt → (G → Res Bytes) → G → Res Bytes
  | .poolGet, k, g => k g
  | .deferPoolPut, k, g => k g
  | .readArrayHeader, k, g => (readArrayHeader g.b).bind fun n r => k { g with sz := n, b := r }
  | .readMapHeader, k, g => (readMapHeader g.b).bind fun n r => k { g with sz := n, b := r }
  | .ifSzEq n thn, k, g => if g.sz = n then gexecs chunkKey thn k g else k g
  | .skip, k, g => (skipP .stream g.b).bind fun _ r => k { g with b := r }
  | .nextType, k, g => if g.b.isEmpty then .err else k { g with timeType := isTimestampType g.b }
  | .ifTimeType thn, k, g => if g.timeType then gexecs chunkKey thn k g else k g
  | .ifNextNotMap thn, k, g => if nextIsMap g.b then k g else gexecs chunkKey thn k g
  | .forKeys body, k, g => gloop chunkKey body g.sz k g
  | .readKey, k, g => (readMapKey .stream g.b).bind fun key r => k { g with key := key, b := r }
  | .ifKeyIsChunk thn, k, g => if g.key = chunkKey then gexecs chunkKey thn k g else k g
  | .retReadMapKey, _, g => readMapKey .bytes g.b
  | .retErr, _, _ => .err
  | .unknown w, _, _ => .panic ("statement not understood by the translator: " ++ w)
def gexecs (chunkKey : Bytes) : List GStmt → (G → Res Bytes) → G → Res Bytes
  | [], k, g => k g
  | st :: rest, k, g => gexec chunkKey st (gexecs chunkKey rest k) g
/-- `for i := 0; i < sz; i++ { body }` -/
def gloop (chunkKey : Bytes) (body : List GStmt) : Nat → (G → Res Bytes) → G → Res Bytes
  | 0, k, g => k g
  | n+1, k, g => gexecs chunkKey body (gloop chunkKey body n k) g
end

def runG (chunkKey : Bytes) (body : List GStmt) (b : Bytes) : Res Bytes :=
  gexecs chunkKey body (fun _ => .panic "missing return") { b := b }

end FV.Sk.Ch
