/-! `EntryList.Equal` as it was in the pinned tree (before the `fix:` commit): it counted matches
over the cross product of the two lists.  Kept as a standing test that the C20 statement really
excludes the old behaviour. -/
namespace FV.Legacy
variable {α : Type} [DecidableEq α]

def equalLegacy (l1 l2 : List α) : Bool :=
  l1.length == l2.length &&
  (l1.map (fun a => (l2.filter (fun b => a = b)).length)).sum == l1.length

/-- not reflexive on a list with a repeated entry -/
theorem legacy_not_reflexive : equalLegacy [1, 1] [1, 1] = false := by decide
/-- accepts lists that are not permutations of each other -/
theorem legacy_false_positive : equalLegacy [1, 1, 2] [1, 2, 3] = true := by decide

end FV.Legacy
