import FluentVerif.Msgpack.Spec
/-! The Fluent Forward Protocol v1 wire grammar, written from the specification text as
predicates on msgpack objects (`Obj`) and, where the specification prescribes a particular
msgpack format (EventTime = fixext8), on bytes.  Shares nothing with the encoder/decoder models
in `Msgp/` and `Proto/`: it is the independent judge of C02 and the oracle of C11. -/
namespace FV.Spec

def objsToList : Objs → List Obj
  | .nil => []
  | .cons x xs => x :: objsToList xs

/-- key/value pairs of a map object -/
def pairs : List Obj → List (Obj × Obj)
  | k :: v :: r => (k, v) :: pairs r
  | _ => []

/-- `size` -/
def sSize : Bytes := [0x73, 0x69, 0x7a, 0x65]
/-- `chunk` -/
def sChunk : Bytes := [0x63, 0x68, 0x75, 0x6e, 0x6b]
/-- `compressed` -/
def sCompressed : Bytes := [0x63, 0x6f, 0x6d, 0x70, 0x72, 0x65, 0x73, 0x73, 0x65, 0x64]

def isStr : Obj → Bool | .str _ => true | _ => false
def isInt : Obj → Bool | .int _ => true | _ => false
def isMap : Obj → Bool | .map _ => true | _ => false
def isNilObj : Obj → Bool | .nil => true | _ => false
def isBin : Obj → Bool | .bin _ => true | _ => false
def isBoolObj : Obj → Bool | .bool _ => true | _ => false

/-- `option`: a map whose keys are among size:int, chunk:str, compressed:str, each at most once and
omitted when empty -/
def isOptionMap : Obj → Bool
  | .map kvs =>
    let ps := pairs (objsToList kvs)
    let keys := ps.map (·.1)
    ps.all (fun (k, v) =>
      match k, v with
      | .str ks, .int _ => ks == sSize
      | .str ks, .str s => (ks == sChunk || ks == sCompressed) && !s.isEmpty
      | _, _ => false) &&
    keys.all (fun k => (keys.filter (fun k' => match k, k' with | .str a, .str b => a == b | _, _ => false)).length == 1)
  | _ => false

def isOptionOrNil (o : Obj) : Bool := isOptionMap o || isNilObj o

/-- EventTime as an object: extension type 0 with eight bytes -/
def isEventTimeObj : Obj → Bool
  | .ext t d => t == 0 && d.length == 8
  | _ => false

/-- record: a map with string keys -/
def isRecord : Obj → Bool
  | .map kvs => (pairs (objsToList kvs)).all (fun (k, _) => isStr k)
  | _ => false

/-- Message mode: `[tag:str, time:int, record:map, option:map|nil]` (option may be absent) -/
def isMessage : Obj → Bool
  | .arr xs =>
    match objsToList xs with
    | [tag, time, rec] => isStr tag && isInt time && isRecord rec
    | [tag, time, rec, opt] => isStr tag && isInt time && isRecord rec && isOptionOrNil opt
    | _ => false
  | _ => false

/-- Message mode with EventTime -/
def isMessageExt : Obj → Bool
  | .arr xs =>
    match objsToList xs with
    | [tag, time, rec] => isStr tag && isEventTimeObj time && isRecord rec
    | [tag, time, rec, opt] => isStr tag && isEventTimeObj time && isRecord rec && isOptionOrNil opt
    | _ => false
  | _ => false

def isEntry : Obj → Bool
  | .arr xs =>
    match objsToList xs with
    | [time, rec] => isEventTimeObj time && isRecord rec
    | _ => false
  | _ => false

/-- Forward mode: `[tag, [[EventTime, record]…], option?]` -/
def isForward : Obj → Bool
  | .arr xs =>
    match objsToList xs with
    | [tag, .arr es] => isStr tag && (objsToList es).all isEntry
    | [tag, .arr es, opt] => isStr tag && (objsToList es).all isEntry && isOptionOrNil opt
    | _ => false
  | _ => false

/-- PackedForward mode: `[tag, bin, option]` -/
def isPacked : Obj → Bool
  | .arr xs =>
    match objsToList xs with
    | [tag, s] => isStr tag && isBin s
    | [tag, s, opt] => isStr tag && isBin s && isOptionOrNil opt
    | _ => false
  | _ => false

/-- ack: `{"ack": str}` -/
def isAck : Obj → Bool
  | .map kvs =>
    match objsToList kvs with
    | [.str k, .str _] => k == [0x61, 0x63, 0x6b]
    | _ => false
  | _ => false

/-- HELO: `["HELO", {nonce, auth, keepalive}]` -/
def isHelo : Obj → Bool
  | .arr xs =>
    match objsToList xs with
    | [.str t, .map kvs] =>
      t == [0x48, 0x45, 0x4c, 0x4f] &&
      (pairs (objsToList kvs)).all (fun (k, v) =>
        match k with
        | .str ks =>
          if ks == [0x6e, 0x6f, 0x6e, 0x63, 0x65] || ks == [0x61, 0x75, 0x74, 0x68] then isBin v || isStr v
          else if ks == [0x6b, 0x65, 0x65, 0x70, 0x61, 0x6c, 0x69, 0x76, 0x65] then isBoolObj v
          else false
        | _ => false)
    | _ => false
  | _ => false

/-- PING: `["PING", hostname:str, salt:bin|str, digest:str, username:str, password:str]` -/
def isPing : Obj → Bool
  | .arr xs =>
    match objsToList xs with
    | [.str t, h, s, d, u, p] =>
      t == [0x50, 0x49, 0x4e, 0x47] && isStr h && (isBin s || isStr s) && isStr d && isStr u && isStr p
    | _ => false
  | _ => false

/-- PONG: `["PONG", auth_result:bool, reason:str, hostname:str, digest:str]` -/
def isPong : Obj → Bool
  | .arr xs =>
    match objsToList xs with
    | [.str t, a, r, h, d] =>
      t == [0x50, 0x4f, 0x4e, 0x47] && isBoolObj a && isStr r && isStr h && isStr d
    | _ => false
  | _ => false

/-! ### byte-level: every EventTime in the encoding is a *fixext8* of type 0 -/

/-- does the object starting at `b` begin with `0xd7 0x00`? -/
def startsFixext8Type0 : Bytes → Bool
  | 0xd7 :: 0x00 :: _ => true
  | _ => false

/-- walk the flattened token stream of an encoding: every extension object of type 0 must be
written as fixext8 (`0xd7 0x00` + 8 bytes) -/
def extZeroAllFixext8 : Nat → Bytes → Bool
  | 0, _ => true
  | f+1, b =>
    match b with
    | [] => true
    | lead :: _ =>
      match header b with
      | none => false
      | some (.scalar _, r) => extZeroAllFixext8 f r
      | some (.blob _ n, r) => extZeroAllFixext8 f (r.drop n)
      | some (.ext n, r) =>
        match r with
        | t :: d => (t != 0 || (lead == 0xd7 && n == 8)) && extZeroAllFixext8 f (d.drop n)
        | [] => false
      | some (.arr _, r) => extZeroAllFixext8 f r
      | some (.map _, r) => extZeroAllFixext8 f r

/-- the options object of a mode message, found positionally by the specification parser -/
def optionsOf : Obj → Option Obj
  | .arr xs =>
    match objsToList xs with
    | [_, .int _, _, opt] => some opt
    | [_, .ext _ _, _, opt] => some opt
    | [_, .arr _, opt] => some opt
    | [_, .bin _, opt] => some opt
    | _ => none
  | _ => none

/-- the chunk entry of a flattened pair list: the value of the first `chunk` key -/
def chunkOfKVs (kvs : Objs) : Option Bytes :=
  match (pairs (objsToList kvs)).find? (fun (k, _) =>
      match k with | .str ks => ks == sChunk | .bin ks => ks == sChunk | _ => false) with
  | some (_, .str c) => some c
  | some (_, .bin c) => some c
  | _ => none

/-- the chunk id the specification assigns to a message: the value of the `chunk` key of its
option map, if the message has an option map with such a key -/
def chunkOf (o : Obj) : Option Bytes :=
  match optionsOf o with
  | some (.map kvs) => chunkOfKVs kvs
  | _ => none

end FV.Spec
