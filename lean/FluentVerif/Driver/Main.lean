import FluentVerif.Driver.Parse
import FluentVerif.Proto.Equal
import FluentVerif.Proto.EventTime
import FluentVerif.Driver.Codec
import FluentVerif.Driver.Tcp
import FluentVerif.Driver.WsC
/-! `fvdriver`: reads harness lines on stdin, evaluates the *same definitions the theorems are
about* on each input, and prints, per line, whether the model agrees with what the real code did
(`CORR`) and whether the property predicate holds of what the real code did (`PROP`). -/
namespace FV.Driver

inductive Verdict where
  | ok
  | bad (why : String)
  | na            -- not judged on this line
deriving Repr

structure Outcome where
  corr : Verdict := .na
  prop : Verdict := .na
  branch : String := ""      -- which model branch the line exercised (for the distribution)

/-! ### EQ : `EntryList.Equal` -/

/-- entry tokens are comma-separated keys `sec.nsec.rec`; `-` is the empty list -/
def parseKeys (s : String) : List String := if s = "-" then [] else s.splitOn ","

def opEQ (args obs : List String) : Outcome :=
  match args, obs with
  | [a, b], [g] =>
    let l1 := parseKeys a; let l2 := parseKeys b
    let m := Equal.equal l1 l2
    let go := g == "t"
    -- property oracle, written from the statement: same entries with the same multiplicities
    let spec := l1.length == l2.length && l1.all (fun x => l1.count x == l2.count x)
    { corr := if m == go then .ok else .bad s!"model={m} go={go}",
      prop := if spec == go then .ok else .bad s!"C20 multiset-equal={spec} Equal={go}",
      branch := s!"eq.{l1.length}.{m}" }
  | _, _ => { corr := .bad "bad-line" }

/-! ### ET / ETD : EventTime payload -/

def opET (args obs : List String) : Outcome :=
  match args, obs with
  | [s, n, z], [h] =>
    match s.toInt?, n.toNat?, z.toInt?, parseHex h with
    | some sec, some nsec, some zone, some go =>
      let t : Instant := { sec := sec, nsec := nsec, zone := zone }
      let m := encodeET t
      -- oracle from the statement: 8 bytes, big-endian seconds then nanoseconds
      let okp := go.length == 8 && beVal (go.take 4) == (sec % 4294967296).toNat && beVal (go.drop 4) == nsec
      { corr := if m == go then .ok else .bad s!"model={toHex m} go={toHex go}",
        prop := if decide t.InDomain then (if okp then .ok else .bad "C19 payload is not BE sec ‖ BE nsec") else .na,
        branch := if decide t.InDomain then "et.in" else "et.out" }
    | _, _, _, _ => { corr := .bad "bad-line" }
  | _, _ => { corr := .bad "bad-line" }

/-- `ETC sec nsec zone => f=.. p=.. c=.. src=..`: an instant expressed in some zone, through the constructors -/
def opETC (args obs : List String) : Outcome :=
  match args with
  | [s, n, z] =>
    match s.toInt?, n.toNat? with
    | some sec, some nsec =>
      let t : Instant := { sec := sec, nsec := nsec, zone := 0 }
      let want := toHex (encodeET t)
      let all := " ".intercalate obs
      if all == "nozone" then { corr := .ok, prop := .na, branch := "etc.nozone" } else
      let get (k : String) : String := ((obs.find? (·.startsWith k)).map (fun x => (x.drop k.length).toString)).getD "?"
      let bad := ["f=", "p=", "c="].filter fun k => get k != want
      let names := bad.map fun k => if k == "f=" then "NewForwardMessage" else if k == "p=" then "NewPackedForwardMessage" else "NewCompressedPackedForwardMessage"
      let fSrc := if get "src=" == "same" then [] else ["C07 a constructor changed the timestamps of the entry list it was given"]
      let fInst := if bad.isEmpty then [] else
        [s!"C19 the instant {sec}.{nsec} expressed in zone {z} is carried as another instant by {", ".intercalate names} (want {want}; {all})",
         s!"C01 an entry handed to {", ".intercalate names} in zone {z} does not come back with the same instant",
         s!"C02 {", ".intercalate names}: the EventTime of an entry is not the big-endian seconds and nanoseconds of its instant (zone {z})"]
      { corr := if bad.isEmpty then .ok else .bad s!"model={want} go=[{all}]",
        prop := if decide t.InDomain then (if (fInst ++ fSrc).isEmpty then .ok else .bad (" ; ".intercalate (fInst ++ fSrc))) else .na,
        branch := s!"etc.{if z.toInt?.isSome then "fixed" else z}" }
    | _, _ => { corr := .bad "bad-line" }
  | _ => { corr := .bad "bad-line" }

def opETD (args obs : List String) : Outcome :=
  match args with
  | [h] =>
    match parseHex h with
    | some p =>
      let m := decodeET p
      let ms := match m with | some t => s!"ok {t.sec} {t.nsec}" | none => "err"
      let gs := " ".intercalate obs
      let lenOk := if p.length ≠ 8 then gs == "err" else gs != "err"
      let reenc := match m with
        | some t => if beVal (p.drop 4) < 1000000000 then encodeET t == p else true
        | none => true
      -- the decoded instant, read off the payload as the specification says: BE seconds, BE nanoseconds
      let want := if p.length == 8 then
          s!"ok {beVal (p.take 4) + beVal (p.drop 4) / 1000000000} {beVal (p.drop 4) % 1000000000}" else "err"
      { corr := if ms == gs then .ok else .bad s!"model=[{ms}] go=[{gs}]",
        prop := if gs.startsWith "panic" || gs.startsWith "hang" then .bad s!"C10 EventTime decoding: {gs} ; C19 EventTime decoding: {gs}"
                else if !lenOk then .bad "C19 length rule" else if !reenc then .bad "C19 re-encode"
                else if gs != want then .bad s!"C19 decoded instant [{gs}] is not the payload's [{want}]" else .ok,
        branch := s!"etd.{p.length == 8}" }
    | none => { corr := .bad "bad-line" }
  | _ => { corr := .bad "bad-line" }

def dispatch (op : String) (args obs : List String) : Outcome :=
  match op with
  | "EQ" => opEQ args obs
  | "ET" => opET args obs
  | "ETD" => opETD args obs
  | "ETC" => opETC args obs
  | "HRESET" | "PRIME" | "SCRIB" | "PK" | "CP" | "CB" | "PB" | "MP" | "UP" | "MM" | "GCH" =>
    match opHIST op args obs with
    | some d =>
      { corr := match d.corr with | none => .ok | some w => .bad w,
        prop := if d.fails.isEmpty then .ok else .bad (" ; ".intercalate d.fails),
        branch := d.branch }
    | none => { corr := .bad "bad-line" }
  | "CONC" =>
    (match args, obs with
     | scen :: _, b :: rest =>
       let all := " ".intercalate (b :: rest)
       let tags := if scen == "hsrec" then ["C06", "C05", "C14"] else if scen == "lifecycle" || scen == "hsrace" then ["C14"] else if scen == "hsmix" then ["C08", "C14", "C04"] else ["C08"]
       let tags := if (all.splitOn "writes-after-close").length > 1 then tags ++ ["C06"] else tags
       { corr := .ok,
         prop := if b == "bad=0" then .ok else .bad (" ; ".intercalate (tags.map fun t => s!"{t} concurrent scenario {scen}: {" ".intercalate (b :: rest)}")),
         branch := s!"conc.{scen}" }
     | _, _ => { corr := .bad "bad-line" })
  | "WC" =>
    match opWC args obs with
    | some d =>
      { corr := match d.corr with | none => .ok | some w => .bad w,
        prop := if d.fails.isEmpty then .ok else .bad (" ; ".intercalate d.fails),
        branch := d.branch }
    | none => { corr := .bad "bad-line" }
  | "WSCONC" =>
    (match obs with
     | b :: rest =>
       let all := " ".intercalate (b :: rest)
       { corr := .ok,
         prop := if b == "bad=0" then .ok
                 -- what went wrong on a connection (readers, writers, closes, frames, panics) concerns C15 / C16 too;
                 -- a lifecycle call of the client that failed without reason is C17's alone
                 else if (all.splitOn "two-").length > 1 || (all.splitOn "-closed-").length > 1 || (all.splitOn "panic").length > 1 || (all.splitOn "crash").length > 1 || (all.splitOn "deadlock").length > 1 then
                   .bad s!"C17 concurrent websocket client scenario: {all} ; C15 concurrent websocket client scenario: {all} ; C16 concurrent websocket client scenario: {all}"
                 else .bad s!"C17 concurrent websocket client scenario: {all}",
         branch := "wsconc" }
     | _ => { corr := .bad "bad-line" })
  | "WSG" =>
    (match args, obs with
     | [scen], o :: rest =>
       let all := " ".intercalate (o :: rest)
       let bad := o == "send=panic" || o.startsWith "crash" || o == "hang" || o == "gate-not-reached" ||
                  (scen == "listenrec" && !(all.startsWith "after=ok")) || all.contains "maxreaders=2"
       { corr := .ok,
         prop := if bad then .bad s!"C17 schedule {scen}: {all}" else .ok,
         branch := s!"wsg.{scen}" }
     | _, _ => { corr := .bad "bad-line" })
  | "WSEQ" =>
    match opWSEQ args obs with
    | some d =>
      { corr := match d.corr with | none => .ok | some w => .bad w,
        prop := if d.fails.isEmpty then .ok else .bad (" ; ".intercalate d.fails),
        branch := d.branch }
    | none => { corr := .bad "bad-line" }
  | "SEQ" =>
    match opSEQ args obs with
    | some d =>
      { corr := match d.corr with | none => .ok | some w => .bad w,
        prop := if d.fails.isEmpty then .ok else .bad (" ; ".intercalate d.fails),
        branch := d.branch }
    | none => { corr := .bad "bad-line" }
  | "PKCONC" =>
    (match obs with
     | [b, n] => { corr := .ok,
                   prop := if b == "bad=0" then .ok else .bad s!"C07 concurrently built messages corrupted {b} ; C03 concurrently built messages corrupted {b}",
                   branch := s!"pkconc.{n}" }
     | _ => { corr := .bad "bad-line" })
  | "HSH" =>
    match opHSH args obs with
    | some d =>
      { corr := match d.corr with | none => .ok | some w => .bad w,
        prop := if d.fails.isEmpty then .ok else .bad (" ; ".intercalate d.fails),
        branch := d.branch }
    | none => { corr := .bad "bad-line" }
  | "IND" =>
    -- constructors are functions of their arguments: what one value goes through is invisible to another
    (match args, obs with
     | ctor :: how :: _, [before, after, third] =>
       { corr := if third == before then .ok else .bad s!"{ctor}: a value built later differs from one built earlier with the same arguments: {before} vs {third}",
         prop := if after == before && third == before then .ok
                 else .bad ((if after == before then [] else [s!"C07 {ctor}: changing one value ({how}) changed another value built by the same constructor: {before} -> {after}"]) ++
                            (if third == before then [] else [s!"C07 {ctor}: a value built after another one was changed ({how}) inherits the change: {third}"]) |> " ; ".intercalate),
         branch := s!"ind.{ctor}.{how}" }
     | _, _ => { corr := .bad "bad-line" })
  | "CIDS" =>
    match opCIDS args obs with
    | some d =>
      { corr := match d.corr with | none => .ok | some w => .bad w,
        prop := if d.fails.isEmpty then .ok else .bad (" ; ".intercalate d.fails),
        branch := d.branch }
    | none => { corr := .bad "bad-line" }
  | "CID" =>
    match opCID args obs with
    | some d =>
      { corr := match d.corr with | none => .ok | some w => .bad w,
        prop := if d.fails.isEmpty then .ok else .bad (" ; ".intercalate d.fails),
        branch := d.branch }
    | none => { corr := .bad "bad-line" }
  | "RAWE" =>
    match opRAWE args obs with
    | some d =>
      { corr := match d.corr with | none => .ok | some w => .bad w,
        prop := if d.fails.isEmpty then .ok else .bad (" ; ".intercalate d.fails),
        branch := d.branch }
    | none => { corr := .bad "bad-line" }
  | "CHUNKC" =>
    match opCHUNKC args obs with
    | some d =>
      { corr := match d.corr with | none => .ok | some w => .bad w,
        prop := if d.fails.isEmpty then .ok else .bad (" ; ".intercalate d.fails),
        branch := d.branch }
    | none => { corr := .bad "bad-line" }
  | "CHUNK" =>
    match opCHUNK args obs with
    | some d =>
      { corr := match d.corr with | none => .ok | some w => .bad w,
        prop := if d.fails.isEmpty then .ok else .bad (" ; ".intercalate d.fails),
        branch := d.branch }
    | none => { corr := .bad "bad-line" }
  | "RT" =>
    match opRT args obs with
    | some d =>
      { corr := match d.corr with | none => .ok | some w => .bad w,
        prop := if d.fails.isEmpty then .ok else .bad (" ; ".intercalate d.fails),
        branch := d.branch }
    | none => { corr := .bad "bad-line" }
  | "DEC" =>
    match opDEC args obs with
    | some d =>
      { corr := match d.corr with | none => .ok | some w => .bad w,
        prop := if d.fails.isEmpty then .ok else .bad (" ; ".intercalate d.fails),
        branch := d.branch }
    | none => { corr := .bad "bad-line" }
  | _ => { corr := .bad s!"unknown-op {op}" }

structure Stats where
  lines : Nat := 0
  corrOk : Nat := 0
  corrBad : Nat := 0
  propOk : Nat := 0
  propBad : Nat := 0
  propNa : Nat := 0

def Verdict.tag : Verdict → String
  | .ok => "ok" | .bad _ => "BAD" | .na => "na"

/-- one verdict line per input line: `<id> V <corr> <prop> <branch>`; details for the bad ones -/
partial def loop (h : IO.FS.Stream) (out : IO.FS.Stream) (st : Stats) : IO Stats := do
  let line ← h.getLine
  if line.isEmpty then return st
  let (a, obs) := splitLine line
  match a with
  | id :: _prop :: op :: args =>
    let o := dispatch op args obs
    let mut st := { st with lines := st.lines + 1 }
    out.putStrLn s!"{id} V {o.corr.tag} {o.prop.tag} {if o.branch.isEmpty then "-" else o.branch}"
    match o.corr with
    | .ok => st := { st with corrOk := st.corrOk + 1 }
    | .bad w => st := { st with corrBad := st.corrBad + 1 }; out.putStrLn s!"{id} CORR DIFF {w}"
    | .na => pure ()
    match o.prop with
    | .ok => st := { st with propOk := st.propOk + 1 }
    | .bad w => st := { st with propBad := st.propBad + 1 }; out.putStrLn s!"{id} PROP FAIL {w}"
    | .na => st := { st with propNa := st.propNa + 1 }
    loop h out st
  | [] => loop h out st
  | _ =>
    out.putStrLn s!"? CORR DIFF bad-line {line.trimAscii}"
    loop h out { st with lines := st.lines + 1, corrBad := st.corrBad + 1 }

end FV.Driver

def main : IO Unit := do
  let out ← IO.getStdout
  let st ← FV.Driver.loop (← IO.getStdin) out {}
  IO.println s!"SUMMARY lines={st.lines} corr_ok={st.corrOk} corr_diff={st.corrBad} prop_ok={st.propOk} prop_fail={st.propBad} prop_na={st.propNa}"
