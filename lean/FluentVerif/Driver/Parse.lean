import FluentVerif.Msgpack.Fuel
import FluentVerif.Bytes
/-! line-protocol helpers: hex, integers, token lists -/
namespace FV.Driver

def hexDigit (c : Char) : Option Nat :=
  if '0' ≤ c ∧ c ≤ '9' then some (c.toNat - '0'.toNat)
  else if 'a' ≤ c ∧ c ≤ 'f' then some (c.toNat - 'a'.toNat + 10)
  else none

def hexList : List Char → Option Bytes
  | [] => some []
  | [_] => none
  | a :: b :: r => do
    let x ← hexDigit a; let y ← hexDigit b; let t ← hexList r
    pure (UInt8.ofNat (16 * x + y) :: t)

/-- `-` is the empty byte string -/
def parseHex (s : String) : Option Bytes :=
  if s = "-" then some [] else hexList s.toList

def nibble (n : Nat) : Char := if n < 10 then Char.ofNat (48 + n) else Char.ofNat (87 + n)

def toHex (b : Bytes) : String :=
  if b.isEmpty then "-" else
  String.ofList (b.foldr (fun x acc => nibble (x.toNat / 16) :: nibble (x.toNat % 16) :: acc) [])

/-- split a line into tokens; the part after `=>` is the observation -/
def splitLine (line : String) : List String × List String :=
  let toks := (line.trimAscii.toString.splitOn " ").filter (· ≠ "")
  let (a, b) := toks.span (· ≠ "=>")
  (a, b.drop 1)

end FV.Driver
