import FluentVerif.Driver.Parse
import FluentVerif.Proto.Decode
/-! canonical rendering of decoded values; the Go harness renders what the real code produced in
exactly the same notation, so correspondence is string equality -/
namespace FV.Driver

def bytesLt : Bytes → Bytes → Bool
  | [], [] => false
  | [], _ :: _ => true
  | _ :: _, [] => false
  | a :: as, b :: bs => if a < b then true else if b < a then false else bytesLt as bs

def hexN (width n : Nat) : String :=
  String.ofList ((List.range width).reverse.map fun i => nibble ((n / 16 ^ i) % 16))

def insertKV (k : Bytes) (v : String) : List (Bytes × String) → List (Bytes × String)
  | [] => [(k, v)]
  | (k', v') :: r =>
    if k = k' then (k, v) :: r           -- last wins
    else if bytesLt k k' then (k, v) :: (k', v') :: r
    else (k', v') :: insertKV k v r

def hexRaw (b : Bytes) : String :=
  String.ofList (b.foldr (fun x acc => nibble (x.toNat / 16) :: nibble (x.toNat % 16) :: acc) [])

mutual
def renderObj : Obj → String
  | .nil => "n"
  | .bool b => if b then "t" else "f"
  | .int i => s!"i{i}"
  | .f32 bits => "F" ++ hexN 8 bits
  | .f64 bits => "D" ++ hexN 16 bits
  | .str s => "s" ++ hexRaw s
  | .bin s => "b" ++ hexRaw s
  | .ext t d =>
    if t = 0 then
      match decodeET d with
      | some i => s!"E{i.sec}.{i.nsec}"
      | none => "X0:" ++ hexRaw d
    else if t = 5 then "T" else if t = 3 then "C64" else if t = 4 then "C128"
    else s!"X{t.toNat}:" ++ hexRaw d
  | .arr xs => let l := renderList xs; s!"A{l.length}[" ++ ",".intercalate l ++ "]"
  | .map kvs =>
    let l := renderKVs kvs []
    s!"M{l.length}\{" ++ ",".intercalate (l.map fun p => hexRaw p.1 ++ ":" ++ p.2) ++ "}"
def renderList : Objs → List String
  | .nil => []
  | .cons x xs => renderObj x :: renderList xs
def renderKVs : Objs → List (Bytes × String) → List (Bytes × String)
  | .cons k (.cons v r), acc =>
    let kb := match k with | .str s => s | .bin s => s | _ => []
    renderKVs r (insertKV kb (renderObj v) acc)
  | _, acc => acc
end

def renderOptions : Option Options → String
  | none => "N"
  | some o =>
    let sz := match o.size with | some i => s!"{i}" | none => "-"
    s!"O({sz},{toHex o.chunk},{toHex o.compressed})"

def renderInstant (i : Instant) : String := s!"{i.sec}.{i.nsec}"

def renderMessage (m : Message) : String :=
  s!"tag={toHex m.tag};ts={m.ts};rec={renderObj m.record};opt={renderOptions m.options}"
def renderMessageExt (m : MessageExt) : String :=
  s!"tag={toHex m.tag};ts={renderInstant m.ts};rec={renderObj m.record};opt={renderOptions m.options}"
def renderEntryExt (e : EntryExt) : String := s!"({renderInstant e.ts},{renderObj e.record})"
def renderEntry (e : Entry) : String := s!"({e.ts},{renderObj e.record})"
def renderEntries (es : List EntryExt) : String :=
  s!"{es.length}[" ++ ",".intercalate (es.map renderEntryExt) ++ "]"
def renderForward (m : Forward) : String :=
  s!"tag={toHex m.tag};ent={renderEntries m.entries};opt={renderOptions m.options}"
def renderPacked (m : Packed) : String :=
  s!"tag={toHex m.tag};str={toHex m.stream};opt={renderOptions m.options}"
def renderAck (a : Ack) : String := s!"ack={toHex a.ack}"
def renderBool (b : Bool) : String := if b then "t" else "f"
def renderHeloOpts (o : HeloOpts) : String := s!"H({toHex o.nonce},{toHex o.auth},{renderBool o.keepalive})"
def renderHelo (h : Helo) : String :=
  s!"mt={toHex h.mtype};opt=" ++ (match h.options with | none => "N" | some o => renderHeloOpts o)
def renderPing (p : Ping) : String :=
  s!"mt={toHex p.mtype};host={toHex p.hostname};salt={toHex p.salt};dig={toHex p.digest};user={toHex p.username};pw={toHex p.password}"
def renderPong (p : Pong) : String :=
  s!"mt={toHex p.mtype};auth={renderBool p.authResult};reason={toHex p.reason};host={toHex p.hostname};dig={toHex p.digest}"

end FV.Driver
