import FluentVerif.Driver.Codec
import FluentVerif.Client.Tcp
import FluentVerif.Client.Helpers
/-! driver for `SEQ`: operation sequences on the TCP client -/
namespace FV.Driver
open FV.Tcp

def kvGet (k : String) : List Tree → Option String
  | .atom a :: .atom v :: r => if a == k then some v else kvGet k r
  | _ :: _ :: r => kvGet k r
  | _ => none

def kvAll (k : String) : List Tree → List String
  | .atom a :: .atom v :: r => if a == k then v :: kvAll k r else kvAll k r
  | _ :: _ :: r => kvAll k r
  | _ => []

def parseFault (s : String) : WFault :=
  if s.startsWith "f" then .failAfter ((s.drop 1).toString.toNat?.getD 0)
  else if s.startsWith "s" || s.startsWith "S" then .short ((s.drop 1).toString.toNat?.getD 0)
  else .none

def evStr : Ev → String
  | .dial id => s!"d{id}"
  | .dialFail => "df"
  | .write id acc st => s!"w{id}:{toHex acc}:{match st with | .ok => "ok" | .err => "err" | .short => "short"}"
  | .close id => s!"c{id}"
  | .deadline id => s!"dl{id}"

def outStr : Out → String
  | .ok => "ok" | .err => "err" | .bool true => "t" | .bool false => "f" | .panic => "panic"

/-- digest table supplied by the harness: the instantiation of `H` -/
def tableH (tbl : List (Bytes × Bytes)) (x : Bytes) : Bytes :=
  match tbl.find? (·.1 == x) with
  | some (_, d) => d
  | none => [0x3f]      -- an input the harness did not hash: no real digest equals "?"

def parseTable (xs : List Tree) : List (Bytes × Bytes) :=
  (kvAll "h" xs).filterMap fun e =>
    match e.splitOn "=" with
    | [a, b] => do let x ← parseHex a; let d ← parseHex b; pure (x, d)
    | _ => none

/-- bytes accepted by the connection during one op, from the observed events -/
def acceptedOf (evs : List String) : Bytes :=
  (evs.filterMap fun e =>
    if e.startsWith "w" then
      match e.splitOn ":" with
      | [_, h, _] => parseHex h
      | _ => none
    else none).flatten

def allWritesOk (evs : List String) : Bool :=
  evs.all fun e => !(e.startsWith "w") || e.endsWith ":ok"


/-- the helper a `HLP(...)` token denotes -/
def treeHelper : Tree → Option Helper
  | .node "HLP" [.atom "SendMessage", tag, v] => do pure (.message (← treeHex tag) (← treeGoVal v))
  | .node "HLP" [.atom "SendMessageExt", tag, v] => do pure (.messageExt (← treeHex tag) (← treeGoVal v))
  | .node "HLP" [.atom "SendForward", tag, .node "L" es] => do pure (.forward (← treeHex tag) (← treeEntries es))
  | .node "HLP" [.atom "SendPacked", tag, .node "L" es] => do pure (.packed (← treeHex tag) (← treeEntries es))
  | .node "HLP" [.atom "SendCompressed", tag, .node "L" es] => do pure (.compressed (← treeHex tag) (← treeEntries es))
  | .node "HLP" [.atom "SendPackedFromBytes", tag, b] => do pure (.packedBytes (← treeHex tag) (← treeHex b))
  | .node "HLP" [.atom "SendCompressedFromBytes", tag, b] => do pure (.compressedBytes (← treeHex tag) (← treeHex b))
  | _ => none

def chunkOfObj (o : Obj) : Bytes :=
  match o with
  | .arr xs =>
    match (Spec.objsToList xs).getLast? with
    | some (.map kvs) =>
      match (Spec.pairs (Spec.objsToList kvs)).find? fun (k, _) => match k with | .str s => s == kChunk | _ => false with
      | some (_, .str c) => c
      | _ => []
    | _ => []
  | _ => []

/-- a chunk id as `makeChunkID` builds them: base64 of 16 bytes with the UUIDv4 version and variant bits -/
def wellFormedChunkID (c : Bytes) : Bool :=
  match b64dec c with
  | some d => d.length == 16 && uuidMask d == d && b64enc d == c
  | none => false

/-- what a successful helper call must have put on the wire: exactly the bytes `Helper.wireG` gives
for the clock reading and chunk id found in them (checked for plausibility separately), with the
compressor's output taken from the run and checked by decompressing it -/
def helperOracle (hname : String) (opT : Tree) (ack : Bool) (t0 : Int) (wire : Bytes)
    (gunzip gzok : Option String) : List String :=
  match treeHelper opT, parse wire with
  | none, _ => [s!"C02 unparsable helper token {hname}"]
  | _, none => [s!"C02 {hname} wrote something that is not one msgpack value"]
  | some h, some (o, rest) =>
    if !rest.isEmpty then [s!"C02 {hname} wrote something that is not one msgpack value"] else
    let second := match o with | .arr (.cons _ (.cons x _)) => some x | _ => none
    let now : Option Instant := match h, second with
      | .message .., some (.int ts) => some { sec := ts, nsec := 0 }
      | .messageExt .., some (.ext _ d) => decodeET d
      | .message .., _ => none
      | .messageExt .., _ => none
      | _, _ => some { sec := 0, nsec := 0 }
    let z := match second with | some (.bin z) => z | _ => []
    let id := chunkOfObj o
    let stampOk := match h, now with
      | .message .., some i => decide (t0 ≤ i.sec ∧ i.sec ≤ t0 + 2)
      | .messageExt .., some i => decide (t0 ≤ i.sec ∧ i.sec ≤ t0 + 2)
      | _, some _ => true
      | _, none => false
    let want := h.wireG (fun _ => some z) (now.getD { sec := 0, nsec := 0 }) ack id
    let payload : Option Bytes := match h with
      | .compressed _ es => marshalPacked es
      | .compressedBytes _ b => some b
      | _ => none
    let gz := match h with
      | .compressed .. | .compressedBytes .. => gzok == some "true0" && (gunzip.bind parseHex) == payload
      | _ => true
    (if want == some wire then [] else [s!"C02 {hname}: the wire does not carry the mode and contents the helper names (model {(want.map toHex).getD "encoder-error"})",
        s!"C09 {hname} returned nil but the bytes on the wire are not the encoding of its message",
        s!"C01 {hname}: what the peer decodes from the wire is not the message the caller handed over",
        s!"C03 {hname}: the message on the wire does not carry the helper's stream with its size / compressed options"]) ++
    (if stampOk then [] else [s!"C02 {hname} is not stamped with the time of the call"]) ++
    (if !ack || wellFormedChunkID id then [] else [s!"C12 {hname}: chunk id on the wire is not a well-formed generated id"]) ++
    (if gz then [] else ["C03 helper stream is not one complete gzip member of exactly the given entries",
       s!"C02 {hname}: the bin is not a gzip stream of the given entries, so the message is not the CompressedPackedForward it is flagged as"])

structure SeqAcc where
  st : St := {}
  corr : List String := []
  fails : List String := []
  openConns : List String := []     -- from events only (C14 oracle)
  closedConns : List String := []
  branches : List String := []
  genChunks : List Bytes := []     -- chunk ids the library generated for helper-built messages so far in this sequence
  authed : List String := []       -- connections on which the real client's Handshake returned nil (observation only)
  dirty : List Nat := []           -- connections whose peer sent something other than one conforming ack per response

/-- the message the token denotes, with the observed chunk id filled in (Chunk() draws it at random) -/
def encodeWithChunk (t : Tree) (requireAck : Bool) (chunk : Bytes) : Option (Option Bytes) :=
  let withChunk (o : Option Options) : Option Options :=
    if requireAck then some { (o.getD {}) with chunk := chunk } else o
  match t with
  | .node "MSG" [tag, ts, v, o] => do
    let tag ← treeHex tag; let ts ← treeInt ts; let v ← treeGoVal v; let o ← treeOptions o
    pure (Message.marshal tag ts v (withChunk o))
  | .node "EXT" [tag, ts, v, o] => do
    let tag ← treeHex tag; let ts ← treeInstant ts; let v ← treeGoVal v; let o ← treeOptions o
    pure (MessageExt.marshal tag ts v (withChunk o))
  | .node "FWD" [tag, .node "L" es, o] => do
    let tag ← treeHex tag; let es ← treeEntries es; let o ← treeOptions o
    pure (Forward.marshal tag es (withChunk o))
  | .node "PFM" [tag, s, o] => do
    let tag ← treeHex tag; let s ← treeHex s; let o ← treeOptions o
    pure (some (Packed.marshal tag s (withChunk o)))
  | _ => none

/-- spec-level reading of an ack response: `{"ack": str, …}` (first complete value of the stream) -/
def specAck (resp : Bytes) : Option Bytes :=
  match parse resp with
  | some (.map kvs, _) =>
    let ps := Spec.pairs (Spec.objsToList kvs)
    -- an ack is a map with string keys: anything else is not a conforming response
    if !(ps.all fun (k, _) => match k with | .str _ => true | .bin _ => true | _ => false) then none else
    -- the last "ack" entry counts (a map is a set of pairs; the decoder keeps the last)
    match (ps.filter fun (k, _) => match k with | .str s => s == kAck | .bin s => s == kAck | _ => false).getLast? with
    | some (_, .str a) => some a
    | _ => none
  | _ => none

/-- one complete map with string keys whose `ack` entries are strings: what a conforming ack looks like,
whatever else it carries -/
def conformingAck (resp : Bytes) : Bool :=
  match parse resp with
  | some (.map kvs, []) =>
    (Spec.pairs (Spec.objsToList kvs)).all fun (k, v) =>
      match k, v with
      | .str s, .str _ => true || s == kAck
      | .str s, _ => s != kAck
      | _, _ => false
  | _ => false

def opSEQ (args obs : List String) : Option DecOut := do
  let cfgT ← (args.head?).bind parseTok
  let (key, ack, tmo, host) ← (match cfgT with
    | .node "CFG" [k, a, t, h] => do
      let key ← (match k with | .atom "-" => some none | .atom "e" => some (some []) | t => (treeHex t).map some)
      let a ← treeBool a; let t ← treeBool t; let h ← treeHex h
      pure (key, a, t, h)
    | _ => none)
  let cfg : Cfg := { sharedKey := key, requireAck := ack, timeout := tmo, hostname := host }
  let ops := args.drop 1
  let outs := obs
  if ops.length != outs.length then
    -- the harness stopped early (hang)
    pure { corr := some "sequence did not complete", fails := ["C10 hang", "C14 hang (deadlock?)"], branch := "seq.hang" }
  else
  let step1 (acc : SeqAcc) (p : String × String) : SeqAcc :=
    match parseTok p.1, parseTok p.2 with
    | some opT, some (.node "O" [.atom res, .node "E" evT, .node "X" xs]) =>
      let evs := evT.filterMap atomStr |>.filter (· ≠ "")
      let opName := match opT with | .node n _ => n | .atom a => a
      -- ---------------- oracles that look at the events only ----------------
      let f10 := if res == "panic" then [s!"C10 panic in {opName} {(kvGet "why" xs).getD ""}", s!"C14 panic in {opName}"]
                 else if res == "hang" then [s!"C10 {opName} hangs"] else []
      let bad := evs.filter fun e => e.startsWith "wac" || e.startsWith "rac"
      let f06a := if bad.isEmpty then [] else [s!"C06 I/O on a connection after the client closed it: {bad}", s!"C14 I/O after close {bad}"]
      let fHang0 := if tmo && (opName == "SND" || opName == "HLP") && evs.any (·.startsWith "hang") then ["C04 read without a deadline although a timeout is configured",
        "C14 a send waits for its ack without a read deadline although a timeout is configured: with a silent peer it holds the session lock for ever and Disconnect / Reconnect hang behind it",
        "C08 a send's wait for its ack is not bounded by a read deadline: a wait that is given up some other way leaves its read behind, which then takes the ack of the next send (two waits at the same time)"] else []
      -- the socket refused a write because a deadline armed during an earlier operation had passed: the library
      -- arms deadlines for its own reads only, and a later send on a healthy connection must not trip over one
      let fHang := fHang0 ++ (if evs.any (·.startsWith "zto") then
        [s!"C04 {opName}: a write was refused by a deadline left armed on the connection by an earlier operation (a send to a conforming peer fails although nothing is wrong)",
         s!"C09 {opName}: a write deadline left over from an earlier operation cut the message off"] else [])
      -- C14 accounting
      let (opens, closes, f14) := evs.foldl (fun (a : List String × List String × List String) e =>
        let (o, c, f) := a
        if e.startsWith "d" && e != "df" && !e.startsWith "dl" then
          let id := (e.drop 1).toString
          (id :: o, c, if o.isEmpty then f else f ++ [s!"C14 a second connection was opened while {o} is still open"])
        else if e.startsWith "c" then
          let id := (e.drop 1).toString
          (o.filter (· ≠ id), id :: c, if c.contains id then f ++ [s!"C14 connection {id} closed twice"] else f)
        else a) (acc.openConns, acc.closedConns, [])
      -- ---------------- the model step ----------------
      let sBefore := acc.st
      let tbl := parseTable xs
      let H := tableH tbl
      let mop : Option Op :=
        match opT with
        | .node "CON" [.atom d, ce] => (treeBool ce).map fun c => Op.connect (d == "ok") c
        | .atom "DIS" => some .disconnect
        | .node "REC" [.atom d, ce] => (treeBool ce).map fun c => Op.reconnect (d == "ok") c
        | .atom "TP" => some .transportPhase
        | .atom "TPS" => some .transportPhase
        | .node "HS" [_, _, .atom f] => do
          let helo ← (kvGet "helo" xs).bind parseHex
          let pong := ((kvGet "pong" xs).bind parseHex).getD []
          let salt := ((kvGet "salt" xs).bind parseHex).getD []
          pure (Op.handshake helo salt pong (parseFault f))
        | .node "RAW" [b, .atom f] => (treeHex b).map fun b => Op.sendRaw b (parseFault f)
        | .node "SND" [m, _, .atom f] => do
          let chunk := ((kvGet "chunk" xs).bind parseHex).getD []
          -- what the client can read: bytes it left unread earlier, then this response
          let resp := ((kvGet "pre" xs).bind parseHex).getD [] ++ ((kvGet "resp" xs).bind parseHex).getD []
          match m with
          | .node "RAWM" [b] => do
            let b ← treeHex b
            let enc := if b.isEmpty then [0xc0] else b
            -- Chunk() of a RawMessage is GetChunk: an error aborts the send before anything is written
            -- … and so does an empty id (the repaired `Send` refuses it: a response without an ack entry would pass for its ack)
            let chk := if ack then (match getChunk b with | .ok c _ => (if c.isEmpty then none else some c) | _ => none) else some []
            pure (Op.send (chk.map fun _ => enc) (chk.getD []) (parseFault f) resp)
          | t => do
            let e ← encodeWithChunk t ack chunk
            pure (Op.send (if ack && chunk.isEmpty then none else e) chunk (parseFault f) resp)
        | _ => none
      -- with a shared key configured, event data goes only to a connection on which a handshake succeeded
      let wroteTo : List String := evs.filterMap fun e =>
        if e.startsWith "w" && !e.startsWith "wac" then (e.splitOn ":").head?.map (fun x => (x.drop 1).toString) else none
      let fUnauth : List String :=
        if key.isSome && (opName == "SND" || opName == "RAW" || opName == "HLP") then
          (wroteTo.filter (fun id => !acc.authed.contains id)).eraseDups.flatMap fun id =>
            [s!"C05 event data written to connection {id} on which no handshake had succeeded",
             s!"C06 event data written to connection {id} before a successful handshake on it",
             s!"C10 peer bytes left the client sending on connection {id} without a valid handshake"]
        else []
      let authed' : List String :=
        if opName == "HS" && res == "ok" then
          (match wroteTo.head? with | some id => id :: acc.authed | none => acc.authed)
        else acc.authed
      match opT, mop with
      | .node "HLP" _, _ =>
        -- helpers: judged by the oracles only (their payload is stamped with the clock)
        let wire := acceptedOf evs
        let hname := match opT with | .node _ (.atom h :: _) => h | _ => "?"
        let sess := sBefore.session
        let t0 := ((kvGet "t0" xs).bind String.toInt?).getD 0
        let okWire : List String :=
          match sess with
          | some (_, true) =>
            if res == "ok" then helperOracle hname opT ack t0 wire (kvGet "gunzip" xs) (kvGet "gzok" xs)
            else []
          | _ => if res == "ok" || !evs.isEmpty then [s!"C06 {hname} outside a live authenticated session"] else []
        -- ids generated for different messages never coincide: an ack for one would be an ack for the other
        let hid : Bytes := match parse wire with | some (o, _) => chunkOfObj o | none => []
        let fDup := if ack && !hid.isEmpty && acc.genChunks.contains hid then
            [s!"C12 {hname}: the generated chunk id {toHex hid} was already given to an earlier message of this client",
             s!"C08 two sends share the chunk id {toHex hid}: the ack for one is accepted for the other"] else []
        let genChunks' := if ack && !hid.isEmpty then hid :: acc.genChunks else acc.genChunks
        -- keep the model's log in step with what happened (the helper's bytes are data written in transport phase)
        let st' := { sBefore with log := sBefore.log }
        { acc with st := st', fails := acc.fails ++ f10 ++ f06a ++ fHang ++ f14 ++ okWire ++ fUnauth ++ fDup, authed := authed', genChunks := genChunks', openConns := opens, closedConns := closes,
                   branches := acc.branches ++ [s!"hlp.{res}"] }
      | _, none => { acc with corr := acc.corr ++ [s!"unparsable op {p.1}"], fails := acc.fails ++ f10 ++ f06a ++ f14 }
      | _, some op =>
        let (st', out) := step H cfg sBefore op
        let newEvs := (st'.log.drop sBefore.log.length).map evStr
        -- the mock reports hang/wac/rac in addition to the modelled events
        let goEvs := evs.filter fun e => !(e.startsWith "hang" || e.startsWith "wac" || e.startsWith "rac")
        let corr := if outStr out == res && newEvs == goEvs then []
          else [s!"{opName}: model=({outStr out};{newEvs}) go=({res};{goEvs})"]
        -- ---------------- property oracles on what the real code did ----------------
        let sess := sBefore.session
        let connId : Nat := match sess with | some (id, _) => id | none => 0
        let wire := acceptedOf evs
        let writes := evs.filter (·.startsWith "w")
        let isSend := opName == "SND" || opName == "RAW"
        -- C06: event bytes only inside a live, authenticated session; nothing but the PING before
        let f06 :=
          if isSend then
            (match sess with
             | some (_, true) => []
             | _ => if res == "ok" || !writes.isEmpty then [s!"C06 {opName} outside a live authenticated session returned {res} and wrote {writes.length} time(s)"] else [])
          else if opName == "HS" then
            (if writes.length ≤ 1 then [] else ["C06 more than one write during the handshake"])
          else if writes.isEmpty then [] else [s!"C06 {opName} wrote to the connection"]
        -- C09: no false success, accepted bytes are a prefix of the encoding, unencodable => nothing written
        let expected : Option Bytes := match op with
          | .send e _ _ _ => e
          | .sendRaw b _ => some b
          | _ => none
        let f09 :=
          if isSend && (match sess with | some (_, true) => true | _ => false) then
            match expected with
            | some e =>
              (if res == "ok" && wire != e then ["C09 success although the connection did not accept the whole encoding",
                "C08 a send reported success but its message is not on the wire whole and exactly once",
                "C07 what a successful send put on the wire is not the encoding of its message: another send (an earlier, failed one) altered it"] else []) ++
              (if e.isPrefixOf wire && wire != e && !e.isEmpty then
                 ["C08 the bytes of this send's message went to the connection more than once: a message is delivered exactly once per send, also when the ack is late"] else []) ++
              (if wire.isPrefixOf e then [] else ["C09 accepted bytes are not a prefix of the encoding",
                "C07 the bytes a send put on the wire are not (a prefix of) its own message's encoding: something left over from another send went out with it"]) ++
              (if !allWritesOk evs && res == "ok" then ["C09 a failed or short write was reported as success"] else [])
            | none =>
              (if res == "ok" then ["C09 unencodable message reported as success"] else []) ++
              (if wire.isEmpty then [] else [s!"C09 part of an unencodable message reached the connection ({wire.length} bytes)"])
          else []
        -- C02: raw bytes reach the wire verbatim
        let f02 := match opT with
          | .node "RAW" [b, _] => if res == "ok" && allWritesOk evs && some wire != treeHex b then ["C02 SendRaw bytes not verbatim"] else []
          | .node "SND" [.node "RAWM" [b], _, _] =>
            (match treeHex b with
             | some rb => if res == "ok" && !rb.isEmpty && wire != rb then ["C02 RawMessage bytes not verbatim"] else []
             | none => [])
          | _ => []
        -- C04: success exactly when the peer acknowledged the chunk that is on the wire
        let f04 :=
          if opName == "SND" && ack && (match sess with | some (_, true) => true | _ => false) && allWritesOk evs && !writes.isEmpty then
            let resp := ((kvGet "resp" xs).bind parseHex).getD []
            let pre := ((kvGet "pre" xs).bind parseHex).getD []
            -- as long as every earlier response on this connection was one complete conforming ack map, this
            -- send is judged on this response alone; after a misbehaving peer, on the byte stream as it stands
            let clean := !(acc.dirty.contains connId)
            let resp := if clean then resp else pre ++ resp
            let onWire := match parse wire with
              | some (o, []) => Spec.chunkOf o
              | _ => none
            let acked := match specAck resp, onWire with
              | some a, some c => a == c
              | _, _ => false
            (if (res == "ok") == acked then [] else [s!"C04 Send={res} but peer-acknowledged-this-chunk={acked}"]) ++
            (if res != "ok" && acked then ["C08 a send failed although the peer delivered the ack for its own chunk (whole, possibly in fragments): the send was not matched with its ack"] else []) ++
            (if res == "ok" && !acked then ["C08 a send was matched with a response that is not the ack for its own chunk",
                "C09 Send returned nil although the response was not a complete conforming ack for its chunk (a failure while the ack is read must be an error)"] else []) ++
            (if clean && !pre.isEmpty then ["C04 part of an earlier conforming ack was left unread on the connection"] else []) ++
            -- the wait for the ack gets the configured timeout (50 ms in the harness), counted from when it starts
            (match (kvGet "dlms" xs).bind String.toInt? with
             | some ms => if tmo && ms < 25 then
                 [s!"C04 the read deadline for the ack was armed with only {ms} ms of the configured 50 ms timeout left (time spent before the wait was charged to it)",
                  s!"C08 a send's wait for its own ack was cut short by time spent before it ({ms} of 50 ms left)"] else []
             | none => []) ++
            (if tmo && expected == some wire && !(evs.any (·.startsWith "dl")) then ["C04 no read deadline armed before waiting for the ack"] else [])
          else []
        -- C05: transport phase only after a PONG that proves knowledge of the key
        let f05 :=
          if opName == "HS" then
            let tpAfter := match st'.session with | some (_, tp) => tp | none => false
            let goOk := res == "ok"
            let helo := ((kvGet "helo" xs).bind parseHex).getD []
            let pong := ((kvGet "pong" xs).bind parseHex).getD []
            let salt := ((kvGet "salt" xs).bind parseHex).getD []
            let nonce : Option Bytes := match parse helo with
              | some (.arr (.cons _ (.cons (.map kvs) .nil)), _) =>
                (match (Spec.pairs (Spec.objsToList kvs)).find? (fun (k, _) => match k with | .str s => s == kNonce | _ => false) with
                 | some (_, .bin n) => some n
                 | some (_, _) => none
                 | none => some [])
              | _ => none
            let proof : Bool := match parse pong, nonce with
              | some (.arr (.cons (.str _) (.cons (.bool true) (.cons (.str _) (.cons (.str h) (.cons (.str d) .nil))))), _), some n =>
                salt.length == 16 && d == H (salt ++ h ++ n ++ key.getD [])
              | _, _ => false
            let sessAlive := sess.isSome
            (if goOk && !(proof && sessAlive) then ["C05 handshake succeeded without a PONG carrying auth_result=true and the digest for this salt/nonce/key",
                "C10 peer bytes left the client in transport phase without a valid handshake"] else []) ++
            (if (kvGet "saltrepeat" xs) == some "t" then
               ["C05 the salt of this PING was already used by an earlier handshake of this run: a peer that recorded that handshake can replay its PONG without knowing the key"] else []) ++
            (if goOk && key.isSome && (kvGet "peerknows" xs) == some "f" then
               [s!"C05 a peer that does not know the key was accepted (peer behaviour: {(kvGet "mode" xs).getD "?"})"] else []) ++
            (if !goOk && proof && sessAlive && allWritesOk evs && !writes.isEmpty && (match parse pong with | some (_, []) => true | _ => false) then ["C05 a valid PONG was rejected"] else []) ++
            -- the PING that went out
            (match writes, nonce with
             | [_], some n =>
               let want := (pingMsg H cfg salt n).marshal
               if allWritesOk evs && wire != want then ["C05 PING is not [PING, hostname, salt, hex(H(salt+hostname+nonce+key)), \"\", \"\"]"] else []
             | _, _ => []) ++
            (if tpAfter != goOk && !(match sess with | some (_, true) => true | _ => false) then [] else [])
          else []
        let dirty' :=
          if opName == "SND" then
            let r := ((kvGet "resp" xs).bind parseHex).getD []
            -- a peer that answers after the deadline leaves its ack on the connection for the next reader: from then on
            -- sends on this connection are judged on the byte stream as it stands
            let late := match opT with | .node "SND" [_, .atom m, _] => m.startsWith "late" | _ => false
            if late && !(acc.dirty.contains connId) then connId :: acc.dirty
            else if r.isEmpty || conformingAck r || acc.dirty.contains connId then acc.dirty else connId :: acc.dirty
          else if opName == "HS" then
            -- anything but an honest standard handshake may leave part of the peer's bytes unread
            let honest := match opT with | .node "HS" [.atom "std", .atom "honest", _] => res == "ok" | _ => false
            if honest || acc.dirty.contains connId then acc.dirty else connId :: acc.dirty
          else acc.dirty
        { acc with st := st', corr := acc.corr ++ corr, dirty := dirty', authed := authed',
                   fails := acc.fails ++ f10 ++ f06a ++ fHang ++ f14 ++ f06 ++ f09 ++ f02 ++ f04 ++ f05 ++ fUnauth,
                   openConns := opens, closedConns := closes, branches := acc.branches ++ [s!"{opName}.{res}"] }
    | _, _ => { acc with corr := acc.corr ++ [s!"unparsable observation for {p.1}"] }
  let acc := (ops.zip outs).foldl step1 {}
  -- C14: at the end, at most one connection is open and it is the session's
  let fEnd := if acc.openConns.length ≤ 1 then [] else [s!"C14 {acc.openConns.length} connections open at the end"]
  pure { corr := if acc.corr.isEmpty then none else some (" || ".intercalate acc.corr),
         fails := (acc.fails ++ fEnd).eraseDups,
         branch := "seq." ++ ",".intercalate (acc.branches.eraseDups.take 6) }

end FV.Driver

namespace FV.Driver
open FV.Tcp
/-- `HSH key salt nonce chost shost user pw tamper => ping=… vping=… pong=… vpong=… held=… h=…` : the
server-side helpers against the model's `pingMsg` / `validatePing` / `newPong` / `validatePong`, with
`H` instantiated from the digests the harness computed with crypto/sha512 -/
def opHSH (args obs : List String) : Option DecOut := do
  let [k, sl, nc, ch, sh, us, pw, tamper] := args | none
  let key ← parseHex k; let salt ← parseHex sl; let nonce ← parseHex nc
  let chost ← parseHex ch; let shost ← parseHex sh; let user ← parseHex us; let pass ← parseHex pw
  let tbl : List (Bytes × Bytes) := obs.filterMap fun t =>
    if t.startsWith "h=" then
      match (t.drop 2).toString.splitOn ":" with
      | [a, b] => do let x ← parseHex a; let d ← parseHex b; pure (x, d)
      | _ => none
    else none
  let H := tableH tbl
  let fld (pfx : String) : Option (List String) := (field pfx obs).map (·.splitOn ",")
  let [ph, ps, pd, pu, pp] ← fld "ping=" | none
  let [vh, vs, vd, vres] ← fld "vping=" | none
  let [qa, qh, qd] ← fld "pong=" | none
  let [wh, wd, wres] ← fld "vpong=" | none
  let [hk, hn, hs] ← fld "held=" | none
  let key2 ← parseHex hk; let nonce2 ← parseHex hn; let salt2 ← parseHex hs
  let cfg : Cfg := { sharedKey := some key, hostname := chost }
  -- model
  let mping := { pingMsg H cfg salt nonce with username := user, password := pass }
  let goPing : Ping := { mtype := mping.mtype, hostname := (parseHex ph).getD [], salt := (parseHex ps).getD [],
                         digest := (parseHex pd).getD [], username := (parseHex pu).getD [], password := (parseHex pp).getD [] }
  let vping : Ping := { goPing with hostname := (parseHex vh).getD [], salt := (parseHex vs).getD [], digest := (parseHex vd).getD [] }
  let mvping := validatePing H vping key2 nonce2
  let mpong := newPong H true [0x72] shost key nonce goPing
  let goPongDigest := (parseHex qd).getD []
  let vpong : Pong := { mpong with hostname := (parseHex wh).getD [], digest := (parseHex wd).getD [] }
  let mvpong := validatePong H vpong key2 nonce2 salt2
  let corr :=
    (if goPing == mping then [] else ["NewPing differs from the model"]) ++
    (if (vres == "ok") == mvping then [] else [s!"ValidatePingDigest: model={mvping} go={vres}"]) ++
    (if qa == "true" && (parseHex qh).getD [] == shost && goPongDigest == mpong.digest then [] else ["NewPong differs from the model"]) ++
    (if (wres == "ok") == mvpong then [] else [s!"ValidatePongDigest: model={mvpong} go={wres}"])
  -- oracle: the formulas of the statement, evaluated on the harness's digests
  let dPing := H (salt ++ chost ++ nonce ++ key)
  let dPong := H (salt ++ shost ++ nonce ++ key)
  let same := tamper == "none"
  let fails :=
    (if goPing.digest == dPing && goPing.salt == salt && goPing.hostname == chost then [] else
       ["C05 NewPing does not carry hostname, salt and hex(SHA512(salt+client_hostname+nonce+key))"]) ++
    (if goPongDigest == dPong then [] else ["C05 NewPong does not carry hex(SHA512(salt+server_hostname+nonce+key))"]) ++
    (if same && vres != "ok" then ["C05 ValidatePingDigest rejects the PING of a client holding the same key"] else []) ++
    (if same && wres != "ok" then ["C05 ValidatePongDigest rejects the PONG of a server holding the same key"] else []) ++
    (if !same && vres == "ok" && vping.digest != H (vping.salt ++ vping.hostname ++ nonce2 ++ key2) then
       [s!"C05 ValidatePingDigest accepts a digest that is not the formula's ({tamper})"] else []) ++
    (if !same && wres == "ok" && vpong.digest != H (salt2 ++ vpong.hostname ++ nonce2 ++ key2) then
       [s!"C05 ValidatePongDigest accepts a digest that is not the formula's ({tamper})"] else [])
  let fails := fails ++ (if obs.contains "callermem=modified" then
      ["C07 a handshake helper wrote into the caller's salt / nonce / key buffer (beyond the slice it was given)"] else [])
  pure { corr := if corr.isEmpty then none else some (" || ".intercalate corr), fails := fails, branch := s!"hsh.{tamper}" }
end FV.Driver
