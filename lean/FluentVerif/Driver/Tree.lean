import FluentVerif.Driver.Parse
import FluentVerif.Proto.Encode
/-! structured tokens of the line protocol: `name(child;child;…)`; atoms are runs of characters
other than `(`, `)`, `;` -/
namespace FV.Driver

inductive Tree where
  | atom (s : String)
  | node (name : String) (kids : List Tree)
deriving Repr, Inhabited

def isDelim (c : Char) : Bool := c == '(' || c == ')' || c == ';'

mutual
/-- parse one tree from a character list -/
partial def parseTree (cs : List Char) : Option (Tree × List Char) :=
  let (nm, rest) := cs.span (fun c => !isDelim c)
  match rest with
  | '(' :: rest' =>
    match rest' with
    | ')' :: r => some (.node (String.ofList nm) [], r)
    | _ => (parseKids rest' []).map fun (ks, r) => (.node (String.ofList nm) ks, r)
  | _ => some (.atom (String.ofList nm), rest)
partial def parseKids (cs : List Char) (acc : List Tree) : Option (List Tree × List Char) :=
  match parseTree cs with
  | none => none
  | some (t, r) =>
    match r with
    | ';' :: r' => parseKids r' (t :: acc)
    | ')' :: r' => some ((t :: acc).reverse, r')
    | _ => none
end

def parseTok (s : String) : Option Tree :=
  match parseTree s.toList with
  | some (t, []) => some t
  | _ => none

/-! ### typed views -/

def atomStr : Tree → Option String
  | .atom s => some s
  | _ => none

def treeHex (t : Tree) : Option Bytes := (atomStr t).bind parseHex
def treeInt (t : Tree) : Option Int := (atomStr t).bind String.toInt?
def treeNat (t : Tree) : Option Nat := (atomStr t).bind String.toNat?

def hexNat (s : String) : Option Nat :=
  s.toList.foldl (fun acc c => acc.bind fun a => (hexDigit c).map fun d => 16 * a + d) (some 0)

mutual
partial def treeGoVal : Tree → Option GoVal
  | .atom s =>
    if s == "n" then some .nil
    else if s == "t" then some (.bool true)
    else if s == "f" then some (.bool false)
    else if s == "U" then some .bad
    else
      let body := (s.drop 1).toString
      match s.front with
      | 'i' => body.toInt?.map GoVal.int
      | 'u' => body.toNat?.map GoVal.uint
      | 'F' => (hexNat body).map GoVal.f32
      | 'D' => (hexNat body).map GoVal.f64
      | 's' => (if body.isEmpty then some [] else hexList body.toList).map GoVal.str
      | 'b' => (if body.isEmpty then some [] else hexList body.toList).map GoVal.bin
      -- unusual Go types in records of the packed suite, as the stream writer encodes them: named byte slices
      -- (net.IP, json.RawMessage) are binaries, a time.Duration is its integer, map[string]int{"a": n} is a map
      | 'p' => (if body.isEmpty then some [] else hexList body.toList).map GoVal.bin
      | 'j' => (if body.isEmpty then some [] else hexList body.toList).map GoVal.bin
      | 'd' => body.toInt?.map GoVal.int
      | 'm' => body.toInt?.map fun n => GoVal.map (.cons [0x61] (.int n) .nil)
      | _ => none
  | .node "A" ks => (treeGoVals ks).map GoVal.arr
  | .node "M" ks => (treeGoKVs ks).map GoVal.map
  | _ => none
partial def treeGoVals : List Tree → Option GoVals
  | [] => some .nil
  | t :: ts => do let x ← treeGoVal t; let xs ← treeGoVals ts; pure (.cons x xs)
partial def treeGoKVs : List Tree → Option GoKVs
  | [] => some .nil
  | k :: v :: ts => do
    let ks ← atomStr k
    let kb ← (if ks.isEmpty then some [] else hexList ks.toList)
    let x ← treeGoVal v; let r ← treeGoKVs ts; pure (.cons kb x r)
  | _ => none
end

def treeOptions : Tree → Option (Option Options)
  | .atom "N" => some none
  | .node "O" [s, c, z] => do
    let size ← (match s with | .atom "-" => some none | t => (treeInt t).map some)
    let chunk ← treeHex c; let comp ← treeHex z
    pure (some { size := size, chunk := chunk, compressed := comp })
  | _ => none

/-- `sec.nsec.zone` -/
def treeInstant (t : Tree) : Option Instant := do
  let s ← atomStr t
  match s.splitOn "." with
  | [a, b, c] => do
    let sec ← a.toInt?; let nsec ← b.toNat?; let zone ← c.toInt?
    pure { sec := sec, nsec := nsec, zone := zone }
  | _ => none

def treeEntries : List Tree → Option (List (Instant × GoVal))
  | [] => some []
  | .node "E" [t, v] :: r => do
    let i ← treeInstant t; let x ← treeGoVal v; let es ← treeEntries r; pure ((i, x) :: es)
  | _ => none

def treeBool : Tree → Option Bool
  | .atom "t" => some true
  | .atom "f" => some false
  | _ => none

/-- model encoding of a message token; outer `none` = unparsable token, inner `none` = encoder error -/
def encodeModel : Tree → Option (Option Bytes)
  | .node "MSG" [tag, ts, v, o] => do
    let tag ← treeHex tag; let ts ← treeInt ts; let v ← treeGoVal v; let o ← treeOptions o
    pure (Message.marshal tag ts v o)
  | .node "EXT" [tag, ts, v, o] => do
    let tag ← treeHex tag; let ts ← treeInstant ts; let v ← treeGoVal v; let o ← treeOptions o
    pure (MessageExt.marshal tag ts v o)
  | .node "FWD" [tag, .node "L" es, o] => do
    let tag ← treeHex tag; let es ← treeEntries es; let o ← treeOptions o
    pure (Forward.marshal tag es o)
  | .node "PFM" [tag, s, o] => do
    let tag ← treeHex tag; let s ← treeHex s; let o ← treeOptions o
    pure (some (Packed.marshal tag s o))
  | .node "ENT" [ts, v] => do
    let ts ← treeInt ts; let v ← treeGoVal v
    pure (Entry.marshal ts v)
  | .node "EEX" [ts, v] => do
    let ts ← treeInstant ts; let v ← treeGoVal v
    pure (EntryExt.marshal ts v)
  | .node "ELS" [.node "L" es] => do
    let es ← treeEntries es
    pure (EntryList.marshal es)
  | .node "PCK" [.node "L" es] => do
    let es ← treeEntries es
    pure (marshalPacked es)
  | .node "OPT" [o] => do
    let o ← treeOptions o
    pure (o.map Options.marshal)
  | .node "ACK" [a] => do
    let a ← treeHex a
    pure (some (Ack.marshal { ack := a }))
  | .node "HOP" [n, a, k] => do
    let n ← treeHex n; let a ← treeHex a; let k ← treeBool k
    pure (some (HeloOpts.marshal { nonce := n, auth := a, keepalive := k }))
  | .node "HELO" [mt, o] => do
    let mt ← treeHex mt
    let o ← (match o with
      | .atom "N" => some none
      | .node "H" [n, a, k] => do
        let n ← treeHex n; let a ← treeHex a; let k ← treeBool k
        pure (some ({ nonce := n, auth := a, keepalive := k } : HeloOpts))
      | _ => none)
    pure (some (Helo.marshal { mtype := mt, options := o }))
  | .node "PING" [mt, h, s, d, u, p] => do
    let mt ← treeHex mt; let h ← treeHex h; let s ← treeHex s; let d ← treeHex d; let u ← treeHex u; let p ← treeHex p
    pure (some (Ping.marshal { mtype := mt, hostname := h, salt := s, digest := d, username := u, password := p }))
  | .node "PONG" [mt, a, r, h, d] => do
    let mt ← treeHex mt; let a ← treeBool a; let r ← treeHex r; let h ← treeHex h; let d ← treeHex d
    pure (some (Pong.marshal { mtype := mt, authResult := a, reason := r, hostname := h, digest := d }))
  | _ => none

end FV.Driver
