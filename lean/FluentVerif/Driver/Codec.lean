import FluentVerif.Driver.Render
import FluentVerif.Driver.Tree
import FluentVerif.Forward.Spec
import FluentVerif.Proto.Chunk
import FluentVerif.Proto.ChunkID
import FluentVerif.Proto.Alloc
/-! driver operations on the codec: DEC (decode) -/
namespace FV.Driver

def resStr {α} (total : Nat) (render : α → String) : Res α → String
  | .ok v r => s!"ok {total - r.length} {render v}"
  | .err => "err"
  | .panic _ => "panic"

/-- a used receiver is whatever a successful earlier decode left behind -/
def recvOf {α} (zero : α) (un : α → Bytes → Res α) (prev : Option Bytes) : α :=
  match prev with
  | none => zero
  | some pb => match un zero pb with | .ok v _ => v | _ => zero

def parsePath : String → Option Path
  | "B" => some .bytes
  | "S" => some .stream
  | _ => none

/-- model observation for `DEC ty path recv hex` -/
def decodeModel (ty : String) (p : Path) (prev : Option Bytes) (b : Bytes) : Option String :=
  let n := b.length
  match ty with
  | "Message" => some <| resStr n renderMessage (Message.unmarshal p (recvOf {} (Message.unmarshal p) prev) b)
  | "MessageExt" => some <| resStr n renderMessageExt (MessageExt.unmarshal p (recvOf {} (MessageExt.unmarshal p) prev) b)
  | "Forward" => some <| resStr n renderForward (Forward.unmarshal p (recvOf {} (Forward.unmarshal p) prev) b)
  | "Packed" => some <| resStr n renderPacked (Packed.unmarshal p (recvOf {} (Packed.unmarshal p) prev) b)
  | "Entry" => some <| resStr n renderEntry (Entry.unmarshal p (recvOf {} (Entry.unmarshal p) prev) b)
  | "EntryExt" => some <| resStr n renderEntryExt (EntryExt.unmarshal p (recvOf {} (EntryExt.unmarshal p) prev) b)
  | "EntryList" => some <| resStr n renderEntries (EntryList.unmarshal p b)
  | "Options" => some <| resStr n (fun o => renderOptions (some o)) (Options.unmarshal p (recvOf {} (Options.unmarshal p) prev) b)
  | "Ack" => some <| resStr n renderAck (Ack.unmarshal p (recvOf {} (Ack.unmarshal p) prev) b)
  | "HeloOpts" => some <| resStr n renderHeloOpts (HeloOpts.unmarshal p (recvOf {} (HeloOpts.unmarshal p) prev) b)
  | "Helo" => some <| resStr n renderHelo (Helo.unmarshal p (recvOf {} (Helo.unmarshal p) prev) b)
  | "Ping" => some <| resStr n renderPing (Ping.unmarshal p (recvOf {} (Ping.unmarshal p) prev) b)
  | "Pong" => some <| resStr n renderPong (Pong.unmarshal p (recvOf {} (Pong.unmarshal p) prev) b)
  | _ => none

/-- elements requested by count-sized `make` calls when `ty` is decoded from the slice `b` (fresh receiver) -/
def allocModel (ty : String) (b : Bytes) : Nat :=
  match ty with
  | "Message" => Message.alloc b
  | "MessageExt" => MessageExt.alloc b
  | "Forward" => Forward.alloc b
  | "Entry" => Entry.alloc b
  | "EntryExt" => EntryExt.alloc b
  | "EntryList" => EntryList.alloc b
  | _ => 0

/-- the independent oracle: where does the first complete msgpack value of `b` end? -/
def boundary (b : Bytes) : Option Nat :=
  match parse b with
  | some (_, r) => some (b.length - r.length)
  | none => none

structure DecOut where
  corr : Option String      -- none = agrees
  fails : List String       -- property clauses that fail of what the real code did
  branch : String

/-- does some token of the (complete) msgpack data `b` use the ext32 format?  Flat walk over the tokens: scalars,
strings / binaries / extensions with their payloads, array and map headers (their elements follow as tokens). -/
def hasExt32Tok : Nat → Bytes → Bool
  | 0, _ => false
  | f+1, b =>
    match b with
    | [] => false
    | x :: _ =>
      if x == 0xc9 then true else
      match header b with
      | some (.blob _ n, r) => hasExt32Tok f (r.drop n)
      | some (.ext n, _ :: d) => hasExt32Tok f (d.drop n)
      | some (.ext _, []) => false
      | some (_, r) => hasExt32Tok f r
      | none => false

/-- `DEC ty path cls recv hex => obs [~ freshobs]` -/
def opDEC (args obs : List String) : Option DecOut :=
  match args with
  | [ty, ps, cls, rv, hx] =>
    match parsePath ps, parseHex hx with
    | some p, some b =>
      let prev : Option (Option Bytes) :=
        if rv = "F" then some none
        else if rv.startsWith "U" then (parseHex (rv.drop 1).toString).map some
        else none
      match prev with
      | none => none
      | some prev =>
      match decodeModel ty p prev b with
      | none => none
      | some m =>
        let (used, fresh) := obs.span (· ≠ "~")
        let fresh := fresh.drop 1
        -- a trailing alloc=<bytes> comes from runs in a child process (count-suspect inputs)
        let allocTok := used.find? (·.startsWith "alloc=")
        let used := used.filter (fun t => ¬ t.startsWith "alloc=")
        -- "aliased": the decoded value changed when the caller overwrote the input slice / the reader took in more data / the library decoded another message
        let fAlias := if used.contains "aliased" || fresh.contains "aliased" then
            ["C07 the decoded message changes when the memory it was decoded from is reused or the library decodes another message (it aliases the input or shares objects with later decodes)",
             "C01 the decoded value does not stay equal to the original: it aliases the input buffer or objects of later decodes",
             "C12 what a decoded message reports (chunk id included) changes later: it aliases the input or objects of later decodes"] else []
        let used := used.filter (· ≠ "aliased")
        let fresh := fresh.filter (· ≠ "aliased")
        if used == ["skip"] then some { corr := none, fails := [], branch := s!"dec.{ty}.{ps}.{cls}.skip" } else
        let go := " ".intercalate used
        -- C10, memory clause: what the slice decode requested against the model's count-sized requests
        -- (`T.alloc b` elements, `Proto/Alloc.lean`).  Within 64·len + 4 MiB: proportionate.  Beyond that but within
        -- 128 bytes per element the model says were requested: the count-driven allocation (open finding, names
        -- the model's figure).  Beyond even that: memory the model cannot account for.  A child that died of its
        -- address-space limit is explained from 2²¹ requested elements on (a Go 1.23 map of 2²² elements takes 300 MB in
        -- one block, and under `ulimit -v` the runtime gives up well before 3 GB are in use).
        let pred := allocModel ty b
        let fAlloc := match allocTok with
          | some t =>
            if p != .bytes then [] else
            if t == "alloc=oom" then
              if pred ≥ 2097152 then [s!"C10 alloc-crash count-driven (fatal out of memory under a 3 GB address-space limit; model-elements={pred} len={b.length})"]
              else [s!"C10 alloc-unexplained crash (fatal out of memory; the model accounts for {pred} requested elements only, len={b.length})"]
            else match (t.drop 6).toString.toNat? with
              | some a =>
                if a ≤ 64 * b.length + 4194304 then []
                else if a ≤ 64 * b.length + 4194304 + 128 * pred then [s!"C10 alloc-disproportionate count-driven alloc={a} len={b.length} model-elements={pred}"]
                else [s!"C10 alloc-unexplained alloc={a} len={b.length} model-elements={pred}"]
              | none => []
          | none => []
        let bd := boundary b
        -- C10: totality
        let f10 := match used with
          | "panic" :: _ => ["C10 panic"]
          | "hang" :: _ => ["C10 hang"]
          | _ => []
        -- C13: success consumes exactly the first complete value (also: prefixes of a value are rejected)
        let f13 := match used with
          | "ok" :: c :: _ =>
            match bd, c.toNat? with
            | some k, some c => if c == k then [] else [s!"C13 consumed={c} boundary={k}", s!"C01 a successful decode left bytes of its own message unread or read into what follows (consumed={c}, value ends at {k})"]
            | none, _ => ["C13 accepted-without-a-complete-value", "C10 prefix-accepted"]
            | _, none => ["C13 bad-consumed"]
          | _ => []
        -- C18: the used receiver must not show
        -- (judged for the Forward-mode messages and entries; the generated map decoders of
        -- MessageOptions / HeloOpts / AckMessage merge into the receiver by msgp's design)
        let c18Scope := ["Message", "MessageExt", "Forward", "Packed", "Entry", "EntryExt", "EntryList"].contains ty
        let f18 := if fresh.isEmpty || !c18Scope then [] else
          if " ".intercalate fresh == go then [] else
            -- the chunk id of the options, as rendered: `opt=O(<size>,<chunk hex>,<compressed hex>)` / `opt=N`
            let chunkOf (r : String) : String := match (r.splitOn "opt=O(") with
              | [_, rest] => ((rest.splitOn ",").drop 1).headD ""
              | _ => ""
            ["C18 used-receiver-differs-from-fresh",
             "C01 the decoded value differs from what the bytes denote (it depends on what the receiver held before)"] ++
            (if chunkOf (" ".intercalate fresh) != chunkOf go then
              ["C12 the chunk id a decoded message reports is not the one its bytes carry: it was taken over from what the receiver held before (asking it for its id, or re-encoding it, repeats another message's id)"]
             else [])
        -- C19 (decode side, through the message decoders): a timestamp extension (type 0) that is not exactly eight
        -- bytes long must make the decode fail
        let badTs (o : Obj) : Bool := match o with | .ext t d => t == 0 && d.length != 8 | _ => false
        let tsObjs : List Obj := match parse b with
          | some (.arr xs, _) =>
            let l := Spec.objsToList xs
            if ty == "MessageExt" then (l.drop 1).take 1
            else if ty == "EntryExt" then l.take 1
            else if ty == "Forward" then
              (match (l.drop 1).take 1 with
               | [.arr es] => (Spec.objsToList es).filterMap fun e => match e with | .arr (.cons t _) => some t | _ => none
               | _ => [])
            else []
          | _ => []
        let f19 := if go.startsWith "ok" && tsObjs.any badTs then
            [s!"C19 {ty}: a timestamp extension that is not exactly eight bytes long was accepted",
             s!"C13 {ty}: an element that is not a valid EventTime was read over instead of being rejected (what follows is read in its place)",
             s!"C10 {ty}: a malformed EventTime was accepted"] else []
        let kind := match used with | k :: _ => k | [] => "?"
        let corr :=
          if m == go then none
          else if used == ["crash"] then none
          else if p == .stream ∧ cls == "m" ∧ (m.startsWith "ok") == (go.startsWith "ok") ∧ ¬ go.startsWith "ok" then none
          -- stream path, model accepts, library rejects, and the input has a token in the ext32 format: the library's
          -- `Reader.Skip` gives up on those (DESIGN 0.5); outside the modelled domain
          else if p == .stream ∧ b.length > 4000 ∧ hasExt32Tok (b.length + 1) b then none
          else some s!"model=[{m}] go=[{go}]"
        -- conforming encodings (`v`: the library's own; `a`: an independent encoder's, any legal widths / key orders / unknown keys):
        -- by C01_T / C01_alt_T the message such bytes denote is what the decoder model returns, so an answer that differs from it
        -- (another value, or a rejection) is a wrong answer, not just a model that drifted
        let fConf := if (cls == "a" || cls == "v") && corr.isSome && m.startsWith "ok" && kind != "crash" && kind != "hang" && kind != "panic" then
            [s!"C01 a conforming encoding of a {ty} did not decode to the message its fields denote (model, proved equal to the denotation: [{m}]; library: [{go}])",
             s!"C13 a conforming encoding of a {ty} was not decoded as exactly that message (library: [{go.take 40}])"] ++
            (if ty == "Message" || ty == "MessageExt" || ty == "Forward" || ty == "Packed" then
              [s!"C11 full decoding of a conforming {ty} fails or differs from its denotation, so it cannot agree with GetChunk on it"] else [])
          else []
        some { corr := corr, fails := f10 ++ f13 ++ f18 ++ f19 ++ fAlloc ++ fAlias ++ fConf,
               branch := s!"dec.{ty}.{ps}.{cls}.{if rv = "F" then "F" else "U"}.{kind}" }
    | _, _ => none
  | _ => none

end FV.Driver

namespace FV.Driver
open FV.Spec in
/-- the grammar the specification prescribes for the message kind named by the token -/
def specGrammar (name : String) (o : Obj) : Option Bool :=
  match name with
  | "MSG" => some (isMessage o)
  | "EXT" => some (isMessageExt o)
  | "FWD" => some (isForward o)
  | "PFM" => some (isPacked o)
  | "EEX" => some (isEntry o)
  | "OPT" => some (isOptionMap o)
  | "ACK" => some (isAck o)
  | "HELO" => some (isHelo o || (match o with | .arr xs => (match objsToList xs with | [.str _, .nil] => true | _ => false) | _ => false))
  | "PING" => some (isPing o)
  | "PONG" => some (isPong o)
  | _ => none

def tokTypeName : String → String
  | "MSG" => "Message" | "EXT" => "MessageExt" | "FWD" => "Forward" | "PFM" => "Packed"
  | "ENT" => "Entry" | "EEX" => "EntryExt" | "ELS" => "EntryList" | "OPT" => "Options"
  | "ACK" => "Ack" | "HOP" => "HeloOpts" | "HELO" => "Helo" | "PING" => "Ping" | "PONG" => "Pong"
  | s => s

/-- canonical rendering of the value the token denotes (what a faithful round trip must return) -/
def expectedRender : Tree → Option String
  | .node "MSG" [tag, ts, v, o] => do
    let tag ← treeHex tag; let ts ← treeInt ts; let v ← treeGoVal v; let o ← treeOptions o
    pure (renderMessage { tag := tag, ts := ts, record := v.toObj, options := o })
  | .node "EXT" [tag, ts, v, o] => do
    let tag ← treeHex tag; let ts ← treeInstant ts; let v ← treeGoVal v; let o ← treeOptions o
    pure (renderMessageExt { tag := tag, ts := ts, record := v.toObj, options := o })
  | .node "FWD" [tag, .node "L" es, o] => do
    let tag ← treeHex tag; let es ← treeEntries es; let o ← treeOptions o
    pure (renderForward { tag := tag, entries := es.map fun (t, v) => { ts := t, record := v.toObj }, options := o })
  | .node "PFM" [tag, s, o] => do
    let tag ← treeHex tag; let s ← treeHex s; let o ← treeOptions o
    pure (renderPacked { tag := tag, stream := s, options := o })
  | .node "ENT" [ts, v] => do
    let ts ← treeInt ts; let v ← treeGoVal v
    pure (renderEntry { ts := ts, record := v.toObj })
  | .node "EEX" [ts, v] => do
    let ts ← treeInstant ts; let v ← treeGoVal v
    pure (renderEntryExt { ts := ts, record := v.toObj })
  | .node "ELS" [.node "L" es] => do
    let es ← treeEntries es
    pure (renderEntries (es.map fun (t, v) => { ts := t, record := v.toObj }))
  | .node "OPT" [o] => do
    let o ← treeOptions o
    pure (renderOptions o)
  | .node "ACK" [a] => do
    let a ← treeHex a
    pure (renderAck { ack := a })
  | .node "HOP" [n, a, k] => do
    let n ← treeHex n; let a ← treeHex a; let k ← treeBool k
    pure (renderHeloOpts { nonce := n, auth := a, keepalive := k })
  | .node "HELO" [mt, o] => do
    let mt ← treeHex mt
    let o ← (match o with
      | .atom "N" => some none
      | .node "H" [n, a, k] => do
        let n ← treeHex n; let a ← treeHex a; let k ← treeBool k
        pure (some ({ nonce := n, auth := a, keepalive := k } : HeloOpts))
      | _ => none)
    pure (renderHelo { mtype := mt, options := o })
  | .node "PING" [mt, h, s, d, u, p] => do
    let mt ← treeHex mt; let h ← treeHex h; let s ← treeHex s; let d ← treeHex d; let u ← treeHex u; let p ← treeHex p
    pure (renderPing { mtype := mt, hostname := h, salt := s, digest := d, username := u, password := p })
  | .node "PONG" [mt, a, r, h, d] => do
    let mt ← treeHex mt; let a ← treeBool a; let r ← treeHex r; let h ← treeHex h; let d ← treeHex d
    pure (renderPong { mtype := mt, authResult := a, reason := r, hostname := h, digest := d })
  | _ => none

/-- `RT encpath decpath token => hex <decode obs> | err` : encode with the real encoder, decode the
result with the real decoder -/
def opRT (args obs : List String) : Option DecOut :=
  match args with
  | [ep, dp, tok] =>
    match parsePath dp, parseTok tok with
    | some p, some t =>
      let name := match t with | .node n _ => n | .atom a => a
      match encodeModel t with
      | none => none
      | some menc =>
        match obs with
        | ["encoder-modified-its-input"] =>
          some { corr := none, fails := ["C07 encoding modified the caller's message / entry list (timestamps)"], branch := s!"rt.{name}.{ep}{dp}.mod" }
        | ["prefix-modified"] =>
          some { corr := none, fails := ["C01 MarshalMsg modified the prefix of the buffer it was given"], branch := s!"rt.{name}.{ep}{dp}.pfx" }
        | ["err"] =>
          some { corr := if menc.isNone then none else some "model encodes, go=err",
                 fails := if menc.isNone then [] else ["C01 encodable-message-rejected"],
                 branch := s!"rt.{name}.{ep}{dp}.err" }
        | hx :: dobs =>
          match parseHex hx with
          | none => none
          | some gb =>
            let go := " ".intercalate dobs
            let corrEnc := match menc with
              | some mb => if mb == gb then none else some s!"enc model={toHex mb} go={toHex gb}"
              | none => some "model=err go encodes"
            let mdec := (decodeModel (tokTypeName name) p none gb).getD "?"
            let corrDec := if mdec == go then none else some s!"dec model=[{mdec}] go=[{go}]"
            let corr := match corrEnc, corrDec with
              | some a, _ => some a
              | none, some b => some b
              | none, none => none
            -- C01: the decoded value is the original, nothing left over
            let f01 := match expectedRender t with
              | some e => if go == s!"ok {gb.length} {e}" then [] else [s!"C01 roundtrip expected=[ok {gb.length} {e}] got=[{go}]"]
              | none => []
            -- C02: the bytes are the structure the specification prescribes
            let f02 := match parse gb with
              | some (o, []) =>
                (match specGrammar name o with
                 | some false => ["C02 grammar"]
                 | _ => []) ++
                (if Spec.extZeroAllFixext8 (gb.length + 1) gb then [] else ["C02 EventTime-not-fixext8"])
              | _ => if name == "PCK" then [] else ["C02 not-one-msgpack-value"]
            -- C02: what the specification parser reads from the real bytes is what it reads from the encoding the
            -- theorems are about (C02_T: that one denotes the message's fields)
            let f02b := match menc with
              | some mb =>
                (match parse mb, parse gb with
                 | some (om, _), some (og, _) =>
                   if renderObj om == renderObj og then [] else ["C02 the bytes on the wire do not denote the message's own fields (tag / time / record / options as the specification parser reads them)"]
                 | _, _ => [])
              | none => []
            let f09 := if menc.isNone then ["C09 unencodable-value-encoded"] else []
            some { corr := corr, fails := f01 ++ f02 ++ f02b ++ f09, branch := s!"rt.{name}.{ep}{dp}.ok" }
        | [] => none
    | _, _ => none
  | _ => none

end FV.Driver

namespace FV.Driver
open FV.Spec in
/-- the option map is one GetChunk is specified for: string keys, none empty, no key twice -/
def optionKeysWellFormed : Obj → Bool
  | .map kvs =>
    let keys := (pairs (objsToList kvs)).map (·.1)
    keys.all (fun k => match k with | .str s => !s.isEmpty | _ => false) &&
    keys.all (fun k => (keys.filter (fun k' => match k, k' with | .str a, .str b => a == b | _, _ => false)).length == 1)
  | .nil => true
  | _ => false

open FV.Spec in
/-- well-formed Forward-protocol message of any of the four modes, 2/3/4 elements, any record content -/
def wellFormedMode (o : Obj) : Bool :=
  match o with
  | .arr xs =>
    match objsToList xs with
    | [.str _, .int _, .map _] => true
    | [.str _, .int _, .map _, opt] => optionKeysWellFormed opt
    | [.str _, .ext t d, .map _] => t == 0 && d.length == 8
    | [.str _, .ext t d, .map _, opt] => t == 0 && d.length == 8 && optionKeysWellFormed opt
    | [.str _, .arr _] => true
    | [.str _, .arr _, opt] => optionKeysWellFormed opt
    | [.str _, .bin _] => true
    | [.str _, .bin _, opt] => optionKeysWellFormed opt
    | _ => false
  | _ => false

/-- `CHUNK hex => ok hex | err` -/
def opCHUNK (args obs : List String) : Option DecOut :=
  match args with
  | [cls, hx] =>
    match parseHex hx with
    | none => none
    | some b =>
      let m := match getChunk b with
        | .ok c _ => s!"ok {toHex c}"
        | .err => "err"
        | .panic _ => "panic"
      let unstable := obs.contains "unstable"
      let obs := obs.filter (· ≠ "unstable")
      let go := " ".intercalate obs
      let f10 := (if go.startsWith "panic" || go.startsWith "hang" then ["C10 " ++ go] else []) ++
        (if unstable then ["C07 the string GetChunk returned changed after a later GetChunk call", "C11 the string GetChunk returned changed after a later GetChunk call",
          "C04 the chunk id a RawMessage send waits for (GetChunk's result) changed after a later GetChunk call"] else [])
      let (wf, f11) := match parse b with
        | some (o, []) =>
          if wellFormedMode o then
            let want := match Spec.chunkOf o with
              | some c => s!"ok {toHex c}"
              | none => "err"
            -- msgp v1.1.9 `Reader.Skip` fails on a value in the ext32 format: recorded finding, named apart
            let tagx := if hasExt32Tok (b.length + 1) b then "C11 ext32-skip: a value in the ext32 format is in the message; " else "C11 "
            (true, if go == want then [] else [s!"{tagx}option-map-chunk=[{want}] GetChunk=[{go}]"] ++
              (if tagx == "C11 " then ["C12 the id RawMessage.Chunk / GetChunk reports is not the id the message carries on the wire"] else []))
          else (false, [])
        | _ => (false, [])
      -- the model's `skip` is the slice-path one; on inputs with an ext32 token the stream `Skip` of the library
      -- deviates (DESIGN 0.5): there the model is not compared, the property oracle still is
      -- the model has msgp's stream-`Skip` failure on ext32 values; it is exact while the whole message sits in
      -- the reader's buffer (4 KiB): beyond that the comparison is not made on inputs with an ext32 token
      let corr := if hasExt32Tok (b.length + 1) b && b.length > 4000 then none else (if m == go then none else some s!"model=[{m}] go=[{go}]")
      some { corr := corr, fails := f10 ++ f11,
             branch := s!"chunk.{cls}.{if wf then "wf" else "other"}.{(go.splitOn " ").headD "?"}" }
  | _ => none

/-- `RAWE raw follow => same | diff len firstdiff | err`: `RawMessage.EncodeMsg` through a stream writer, then a second
message through the same writer.  Specification: the stream is the raw bytes verbatim (nil for an empty raw message)
followed by the second message. -/
def opRAWE (args obs : List String) : Option DecOut :=
  match args with
  | [rhx, fhx] =>
    match parseHex rhx, parseHex fhx with
    | some rb, some _ =>
      let go := " ".intercalate obs
      let fails := if go == "same" then [] else
        [s!"C13 a raw message of {rb.length} bytes does not reach the stream whole and verbatim ({go}): the decoder of the concatenation runs into the message that follows",
         s!"C02 RawMessage bytes not verbatim through EncodeMsg ({rb.length} bytes: {go})",
         s!"C01 a re-encoded raw message does not decode to the message it holds ({rb.length} bytes: {go})",
         s!"C09 RawMessage.EncodeMsg returned nil although not every byte of the message was written ({rb.length} bytes: {go})"]
      some { corr := if go == "same" then none else some s!"model=[same] go=[{go}]", fails := fails,
             branch := s!"rawe.{if rb.length ≤ 2048 then "fits" else "beyond"}.{(go.splitOn " ").headD "?"}" }
    | _, _ => none
  | _ => none

/-- `CHUNKC hex… => outs…`: `GetChunk` / `RawMessage.Chunk` on several messages at the same time, one goroutine pair per
message; per message the distinct outcomes seen (`|`-separated).  Every one of them is judged like a `CHUNK` line. -/
def opCHUNKC (args obs : List String) : Option DecOut :=
  if args.length != obs.length || args.isEmpty then none else
  let rows : List ((String × String) × Nat) := (args.zip obs).zipIdx
  -- per message and per outcome seen: the verdict of a `CHUNK` line with that outcome
  let judged : List (Nat × String × Option DecOut) := rows.flatMap fun (row : (String × String) × Nat) =>
    (row.1.2.splitOn "|").map fun (out : String) =>
      (row.2, out, opCHUNK ["c", row.1.1] ((out.replace "_" " ").splitOn " "))
  if judged.any (fun (j : Nat × String × Option DecOut) => j.2.2.isNone) then none else
  let corr : Option String := judged.foldl (fun (acc : Option String) (j : Nat × String × Option DecOut) =>
      match acc, j.2.2 with
      | some w, _ => some w
      | none, some d => d.corr.map (fun w => s!"message {j.1} under concurrent lookups: {w} (seen {j.2.1})")
      | none, none => none) none
  let fails : List String := judged.foldl (fun (acc : List String) (j : Nat × String × Option DecOut) =>
      match j.2.2 with
      | some d => acc ++ (d.fails.map fun f => s!"{f} (message {j.1} of {args.length} looked up concurrently)")
      | none => acc) []
  let multi := obs.any fun (o : String) => (o.splitOn "|").length > 1
  let fMulti := if multi then ["C11 the same message got different answers from GetChunk while other goroutines were looking up other messages"] else []
  some { corr := corr, fails := (fails ++ fMulti).eraseDups, branch := s!"chunkc.{args.length}.{if multi then "unstable" else "stable"}" }

end FV.Driver

namespace FV.Driver
/-- `CID kind optstate => id1 id2 optsAfter chunkB chunkS getChunk` (all hex) -/
def opCID (args obs : List String) : Option DecOut :=
  match args, obs with
  | [kind, st], [i1, i2, oa, cb, cs, gc] =>
    match parseHex i1, parseHex i2, parseHex cb, parseHex cs, parseHex gc with
    | some id1, some id2, some chB, some chS, some g =>
      -- a leading `e`: the harness encoded the message (both paths) before it asked for the id; the model has no state that could remember it
      let st := if st.startsWith "e" then (st.drop 1).toString else st
      let pre : Option (Option Options) :=
        if st == "N" then some none
        else if st == "E" then some (some {})
        else if st == "S" then some (some { size := some 3 })
        else if st.startsWith "P" then (parseHex (st.drop 1).toString).map fun c => some { chunk := c }
        else none
      match pre with
      | none => none
      | some opts =>
        let preset := (opts.getD {}).chunk
        -- the draw is recovered from the id the real code produced
        let draw := (b64dec id1).getD []
        let (mo, mid) := chunkCall opts draw
        let shapeOk := preset != [] ||
          (draw.length == 16 && ((draw.getD 6 0).toNat / 16 == 4) && ((draw.getD 8 0).toNat / 64 == 2) && uuidMask draw == draw)
        let corr := if mid == id1 && renderOptions mo == oa then none
          else some s!"model id={toHex mid} opts={renderOptions mo} go id={toHex id1} opts={oa}"
        let fails :=
          (if id2 == id1 then [] else ["C12 second Chunk() call returned a different id"]) ++
          (if preset != [] && id1 != preset then ["C12 caller-supplied id not preserved"] else []) ++
          (if shapeOk then [] else ["C12 generated id is not base64 of a version-4 UUID"]) ++
          (if chB == id1 && chS == id1 then [] else ["C12 encoding does not carry the id as its chunk option"]) ++
          (if g == id1 then [] else ["C12 GetChunk of the encoding differs from the id"])
        some { corr := corr, fails := fails, branch := s!"cid.{kind}.{(st.take 1).toString}" }
    | _, _, _, _, _ => none
  | ["stress", _, _], d :: bad :: rest =>
    let pan := rest.headD "panics=0"
    some { corr := if pan == "panics=0" then none else some s!"model=[no panic] go=[{pan}]",
           fails := (if d == "dups=0" then [] else [s!"C12 duplicate ids under concurrency {d}"]) ++
                    (if bad == "bad=0" then [] else [s!"C12 malformed ids {bad}"]) ++
                    (if pan == "panics=0" then [] else [s!"C12 Chunk() called from several goroutines on different messages panicked ({pan}): ids are not generated safely under concurrency"]),
           branch := "cid.stress" }
  | _, _ => none
end FV.Driver

namespace FV.Driver
/-- split the trailing `chg= inchg= reuse= [first=]` tokens of a history observation -/
def splitHist (obs : List String) : List String × Nat × Nat :=
  let isMeta (t : String) := t.startsWith "chg=" || t.startsWith "inchg=" || t.startsWith "reuse=" || t.startsWith "first="
  let main := obs.filter (fun t => !isMeta t)
  let num (pfx : String) := ((obs.find? (·.startsWith pfx)).bind fun t => (t.drop pfx.length).toString.toNat?).getD 0
  (main, num "chg=", num "inchg=")

def field (pfx : String) (toks : List String) : Option String :=
  (toks.find? (·.startsWith pfx)).map fun t => (t.drop pfx.length).toString

/-- the event stream is exactly the given entries, one after another (judged by the specification parser) -/
def streamIsEntries (es : List (Instant × GoVal)) (stream : Bytes) : Bool :=
  match parseSeq es.length stream with
  | some (os, []) =>
    let want := es.map fun (t, v) => renderObj (.arr (.cons (.ext 0 (encodeET t)) (.cons v.toObj .nil)))
    (renderList os) == want
  | _ => false

/-- number of complete msgpack values that make up `b` exactly (`none`: `b` is not such a run) -/
def countValues : Nat → Bytes → Option Nat
  | 0, _ => none
  | f+1, b =>
    if b.isEmpty then some 0
    else match parse b with
      | some (_, r) => (countValues f r).map (· + 1)
      | none => none

/-- constructor / packer histories -/
def opHIST (op : String) (args obs : List String) : Option DecOut :=
  let (main, chg, inchg) := splitHist obs
  let f07 := (if chg == 0 then [] else [s!"C07 {chg} previously returned value(s) changed",
                s!"C03 {chg} message(s) / stream(s) built earlier no longer carry their entries after a later call"]) ++
             (if inchg == 0 then [] else [s!"C07 {inchg} caller-supplied argument(s) modified",
                s!"C03 the library wrote into {inchg} argument(s) the caller handed over (entries / bytes): the message is no longer built from exactly what the caller gave"])
  let mk (corr : Option String) (fails : List String) (br : String) : Option DecOut :=
    some { corr := corr, fails := fails ++ f07, branch := s!"hist.{op}.{br}" }
  match op, args with
  | "HRESET", _ => mk none [] "-"
  | "PRIME", _ => mk none [] "-"
  | "SCRIB", _ => mk none [] "-"
  | "PK", [_, tok] | "CP", [_, tok] =>
    match parseTok tok with
    | some (.node "L" ets) =>
      match treeEntries ets with
      | none => none
      | some es =>
        let menc := marshalPacked es
        match main with
        | ["err"] => mk (if menc.isNone then none else some "model encodes, go=err") [] "err"
        | _ =>
          let sizeOpt := s!"{es.length}"
          if op == "PK" then
            match (field "str=" main).bind parseHex, field "opt=" main with
            | some s, some o =>
              let corr := match menc with
                | some mb => if mb == s && o == s!"O({sizeOpt},-,-)" then none else some s!"model str={toHex mb} opt=O({sizeOpt},-,-)"
                | none => some "model=err"
              mk corr ((if streamIsEntries es s then [] else ["C03 event stream is not the concatenation of the entries", "C01 packed message does not carry exactly the given entries",
                        "C02 the PackedForward bin is not the concatenation of the entries' msgpack encodings",
                        "C19 the entries of the packed stream do not carry the instants they were given (the stream is not the concatenation of the entries' encodings)"]) ++
                       (if o == s!"O({sizeOpt},-,-)" then [] else ["C03 size option is not the number of entries"])) s!"{es.length}"
            | _, _ => none
          else
            match (field "gunzip=" main).bind parseHex, field "rest=" main, field "complete=" main, field "opt=" main with
            | some p, some rest, some comp, some o =>
              let corr := match menc with
                | some mb => if mb == p then none else some s!"model payload={toHex mb}"
                | none => some "model=err"
              mk corr ((if rest == "0" && comp == "true" then [] else ["C03 not exactly one complete gzip member", "C01 the compressed message cannot be read back: its stream is not a gzip stream"]) ++
                       (if streamIsEntries es p then [] else ["C03 decompressed stream is not the concatenation of the entries", "C01 compressed message does not carry exactly the given entries",
                          "C19 the entries of the compressed stream do not carry the instants they were given"]) ++
                       (if o == s!"O({sizeOpt},-,677a6970)" then [] else ["C03 options are not size + compressed=gzip"])) s!"{es.length}"
            | _, _, _, _ => none
    | _ => none
  | "CB", [_, hx] =>
    match parseHex hx with
    | none => none
    | some inp =>
      match main with
      | ["err"] => mk (some "go=err") ["C03 compression failed"] "err"
      | _ =>
        match (field "gunzip=" main).bind parseHex, field "rest=" main, field "complete=" main, field "opt=" main with
        | some p, some rest, some comp, some o =>
          mk (if p == inp then none else some "payload differs")
            ((if rest == "0" && comp == "true" then [] else ["C03 not exactly one complete gzip member"]) ++
             (if p == inp then [] else ["C03 decompressed bytes are not the caller's bytes"]) ++
             (if o == "O(-,-,677a6970)" then [] else ["C03 not flagged compressed=gzip"])) (if inp.length > 4096 then "big" else "small")
        | _, _, _, _ => none
  | "PB", [_, hx] =>
    match parseHex hx, (field "str=" main).bind parseHex, field "opt=" main with
    | some inp, some s, some o => mk (if s == inp && o == "N" then none else some "PB differs") [] "-"
    | _, _, _ => none
  | "MP", [tok] =>
    match parseTok tok with
    | some (.node "L" ets) =>
      match treeEntries ets with
      | none => none
      | some es =>
        let menc := marshalPacked es
        match main with
        | ["err"] => mk (if menc.isNone then none else some "model encodes, go=err") [] "err"
        | [hx] =>
          match parseHex hx with
          | some s =>
            mk (if menc == some s then none else some "MP bytes differ")
              (if streamIsEntries es s then [] else ["C03 packed bytes are not the concatenation of the entries", "C01 MarshalPacked output does not carry exactly the given entries"]) s!"{es.length}"
          | none => none
        | _ => none
    | _ => none
  | "UP", [hx] =>
    match parseHex hx with
    | none => none
    | some b =>
      let (es, okAll) := unmarshalPacked b
      let m := s!"{renderEntries es} left=0 {if okAll then "ok" else "err"}"
      let go := " ".intercalate main
      -- oracle from the specification parser alone: success means the stream is exactly a run of complete
      -- values, one per returned entry
      let goOk := main.getLast? == some "ok"
      let goCount := ((main.headD "").splitOn "[").headD "" |>.toNat?
      let specN := countValues (b.length + 1) b
      let f13 := if goOk && (specN.isNone || specN != goCount) then
          ["C13 UnmarshalPacked reported success although the stream is not exactly one complete value per returned entry",
           "C03 UnmarshalPacked reported success on a stream that is not a run of complete entries"] else []
      -- on a stream that is a run of well-formed entries the model's result is, by C03_packed / C19_roundtrip,
      -- exactly those entries with their instants: a different answer is a wrong answer
      let f03 := if okAll && m != go then ["C03 UnmarshalPacked did not return exactly the entries (instants, records) the stream holds"] else []
      let f10 := if (main.headD "") == "panic" then
          [s!"C10 UnmarshalPacked panicked ({" ".intercalate (main.drop 1)}) on a {b.length}-byte stream: every input must yield entries or an error"] else []
      mk (if m == go then none else some s!"model=[{m}] go=[{go}]") (f13 ++ f03 ++ f10) (if okAll then "ok" else "err")
  | "MM", _ => mk none [] "-"
  | "GCH", [hx] =>
    match opCHUNK ["h", hx] main with
    | some d => mk d.corr d.fails "-"
    | none => none
  | _, _ => none
end FV.Driver

namespace FV.Driver
/-- options a constructor leaves in a new message (two entries; a 12-byte stream for the FromBytes ones) -/
def ctorOptions : String → Option (Option Options)
  | "NM" | "NX" | "NB" => some none
  | "NF" | "NP" => some (some { size := some 2 })
  | "NC" => some (some { size := some 2, compressed := vGzip })
  | "ND" => some (some { compressed := vGzip })
  | _ => none

/-- `CIDS ctor:action … => before|id|after … final=…`: several messages alive in one process -/
def opCIDS (args obs : List String) : Option DecOut := do
  let fin ← obs.getLast?
  let per := obs.dropLast
  if per.length != args.length || !fin.startsWith "final=" then none else
  let finals := ((fin.drop 6).toString.splitOn ",")
  let rows := (args.zip per).zip finals
  let step (acc : List String × List String × List Bytes) (row : (String × String) × String) :
      List String × List String × List Bytes :=
    let (corr, fails, gen) := acc
    let ((spec, o), finId) := row
    let k := (spec.take 2).toString; let act := (spec.drop 3).toString
    match ctorOptions k, o.splitOn "|" with
    | some base, [before, idh, after] =>
      let id := (parseHex idh).getD []
      let c1 := if renderOptions base == before then [] else [s!"{k}: new message has options {before}, model {renderOptions base}"]
      if act == "n" then
        (corr ++ c1 ++ (if after == before then [] else [s!"{k}: options changed without a call"]),
         fails ++ (if finId == "-" || finId == "" then [] else [s!"C12 {k}: a message nobody assigned an id to carries {finId}"]), gen)
      else
        -- act "x": the random source failed once before the id was drawn; afterwards the message is like any other
        let preset : Bytes := if act.startsWith "p" then (parseHex (act.drop 1).toString).getD [] else []
        let opts0 : Option Options := if preset.isEmpty then base else some { (base.getD {}) with chunk := preset }
        let draw := (b64dec id).getD []
        let (mo, mid) := chunkCall opts0 draw
        let c2 := if mid == id && renderOptions mo == after then [] else [s!"{k}: model id={toHex mid} opts={renderOptions mo} go id={idh} opts={after}"]
        let shapeOk := !preset.isEmpty || (draw.length == 16 && uuidMask draw == draw)
        let f :=
          (if !preset.isEmpty && id != preset then [s!"C12 {k}: caller-supplied id not preserved"] else []) ++
          (if shapeOk then [] else [s!"C12 {k}: generated id is not base64 of a version-4 UUID"]) ++
          (if preset.isEmpty && gen.contains id then [s!"C12 {k}: generated id coincides with the id of another message"] else []) ++
          (if finId == idh then [] else [s!"C12 {k}: id changed after it was assigned ({idh} -> {finId})"]) ++
          -- asking for the id adds the chunk option and nothing else: size / compressed stay what the constructor set
          (if mid == id && renderOptions mo != after then
            [s!"C03 {k}: asking the message for its chunk id changed its other options ({before} -> {after}, expected {renderOptions mo}): size / compressed no longer describe the event stream",
             s!"C01 {k}: after Chunk() the message no longer carries the options it was built with ({before} -> {after}): what a receiver decodes is not what the caller built",
             s!"C02 {k}: after Chunk() the option map is {after}, not the constructor's options plus the chunk ({renderOptions mo})",
             s!"C12 {k}: assigning the id rewrote the option map ({before} -> {after})"] else [])
        (corr ++ c1 ++ c2, fails ++ f, if preset.isEmpty then id :: gen else gen)
    | _, _ => (corr ++ [s!"bad row {spec} {o}"], fails, gen)
  let (corr, fails, _) := rows.foldl step ([], [], [])
  pure { corr := if corr.isEmpty then none else some (" || ".intercalate corr), fails := fails,
         branch := s!"cids.{args.length}" }
end FV.Driver
