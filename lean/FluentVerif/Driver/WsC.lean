import FluentVerif.Driver.Tcp
import FluentVerif.Client.Ws
/-! driver for `WSEQ`: operation sequences on the websocket client -/
namespace FV.Driver
open FV.WsC

def frameStr (f : Nat × Bytes) : String := s!"{f.1}:{toHex f.2}"

/-- the observation the harness prints after an op: per connection the frames written during the op
and the number of underlying closes so far, then the number of successful dials -/
def wsSnapshot (before after : St) : String :=
  let parts := (List.range after.conns.length).map fun i =>
    let c := (after.conns[i]?).getD {}
    let old := (before.conns[i]?).map (·.frames.length) |>.getD 0
    s!"c{i};{",".intercalate ((c.frames.drop old).map frameStr)}|{c.closes}"
  ";".intercalate (parts ++ ["dials", s!"{after.conns.length}"])

def wsOutStr : Out → String
  | .ok => "ok" | .err => "err" | .none => "none" | .ended => "ended"

def parseWsOp (t : Tree) : Option Op :=
  match t with
  | .node "CON" [.atom d, .atom n] => some (.connect (d == "ok") (n == "ok"))
  | .atom "DIS" => some .disconnect
  | .node "DIS" [.atom _] => some .disconnect      -- `DIS(silent)`: the peer does not answer the close frame; the same step for the model
  | .node "REC" [.atom d, .atom n] => some (.reconnect (d == "ok") (n == "ok"))
  -- third atom `abn`: the replaced session's peer drops the connection on the close frame; the same step for the model
  | .node "REC" [.atom d, .atom n, .atom _] => some (.reconnect (d == "ok") (n == "ok"))
  | .node "RAW" [b, .atom w] => (treeHex b).map fun b => .sendRaw b (w != "-")
  | .node "SND" [m, .atom w] => (encodeWithChunk m false []).map fun e => .send e (w != "-")
  | .node "LEND" [.atom k] =>
    some (.listenerEnds (if k == "err" then .transportErr else if k == "abn" then .abnormal else if k == "away" then .otherCode else .normal))
  | _ => none

structure WsAcc where
  st : St := {}
  corr : List String := []
  fails : List String := []
  branches : List String := []
  -- oracle state, from the observations only
  stickyFrom : Option Nat := none      -- a listener of the current session ended with an error
  freshRec : Bool := false             -- the last lifecycle event was a successful Reconnect (nothing since but sends)
  noSession : Bool := true             -- no session can exist: start, after Disconnect, after a failed Reconnect
  dials : Nat := 0                     -- successful dials so far, as the harness counted them

def opWSEQ (args obs : List String) : Option DecOut :=
  if args.length != obs.length then
    some { corr := some "sequence did not complete", fails := ["C17 hang"], branch := "wseq.hang" }
  else
  let step1 (acc : WsAcc) (p : String × String) : WsAcc :=
    match parseTok p.1, parseTok p.2 with
    | some opT, some (.node "O" [.atom res, .node "X" xs]) =>
      let opName := match opT with | .node n _ => n | .atom a => a
      match parseWsOp opT with
      | none => { acc with corr := acc.corr ++ [s!"unparsable op {p.1}"] }
      | some op =>
        let (st', out) := step acc.st op
        -- `DIS(silent)`: the close handshake is not answered, `Close` gives up at its deadline and reports that; the state is the model's
        let out := match opT, acc.st.session with
          | .node "DIS" [.atom "silent"], some i => if isOpen acc.st i then Out.err else out
          | _, _ => out
        -- write-fault kind `z`: the peer's normal closure reaches the reader while the frame write is failing — for the
        -- model the failing send followed by the listener's normal end
        let endedInWrite := res.endsWith "+ended"
        let res := if endedInWrite then (res.dropRight 6) else res
        let st' := if endedInWrite then (step st' (.listenerEnds .normal)).1 else st'
        let want := s!"{wsOutStr out};{wsSnapshot acc.st st'}"
        let goSnap := ";".intercalate (xs.filterMap atomStr)
        let go := s!"{res};{goSnap}"
        let corr := if want == go then [] else [s!"{opName}: model=({want}) go=({go})"]
        -- ---- oracles on what the real client did ----
        let goDials : Nat := (match (xs.filterMap atomStr).reverse with | n :: _ => n.toNat? | [] => none).getD acc.dials
        let fPanic := if res == "panic" then [s!"C17 panic in {opName}"] else []
        -- frames written during this op, over all connections: "<type>:<hex>" items
        let newFrames : List String := (xs.filterMap atomStr).filter (fun a => a.contains '|') |>.map (fun a => (a.splitOn "|").headD "")
          |>.filter (· ≠ "") |>.flatMap (·.splitOn ",")
        let dataFrames := newFrames.filter (·.startsWith "2:")
        let closeFrames := newFrames.filter (·.startsWith "8:")
        let expectPayload : Option Bytes := match op with
          | .send (some e) _ => some e
          | .sendRaw b _ => some b
          | _ => none
        let isSend := opName == "SND" || opName == "RAW"
        let f17 :=
          (if isSend && res == "ok" then
             (match expectPayload with
              | some e => if dataFrames == [s!"2:{toHex e}"] then [] else [s!"C17 successful send did not hand the connection exactly one frame with the complete encoding (frames: {dataFrames.length})", "C09 websocket send reported success without one complete frame"]
              | none => ["C17 an unencodable message was reported as sent", "C09 unencodable message reported as success (websocket)"])
           else []) ++
          (if isSend && res != "ok" && !dataFrames.isEmpty && (match op with | .send _ true => false | .sendRaw _ true => false | _ => true) then
             ["C17 a failed send wrote a data frame"] else []) ++
          (if isSend && (match op with | .send _ true => true | .sendRaw _ true => true | _ => false) && res == "ok" then
             ["C09 a failed frame write was reported as success by the websocket client", "C17 a failed frame write was reported as success"] else []) ++
          (if !isSend && !dataFrames.isEmpty then [s!"C17 {opName} wrote a data frame"] else []) ++
          (if closeFrames.length > 1 then ["C15 more than one close frame in one operation"] else []) ++
          -- sticky error: after the listener ended with an error, sends fail until a successful Reconnect
          (match acc.stickyFrom with
           | some _ => if isSend && res == "ok" then ["C17 send succeeded although the session's reader had ended with an error"] else []
           | none => []) ++
          -- no live session: sends fail
          (if isSend && res == "ok" && acc.st.session.isNone then ["C17 send without a session succeeded"] else []) ++
          -- … and a session whose connection has been closed (by the peer's closure, normal or not, or by a failure)
          -- is not live either
          (if isSend && res == "ok" && (match acc.st.session with
               | some i => (acc.st.conns[i]?).map (·.closed) == some true
               | none => false) then
             ["C17 send succeeded on a session whose connection is closed (the peer closed it or the reader ended): sends without a live session must fail"] else []) ++
          (if opName == "CON" && acc.st.session.isSome && (res == "ok" || st'.conns.length != acc.st.conns.length) then
             ["C17 Connect on an active session did not fail without dialing"] else []) ++
          -- a successful Reconnect clears the sticky error: a healthy send right after it succeeds
          (if acc.freshRec && isSend && res != "ok" && expectPayload.isSome &&
              (match op with | .send _ false => true | .sendRaw _ false => true | _ => false) then
             ["C17 a send failed right after a successful Reconnect although nothing was wrong with it (sticky error not cleared?)"] else []) ++
          -- a failed Reconnect (and a Disconnect) leave no session behind: the next Connect has to dial
          (if opName == "CON" && acc.noSession && (match op with | .connect true _ => true | _ => false) && goDials == acc.dials then
             ["C17 no session can exist (start / Disconnect / failed Reconnect) but Connect was refused without dialing: a session was left behind"] else [])
        let freshRec' : Bool :=
          match opName, res with
          | "REC", "ok" => true
          | "SND", _ => acc.freshRec && (match op with | .send _ false => true | _ => false)
          | "RAW", _ => acc.freshRec && (match op with | .sendRaw _ false => true | _ => false)
          | _, _ => false
        let noSession' : Bool :=
          match opName, res with
          | "CON", "ok" => false
          | "REC", "ok" => false
          | "REC", _ => true
          | "DIS", _ => true
          | _, _ => acc.noSession
        let sticky' : Option Nat :=
          match opName, res with
          | "LEND", "ended" => (match opT with | .node _ [.atom "norm"] => acc.stickyFrom | _ => some 0)
          | "REC", "ok" => none
          | _, _ => acc.stickyFrom
        { acc with st := st', corr := acc.corr ++ corr, fails := acc.fails ++ fPanic ++ f17, stickyFrom := sticky',
                   noSession := noSession', dials := goDials, freshRec := freshRec',
                   branches := acc.branches ++ [s!"{opName}.{res}"] }
    | _, _ => { acc with corr := acc.corr ++ [s!"unparsable observation for {p.1}"] }
  let acc := (args.zip obs).foldl step1 {}
  some { corr := if acc.corr.isEmpty then none else some (" || ".intercalate acc.corr),
         fails := acc.fails.eraseDups,
         branch := "wseq." ++ ",".intercalate (acc.branches.eraseDups.take 6) }

end FV.Driver

namespace FV.Driver
/-- `WC scenario n listen peer seed => res=… frames=… closes=… closed=… reverted=… listen=… extra=… maxw=… maxr=… maxms=…` -/
def opWC (args obs : List String) : Option DecOut :=
  match args with
  | [scen, ns, ls, peer, _] =>
    -- severtmo: the transport failure is an expired read deadline; a failure like any other
    let peer := if peer == "severtmo" then "sever" else peer
    let n := ns.toNat?.getD 0
    let listen := ls == "t"
    let all := " ".intercalate obs
    if obs.headD "" == "hang" || (obs.headD "").startsWith "crash" then
      some { corr := some s!"go=[{all}]",
             fails := [s!"C15 {scen} n={n} listen={ls} peer={peer}: {all}"], branch := s!"wc.{scen}.crash" }
    else
    let res := ((field "res=" obs).getD "").splitOn "," |>.filter (· ≠ "")
    let frames := ((field "frames=" obs).bind String.toNat?).getD 99
    let closes := ((field "closes=" obs).bind String.toNat?).getD 99
    let closed := (field "closed=" obs) == some "true"
    let reverted := (field "reverted=" obs) == some "true"
    let lres := (field "listen=" obs).getD "?"
    let extra := (field "extra=" obs).getD ""
    let maxw := ((field "maxw=" obs).bind String.toNat?).getD 99
    let maxr := ((field "maxr=" obs).bind String.toNat?).getD 99
    let maxms := ((field "maxms=" obs).bind String.toNat?).getD 99999
    let leak := ((field "leak=" obs).bind String.toNat?).getD 99
    -- logclose: one Close from start to end while Listen is at its "listening" log line; judged on the statement alone
    -- (Closed() true and never reverting, one underlying close, at most one frame, no leak; Listen's result is either
    -- nil or the error of reading from the closed connection)
    -- listen3 / handlerpanic: a read loop is still reading when another Listen arrives; judged on C16's statement alone
    if scen == "listen3" || scen == "handlerpanic" then
      let f :=
        (if extra == "already" then [] else [s!"C16 a Listen call was not refused ({extra}) although a read loop was reading the connection ({scen})"]) ++
        (if maxr ≤ 1 then [] else [s!"C16 {maxr} goroutines inside the underlying ReadMessage at once"]) ++
        (if maxw ≤ 1 then [] else [s!"C16 {maxw} goroutines inside the underlying WriteMessage at once"])
      some { corr := if f.isEmpty then none else some s!"model=(extra=already maxr=1) go=({all})", fails := f, branch := s!"wc.{scen}" }
    else
    if scen == "logclose" then
      let f :=
        (if res == ["nil"] then [] else [s!"C15 a single Close call that ran while Listen was starting returned {res}"]) ++
        (if closed && !reverted then [] else ["C15 Closed() is false after closing or reverted to false: a Listen that was starting while Close ran put the state back"]) ++
        (if closes == 1 then [] else [s!"C15 underlying connection closed {closes} times"]) ++
        (if frames ≤ 1 then [] else [s!"C15 {frames} close frames written"]) ++
        (if lres == "hang" then ["C15 Listen did not return after the connection was closed"] else []) ++
        (if leak == 0 then [] else [s!"C15 {leak} reader goroutine(s) of the library still alive after the connection was closed and every call returned"]) ++
        (if maxr ≤ 1 then [] else [s!"C16 {maxr} goroutines inside the underlying ReadMessage at once"])
      some { corr := if f.isEmpty then none else some s!"model=(res=[nil] closes=1 closed=true reverted=false) go=({all})",
             fails := f, branch := s!"wc.logclose.{peer}" }
    else
    -- ---- oracle: the statement of C15 / C16 on what the real connection did ----
    let proceeding := res.filter (· ≠ "multiple")
    let f15 :=
      (if proceeding.length ≤ 1 then [] else [s!"C15 {proceeding.length} close calls proceeded"]) ++
      (if frames ≤ 1 then [] else [s!"C15 {frames} close frames written"]) ++
      (if closes == 1 then [] else [s!"C15 underlying connection closed {closes} times"]) ++
      (if closed && !reverted then [] else ["C15 Closed() is false after closing or reverted to false"]) ++
      (if maxms ≤ 150 + 1500 then [] else [s!"C15 a close call took {maxms} ms with a 150 ms close deadline"]) ++
      (if lres == "hang" then ["C15 Listen did not return after the connection was closed"] else []) ++
      -- Listen's result: nil after a normal closing handshake, the error after any other peer closure or a transport failure
      (if listen && scen == "closers" && peer == "first1001" && lres != "close1001" then
         [s!"C15 Listen returned {lres} after the peer closed with code 1001 (the close error is expected)"] else []) ++
      (if listen && scen == "closers" && peer == "sever" && lres == "nil" then
         ["C15 Listen returned nil after a transport failure"] else []) ++
      (if listen && scen == "closers" && (peer == "echo" || peer == "silent" || peer == "silentslow" || peer == "first1000") && lres != "nil" then
         [s!"C15 Listen returned {lres} after a normal closure (nil is expected)"] else []) ++
      (if leak == 0 then [] else [s!"C15 {leak} reader goroutine(s) of the library still alive after the connection was closed and every call returned"]) ++
      (if scen == "listenclose" && extra != "already" then
         [s!"C16 a Listen call issued while a Close was waiting for the peer was not refused ({extra}): a second reader"] else []) ++
      (if scen == "listeners" && ((extra.splitOn "+").filter (· ≠ "already")).length > 1 then
         ["C16 more than one concurrent Listen call was admitted"] else []) ++
      (if (extra.splitOn "hang").length > 1 then ["C15 a later Listen call did not return"] else [])
    let f16 :=
      (if maxw ≤ 1 then [] else [s!"C16 {maxw} goroutines inside the underlying WriteMessage at once"]) ++
      (if maxr ≤ 1 then [] else [s!"C16 {maxr} goroutines inside the underlying ReadMessage at once"])
    -- ---- expectation derived from the model (deterministic parts of the scenario) ----
    let listen := listen || scen == "listeners" || scen == "handler" || scen == "errwriters" || scen == "listenclose"
    -- with the default ReadHandler a peer closure / transport error closes the connection from inside
    let internalWins := scen != "errwriters" && listen && (peer == "first1000" || peer == "first1001" || peer == "sever")
    let winner :=
      if peer == "echo" then "nil"
      else if peer == "silent" || peer == "silentslow" then (if listen then "deadline" else "nil")
      else if peer == "writefail" then "other"
      else "nil"
    let nClosers := if scen == "writers" then 2 else if scen == "relisten" || scen == "listeners" || scen == "handler" || scen == "errwriters" || scen == "listenclose" then 1 else n
    let wantRes : List String :=
      if scen == "relisten" then [if peer == "silent" then "deadline" else "nil"]
      else if internalWins then List.replicate nClosers "multiple"
      else (List.replicate (nClosers - 1) "multiple") ++ [winner]
    let wantFrames := if peer == "writefail" then 0 else if peer == "sever" && listen then 0 else 1
    let wantListen :=
      if scen == "errwriters" then (if peer == "sever" then "neterr" else "nil")
      else if scen == "listeners" then "-"
      else if scen == "handler" then (if n ≥ 1 then "other" else "nil")
      else if scen == "relisten" then (if n == 0 then "nil" else "-")
      else if !listen then "-"
      else if peer == "first1001" then "close1001" else if peer == "sever" then "neterr" else "nil"
    let wantExtra :=
      if scen == "listenclose" then "already"
      else if scen == "listeners" then "+".intercalate (List.replicate (n - 1) "already" ++ ["nil"])
      else if scen == "handler" then s!"handled{n}"
      else if scen != "relisten" then "" else if n == 0 then "already" else "+".intercalate (List.replicate (n + 1) "nil")
    let sortS (l : List String) := l.toArray.qsort (· < ·) |>.toList
    let corr :=
      -- when the peer closed first (or the transport failed) under a running Listen, the library's own handler and
      -- the callers race for the close gate: the closers model allows either to win
      let altRes : List String := (List.replicate (nClosers - 1) "multiple") ++ ["nil"]
      let resOk := sortS res == sortS wantRes || (internalWins && scen != "relisten" && sortS res == sortS altRes)
      -- Listen again right after closure: the earlier read loop may still be clearing its Listening mark
      -- (Listen returns as soon as the loop closes its channel), so "already listening" is as good as nil
      let extraOk := extra == wantExtra ||
        (scen == "relisten" && n ≥ 1 &&
          (match extra.splitOn "+" with
           | first :: more => first == "nil" && more.length == n && more.all (fun x => x == "nil" || x == "already")
           | [] => false))
      if resOk && frames == wantFrames && lres == wantListen && extraOk then none
      else some s!"model=(res={sortS wantRes} frames={wantFrames} listen={wantListen} extra={wantExtra}) go=({all})"
    some { corr := corr, fails := f15 ++ f16, branch := s!"wc.{scen}.{peer}.{ls}" }
  | _ => none
end FV.Driver
