import FluentVerif.Driver.Tcp
import FluentVerif.Client.Ws
/-! driver for `WSEQ`: operation sequences on the websocket client -/
namespace FV.Driver
open FV.WsC

def frameStr (f : Nat × Bytes) : String := s!"{f.1}:{toHex f.2}"

/-- the observation the harness prints after an op: per connection the frames written during the op
and the number of underlying closes so far, then the number of successful dials -/
def wsSnapshot (before after : St) : String :=
  let parts := (List.range after.conns.length).map fun i =>
    let c := (after.conns[i]?).getD {}
    let old := (before.conns[i]?).map (·.frames.length) |>.getD 0
    s!"c{i};{",".intercalate ((c.frames.drop old).map frameStr)}|{c.closes}"
  ";".intercalate (parts ++ ["dials", s!"{after.conns.length}"])

def wsOutStr : Out → String
  | .ok => "ok" | .err => "err" | .none => "none" | .ended => "ended"

def parseWsOp (t : Tree) : Option Op :=
  match t with
  | .node "CON" [.atom d, .atom n] => some (.connect (d == "ok") (n == "ok"))
  | .atom "DIS" => some .disconnect
  | .node "REC" [.atom d, .atom n] => some (.reconnect (d == "ok") (n == "ok"))
  | .node "RAW" [b, .atom w] => (treeHex b).map fun b => .sendRaw b (w == "f")
  | .node "SND" [m, .atom w] => (encodeWithChunk m false []).map fun e => .send e (w == "f")
  | .node "LEND" [.atom k] =>
    some (.listenerEnds (if k == "err" then .transportErr else if k == "abn" then .abnormal else if k == "away" then .otherCode else .normal))
  | _ => none

structure WsAcc where
  st : St := {}
  corr : List String := []
  fails : List String := []
  branches : List String := []
  -- oracle state, from the observations only
  stickyFrom : Option Nat := none      -- a listener of the current session ended with an error

def opWSEQ (args obs : List String) : Option DecOut :=
  if args.length != obs.length then
    some { corr := some "sequence did not complete", fails := ["C17 hang"], branch := "wseq.hang" }
  else
  let step1 (acc : WsAcc) (p : String × String) : WsAcc :=
    match parseTok p.1, parseTok p.2 with
    | some opT, some (.node "O" [.atom res, .node "X" xs]) =>
      let opName := match opT with | .node n _ => n | .atom a => a
      match parseWsOp opT with
      | none => { acc with corr := acc.corr ++ [s!"unparsable op {p.1}"] }
      | some op =>
        let (st', out) := step acc.st op
        let want := s!"{wsOutStr out};{wsSnapshot acc.st st'}"
        let goSnap := ";".intercalate (xs.filterMap atomStr)
        let go := s!"{res};{goSnap}"
        let corr := if want == go then [] else [s!"{opName}: model=({want}) go=({go})"]
        -- ---- oracles on what the real client did ----
        let fPanic := if res == "panic" then [s!"C17 panic in {opName}"] else []
        -- frames written during this op, over all connections: "<type>:<hex>" items
        let newFrames : List String := (xs.filterMap atomStr).filter (fun a => a.contains '|') |>.map (fun a => (a.splitOn "|").headD "")
          |>.filter (· ≠ "") |>.flatMap (·.splitOn ",")
        let dataFrames := newFrames.filter (·.startsWith "2:")
        let closeFrames := newFrames.filter (·.startsWith "8:")
        let expectPayload : Option Bytes := match op with
          | .send (some e) _ => some e
          | .sendRaw b _ => some b
          | _ => none
        let isSend := opName == "SND" || opName == "RAW"
        let f17 :=
          (if isSend && res == "ok" then
             (match expectPayload with
              | some e => if dataFrames == [s!"2:{toHex e}"] then [] else [s!"C17 successful send did not hand the connection exactly one frame with the complete encoding (frames: {dataFrames.length})", "C09 websocket send reported success without one complete frame"]
              | none => ["C17 an unencodable message was reported as sent", "C09 unencodable message reported as success (websocket)"])
           else []) ++
          (if isSend && res != "ok" && !dataFrames.isEmpty && (match op with | .send _ true => false | .sendRaw _ true => false | _ => true) then
             ["C17 a failed send wrote a data frame"] else []) ++
          (if isSend && (match op with | .send _ true => true | .sendRaw _ true => true | _ => false) && res == "ok" then
             ["C09 a failed frame write was reported as success by the websocket client", "C17 a failed frame write was reported as success"] else []) ++
          (if !isSend && !dataFrames.isEmpty then [s!"C17 {opName} wrote a data frame"] else []) ++
          (if closeFrames.length > 1 then ["C15 more than one close frame in one operation"] else []) ++
          -- sticky error: after the listener ended with an error, sends fail until a successful Reconnect
          (match acc.stickyFrom with
           | some _ => if isSend && res == "ok" then ["C17 send succeeded although the session's reader had ended with an error"] else []
           | none => []) ++
          -- no live session: sends fail
          (if isSend && res == "ok" && acc.st.session.isNone then ["C17 send without a session succeeded"] else []) ++
          (if opName == "CON" && acc.st.session.isSome && (res == "ok" || st'.conns.length != acc.st.conns.length) then
             ["C17 Connect on an active session did not fail without dialing"] else []) ++
          (if opName == "REC" && res != "ok" && st'.session.isSome then [] else [])
        let sticky' : Option Nat :=
          match opName, res with
          | "LEND", "ended" => (match opT with | .node _ [.atom "norm"] => acc.stickyFrom | _ => some 0)
          | "REC", "ok" => none
          | _, _ => acc.stickyFrom
        { acc with st := st', corr := acc.corr ++ corr, fails := acc.fails ++ fPanic ++ f17, stickyFrom := sticky',
                   branches := acc.branches ++ [s!"{opName}.{res}"] }
    | _, _ => { acc with corr := acc.corr ++ [s!"unparsable observation for {p.1}"] }
  let acc := (args.zip obs).foldl step1 {}
  some { corr := if acc.corr.isEmpty then none else some (" || ".intercalate acc.corr),
         fails := acc.fails.eraseDups,
         branch := "wseq." ++ ",".intercalate (acc.branches.eraseDups.take 6) }

end FV.Driver
