import FluentVerif.Conc.Lockset
/-! # Critical sections are uninterrupted in the execution log

`check_sound` / `critical_section_exclusive` speak about one reachable state.  C08 ("the wire carries
whole messages") and C16 ("frames are written one at a time") are statements about *sequences* of
events, so this file adds the execution log of a schedule — which goroutine executed which node, in
order — and proves, for every program that passes `check` and every schedule:

* `held_log`: from a state in which goroutine `t` holds lock `l` exclusively, and for as long as `t`
  itself does not execute `unlock l`, every executed node whose annotation demands `l` exclusively is
  executed by `t`, and `t` still holds `l` at the end.  Nobody else can release `l` (a node that
  unlocks `l` demands `l`), nobody else can acquire it.
* `shared_log`: likewise, while `t` holds `l` shared and does not execute `runlock l`, no node whose
  annotation demands `l` exclusively is executed at all.

The instantiations on the regenerated graphs are in `Tie/Conc.lean`. -/
namespace FV.Lk

/-- the node a scheduler decision executes, if it executes one (`none`: it starts a call, the goroutine is
blocked, or the chosen successor does not exist and nothing happens) -/
def executes (P : Prog) (s : State) (t : Tid) (choice : Nat) : Option Nat :=
  match s.pc t with
  | none => none
  | some pc =>
    match P.code[pc]? with
    | none => none
    | some i =>
      match lockStep s.locks t i.op with
      | none => none
      | some _ =>
        match i.op with
        | .ret => some pc
        | _ => match i.succ[choice]? with
               | some _ => some pc
               | none => none

/-- the execution log of a schedule from state `s`: (goroutine, node) per executed node, in order -/
def log (P : Prog) (s : State) : List (Tid × Nat) → List (Tid × Nat)
  | [] => []
  | (t, c) :: r =>
    (match executes P s t c with
      | some pc => [(t, pc)]
      | none => []) ++ log P (step P s t c) r

def opAt (P : Prog) (pc : Nat) : Option Op := (P.code[pc]?).map (·.op)

theorem run_append (P : Prog) (s : State) (A B : List (Tid × Nat)) :
    run P s (A ++ B) = run P (run P s A) B := by
  induction A generalizing s with
  | nil => rfl
  | cons x xs ih => obtain ⟨t, c⟩ := x; simp only [List.cons_append, run]; exact ih _

theorem log_append (P : Prog) (s : State) (A B : List (Tid × Nat)) :
    log P s (A ++ B) = log P s A ++ log P (run P s A) B := by
  induction A generalizing s with
  | nil => rfl
  | cons x xs ih =>
    obtain ⟨t, c⟩ := x
    simp only [List.cons_append, log, run, ih, List.append_assoc]

/-- a step that executes nothing leaves the lock state alone -/
theorem step_locks_of_not_executes {P : Prog} {s : State} {t : Tid} {c : Nat}
    (h : executes P s t c = none) : (step P s t c).locks = s.locks := by
  unfold executes at h
  unfold step
  split
  · rfl
  · next pc hpc =>
    simp only [hpc] at h
    split
    · rfl
    · next i hi =>
      simp only [hi] at h
      split
      · rfl
      · next L' hL =>
        simp only [hL] at h
        split
        · next hop => simp [hop] at h
        · next hop =>
          split
          · next n hn =>
            split at h
            · next hr => exact absurd hr (by intro e; exact hop e)
            · simp [hn] at h
          · rfl

/-- what an executing step does to the lock state -/
theorem step_locks_of_executes {P : Prog} {s : State} {t : Tid} {c pc : Nat}
    (h : executes P s t c = some pc) :
    s.pc t = some pc ∧ ∃ i L', P.code[pc]? = some i ∧ lockStep s.locks t i.op = some L' ∧ (step P s t c).locks = L' := by
  unfold executes at h
  unfold step
  split at h
  · cases h
  · next pc' hpc =>
    split at h
    · cases h
    · next i hi =>
      split at h
      · cases h
      · next L' hL =>
        have hpceq : pc' = pc := by
          split at h
          · cases h; rfl
          · split at h
            · cases h; rfl
            · cases h
        subst hpceq
        refine ⟨hpc, i, L', hi, hL, ?_⟩
        simp only [hpc, hi, hL]
        split
        · rfl
        · next hop =>
          split
          · rfl
          · next hn =>
            split at h
            · next hr => exact absurd hr (by intro e; exact hop e)
            · simp [hn] at h

/-- a node that unlocks `l` demands `l` exclusively (from `check`) -/
theorem unlock_demands {P : Prog} (hc : check P = true) {pc : Nat} (hpc : pc < P.code.length) {i : Instr} {l : Lock}
    (hi : P.code[pc]? = some i) (hop : i.op = .unlock l) :
    ∃ ls, P.annot[pc]? = some ls ∧ (l, Mode.ex) ∈ ls := by
  obtain ⟨i', ls, ls', hi', hl, hp, _⟩ := checkAt_spec (check_at hc hpc)
  rw [hi] at hi'; cases hi'
  rw [hop] at hp
  simp only [post] at hp
  split at hp
  · next hh => exact ⟨ls, hl, holdsEx_mem hh⟩
  · cases hp

/-- one step preserves "`t` holds `l` exclusively" unless `t` itself executes `unlock l` -/
theorem exH_step (P : Prog) (hc : check P = true) (s : State)
    (hb : ∀ u pc, s.pc u = some pc → pc < P.code.length) (hI : Inv P s)
    (t : Tid) (l : Lock) (held : s.locks.exH l = some t) (u : Tid) (c : Nat)
    (hno : ∀ pc, executes P s u c = some pc → u = t → opAt P pc ≠ some (.unlock l)) :
    (step P s u c).locks.exH l = some t := by
  cases he : executes P s u c with
  | none => rw [step_locks_of_not_executes he]; exact held
  | some pc =>
    obtain ⟨hpc, i, L', hi, hL, hst⟩ := step_locks_of_executes he
    rw [hst]
    have hlt := hb u pc hpc
    cases hop : i.op with
    | lock l' =>
      rw [hop] at hL
      simp only [lockStep] at hL
      split at hL
      · next hfree =>
        cases hL
        by_cases e : l = l'
        · subst e; rw [held] at hfree; exact absurd hfree.1 (by simp)
        · simp [setEx, e, held]
      · cases hL
    | rlock l' =>
      rw [hop] at hL
      simp only [lockStep] at hL
      split at hL
      · cases hL; simp [setSh, held]
      · cases hL
    | unlock l' =>
      rw [hop] at hL
      simp only [lockStep] at hL
      cases hL
      by_cases e : l = l'
      · subst e
        obtain ⟨ls, hl, hm⟩ := unlock_demands hc hlt hi hop
        have own := hI.hex u pc ls l hpc hl hm
        rw [held] at own
        have hut : u = t := (Option.some.inj own).symm
        exact absurd (by simp [opAt, hi, hop]) (hno pc he hut)
      · simp [setEx, e, held]
    | runlock l' =>
      rw [hop] at hL
      simp only [lockStep] at hL
      cases hL; simp [setSh, held]
    | read v => rw [hop] at hL; simp only [lockStep] at hL; cases hL; exact held
    | write v => rw [hop] at hL; simp only [lockStep] at hL; cases hL; exact held
    | other => rw [hop] at hL; simp only [lockStep] at hL; cases hL; exact held
    | unknown => rw [hop] at hL; simp only [lockStep] at hL; cases hL; exact held
    | ret => rw [hop] at hL; simp only [lockStep] at hL; cases hL; exact held

/-- **a held lock stays held, and its sections stay one's own**: from a state where `t` holds `l`
exclusively, along any schedule in which `t` does not execute `unlock l`, every executed node whose
annotation demands `l` exclusively is executed by `t`, and `t` holds `l` at the end -/
theorem held_log (P : Prog) (hc : check P = true) (t : Tid) (l : Lock) :
    ∀ (B : List (Tid × Nat)) (s : State), (∀ u pc, s.pc u = some pc → pc < P.code.length) → Inv P s →
      s.locks.exH l = some t →
      (∀ e ∈ log P s B, e.1 = t → opAt P e.2 ≠ some (.unlock l)) →
      (∀ e ∈ log P s B, ∀ ls, P.annot[e.2]? = some ls → (l, Mode.ex) ∈ ls → e.1 = t) ∧
        (run P s B).locks.exH l = some t := by
  intro B
  induction B with
  | nil => intro s _ _ held _; exact ⟨(by intro e he; cases he), held⟩
  | cons x xs ih =>
    intro s hb hI held hno
    obtain ⟨u, c⟩ := x
    obtain ⟨hI', hb'⟩ := inv_step P hc s u c hb hI
    have held' : (step P s u c).locks.exH l = some t := by
      apply exH_step P hc s hb hI t l held u c
      intro pc he hut
      apply hno (u, pc) _ hut
      simp [log, he]
    have hno' : ∀ e ∈ log P (step P s u c) xs, e.1 = t → opAt P e.2 ≠ some (.unlock l) := by
      intro e he
      apply hno e
      simp only [log, List.mem_append]; exact Or.inr he
    obtain ⟨ih1, ih2⟩ := ih (step P s u c) hb' hI' held' hno'
    refine ⟨?_, ih2⟩
    intro e he ls hl hm
    simp only [log, List.mem_append] at he
    rcases he with he | he
    · cases hx : executes P s u c with
      | none => simp [hx] at he
      | some pc =>
        simp [hx] at he; subst he
        obtain ⟨hpc, _⟩ := step_locks_of_executes hx
        have own := hI.hex u pc ls l hpc hl hm
        rw [held] at own
        exact (Option.some.inj own).symm
    · exact ih1 e he ls hl hm

/-- one step preserves "`t` holds `l` shared" unless `t` itself executes `runlock l` -/
theorem shH_step (P : Prog) (s : State) (t : Tid) (l : Lock) (held : t ∈ s.locks.shH l) (u : Tid) (c : Nat)
    (hno : ∀ pc, executes P s u c = some pc → u = t → opAt P pc ≠ some (.runlock l)) :
    t ∈ (step P s u c).locks.shH l := by
  cases he : executes P s u c with
  | none => rw [step_locks_of_not_executes he]; exact held
  | some pc =>
    obtain ⟨hpc, i, L', hi, hL, hst⟩ := step_locks_of_executes he
    rw [hst]
    cases hop : i.op with
    | lock l' =>
      rw [hop] at hL; simp only [lockStep] at hL
      split at hL
      · cases hL; simp [setEx, held]
      · cases hL
    | rlock l' =>
      rw [hop] at hL; simp only [lockStep] at hL
      split at hL
      · cases hL
        by_cases e : l = l'
        · subst e; simp [setSh, held]
        · simp [setSh, e, held]
      · cases hL
    | unlock l' => rw [hop] at hL; simp only [lockStep] at hL; cases hL; simp [setEx, held]
    | runlock l' =>
      rw [hop] at hL; simp only [lockStep] at hL
      cases hL
      by_cases e : l = l'
      · subst e
        by_cases hut : u = t
        · exact absurd (by simp [opAt, hi, hop]) (hno pc he hut)
        · simp only [setSh, ite_true]
          exact (List.mem_erase_of_ne (Ne.symm hut)).2 held
      · simp [setSh, e, held]
    | read v => rw [hop] at hL; simp only [lockStep] at hL; cases hL; exact held
    | write v => rw [hop] at hL; simp only [lockStep] at hL; cases hL; exact held
    | other => rw [hop] at hL; simp only [lockStep] at hL; cases hL; exact held
    | unknown => rw [hop] at hL; simp only [lockStep] at hL; cases hL; exact held
    | ret => rw [hop] at hL; simp only [lockStep] at hL; cases hL; exact held

/-- **while a lock is held shared, nobody executes a node that demands it exclusively** -/
theorem shared_log (P : Prog) (hc : check P = true) (t : Tid) (l : Lock) :
    ∀ (B : List (Tid × Nat)) (s : State), (∀ u pc, s.pc u = some pc → pc < P.code.length) → Inv P s →
      t ∈ s.locks.shH l →
      (∀ e ∈ log P s B, e.1 = t → opAt P e.2 ≠ some (.runlock l)) →
      (∀ e ∈ log P s B, ∀ ls, P.annot[e.2]? = some ls → (l, Mode.ex) ∈ ls → False) ∧
        t ∈ (run P s B).locks.shH l := by
  intro B
  induction B with
  | nil => intro s _ _ held _; exact ⟨(by intro e he; cases he), held⟩
  | cons x xs ih =>
    intro s hb hI held hno
    obtain ⟨u, c⟩ := x
    obtain ⟨hI', hb'⟩ := inv_step P hc s u c hb hI
    have held' : t ∈ (step P s u c).locks.shH l := by
      apply shH_step P s t l held u c
      intro pc he hut
      apply hno (u, pc) _ hut
      simp [log, he]
    have hno' : ∀ e ∈ log P (step P s u c) xs, e.1 = t → opAt P e.2 ≠ some (.runlock l) := by
      intro e he
      apply hno e
      simp only [log, List.mem_append]; exact Or.inr he
    obtain ⟨ih1, ih2⟩ := ih (step P s u c) hb' hI' held' hno'
    refine ⟨?_, ih2⟩
    intro e he ls hl hm
    simp only [log, List.mem_append] at he
    rcases he with he | he
    · cases hx : executes P s u c with
      | none => simp [hx] at he
      | some pc =>
        simp [hx] at he; subst he
        obtain ⟨hpc, _⟩ := step_locks_of_executes hx
        have own := hI.hex u pc ls l hpc hl hm
        have := hI.wf l u own
        rw [this] at held; cases held
    · exact ih1 e he ls hl hm

/-- unpack `allUnder` at an access node -/
theorem allUnder_spec {P : Prog} {v : Var} {l l' : Lock} (h : allUnder P v l l' = true) {pc : Nat}
    (hpc : pc < P.code.length) {w : Bool} (ha : accessOf P pc = some (v, w)) :
    ∃ ls, P.annot[pc]? = some ls ∧ ((l, Mode.ex) ∈ ls ∨ (l', Mode.ex) ∈ ls) := by
  simp only [allUnder, List.all_eq_true] at h
  have hm : pc ∈ accessNodes P v := by
    simp only [accessNodes, List.mem_filter, List.mem_range]
    exact ⟨hpc, by simp [ha]⟩
  have := h pc hm
  split at this
  · next ls hl =>
    simp only [Bool.or_eq_true] at this
    exact ⟨ls, hl, this.elim (fun x => Or.inl (holdsEx_mem x)) (fun x => Or.inr (holdsEx_mem x))⟩
  · cases this

/-- every logged node is a node of the program -/
theorem log_bound (P : Prog) (hc : check P = true) :
    ∀ (B : List (Tid × Nat)) (s : State), (∀ u pc, s.pc u = some pc → pc < P.code.length) → Inv P s →
      ∀ e ∈ log P s B, e.2 < P.code.length := by
  intro B
  induction B with
  | nil => intro s _ _ e he; cases he
  | cons x xs ih =>
    intro s hb hI e he
    obtain ⟨u, c⟩ := x
    obtain ⟨hI', hb'⟩ := inv_step P hc s u c hb hI
    simp only [log, List.mem_append] at he
    rcases he with he | he
    · cases hx : executes P s u c with
      | none => simp [hx] at he
      | some pc =>
        simp [hx] at he; subst he
        obtain ⟨hpc, _⟩ := step_locks_of_executes hx
        exact hb u pc hpc
    · exact ih _ hb' hI' e he

/-- **a send-like section is uninterrupted**: variable `v` is accessed only under lock `l` or lock `l'`
exclusively (`allUnder`).  From any reachable state in which `t` holds `l` exclusively and `l'` shared,
and for as long as `t` executes neither `unlock l` nor `runlock l'`, every access to `v` in the log is
`t`'s own — under every schedule, for any number of goroutines. -/
theorem section_uninterrupted (P : Prog) (hc : check P = true) (v : Var) (l l' : Lock)
    (hall : allUnder P v l l' = true) (A B : List (Tid × Nat)) (t : Tid)
    (h1 : (run P init A).locks.exH l = some t) (h0 : t ∈ (run P init A).locks.shH l')
    (hno : ∀ e ∈ log P (run P init A) B, e.1 = t →
      opAt P e.2 ≠ some (.unlock l) ∧ opAt P e.2 ≠ some (.runlock l'))
    (e : Tid × Nat) (he : e ∈ log P (run P init A) B) (w : Bool) (ha : accessOf P e.2 = some (v, w)) :
    e.1 = t := by
  obtain ⟨hI, hb⟩ := inv_run P hc A init (by simp [init]) (inv_init P)
  have hlt := log_bound P hc B _ hb hI e he
  obtain ⟨ls, hl, hm⟩ := allUnder_spec hall hlt ha
  rcases hm with hm | hm
  · exact (held_log P hc t l B _ hb hI h1 (fun e he ht => (hno e he ht).1)).1 e he ls hl hm
  · exact ((shared_log P hc t l' B _ hb hI h0 (fun e he ht => (hno e he ht).2)).1 e he ls hl hm).elim

/-- the one-lock form: `v` is accessed only under `l` exclusively -/
theorem section_uninterrupted1 (P : Prog) (hc : check P = true) (v : Var) (l : Lock)
    (hall : allUnder P v l l = true) (A B : List (Tid × Nat)) (t : Tid)
    (h1 : (run P init A).locks.exH l = some t)
    (hno : ∀ e ∈ log P (run P init A) B, e.1 = t → opAt P e.2 ≠ some (.unlock l))
    (e : Tid × Nat) (he : e ∈ log P (run P init A) B) (w : Bool) (ha : accessOf P e.2 = some (v, w)) :
    e.1 = t := by
  obtain ⟨hI, hb⟩ := inv_run P hc A init (by simp [init]) (inv_init P)
  have hlt := log_bound P hc B _ hb hI e he
  obtain ⟨ls, hl, hm⟩ := allUnder_spec hall hlt ha
  have hm' : (l, Mode.ex) ∈ ls := hm.elim id id
  exact (held_log P hc t l B _ hb hI h1 hno).1 e he ls hl hm'

/-! ### non-vacuity on a two-node-section program: `lock 0; write 0; write 0; unlock 0; ret` -/

def secDemo : Prog :=
  { code := [⟨.lock 0, [1]⟩, ⟨.write 0, [2]⟩, ⟨.write 0, [3]⟩, ⟨.unlock 0, [4]⟩, ⟨.ret, []⟩],
    annot := [[], [(0, .ex)], [(0, .ex)], [(0, .ex)], []],
    policy := [{ var := 0, readAlts := [[(0, .sh)]], writeAlts := [[(0, .ex)]] }] }

theorem secDemo_ok : check secDemo = true := by decide
theorem secDemo_all : allUnder secDemo 0 0 0 = true := by decide

/-- goroutine 7 enters its section (start, lock); then 7 writes, goroutine 9 starts and tries the lock
(blocked: nothing logged), 7 writes again: the hypotheses hold and the log of the section is 7's alone -/
example : (run secDemo init [(7, 0), (7, 0)]).locks.exH 0 = some 7 ∧
    log secDemo (run secDemo init [(7, 0), (7, 0)]) [(7, 0), (9, 0), (9, 0), (7, 0)] = [(7, 1), (7, 2)] := by
  constructor <;> decide

end FV.Lk
