import FluentVerif.Conc.Lockset
/-! Hand-written access policies of the designated shared variables (lock and variable numbers as
in /verif/translator/main.go).  Locks: sessionLock 0, ackLock (the send mutex) 1, errLock 2,
closeLock 3, listenLock 4, writeLock 5, stateLock 6.  Variables: session 0, transport phase 1,
wire 2 (every use of the session's connection: writes, the ack read, deadline, close), err 3,
connState 4, wswrite 5 (the frame-writing methods of the underlying connection), wsread 6, listenGate 7,
closeGate 8. -/
namespace FV.Protect
open FV.Lk

/-- reads under ≥ shared, writes under exclusive `l` -/
def rw (v : Var) (l : Lock) : Policy :=
  { var := v, readAlts := [[(l, .sh)]], writeAlts := [[(l, .ex)]] }

/-- TCP client.  The wire is used either by a sender holding the send mutex (and the session lock
shared, so the session cannot be replaced under it) or by a lifecycle operation / the handshake
holding the session lock exclusively. -/
def clientPolicy : List Policy :=
  [rw 0 0, rw 1 0,
   { var := 2, readAlts := [[(1, .ex), (0, .sh)], [(0, .ex)]], writeAlts := [[(1, .ex), (0, .sh)], [(0, .ex)]] }]

def wsClientPolicy : List Policy := [rw 0 0, rw 3 2]

/-- websocket connection: the state bits under `stateLock`; every frame written under `writeLock`.
`ReadMessage` (6) is protected by the Listening test-and-set protocol, not by a lock: any access to
it is accepted here and its exclusivity is the invariant `C16_one_reader` of the `Ws.Conn` model. -/
def wsConnPolicy : List Policy :=
  [rw 4 6, { var := 5, readAlts := [[(5, .ex)]], writeAlts := [[(5, .ex)]] },
   { var := 6, readAlts := [[]], writeAlts := [] },
   -- the admission gate of `Listen` (test of the Listening bit and its setting): under `listenLock`
   { var := 7, readAlts := [[(4, .ex)]], writeAlts := [[(4, .ex)]] },
   -- the admission gate of `CloseWithMsg` (test of `Closed()` and clearing of the Open bit): under `closeLock`
   { var := 8, readAlts := [[(3, .ex)]], writeAlts := [[(3, .ex)]] }]

theorem clientPolicy_ok : policyOK { code := [], annot := [], policy := clientPolicy } = true := by decide
theorem wsClientPolicy_ok : policyOK { code := [], annot := [], policy := wsClientPolicy } = true := by decide
theorem wsConnPolicy_ok : policyOK { code := [], annot := [], policy := wsConnPolicy } = true := by decide

end FV.Protect
