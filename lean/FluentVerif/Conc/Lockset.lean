/-! Certified lockset checker for control-flow graphs under mutexes and RW mutexes.

A program is one CFG (`code`, successor lists) shared by any number of goroutines, each making any
number of calls (entry = node 0, which the translator makes a dispatch node whose successors are the
entries of the exported methods).  `annot` gives, per node, locks the goroutine must hold there; it
comes from the untrusted translator and is re-validated by `check`.  Shared variables carry an
*access policy*: per access kind a list of alternatives, each a set of (lock, minimal mode); an
access is accepted when the annotation satisfies one alternative, and `policyOK` demands that every
write alternative is mutually exclusive with every read or write alternative of the same variable.
`check_sound`: if `check P = true` then under **every** schedule of **any number** of goroutines no
two distinct goroutines are ever simultaneously at conflicting accesses. -/
namespace FV.Lk

abbrev Lock := Nat
abbrev Var := Nat
abbrev Tid := Nat

inductive Mode | sh | ex
deriving DecidableEq, Repr

inductive Op
  | lock (l : Lock) | rlock (l : Lock) | unlock (l : Lock) | runlock (l : Lock)
  | read (v : Var) | write (v : Var)
  | other
  | unknown                  -- something the translator could not classify: always rejected
  | ret
deriving DecidableEq, Repr

structure Instr where
  op : Op
  succ : List Nat
deriving DecidableEq, Repr

abbrev LockSet := List (Lock × Mode)

/-- access policy of one variable: alternatives for reads, alternatives for writes -/
structure Policy where
  var : Var
  readAlts : List LockSet
  writeAlts : List LockSet
deriving DecidableEq, Repr

structure Prog where
  code  : List Instr
  annot : List LockSet
  policy : List Policy

def holds (ls : LockSet) (l : Lock) : Bool := ls.any (fun p => p.1 == l)
def holdsEx (ls : LockSet) (l : Lock) : Bool := ls.any (fun p => p.1 == l && p.2 == Mode.ex)
def holdsSh (ls : LockSet) (l : Lock) : Bool := ls.any (fun p => p.1 == l && p.2 == Mode.sh)

/-- does the lockset `ls` provide lock `l` in at least mode `m`? -/
def satisfies (ls : LockSet) (p : Lock × Mode) : Bool :=
  match p.2 with
  | .sh => holds ls p.1
  | .ex => holdsEx ls p.1

def altOK (ls : LockSet) (alt : LockSet) : Bool := alt.all (satisfies ls)

def altsOf (P : Prog) (v : Var) (isWrite : Bool) : List LockSet :=
  match P.policy.find? (·.var == v) with
  | some p => if isWrite then p.writeAlts else p.readAlts
  | none => []          -- a variable without a policy: every access is rejected

/-- two alternatives exclude each other: one of them needs exclusively a lock the other needs too -/
def excl (a b : LockSet) : Bool :=
  a.any (fun p => p.2 == Mode.ex && holds b p.1) || b.any (fun p => p.2 == Mode.ex && holds a p.1)

def policyOK (P : Prog) : Bool :=
  P.policy.all fun p => p.writeAlts.all fun a => (p.readAlts ++ p.writeAlts).all fun b => excl a b

/-- lockset after executing `op` from `ls`; `none` = rejected -/
def post (P : Prog) (ls : LockSet) : Op → Option LockSet
  | .lock l    => if holds ls l then none else some ((l, .ex) :: ls)
  | .rlock l   => if holds ls l then none else some ((l, .sh) :: ls)
  | .unlock l  => if holdsEx ls l then some (ls.filter (fun p => p.1 != l)) else none
  | .runlock l => if holdsSh ls l then some (ls.filter (fun p => p.1 != l)) else none
  | .read v    => if (altsOf P v false).any (altOK ls) then some ls else none
  | .write v   => if (altsOf P v true).any (altOK ls) then some ls else none
  | .other     => some ls
  | .unknown   => none
  | .ret       => if ls.isEmpty then some ls else none

def subset (a b : LockSet) : Bool := a.all (fun p => b.contains p)

def checkAt (P : Prog) (pc : Nat) : Bool :=
  match P.code[pc]?, P.annot[pc]? with
  | some i, some ls =>
    match post P ls i.op with
    | none => false
    | some ls' => i.succ.all (fun s =>
        match P.annot[s]? with
        | some a => s < P.code.length && subset a ls'
        | none => false)
  | _, _ => false

def check (P : Prog) : Bool :=
  policyOK P &&
  P.annot.length == P.code.length && 0 < P.code.length &&
  P.annot[0]? == some [] && (List.range P.code.length).all (checkAt P)

/-! ## semantics -/

structure LState where
  exH : Lock → Option Tid
  shH : Lock → List Tid

structure State where
  locks : LState
  pc : Tid → Option Nat        -- none = idle (holds nothing)

def setEx (L : LState) (l : Lock) (o : Option Tid) : LState :=
  { L with exH := fun k => if k = l then o else L.exH k }
def setSh (L : LState) (l : Lock) (r : List Tid) : LState :=
  { L with shH := fun k => if k = l then r else L.shH k }

/-- effect of `op` by thread `t` on the lock state; `none` = not enabled -/
def lockStep (L : LState) (t : Tid) : Op → Option LState
  | .lock l    => if L.exH l = none ∧ L.shH l = [] then some (setEx L l (some t)) else none
  | .rlock l   => if L.exH l = none then some (setSh L l (t :: L.shH l)) else none
  | .unlock l  => some (setEx L l none)
  | .runlock l => some (setSh L l ((L.shH l).erase t))
  | _          => some L

def setPc (f : Tid → Option Nat) (t : Tid) (p : Option Nat) : Tid → Option Nat :=
  fun u => if u = t then p else f u

/-- one scheduler decision: thread `t` moves; `choice` selects the successor (or, when idle,
    whether to start) -/
def step (P : Prog) (s : State) (t : Tid) (choice : Nat) : State :=
  match s.pc t with
  | none => { s with pc := setPc s.pc t (some 0) }             -- start a call
  | some pc =>
    match P.code[pc]? with
    | none => s
    | some i =>
      match lockStep s.locks t i.op with
      | none => s                                              -- blocked
      | some L' =>
        match i.op with
        | .ret => { locks := L', pc := setPc s.pc t none }
        | _ => match i.succ[choice]? with
               | some n => { locks := L', pc := setPc s.pc t (some n) }
               | none => s

def init : State := { locks := { exH := fun _ => none, shH := fun _ => [] }, pc := fun _ => none }

def run (P : Prog) (s : State) : List (Tid × Nat) → State
  | [] => s
  | (t, c) :: r => run P (step P s t c) r

/-! ## invariant -/

structure Inv (P : Prog) (s : State) : Prop where
  wf   : ∀ l t, s.locks.exH l = some t → s.locks.shH l = []
  hex  : ∀ t pc ls l, s.pc t = some pc → P.annot[pc]? = some ls → (l, Mode.ex) ∈ ls → s.locks.exH l = some t
  hsh  : ∀ t pc ls l, s.pc t = some pc → P.annot[pc]? = some ls → (l, Mode.sh) ∈ ls → t ∈ s.locks.shH l

theorem subset_mem {a b : LockSet} (h : subset a b = true) {p} (hp : p ∈ a) : p ∈ b := by
  simp [subset, List.all_eq_true] at h
  exact h _ _ hp

theorem holds_of_mem {ls : LockSet} {l m} (h : (l, m) ∈ ls) : holds ls l = true := by
  simp [holds, List.any_eq_true]; exact ⟨m, h⟩
theorem holdsEx_mem {ls : LockSet} {l} (h : holdsEx ls l = true) : (l, Mode.ex) ∈ ls := by
  simpa [holdsEx, List.any_eq_true] using h
theorem holdsSh_mem {ls : LockSet} {l} (h : holdsSh ls l = true) : (l, Mode.sh) ∈ ls := by
  simpa [holdsSh, List.any_eq_true] using h

theorem inv_init (P : Prog) : Inv P init := by
  constructor <;> simp [init]

/-- what `check` gives at a program point -/
theorem check_at {P : Prog} (hc : check P = true) {pc : Nat} (h : pc < P.code.length) :
    checkAt P pc = true := by
  simp [check, List.all_eq_true] at hc
  exact hc.2 pc h

theorem check_entry {P : Prog} (hc : check P = true) : P.annot[0]? = some [] := by
  simp [check] at hc; exact hc.1.2


/-- unpack `checkAt` -/
theorem checkAt_spec {P : Prog} {pc : Nat} (h : checkAt P pc = true) :
    ∃ i ls ls', P.code[pc]? = some i ∧ P.annot[pc]? = some ls ∧ post P ls i.op = some ls' ∧
      ∀ s ∈ i.succ, ∃ a, P.annot[s]? = some a ∧ s < P.code.length ∧ subset a ls' = true := by
  unfold checkAt at h
  split at h
  next i ls hi hl =>
    split at h
    next => simp at h
    next ls' hp =>
      refine ⟨i, ls, ls', hi, hl, hp, ?_⟩
      intro s hs
      simp [List.all_eq_true] at h
      have := h s hs
      split at this
      next a ha => simp at this; exact ⟨a, ha, this.1, this.2⟩
      next => simp at this
  next => simp at h

theorem mem_filter_ne {ls : LockSet} {l l' : Lock} {m} (h : (l', m) ∈ ls.filter (fun p => p.1 != l)) :
    (l', m) ∈ ls ∧ l' ≠ l := by
  simp [List.mem_filter] at h; exact h

theorem inv_step (P : Prog) (hc : check P = true) (s : State) (t : Tid) (c : Nat)
    (hb : ∀ u pc, s.pc u = some pc → pc < P.code.length)
    (h : Inv P s) : Inv P (step P s t c) ∧ (∀ u pc, (step P s t c).pc u = some pc → pc < P.code.length) := by
  unfold step
  split
  next hpc =>
    -- start a call
    refine ⟨⟨h.wf, ?_, ?_⟩, ?_⟩
    · intro u pc ls l hu ha hm
      by_cases e : u = t
      · subst e; simp [setPc] at hu; subst hu
        rw [check_entry hc] at ha; cases ha; simp at hm
      · simp [setPc, e] at hu; exact h.hex u pc ls l hu ha hm
    · intro u pc ls l hu ha hm
      by_cases e : u = t
      · subst e; simp [setPc] at hu; subst hu
        rw [check_entry hc] at ha; cases ha; simp at hm
      · simp [setPc, e] at hu; exact h.hsh u pc ls l hu ha hm
    · intro u pc hu
      by_cases e : u = t
      · subst e; simp [setPc] at hu; subst hu
        simp [check] at hc; exact hc.1.1.2
      · simp [setPc, e] at hu; exact hb u pc hu
  next pc hpc =>
    have hlt := hb t pc hpc
    obtain ⟨i, ls, ls', hi, hl, hp, hs⟩ := checkAt_spec (check_at hc hlt)
    rw [hi]; simp only
    split
    next => exact ⟨h, hb⟩          -- blocked
    next L' hL =>
      -- facts about L' relative to the op, for *other* threads and for kept locks
      have key : (∀ l u, L'.exH l = some u → L'.shH l = []) ∧
          (∀ l, (l, Mode.ex) ∈ ls' → L'.exH l = some t) ∧
          (∀ l, (l, Mode.sh) ∈ ls' → t ∈ L'.shH l) ∧
          (∀ u pcu lsu l, u ≠ t → s.pc u = some pcu → P.annot[pcu]? = some lsu →
              (l, Mode.ex) ∈ lsu → L'.exH l = some u) ∧
          (∀ u pcu lsu l, u ≠ t → s.pc u = some pcu → P.annot[pcu]? = some lsu →
              (l, Mode.sh) ∈ lsu → u ∈ L'.shH l) := by
        have hex := h.hex t pc ls
        have hsh := h.hsh t pc ls
        cases hop : i.op with
        | lock l =>
          simp [hop, lockStep] at hL
          obtain ⟨⟨he, hs0⟩, rfl⟩ := hL
          simp [hop, post] at hp
          obtain ⟨hnh, rfl⟩ := hp
          refine ⟨?_, ?_, ?_, ?_, ?_⟩
          · intro k u hk
            by_cases e : k = l
            · subst e; simpa [setEx] using hs0
            · simp [setEx, e] at hk; simpa [setEx] using h.wf k u hk
          · intro k hk
            simp at hk
            rcases hk with rfl | hk
            · simp [setEx]
            · have : k ≠ l := by
                intro e; subst e; rw [holds_of_mem hk] at hnh; simp at hnh
              simp [setEx, this]; exact hex k hpc hl hk
          · intro k hk
            simp at hk
            simpa [setEx] using hsh k hpc hl hk
          · intro u pcu lsu k hu hpu hau hm
            have := h.hex u pcu lsu k hpu hau hm
            have : k ≠ l := by intro e; subst e; rw [he] at this; cases this
            simp [setEx, this]; exact h.hex u pcu lsu k hpu hau hm
          · intro u pcu lsu k hu hpu hau hm
            simpa [setEx] using h.hsh u pcu lsu k hpu hau hm
        | rlock l =>
          simp [hop, lockStep] at hL
          obtain ⟨he, rfl⟩ := hL
          simp [hop, post] at hp
          obtain ⟨hnh, rfl⟩ := hp
          refine ⟨?_, ?_, ?_, ?_, ?_⟩
          · intro k u hk
            simp [setSh] at hk
            by_cases e : k = l
            · subst e; rw [he] at hk; cases hk
            · simp [setSh, e]; exact h.wf k u hk
          · intro k hk
            simp at hk
            simpa [setSh] using hex k hpc hl hk
          · intro k hk
            simp at hk
            rcases hk with rfl | hk
            · simp [setSh]
            · by_cases e : k = l
              · subst e; simp [setSh]
              · simp [setSh, e]; exact hsh k hpc hl hk
          · intro u pcu lsu k hu hpu hau hm
            simpa [setSh] using h.hex u pcu lsu k hpu hau hm
          · intro u pcu lsu k hu hpu hau hm
            have := h.hsh u pcu lsu k hpu hau hm
            by_cases e : k = l
            · subst e; simp [setSh]; exact Or.inr this
            · simp [setSh, e]; exact this
        | unlock l =>
          simp [hop, lockStep] at hL; subst hL
          simp [hop, post] at hp
          obtain ⟨hh, rfl⟩ := hp
          have hmine := hex l hpc hl (holdsEx_mem hh)
          refine ⟨?_, ?_, ?_, ?_, ?_⟩
          · intro k u hk
            by_cases e : k = l
            · subst e; simp [setEx] at hk
            · simp [setEx, e] at hk; simpa [setEx] using h.wf k u hk
          · intro k hk
            obtain ⟨hk, hne⟩ := mem_filter_ne hk
            simp [setEx, hne]; exact hex k hpc hl hk
          · intro k hk
            obtain ⟨hk, hne⟩ := mem_filter_ne hk
            simpa [setEx] using hsh k hpc hl hk
          · intro u pcu lsu k hu hpu hau hm
            have hk := h.hex u pcu lsu k hpu hau hm
            have : k ≠ l := by
              intro e; subst e; rw [hmine] at hk; cases hk; exact hu rfl
            simp [setEx, this]; exact hk
          · intro u pcu lsu k hu hpu hau hm
            simpa [setEx] using h.hsh u pcu lsu k hpu hau hm
        | runlock l =>
          simp [hop, lockStep] at hL; subst hL
          simp [hop, post] at hp
          obtain ⟨hh, rfl⟩ := hp
          refine ⟨?_, ?_, ?_, ?_, ?_⟩
          · intro k u hk
            simp [setSh] at hk
            by_cases e : k = l
            · subst e; simp [setSh, h.wf k u hk]
            · simp [setSh, e]; exact h.wf k u hk
          · intro k hk
            obtain ⟨hk, hne⟩ := mem_filter_ne hk
            simpa [setSh] using hex k hpc hl hk
          · intro k hk
            obtain ⟨hk, hne⟩ := mem_filter_ne hk
            simp [setSh, hne]; exact hsh k hpc hl hk
          · intro u pcu lsu k hu hpu hau hm
            simpa [setSh] using h.hex u pcu lsu k hpu hau hm
          · intro u pcu lsu k hu hpu hau hm
            have := h.hsh u pcu lsu k hpu hau hm
            by_cases e : k = l
            · subst e; simp [setSh]; exact (List.mem_erase_of_ne hu).2 this
            · simp [setSh, e]; exact this
        | read v =>
          simp [hop, lockStep] at hL; subst hL
          simp [hop, post] at hp; obtain ⟨_, rfl⟩ := hp
          exact ⟨h.wf, fun k hk => hex k hpc hl hk, fun k hk => hsh k hpc hl hk,
            fun u pcu lsu k _ a b c => h.hex u pcu lsu k a b c,
            fun u pcu lsu k _ a b c => h.hsh u pcu lsu k a b c⟩
        | write v =>
          simp [hop, lockStep] at hL; subst hL
          simp [hop, post] at hp; obtain ⟨_, rfl⟩ := hp
          exact ⟨h.wf, fun k hk => hex k hpc hl hk, fun k hk => hsh k hpc hl hk,
            fun u pcu lsu k _ a b c => h.hex u pcu lsu k a b c,
            fun u pcu lsu k _ a b c => h.hsh u pcu lsu k a b c⟩
        | unknown => simp [hop, post] at hp
        | other =>
          simp [hop, lockStep] at hL; subst hL
          simp [hop, post] at hp; subst hp
          exact ⟨h.wf, fun k hk => hex k hpc hl hk, fun k hk => hsh k hpc hl hk,
            fun u pcu lsu k _ a b c => h.hex u pcu lsu k a b c,
            fun u pcu lsu k _ a b c => h.hsh u pcu lsu k a b c⟩
        | ret =>
          simp [hop, lockStep] at hL; subst hL
          simp [hop, post] at hp; obtain ⟨_, rfl⟩ := hp
          exact ⟨h.wf, fun k hk => hex k hpc hl hk, fun k hk => hsh k hpc hl hk,
            fun u pcu lsu k _ a b c => h.hex u pcu lsu k a b c,
            fun u pcu lsu k _ a b c => h.hsh u pcu lsu k a b c⟩
      obtain ⟨kwf, kex, ksh, oex, osh⟩ := key
      -- now the pc update
      have finish : ∀ (np : Option Nat),
          (∀ n, np = some n → ∃ a, P.annot[n]? = some a ∧ n < P.code.length ∧ subset a ls' = true) →
          Inv P { locks := L', pc := setPc s.pc t np } ∧
          (∀ u p, (setPc s.pc t np) u = some p → p < P.code.length) := by
        intro np hnp
        refine ⟨⟨kwf, ?_, ?_⟩, ?_⟩
        · intro u p lsu l hu ha hm
          by_cases e : u = t
          · subst e; simp [setPc] at hu
            obtain ⟨a, haa, _, hsub⟩ := hnp p hu
            rw [haa] at ha; cases ha
            exact kex l (subset_mem hsub hm)
          · simp [setPc, e] at hu; exact oex u p lsu l e hu ha hm
        · intro u p lsu l hu ha hm
          by_cases e : u = t
          · subst e; simp [setPc] at hu
            obtain ⟨a, haa, _, hsub⟩ := hnp p hu
            rw [haa] at ha; cases ha
            exact ksh l (subset_mem hsub hm)
          · simp [setPc, e] at hu; exact osh u p lsu l e hu ha hm
        · intro u p hu
          by_cases e : u = t
          · subst e; simp [setPc] at hu
            obtain ⟨a, _, hlt', _⟩ := hnp p hu; exact hlt'
          · simp [setPc, e] at hu; exact hb u p hu
      split
      next => exact finish none (by intro n hn; cases hn)
      next =>
        split
        next n hn =>
          exact finish (some n) (by
            intro n' hn'; cases hn'
            exact hs n (List.mem_of_getElem? hn))
        next => exact ⟨h, hb⟩


theorem inv_run (P : Prog) (hc : check P = true) (sched : List (Tid × Nat)) :
    ∀ s, (∀ u pc, s.pc u = some pc → pc < P.code.length) → Inv P s →
      Inv P (run P s sched) ∧ (∀ u pc, (run P s sched).pc u = some pc → pc < P.code.length) := by
  induction sched with
  | nil => intro s hb h; exact ⟨h, hb⟩
  | cons x xs ih =>
    intro s hb h
    obtain ⟨h', hb'⟩ := inv_step P hc s x.1 x.2 hb h
    exact ih _ hb' h'

def accessOf (P : Prog) (pc : Nat) : Option (Var × Bool) :=   -- (variable, isWrite)
  match P.code[pc]? with
  | some ⟨.read v, _⟩ => some (v, false)
  | some ⟨.write v, _⟩ => some (v, true)
  | _ => none

theorem check_policyOK {P : Prog} (hc : check P = true) : policyOK P = true := by
  simp [check] at hc; exact hc.1.1.1.1

/-- an accepted access holds one alternative of the variable's policy -/
theorem access_alt {P : Prog} {pc : Nat} {i : Instr} {ls ls' : LockSet} {v : Var} {w : Bool}
    (hi : P.code[pc]? = some i) (hp : post P ls i.op = some ls') (ha : accessOf P pc = some (v, w)) :
    ∃ alt, alt ∈ altsOf P v w ∧ altOK ls alt = true := by
  unfold accessOf at ha; rw [hi] at ha
  cases i with | mk op succ =>
  cases op <;> simp at ha
  next v' =>
    obtain ⟨rfl, rfl⟩ := ha
    simp [post, List.any_eq_true] at hp
    obtain ⟨⟨alt, h1, h2⟩, _⟩ := hp
    exact ⟨alt, h1, h2⟩
  next v' =>
    obtain ⟨rfl, rfl⟩ := ha
    simp [post, List.any_eq_true] at hp
    obtain ⟨⟨alt, h1, h2⟩, _⟩ := hp
    exact ⟨alt, h1, h2⟩

theorem altsOf_spec {P : Prog} {v : Var} {w : Bool} {alt : LockSet} (h : alt ∈ altsOf P v w) :
    ∃ p, P.policy.find? (·.var == v) = some p ∧ alt ∈ (if w then p.writeAlts else p.readAlts) := by
  unfold altsOf at h
  split at h
  · next p hp => exact ⟨p, hp, h⟩
  · simp at h

/-- what a goroutine at a node whose annotation satisfies `(l, m)` holds -/
theorem holds_lock {P : Prog} {s : State} (hI : Inv P s) {t pc ls l m} (hpc : s.pc t = some pc)
    (hl : P.annot[pc]? = some ls) (hs : satisfies ls (l, m) = true) :
    s.locks.exH l = some t ∨ t ∈ s.locks.shH l := by
  cases m with
  | ex =>
    simp only [satisfies] at hs
    exact Or.inl (hI.hex t pc ls l hpc hl (holdsEx_mem hs))
  | sh =>
    simp only [satisfies, holds, List.any_eq_true] at hs
    obtain ⟨⟨l', m'⟩, hm, he⟩ := hs
    have : l' = l := by simpa using he
    subst this
    cases m' with
    | ex => exact Or.inl (hI.hex t pc ls l' hpc hl hm)
    | sh => exact Or.inr (hI.hsh t pc ls l' hpc hl hm)

/-- an exclusive holder excludes every other holder -/
theorem ex_excludes {P : Prog} {s : State} (hI : Inv P s) {t1 t2 : Tid} (hne : t1 ≠ t2) {l : Lock}
    (h1 : s.locks.exH l = some t1) (h2 : s.locks.exH l = some t2 ∨ t2 ∈ s.locks.shH l) : False := by
  rcases h2 with h2 | h2
  · rw [h1] at h2; cases h2; exact hne rfl
  · rw [hI.wf _ _ h1] at h2; cases h2

theorem altOK_mem {ls alt : LockSet} (h : altOK ls alt = true) {p} (hp : p ∈ alt) : satisfies ls p = true := by
  simp [altOK, List.all_eq_true] at h
  exact h _ _ hp

/-- **Soundness**: if the annotated program passes `check`, then in every state reachable under
any schedule of any number of goroutines, two distinct goroutines are never simultaneously at
conflicting accesses (same variable, at least one a write). -/
theorem check_sound (P : Prog) (hc : check P = true) (sched : List (Tid × Nat))
    (t1 t2 : Tid) (hne : t1 ≠ t2) (pc1 pc2 : Nat) (v : Var) (w2 : Bool)
    (h1 : (run P init sched).pc t1 = some pc1) (h2 : (run P init sched).pc t2 = some pc2)
    (a1 : accessOf P pc1 = some (v, true)) (a2 : accessOf P pc2 = some (v, w2)) : False := by
  obtain ⟨hI, hb⟩ := inv_run P hc sched init (by simp [init]) (inv_init P)
  obtain ⟨i1, ls1, ls1', hi1, hl1, hp1, _⟩ := checkAt_spec (check_at hc (hb t1 pc1 h1))
  obtain ⟨i2, ls2, ls2', hi2, hl2, hp2, _⟩ := checkAt_spec (check_at hc (hb t2 pc2 h2))
  obtain ⟨alt1, hm1, ok1⟩ := access_alt hi1 hp1 a1
  obtain ⟨alt2, hm2, ok2⟩ := access_alt hi2 hp2 a2
  obtain ⟨p1, hf1, ha1⟩ := altsOf_spec hm1
  obtain ⟨p2, hf2, ha2⟩ := altsOf_spec hm2
  have same : p1 = p2 := by rw [hf1] at hf2; exact Option.some.inj hf2
  subst same
  have hpm := List.mem_of_find?_eq_some hf1
  have hpol := check_policyOK hc
  simp only [policyOK, List.all_eq_true] at hpol
  simp only [ite_true] at ha1
  have hb2 : alt2 ∈ p1.readAlts ++ p1.writeAlts := by
    cases w2 with
    | true => simp only [ite_true] at ha2; exact List.mem_append_right _ ha2
    | false => simp only [Bool.false_eq_true, ite_false] at ha2; exact List.mem_append_left _ ha2
  have hex := hpol p1 hpm alt1 ha1 alt2 hb2
  simp only [excl, Bool.or_eq_true, List.any_eq_true, Bool.and_eq_true, beq_iff_eq] at hex
  rcases hex with ⟨⟨l, m⟩, hmem, hm, hh⟩ | ⟨⟨l, m⟩, hmem, hm, hh⟩
  · -- t1's alternative needs `l` exclusively; t2's alternative needs `l` too
    simp only at hm; subst hm
    have s1 := altOK_mem ok1 hmem
    have own1 : (run P init sched).locks.exH l = some t1 := by
      simp only [satisfies] at s1
      exact hI.hex t1 pc1 ls1 l h1 hl1 (holdsEx_mem s1)
    simp only [holds, List.any_eq_true] at hh
    obtain ⟨⟨l', m'⟩, hmem2, he⟩ := hh
    have : l' = l := by simpa using he
    subst this
    have s2 := altOK_mem ok2 hmem2
    exact ex_excludes hI hne own1 (holds_lock hI h2 hl2 s2)
  · simp only at hm; subst hm
    have s2 := altOK_mem ok2 hmem
    have own2 : (run P init sched).locks.exH l = some t2 := by
      simp only [satisfies] at s2
      exact hI.hex t2 pc2 ls2 l h2 hl2 (holdsEx_mem s2)
    simp only [holds, List.any_eq_true] at hh
    obtain ⟨⟨l', m'⟩, hmem1, he⟩ := hh
    have : l' = l := by simpa using he
    subst this
    have s1 := altOK_mem ok1 hmem1
    exact ex_excludes hI (Ne.symm hne) own2 (holds_lock hI h1 hl1 s1)

/-- **critical sections are exclusive**: while a goroutine is at a node whose annotation holds lock
`l` exclusively, no other goroutine is at a node whose annotation holds `l` in any mode — under
every schedule.  Everything a goroutine does between taking and releasing an exclusive lock is
therefore done without another holder of that lock in between. -/
theorem critical_section_exclusive (P : Prog) (hc : check P = true) (sched : List (Tid × Nat))
    (t1 t2 : Tid) (hne : t1 ≠ t2) (pc1 pc2 : Nat) (ls1 ls2 : LockSet) (l : Lock) (m : Mode)
    (h1 : (run P init sched).pc t1 = some pc1) (h2 : (run P init sched).pc t2 = some pc2)
    (a1 : P.annot[pc1]? = some ls1) (a2 : P.annot[pc2]? = some ls2)
    (e1 : (l, Mode.ex) ∈ ls1) (e2 : (l, m) ∈ ls2) : False := by
  obtain ⟨hI, _⟩ := inv_run P hc sched init (by simp [init]) (inv_init P)
  have own1 := hI.hex t1 pc1 ls1 l h1 a1 e1
  cases m with
  | ex =>
    have own2 := hI.hex t2 pc2 ls2 l h2 a2 e2
    rw [own1] at own2; cases own2; exact hne rfl
  | sh =>
    have in2 := hI.hsh t2 pc2 ls2 l h2 a2 e2
    rw [hI.wf _ _ own1] at in2; cases in2

/-- the nodes at which the program accesses variable `v` -/
def accessNodes (P : Prog) (v : Var) : List Nat :=
  (List.range P.code.length).filter fun pc =>
    match accessOf P pc with
    | some (v', _) => v' == v
    | none => false

/-- every node accessing `v` holds lock `l` exclusively, or holds lock `l'` exclusively -/
def allUnder (P : Prog) (v : Var) (l l' : Lock) : Bool :=
  (accessNodes P v).all fun pc =>
    match P.annot[pc]? with
    | some ls => holdsEx ls l || holdsEx ls l'
    | none => false

/-! ## a concrete program: a Send-like method with a conditional lock (rejected) and an
unconditional one (accepted) -/

def demoPolicy : List Policy :=
  [{ var := 0, readAlts := [[(0, .sh)]], writeAlts := [[(0, .ex)]] },
   { var := 1, readAlts := [[(1, .ex), (0, .sh)], [(0, .ex)]], writeAlts := [[(1, .ex), (0, .sh)], [(0, .ex)]] }]

/-- `RLock 0; read v0; Lock 1; write v1 (the wire); Unlock 1; RUnlock 0; ret` -/
def good : Prog := {
  code := [⟨.rlock 0, [1]⟩, ⟨.read 0, [2, 6]⟩, ⟨.lock 1, [3]⟩, ⟨.write 1, [3, 4]⟩,
           ⟨.unlock 1, [5]⟩, ⟨.runlock 0, [7]⟩, ⟨.runlock 0, [7]⟩, ⟨.ret, []⟩],
  annot := [[], [(0, .sh)], [(0, .sh)], [(1, .ex), (0, .sh)], [(1, .ex), (0, .sh)],
            [(0, .sh)], [(0, .sh)], []],
  policy := demoPolicy }

/-- the lock is taken on one branch only: the write at pc 3 is not protected on every path -/
def bad : Prog := { good with
  code := [⟨.rlock 0, [1]⟩, ⟨.read 0, [2, 3]⟩, ⟨.lock 1, [3]⟩, ⟨.write 1, [3, 4]⟩,
           ⟨.unlock 1, [5]⟩, ⟨.runlock 0, [7]⟩, ⟨.runlock 0, [7]⟩, ⟨.ret, []⟩],
  annot := [[], [(0, .sh)], [(0, .sh)], [(0, .sh)], [(0, .sh)], [(0, .sh)], [(0, .sh)], []] }

theorem good_ok : check good = true := by decide
theorem bad_rejected : check bad = false := by decide

end FV.Lk
