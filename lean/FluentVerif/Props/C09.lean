import FluentVerif.Client.TcpLemmas
/-! # C09 — no false success and no torn messages (TCP client; websocket client in C17)

For every message, every configuration and **every fault** of the connection's `Write`:
success ⇒ the connection accepted the whole encoding; the accepted bytes are always a prefix of
the encoding (one `Write` of the complete encoding); any failed or short write ⇒ error; a message
that cannot be encoded ⇒ error and *nothing* reaches the connection. -/
namespace FV.Tcp

/-- what one `send` step appended to the log -/
def newEvents (s s' : St) : List Ev := s'.log.drop s.log.length

theorem C09_ok_all (cfg : Cfg) (s : St) (e : Bytes) (chunk : Bytes) (f : WFault) (resp : Bytes)
    (h : (send cfg s (some e) chunk f resp).2 = .ok) :
    ∃ id, s.session = some (id, true) ∧
      Ev.write id e .ok ∈ newEvents s (send cfg s (some e) chunk f resp).1 := by
  unfold send at h ⊢
  cases hs : s.session with
  | none => simp [hs] at h
  | some p =>
    obtain ⟨id, tp⟩ := p
    simp only [hs] at h ⊢
    cases tp with
    | false => simp at h
    | true =>
      refine ⟨id, rfl, ?_⟩
      simp only [Bool.not_true, Bool.false_eq_true, ite_false] at h ⊢
      by_cases hw : (doWrite e f).2 = .ok
      · have he := doWrite_ok hw
        simp only [hw, ne_eq, not_true_eq_false, ite_false] at h ⊢
        rw [he]
        repeat' split
        all_goals simp [newEvents, St.emit]
      · simp [hw] at h

theorem C09_prefix (cfg : Cfg) (s : St) (e : Bytes) (chunk : Bytes) (f : WFault) (resp : Bytes)
    (id : Nat) (acc : Bytes) (st : WStatus)
    (h : Ev.write id acc st ∈ newEvents s (send cfg s (some e) chunk f resp).1) : acc <+: e := by
  unfold send newEvents at h
  cases hs : s.session with
  | none => simp [hs] at h
  | some p =>
    obtain ⟨id', tp⟩ := p
    simp only [hs] at h
    have hp := doWrite_prefix e f
    repeat' split at h
    all_goals (simp [St.emit] at h)
    all_goals (first | (obtain ⟨_, rfl, _⟩ := h; exact hp) | exact h.elim |
      (rcases h with h | h <;> first | (obtain ⟨_, rfl, _⟩ := h; exact hp) | cases h))

theorem C09_fault_err (cfg : Cfg) (s : St) (e : Bytes) (chunk : Bytes) (f : WFault) (resp : Bytes)
    (hf : (doWrite e f).2 ≠ .ok) : (send cfg s (some e) chunk f resp).2 = .err := by
  unfold send
  repeat' split
  all_goals (first | rfl | (simp_all; done))

/-- a failing or short write is never reported as success, in particular -/
theorem C09_fault_cases (e : Bytes) (n : Nat) :
    (doWrite e (.failAfter n)).2 ≠ .ok ∧ (n < e.length → (doWrite e (.short n)).2 ≠ .ok) := by
  refine ⟨by simp [doWrite], ?_⟩
  intro h; simp [doWrite, h]

/-- a message that cannot be encoded: error, and the connection sees nothing -/
theorem C09_unencodable (cfg : Cfg) (s : St) (chunk : Bytes) (f : WFault) (resp : Bytes) :
    send cfg s none chunk f resp = (s, .err) := by
  unfold send
  repeat' split
  all_goals first | rfl | (simp_all; done)

/-- any failure while the ack is read is an error -/
theorem C09_ack_failure (cfg : Cfg) (s : St) (e chunk : Bytes) (f : WFault) (resp : Bytes)
    (hack : cfg.requireAck = true) (hbad : ∀ a r, Ack.unmarshal .stream {} resp ≠ .ok a r) :
    (send cfg s (some e) chunk f resp).2 = .err := by
  unfold send
  repeat' split
  all_goals (first | rfl | (simp_all; done) | (exfalso; rename_i a r hh; exact hbad _ _ hh))

theorem C09_raw (s : St) (b : Bytes) (f : WFault) :
    ((sendRaw s b f).2 = .ok → ∃ id, s.session = some (id, true) ∧ (doWrite b f).1 = b) ∧
    ((doWrite b f).2 ≠ .ok → (sendRaw s b f).2 = .err) := by
  unfold sendRaw
  cases hs : s.session with
  | none => simp
  | some p =>
    obtain ⟨id, tp⟩ := p
    cases tp with
    | false => simp
    | true =>
      simp only [Bool.not_true, Bool.false_eq_true, ite_false]
      constructor
      · intro h
        by_cases hw : (doWrite b f).2 = .ok
        · exact ⟨id, rfl, doWrite_ok hw⟩
        · simp [hw] at h
      · intro hw; simp [hw]

-- non-vacuity: a write that fails after 3 of 5 bytes is an error and leaves a prefix
example : (send {} { session := some (0, true), conns := [{ closeErr := false }] } (some [1, 2, 3, 4, 5]) [] (.failAfter 3) []) =
    ({ session := some (0, true), conns := [{ closeErr := false }], log := [.write 0 [1, 2, 3] .err] }, .err) := by
  simp [send, doWrite, St.emit]

end FV.Tcp
