import FluentVerif.Proto.RoundTripHs
import FluentVerif.Props.C13
/-! # C01 — round-trip fidelity of every message kind through both codec paths

For every representable message `m` (explicit well-formedness hypotheses: lengths and counts below
2^32, timestamps in int64, EventTimes in the 32-bit-second domain, records built from
msgpack-representable values with any nesting) the encoding `e` produced by the repository's
encoder, followed by **any** bytes `x`, decoded by **either** decoder path `p` into **any**
receiver, yields the original value (records normalised to the msgpack data model by `toObj`,
instants by `norm`) and leaves exactly `x`.  One encoder definition serves `MarshalMsg` and
`EncodeMsg`; that both produce these bytes is what the correspondence checks on every run.
Second half (legal alternative encodings): `C01_alt_*`. -/
namespace FV

theorem C01_Message (p : Path) (recv : Message) (tag : Bytes) (ts : Int) (rec : GoVal) (opts : Option Options)
    (e x : Bytes) (htag : lenOK tag) (hts : inInt64 ts) (hrec : rec.WF) (hopts : optPtrWF opts)
    (he : Message.marshal tag ts rec opts = some e) :
    Message.unmarshal p recv (e ++ x) = .ok { tag := tag, ts := ts, record := rec.toObj, options := opts } x :=
  Message.roundtrip p recv htag hts hrec hopts he x

theorem C01_MessageExt (p : Path) (recv : MessageExt) (tag : Bytes) (ts : Instant) (rec : GoVal)
    (opts : Option Options) (e x : Bytes) (htag : lenOK tag) (hts : ts.InDomain) (hrec : rec.WF)
    (hopts : optPtrWF opts) (he : MessageExt.marshal tag ts rec opts = some e) :
    MessageExt.unmarshal p recv (e ++ x) = .ok { tag := tag, ts := ts.norm, record := rec.toObj, options := opts } x :=
  MessageExt.roundtrip p recv htag hts hrec hopts he x

theorem C01_Forward (p : Path) (recv : Forward) (tag : Bytes) (es : List (Instant × GoVal)) (opts : Option Options)
    (e x : Bytes) (htag : lenOK tag) (hn : es.length < 4294967296) (hes : entriesWF es) (hopts : optPtrWF opts)
    (he : Forward.marshal tag es opts = some e) :
    Forward.unmarshal p recv (e ++ x) = .ok { tag := tag, entries := entriesNorm es, options := opts } x :=
  Forward.roundtrip p recv htag hn hes hopts he x

theorem C01_Packed (p : Path) (recv : Packed) (tag stream : Bytes) (opts : Option Options) (x : Bytes)
    (htag : lenOK tag) (hs : lenOK stream) (hopts : optPtrWF opts) :
    Packed.unmarshal p recv (Packed.marshal tag stream opts ++ x) = .ok { tag := tag, stream := stream, options := opts } x :=
  Packed.roundtrip p recv htag hs hopts x

theorem C01_Entry (p : Path) (recv : Entry) (ts : Int) (rec : GoVal) (e x : Bytes) (hts : inInt64 ts)
    (hrec : rec.WF) (he : Entry.marshal ts rec = some e) :
    Entry.unmarshal p recv (e ++ x) = .ok { ts := ts, record := rec.toObj } x :=
  Entry.roundtrip p recv hts hrec he x

theorem C01_EntryExt (p : Path) (recv : EntryExt) (ts : Instant) (rec : GoVal) (e x : Bytes) (hts : ts.InDomain)
    (hrec : rec.WF) (he : EntryExt.marshal ts rec = some e) :
    EntryExt.unmarshal p recv (e ++ x) = .ok { ts := ts.norm, record := rec.toObj } x :=
  EntryExt.roundtrip p recv hts hrec he x

theorem C01_Options (p : Path) (o : Options) (hw : o.WF) (x : Bytes) :
    Options.unmarshal p {} (o.marshal ++ x) = .ok o x := Options.roundtrip p o hw x

theorem C01_Ack (p : Path) (recv a : Ack) (h : lenOK a.ack) (x : Bytes) :
    Ack.unmarshal p recv (a.marshal ++ x) = .ok a x := Ack.roundtrip p recv a h x

theorem C01_HeloOpts (p : Path) (o : HeloOpts) (h : o.WF) (x : Bytes) :
    HeloOpts.unmarshal p {} (o.marshal ++ x) = .ok o x := HeloOpts.roundtrip p o h x

theorem C01_Helo (p : Path) (hl : Helo) (h1 : lenOK hl.mtype) (h2 : heloOptsPtrWF hl.options) (x : Bytes) :
    Helo.unmarshal p {} (hl.marshal ++ x) = .ok hl x := Helo.roundtrip p hl h1 h2 x

theorem C01_Ping (p : Path) (recv q : Ping) (h : q.WF) (x : Bytes) :
    Ping.unmarshal p recv (q.marshal ++ x) = .ok q x := Ping.roundtrip p recv q h x

theorem C01_Pong (p : Path) (recv q : Pong) (h : q.WF) (x : Bytes) :
    Pong.unmarshal p recv (q.marshal ++ x) = .ok q x := Pong.roundtrip p recv q h x

/-- records: **every** legal msgpack encoding (any integer width, signed or unsigned; any string,
array and map header class; any nesting) of a plain object decodes, on either path, to exactly the
object the specification parser finds -/
theorem C01_alt_record (p : Path) (b : Bytes) (o : Obj) (r : Bytes) (h : parse b = some (o, r))
    (hp : Obj.Plain o) : readIntf p b = .ok o r := readIntf_complete p h hp

/-- one message together with its encoding -/
structure MsgCase where
  tag : Bytes
  ts : Int
  record : GoVal
  opts : Option Options
  enc : Bytes

def MsgCase.OK (m : MsgCase) : Prop :=
  lenOK m.tag ∧ inInt64 m.ts ∧ m.record.WF ∧ optPtrWF m.opts ∧ Message.marshal m.tag m.ts m.record m.opts = some m.enc

/-- concatenation: a sequence of encoded messages decodes, in order, to exactly those messages with
nothing left (here for Message mode; the other modes are the same one-liner over their round trip) -/
theorem C01_concat_Message (p : Path) (recv : Message) :
    ∀ (ms : List MsgCase), (∀ m ∈ ms, m.OK) →
      decodeMany (Message.unmarshal p recv) ms.length (ms.map (·.enc)).flatten =
        some (ms.map fun m => { tag := m.tag, ts := m.ts, record := m.record.toObj, options := m.opts }, [])
  | [], _ => by simp [decodeMany]
  | m :: ms, h => by
    obtain ⟨a, b, c, d, he⟩ := h m (by simp)
    simp only [List.length_cons, List.map_cons, List.flatten_cons, decodeMany]
    rw [Message.roundtrip p recv a b c d he]
    simp only
    rw [C01_concat_Message p recv ms (fun m' hm => h m' (by simp [hm]))]
    simp

-- non-vacuity: a concrete well-formed message with options and a nested record
example : Message.marshal [0x74] (-5) (.map (.cons [0x6b] (.arr (.cons (.uint 200) (.cons .nil .nil))) .nil))
    (some { size := some 2, chunk := [0x61] }) =
    some [0x94, 0xa1, 0x74, 0xfb, 0x81, 0xa1, 0x6b, 0x92, 0xcc, 0xc8, 0xc0, 0x82, 0xa4, 0x73, 0x69, 0x7a, 0x65, 0x02,
      0xa5, 0x63, 0x68, 0x75, 0x6e, 0x6b, 0xa1, 0x61] := by decide

end FV
