import FluentVerif.Proto.RoundTripHs
import FluentVerif.Props.C13
import FluentVerif.Proto.DecodeComplete2
/-! # C01 — round-trip fidelity of every message kind through both codec paths

For every representable message `m` (explicit well-formedness hypotheses: lengths and counts below
2^32, timestamps in int64, EventTimes in the 32-bit-second domain, records built from
msgpack-representable values with any nesting) the encoding `e` produced by the repository's
encoder, followed by **any** bytes `x`, decoded by **either** decoder path `p` into **any**
receiver, yields the original value (records normalised to the msgpack data model by `toObj`,
instants by `norm`) and leaves exactly `x`.  One encoder definition serves `MarshalMsg` and
`EncodeMsg`; that both produce these bytes is what the correspondence checks on every run.
Second half (legal alternative encodings): `C01_alt_*`. -/
namespace FV

theorem C01_Message (p : Path) (recv : Message) (tag : Bytes) (ts : Int) (rec : GoVal) (opts : Option Options)
    (e x : Bytes) (htag : lenOK tag) (hts : inInt64 ts) (hrec : rec.WF) (hopts : optPtrWF opts)
    (he : Message.marshal tag ts rec opts = some e) :
    Message.unmarshal p recv (e ++ x) = .ok { tag := tag, ts := ts, record := rec.toObj, options := opts } x :=
  Message.roundtrip p recv htag hts hrec hopts he x

theorem C01_MessageExt (p : Path) (recv : MessageExt) (tag : Bytes) (ts : Instant) (rec : GoVal)
    (opts : Option Options) (e x : Bytes) (htag : lenOK tag) (hts : ts.InDomain) (hrec : rec.WF)
    (hopts : optPtrWF opts) (he : MessageExt.marshal tag ts rec opts = some e) :
    MessageExt.unmarshal p recv (e ++ x) = .ok { tag := tag, ts := ts.norm, record := rec.toObj, options := opts } x :=
  MessageExt.roundtrip p recv htag hts hrec hopts he x

theorem C01_Forward (p : Path) (recv : Forward) (tag : Bytes) (es : List (Instant × GoVal)) (opts : Option Options)
    (e x : Bytes) (htag : lenOK tag) (hn : es.length < 4294967296) (hes : entriesWF es) (hopts : optPtrWF opts)
    (he : Forward.marshal tag es opts = some e) :
    Forward.unmarshal p recv (e ++ x) = .ok { tag := tag, entries := entriesNorm es, options := opts } x :=
  Forward.roundtrip p recv htag hn hes hopts he x

theorem C01_Packed (p : Path) (recv : Packed) (tag stream : Bytes) (opts : Option Options) (x : Bytes)
    (htag : lenOK tag) (hs : lenOK stream) (hopts : optPtrWF opts) :
    Packed.unmarshal p recv (Packed.marshal tag stream opts ++ x) = .ok { tag := tag, stream := stream, options := opts } x :=
  Packed.roundtrip p recv htag hs hopts x

theorem C01_Entry (p : Path) (recv : Entry) (ts : Int) (rec : GoVal) (e x : Bytes) (hts : inInt64 ts)
    (hrec : rec.WF) (he : Entry.marshal ts rec = some e) :
    Entry.unmarshal p recv (e ++ x) = .ok { ts := ts, record := rec.toObj } x :=
  Entry.roundtrip p recv hts hrec he x

theorem C01_EntryExt (p : Path) (recv : EntryExt) (ts : Instant) (rec : GoVal) (e x : Bytes) (hts : ts.InDomain)
    (hrec : rec.WF) (he : EntryExt.marshal ts rec = some e) :
    EntryExt.unmarshal p recv (e ++ x) = .ok { ts := ts.norm, record := rec.toObj } x :=
  EntryExt.roundtrip p recv hts hrec he x

theorem C01_Options (p : Path) (o : Options) (hw : o.WF) (x : Bytes) :
    Options.unmarshal p {} (o.marshal ++ x) = .ok o x := Options.roundtrip p o hw x

theorem C01_Ack (p : Path) (recv a : Ack) (h : lenOK a.ack) (x : Bytes) :
    Ack.unmarshal p recv (a.marshal ++ x) = .ok a x := Ack.roundtrip p recv a h x

theorem C01_HeloOpts (p : Path) (o : HeloOpts) (h : o.WF) (x : Bytes) :
    HeloOpts.unmarshal p {} (o.marshal ++ x) = .ok o x := HeloOpts.roundtrip p o h x

theorem C01_Helo (p : Path) (hl : Helo) (h1 : lenOK hl.mtype) (h2 : heloOptsPtrWF hl.options) (x : Bytes) :
    Helo.unmarshal p {} (hl.marshal ++ x) = .ok hl x := Helo.roundtrip p hl h1 h2 x

theorem C01_Ping (p : Path) (recv q : Ping) (h : q.WF) (x : Bytes) :
    Ping.unmarshal p recv (q.marshal ++ x) = .ok q x := Ping.roundtrip p recv q h x

theorem C01_Pong (p : Path) (recv q : Pong) (h : q.WF) (x : Bytes) :
    Pong.unmarshal p recv (q.marshal ++ x) = .ok q x := Pong.roundtrip p recv q h x

/-- records: **every** legal msgpack encoding (any integer width, signed or unsigned; any string,
array and map header class; any nesting) of a plain object decodes, on either path, to exactly the
object the specification parser finds -/
theorem C01_alt_record (p : Path) (b : Bytes) (o : Obj) (r : Bytes) (h : parse b = some (o, r))
    (hp : Obj.Plain o) : readIntf p b = .ok o r := readIntf_complete p h hp

/-- one message together with its encoding -/
structure MsgCase where
  tag : Bytes
  ts : Int
  record : GoVal
  opts : Option Options
  enc : Bytes

def MsgCase.OK (m : MsgCase) : Prop :=
  lenOK m.tag ∧ inInt64 m.ts ∧ m.record.WF ∧ optPtrWF m.opts ∧ Message.marshal m.tag m.ts m.record m.opts = some m.enc

/-- concatenation: a sequence of encoded messages decodes, in order, to exactly those messages with
nothing left (here for Message mode; the other modes are the same one-liner over their round trip) -/
theorem C01_concat_Message (p : Path) (recv : Message) :
    ∀ (ms : List MsgCase), (∀ m ∈ ms, m.OK) →
      decodeMany (Message.unmarshal p recv) ms.length (ms.map (·.enc)).flatten =
        some (ms.map fun m => { tag := m.tag, ts := m.ts, record := m.record.toObj, options := m.opts }, [])
  | [], _ => by simp [decodeMany]
  | m :: ms, h => by
    obtain ⟨a, b, c, d, he⟩ := h m (by simp)
    simp only [List.length_cons, List.map_cons, List.flatten_cons, decodeMany]
    rw [Message.roundtrip p recv a b c d he]
    simp only
    rw [C01_concat_Message p recv ms (fun m' hm => h m' (by simp [hm]))]
    simp

-- non-vacuity: a concrete well-formed message with options and a nested record
example : Message.marshal [0x74] (-5) (.map (.cons [0x6b] (.arr (.cons (.uint 200) (.cons .nil .nil))) .nil))
    (some { size := some 2, chunk := [0x61] }) =
    some [0x94, 0xa1, 0x74, 0xfb, 0x81, 0xa1, 0x6b, 0x92, 0xcc, 0xc8, 0xc0, 0x82, 0xa4, 0x73, 0x69, 0x7a, 0x65, 0x02,
      0xa5, 0x63, 0x68, 0x75, 0x6e, 0x6b, 0xa1, 0x61] := by decide

/-! ### second half: every conforming encoding decodes (message level)

The hypotheses describe the bytes only through the *specification parser*: `parse b` finds one
array whose elements have the shape the Forward protocol gives the mode — the tag a string, the
time any integer encoding of an int64 value (signed or unsigned, any width) or any extension
encoding of type 0 with eight payload bytes, the record any plain object, the entries
`[EventTime, record]` pairs, the optional last element nil or a map with non-empty string keys in
any order, `size` an integer or nil, `chunk` / `compressed` strings, any further keys with values
of any shape (`OptKVsOK`); on the stream path, no token in the ext32 format (`hasExt32 b = false`:
msgp's stream `Skip` fails on those, see `Msgp/Ext32.lean` and the open finding C11-ext32-skip).  Conclusion: the decoder — either path, any receiver — returns exactly
the message those objects denote and leaves exactly the rest. -/

theorem C01_alt_Message (p : Path) (recv : Message) (b r tag : Bytes) (i : Int) (rec : Obj) (tail : Objs)
    (h : parse b = some (.arr (.cons (.str tag) (.cons (.int i) (.cons rec tail))), r))
    (hi : inInt64 i) (hrec : Obj.Plain rec) (ht : TailOK tail) (hx : p = .stream → hasExt32 b = false) :
    Message.unmarshal p recv b = .ok { tag := tag, ts := i, record := rec, options := optOfTail tail } r :=
  Message.unmarshal_complete p recv h hi hrec ht hx

theorem C01_alt_MessageExt (p : Path) (recv : MessageExt) (b r tag d : Bytes) (rec : Obj) (tail : Objs)
    (h : parse b = some (.arr (.cons (.str tag) (.cons (.ext 0 d) (.cons rec tail))), r))
    (hd : d.length = 8) (hrec : Obj.Plain rec) (ht : TailOK tail) (hx : p = .stream → hasExt32 b = false) :
    ∃ ts, decodeET d = some ts ∧
      MessageExt.unmarshal p recv b = .ok { tag := tag, ts := ts, record := rec, options := optOfTail tail } r :=
  MessageExt.unmarshal_complete p recv h hd hrec ht hx

theorem C01_alt_Forward (p : Path) (recv : Forward) (b r tag : Bytes) (es tail : Objs)
    (h : parse b = some (.arr (.cons (.str tag) (.cons (.arr es) tail)), r)) (hes : EntriesOK es) (ht : TailOK tail)
    (hx : p = .stream → hasExt32 b = false) :
    Forward.unmarshal p recv b = .ok { tag := tag, entries := entriesOfObjs es, options := optOfTail tail } r :=
  Forward.unmarshal_complete p recv h hes ht hx

theorem C01_alt_Packed (p : Path) (recv : Packed) (b r tag s : Bytes) (tail : Objs)
    (h : parse b = some (.arr (.cons (.str tag) (.cons (.bin s) tail)), r)) (ht : TailOK tail)
    (hx : p = .stream → hasExt32 b = false) :
    Packed.unmarshal p recv b = .ok { tag := tag, stream := s, options := optOfTail tail } r :=
  Packed.unmarshal_complete p recv h ht hx

theorem C01_alt_Options (p : Path) (recv : Options) (b r : Bytes) (kvs : Objs)
    (h : parse b = some (.map kvs, r)) (hk : OptKVsOK kvs) (hx : p = .stream → hasExt32 b = false) :
    Options.unmarshal p recv b = .ok (foldOpts kvs recv) r :=
  Options.unmarshal_complete p recv h hk hx

theorem C01_alt_Ack (p : Path) (recv : Ack) (b r : Bytes) (kvs : Objs)
    (h : parse b = some (.map kvs, r)) (hk : KVsOK ackOK kvs) (hx : p = .stream → hasExt32 b = false) :
    Ack.unmarshal p recv b = .ok (foldKVs ackApply kvs recv) r := Ack.unmarshal_complete p recv h hk hx

theorem C01_alt_Helo (p : Path) (recv : Helo) (b r mt : Bytes) (opt : Obj)
    (h : parse b = some (.arr (.cons (.str mt) (.cons opt .nil)), r))
    (ho : opt = .nil ∨ ∃ kvs, opt = .map kvs ∧ KVsOK heloOK kvs) (hx : p = .stream → hasExt32 b = false) :
    Helo.unmarshal p recv b = .ok (Helo.mk mt
      (match opt with
        | .map kvs => some (foldKVs heloApply kvs (recv.options.getD {}))
        | _ => none)) r := Helo.unmarshal_complete p recv h ho hx

theorem C01_alt_Pong (p : Path) (recv : Pong) (b r mt reason host dig : Bytes) (ar : Bool)
    (h : parse b = some (.arr (.cons (.str mt) (.cons (.bool ar) (.cons (.str reason) (.cons (.str host)
      (.cons (.str dig) .nil))))), r)) :
    Pong.unmarshal p recv b = .ok (Pong.mk mt ar reason host dig) r := Pong.unmarshal_complete p recv h

theorem C01_alt_Ping (p : Path) (recv : Ping) (b r mt host salt dig user pw : Bytes)
    (h : parse b = some (.arr (.cons (.str mt) (.cons (.str host) (.cons (.bin salt) (.cons (.str dig)
      (.cons (.str user) (.cons (.str pw) .nil)))))), r)) :
    Ping.unmarshal p recv b = .ok (Ping.mk mt host salt dig user pw) r := Ping.unmarshal_complete p recv h

/-- the hypotheses are met by an encoding the library itself never produces: str8 tag, uint32 time,
map16 options with an unknown key whose value is an array, `size` as uint8, then trailing bytes -/
def altExample : Bytes :=
  [0x94, 0xd9, 0x01, 0x74, 0xce, 0x00, 0x00, 0x00, 0x05, 0x80,
   0xde, 0x00, 0x02, 0xa1, 0x78, 0x92, 0x01, 0x02, 0xa4, 0x73, 0x69, 0x7a, 0x65, 0xcc, 0x03, 0xff]

example : parse altExample =
    some (.arr (.cons (.str [0x74]) (.cons (.int 5) (.cons (.map .nil)
      (.cons (.map (.cons (.str [0x78]) (.cons (.arr (.cons (.int 1) (.cons (.int 2) .nil)))
        (.cons (.str kSize) (.cons (.int 3) .nil))))) .nil)))), [0xff]) := by rfl

example (p : Path) (recv : Message) :
    Message.unmarshal p recv altExample =
      .ok { tag := [0x74], ts := 5, record := .map .nil, options := some { size := some 3 } } [0xff] := by
  have h : parse altExample =
    some (.arr (.cons (.str [0x74]) (.cons (.int 5) (.cons (.map .nil)
      (.cons (.map (.cons (.str [0x78]) (.cons (.arr (.cons (.int 1) (.cons (.int 2) .nil)))
        (.cons (.str kSize) (.cons (.int 3) .nil))))) .nil)))), [0xff]) := by rfl
  have := C01_alt_Message p recv altExample _ _ _ _ _ h (by decide) (by simp [Obj.Plain, Objs.PlainKV])
    (by
      simp only [TailOK, OptObjOK, OptKVsOK]
      exact ⟨⟨[0x78], rfl, by decide, by simp [OptValOK, kSize, kChunk, kCompressed]⟩,
             ⟨kSize, rfl, by decide, by simp only [OptValOK, if_true]; exact Or.inr ⟨3, rfl, by decide⟩⟩, trivial⟩)
    (fun _ => by decide +kernel)
  simpa [optOfTail, optOfObj, foldOpts, applyOpt, kSize, kChunk, kCompressed] using this

end FV
