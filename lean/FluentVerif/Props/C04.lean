import FluentVerif.Client.TcpLemmas
import FluentVerif.Props.C12
import FluentVerif.Proto.DecodeComplete2
/-! # C04 — ack: Send succeeds exactly when the peer acknowledges this message's chunk

The response the peer delivers before silence / EOF / the deadline enters the model as the
concatenation `resp` of its fragments: `msgp.Reader` presents the connection as a byte stream, so
the result cannot depend on how the bytes were split in transit (an assumption about the
dependency; the correspondence delivers matching acks split at every byte boundary). -/
namespace FV.Tcp

/-- with acknowledgements required, in transport phase: success ⇔ every byte of the encoding was
accepted ∧ the response starts with a map the ack decoder accepts whose `ack` equals the chunk id
this message carries -/
theorem C04_success_iff (cfg : Cfg) (s : St) (id : Nat) (e chunk : Bytes) (f : WFault) (resp : Bytes)
    (hs : s.session = some (id, true)) (hack : cfg.requireAck = true) :
    (send cfg s (some e) chunk f resp).2 = .ok ↔
      ((doWrite e f).2 = .ok ∧ ∃ a r, Ack.unmarshal .stream {} resp = .ok a r ∧ a.ack = chunk) := by
  unfold send
  simp only [hs, hack, Bool.not_true, Bool.false_eq_true, ite_false]
  by_cases hw : (doWrite e f).2 = .ok
  · simp only [hw, ne_eq, not_true_eq_false, ite_false, true_and]
    cases hr : Ack.unmarshal .stream {} resp with
    | ok a r =>
      simp only
      by_cases ha : a.ack = chunk
      · simp [ha]
      · simp [ha]
    | err => simp
    | panic w => simp
  · simp [hw]

/-- wrong id, empty map, non-map, truncated, EOF, silence: all of them are "no accepted ack with
this chunk", hence an error -/
theorem C04_bad_response (cfg : Cfg) (s : St) (id : Nat) (e chunk : Bytes) (f : WFault) (resp : Bytes)
    (hs : s.session = some (id, true)) (hack : cfg.requireAck = true)
    (hbad : ∀ a r, Ack.unmarshal .stream {} resp = .ok a r → a.ack ≠ chunk) :
    (send cfg s (some e) chunk f resp).2 = .err := by
  have := (C04_success_iff cfg s id e chunk f resp hs hack)
  cases hres : (send cfg s (some e) chunk f resp).2 with
  | err => rfl
  | ok =>
    obtain ⟨_, a, r, h1, h2⟩ := this.1 hres
    exact absurd h2 (hbad a r h1)
  | bool b =>
    unfold send at hres
    repeat' split at hres
    all_goals simp at hres
  | panic =>
    unfold send at hres
    repeat' split at hres
    all_goals simp at hres

/-- with a timeout configured, a read deadline is armed after the write and before the response is
looked at: a silent peer becomes a timeout error instead of a hang -/
theorem C04_deadline_armed (cfg : Cfg) (s : St) (id : Nat) (e chunk : Bytes) (resp : Bytes)
    (hs : s.session = some (id, true)) (hack : cfg.requireAck = true) (ht : cfg.timeout = true) :
    (send cfg s (some e) chunk .none resp).1.log = s.log ++ [.write id e .ok, .deadline id] := by
  unfold send
  simp only [hs, hack, ht, Bool.not_true, Bool.false_eq_true, ite_false, doWrite, ne_eq, not_true_eq_false, ite_true]
  repeat' split
  all_goals simp [St.emit]

/-- the id awaited is the id the server sees: for a message whose `Chunk()` returned `id`, the
option map of the encoding — as the specification parser reads it — carries `id` (C12_carried);
so "acknowledges this chunk" is about the bytes on the wire -/
theorem C04_chunk_on_wire (tag ts rec) (opts : Option Options) (draw : Bytes) (hd : draw ≠ []) :
    Spec.chunkOf (Message.obj tag ts rec (chunkCall opts draw).1) = some (chunkCall opts draw).2 :=
  C12_carried_Message tag ts rec opts draw hd

/-- sequences: every send is judged against its own chunk and its own response — `send` reads
nothing but its arguments and the session -/
theorem C04_sequences (cfg : Cfg) (s₁ s₂ : St) (enc chunk f resp) (h : s₁.session = s₂.session) :
    (send cfg s₁ enc chunk f resp).2 = (send cfg s₂ enc chunk f resp).2 := by
  unfold send
  rw [h]
  repeat' split
  all_goals first | rfl | (simp_all; done)

-- non-vacuity: the matching ack `{"ack": "x"}` is accepted, another id is not
example : (send { requireAck := true } { session := some (0, true), conns := [{ closeErr := false }] } (some [0xc0]) [0x78] .none
    [0x81, 0xa3, 0x61, 0x63, 0x6b, 0xa1, 0x78]).2 = .ok := by decide
example : (send { requireAck := true } { session := some (0, true), conns := [{ closeErr := false }] } (some [0xc0]) [0x79] .none
    [0x81, 0xa3, 0x61, 0x63, 0x6b, 0xa1, 0x78]).2 = .err := by decide

/-- **a conforming matching ack yields success, in whatever legal msgpack form it arrives**: if the
specification parser finds, at the front of what the peer sent, a map with non-empty string keys whose
`ack` entries are strings (any header class, entries in any order, further entries of any shape but
without a token in the ext32 format, on which msgp's stream `Skip` fails)
and the last `ack` entry is this chunk, and every byte of the message was accepted, then `Send`
succeeds -/
theorem C04_conforming_ack (cfg : Cfg) (s : St) (id : Nat) (e chunk : Bytes) (f : WFault) (resp rest : Bytes)
    (kvs : Objs) (hs : s.session = some (id, true)) (hack : cfg.requireAck = true)
    (hw : (doWrite e f).2 = .ok) (hp : parse resp = some (.map kvs, rest)) (hk : KVsOK ackOK kvs)
    (hx : hasExt32 resp = false)
    (hc : (foldKVs ackApply kvs {}).ack = chunk) :
    (send cfg s (some e) chunk f resp).2 = .ok :=
  (C04_success_iff cfg s id e chunk f resp hs hack).2
    ⟨hw, _, _, Ack.unmarshal_complete .stream {} hp hk (fun _ => hx), hc⟩

/-- why the empty chunk id has to be refused before the send: a response map without any `ack` entry decodes to the empty id, so
for the empty id *every* ack-less map would count as its acknowledgement (found by the seed sweep of the tcp suite: a caller-built
raw message whose chunk option is present and empty, answered by `{}`) -/
theorem C04_empty_id_witness :
    (send { requireAck := true } { session := some (0, true), conns := [{ closeErr := false }] } (some [0x90]) [] .none [0x80]).2 = .ok := by
  decide

/-- for every other id, success means the peer's response carried a non-empty `ack` entry equal to it -/
theorem C04_success_nonempty (cfg : Cfg) (s : St) (id : Nat) (e chunk : Bytes) (f : WFault) (resp : Bytes)
    (hs : s.session = some (id, true)) (hack : cfg.requireAck = true) (hne : chunk ≠ [])
    (h : (send cfg s (some e) chunk f resp).2 = .ok) :
    ∃ a r, Ack.unmarshal .stream {} resp = .ok a r ∧ a.ack = chunk ∧ a.ack ≠ [] := by
  obtain ⟨_, a, r, ha, hc⟩ := (C04_success_iff cfg s id e chunk f resp hs hack).1 h
  exact ⟨a, r, ha, hc, hc ▸ hne⟩

end FV.Tcp
