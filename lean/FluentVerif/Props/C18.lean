import FluentVerif.Proto.Decode
/-! # C18 — decoding into a reused message equals decoding into a fresh one

The result of the four hand-written decoders is a function of the input bytes alone: for every
receiver state `recv`, every path and every input (valid or not) it equals the result for the
zero receiver. -/
namespace FV

theorem C18_Message (p : Path) (recv : Message) (b : Bytes) :
    Message.unmarshal p recv b = Message.unmarshal p {} b := by
  unfold Message.unmarshal; rfl
theorem C18_MessageExt (p : Path) (recv : MessageExt) (b : Bytes) :
    MessageExt.unmarshal p recv b = MessageExt.unmarshal p {} b := by
  unfold MessageExt.unmarshal; rfl
theorem C18_Forward (p : Path) (recv : Forward) (b : Bytes) :
    Forward.unmarshal p recv b = Forward.unmarshal p {} b := by
  unfold Forward.unmarshal; rfl
theorem C18_Packed (p : Path) (recv : Packed) (b : Bytes) :
    Packed.unmarshal p recv b = Packed.unmarshal p {} b := by
  unfold Packed.unmarshal; rfl
theorem C18_Entry (p : Path) (recv : Entry) (b : Bytes) :
    Entry.unmarshal p recv b = Entry.unmarshal p {} b := rfl
theorem C18_EntryExt (p : Path) (recv : EntryExt) (b : Bytes) :
    EntryExt.unmarshal p recv b = EntryExt.unmarshal p {} b := rfl

/-- the pinned decoder (options assigned only when a map is present), kept as a standing test
that the statement excludes the old behaviour -/
def Message.unmarshalLegacy (p : Path) (recv : Message) (b : Bytes) : Res Message :=
  (readArrayHeader b).bind fun sz b1 =>
    (readString b1).bind fun tag b2 =>
    (readInt64 b2).bind fun ts b3 =>
    (readIntf p b3).bind fun r b4 =>
      let m := { recv with tag := tag, ts := ts, record := r }
      if sz = 4 then
        if isNil b4 then (readNil b4).map fun _ => m
        else (Options.unmarshal p {} b4).map fun o => { m with options := some o }
      else .ok m b4

def optionsSet : Res Message → Bool
  | .ok m _ => m.options.isSome
  | _ => false

/-- `["y", 2, {}]` decoded into a receiver that carried a chunk id kept it -/
theorem C18_legacy_witness :
    optionsSet (Message.unmarshalLegacy .bytes { options := some { chunk := [0x61] } } [0x93, 0xa1, 0x79, 0x02, 0x80]) = true ∧
    optionsSet (Message.unmarshalLegacy .bytes {} [0x93, 0xa1, 0x79, 0x02, 0x80]) = false ∧
    optionsSet (Message.unmarshal .bytes { options := some { chunk := [0x61] } } [0x93, 0xa1, 0x79, 0x02, 0x80]) = false := by
  decide

end FV
