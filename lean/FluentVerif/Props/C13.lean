import FluentVerif.Proto.DecodeLemmas2
/-! # C13 — decoding consumes exactly one msgpack value, whatever the declared arity

`Reads1 b r` is "`parse b = some (o, r)` for some object `o`": the independent specification
parser finds exactly one complete value in front of `r`.  Each theorem holds for **every** input
`b`, every receiver and both decoder paths. -/
namespace FV

theorem C13_Message (p : Path) (recv : Message) (b : Bytes) (v r) :
    Message.unmarshal p recv b = .ok v r → Reads1 b r := Message.unmarshal_sound
theorem C13_MessageExt (p : Path) (recv : MessageExt) (b : Bytes) (v r) :
    MessageExt.unmarshal p recv b = .ok v r → Reads1 b r := MessageExt.unmarshal_sound
theorem C13_Forward (p : Path) (recv : Forward) (b : Bytes) (v r) :
    Forward.unmarshal p recv b = .ok v r → Reads1 b r := Forward.unmarshal_sound
theorem C13_Packed (p : Path) (recv : Packed) (b : Bytes) (v r) :
    Packed.unmarshal p recv b = .ok v r → Reads1 b r := Packed.unmarshal_sound
theorem C13_Entry (p : Path) (recv : Entry) (b : Bytes) (v r) :
    Entry.unmarshal p recv b = .ok v r → Reads1 b r := Entry.unmarshal_sound
theorem C13_EntryExt (p : Path) (recv : EntryExt) (b : Bytes) (v r) :
    EntryExt.unmarshal p recv b = .ok v r → Reads1 b r := EntryExt.unmarshal_sound
theorem C13_EntryList (p : Path) (b : Bytes) (v r) :
    EntryList.unmarshal p b = .ok v r → Reads1 b r := EntryList.unmarshal_sound
theorem C13_Options (p : Path) (recv : Options) (b : Bytes) (v r) :
    Options.unmarshal p recv b = .ok v r → Reads1 b r := Options.unmarshal_sound
theorem C13_Ack (p : Path) (recv : Ack) (b : Bytes) (v r) :
    Ack.unmarshal p recv b = .ok v r → Reads1 b r := Ack.unmarshal_sound
theorem C13_Helo (p : Path) (recv : Helo) (b : Bytes) (v r) :
    Helo.unmarshal p recv b = .ok v r → Reads1 b r := Helo.unmarshal_sound
theorem C13_HeloOpts (p : Path) (recv : HeloOpts) (b : Bytes) (v r) :
    HeloOpts.unmarshal p recv b = .ok v r → Reads1 b r := HeloOpts.unmarshal_sound
theorem C13_Ping (p : Path) (recv : Ping) (b : Bytes) (v r) :
    Ping.unmarshal p recv b = .ok v r → Reads1 b r := Ping.unmarshal_sound
theorem C13_Pong (p : Path) (recv : Pong) (b : Bytes) (v r) :
    Pong.unmarshal p recv b = .ok v r → Reads1 b r := Pong.unmarshal_sound

/-- a count the protocol does not allow for the mode is rejected (never read short / past the end) -/
theorem C13_arity_Message (p : Path) (recv : Message) (b : Bytes) (sz : Nat) (b1 : Bytes)
    (h : readArrayHeader b = .ok sz b1) (hsz : sz ≠ 3 ∧ sz ≠ 4) : Message.unmarshal p recv b = .err := by
  simp [Message.unmarshal, h, Res.bind, hsz]
theorem C13_arity_MessageExt (p : Path) (recv : MessageExt) (b : Bytes) (sz : Nat) (b1 : Bytes)
    (h : readArrayHeader b = .ok sz b1) (hsz : sz ≠ 3 ∧ sz ≠ 4) : MessageExt.unmarshal p recv b = .err := by
  simp [MessageExt.unmarshal, h, Res.bind, hsz]
theorem C13_arity_Forward (p : Path) (recv : Forward) (b : Bytes) (sz : Nat) (b1 : Bytes)
    (h : readArrayHeader b = .ok sz b1) (hsz : sz ≠ 2 ∧ sz ≠ 3) : Forward.unmarshal p recv b = .err := by
  simp [Forward.unmarshal, h, Res.bind, hsz]
theorem C13_arity_Packed (p : Path) (recv : Packed) (b : Bytes) (sz : Nat) (b1 : Bytes)
    (h : readArrayHeader b = .ok sz b1) (hsz : sz ≠ 2 ∧ sz ≠ 3) : Packed.unmarshal p recv b = .err := by
  simp [Packed.unmarshal, h, Res.bind, hsz]

/-- decoding a sequence of values one after another (slice or stream), with any decoder that
consumes exactly one value per success: what is consumed is exactly `n` complete values -/
def decodeMany {α} (un : Bytes → Res α) : Nat → Bytes → Option (List α × Bytes)
  | 0, b => some ([], b)
  | n+1, b => match un b with
    | .ok v r => (decodeMany un n r).map fun (vs, r') => (v :: vs, r')
    | _ => none

theorem C13_sequence {α} (un : Bytes → Res α) (hun : ∀ b v r, un b = .ok v r → Reads1 b r) :
    ∀ (n : Nat) (b : Bytes) (vs r), decodeMany un n b = some (vs, r) → ReadsN n b r
  | 0, b, vs, r, h => by simp [decodeMany] at h; obtain ⟨_, rfl⟩ := h; exact ReadsN.zero _
  | n+1, b, vs, r, h => by
    unfold decodeMany at h
    split at h
    · next v r1 hv =>
      cases hd : decodeMany un n r1 with
      | none => simp [hd] at h
      | some q =>
        obtain ⟨vs', r'⟩ := q
        simp [hd] at h
        obtain ⟨_, rfl⟩ := h
        exact ReadsN.cons (hun b v r1 hv) (C13_sequence un hun n r1 vs' r' hd)
    · cases h

-- non-vacuity: a concrete arity-3 message followed by trailing data is decoded up to its boundary
example : (Message.unmarshal .bytes {} ([0x93, 0xa1, 0x79, 0x02, 0x80] ++ [0xff])).rest? = some [0xff] := by decide
-- the pinned behaviour (arity 2 read into the following message) is now an error
example : (Message.unmarshal .bytes {} ([0x92, 0xa1, 0x7a, 0x03] ++ [0x93, 0xa1, 0x79, 0x02, 0x80])).rest? = none := by decide

end FV
