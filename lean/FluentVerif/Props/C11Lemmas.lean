import FluentVerif.Proto.Chunk
import FluentVerif.Msgp.Complete
import FluentVerif.Msgp.Ext32
import FluentVerif.Msgpack.Fuel
import FluentVerif.Forward.Spec
/-! helper lemmas for C11 -/
namespace FV
open Spec

theorem parseSeq_nil_inv {n b r} (h : parseSeq n b = some (.nil, r)) : n = 0 ∧ r = b := by
  cases n with
  | zero => simp [parseSeq] at h; exact ⟨rfl, h.symm⟩
  | succ n =>
    unfold parseSeq at h
    split at h
    · cases h
    · split at h
      · cases h
      · simp at h

theorem parseSeq_cons_inv {n b x xs r} (h : parseSeq n b = some (.cons x xs, r)) :
    ∃ m b1, n = m + 1 ∧ parse b = some (x, b1) ∧ parseSeq m b1 = some (xs, r) := by
  cases n with
  | zero => simp [parseSeq] at h
  | succ n =>
    unfold parseSeq at h
    split at h
    · cases h
    · next o b1 hp =>
      split at h
      · cases h
      · next os r' hq =>
        simp only [Option.some.injEq, Prod.mk.injEq, Objs.cons.injEq] at h
        obtain ⟨⟨rfl, rfl⟩, rfl⟩ := h
        exact ⟨n, b1, rfl, hp, hq⟩

/-- what `ReadMapKey`/`ReadMapKeyZC` (str or bin, any length) makes of a complete object -/
theorem readMapKey_bytes_of_parse {b v r} (h : parse b = some (v, r)) :
    readMapKey .bytes b = (match v with | .str c => .ok c r | .bin c => .ok c r | _ => .err) := by
  unfold parse at h
  have e : 2 * b.length + 2 = (2 * b.length + 1) + 1 := by omega
  rw [e] at h
  unfold parseF at h
  unfold readMapKey
  split at h
  · cases h
  · next o0 r0 hh =>
    rw [hh]; simp only [Option.some.injEq, Prod.mk.injEq] at h; obtain ⟨rfl, rfl⟩ := h
    cases o0 <;> rfl
  · next k n r0 hh =>
    rw [hh]; simp only
    split at h
    · cases h
    · next hl =>
      rw [if_neg hl]
      simp only [Option.some.injEq, Prod.mk.injEq] at h; obtain ⟨rfl, rfl⟩ := h
      cases k <;> simp [blobObj]
  · next n r0 hh =>
    rw [hh]
    split at h
    · cases h
    · split at h
      · cases h
      · simp only [Option.some.injEq, Prod.mk.injEq] at h; obtain ⟨rfl, rfl⟩ := h; rfl
  · next n r0 hh =>
    rw [hh]
    split at h
    · simp only [Option.some.injEq, Prod.mk.injEq] at h; obtain ⟨rfl, rfl⟩ := h; rfl
    · cases h
  · next n r0 hh =>
    rw [hh]
    split at h
    · simp only [Option.some.injEq, Prod.mk.injEq] at h; obtain ⟨rfl, rfl⟩ := h; rfl
    · cases h

/-- the stream key reader on a non-empty string key -/
theorem readMapKey_stream_of_parse {b s r} (h : parse b = some (.str s, r)) (hne : s ≠ []) :
    readMapKey .stream b = .ok s r := by
  obtain ⟨m, r0, hh, hl, rfl, rfl⟩ := parseF_str_inv h
  unfold readMapKey
  rw [hh]; simp only
  rw [if_neg hl]
  have : m ≠ 0 := by
    intro e; subst e; simp at hne
  simp [this]

/-- the walker's timestamp test on a complete object -/
theorem isTimestampType_of_parse {b v r} (h : parse b = some (v, r)) :
    isTimestampType b = (match v with | .int _ => true | .ext t _ => (t != 3 && t != 4 && t != 5) | _ => false) := by
  unfold parse at h
  have e : 2 * b.length + 2 = (2 * b.length + 1) + 1 := by omega
  rw [e] at h
  unfold parseF at h
  unfold isTimestampType
  split at h
  · cases h
  · next o0 r0 hh =>
    rw [hh]; simp only [Option.some.injEq, Prod.mk.injEq] at h; obtain ⟨rfl, rfl⟩ := h
    cases o0 <;> rfl
  · next k n r0 hh =>
    rw [hh]
    split at h
    · cases h
    · simp only [Option.some.injEq, Prod.mk.injEq] at h; obtain ⟨rfl, rfl⟩ := h
      cases k <;> rfl
  · next n r0 hh =>
    rw [hh]
    split at h
    · cases h
    · split at h
      · cases h
      · simp only [Option.some.injEq, Prod.mk.injEq] at h; obtain ⟨rfl, rfl⟩ := h; rfl
  · next n r0 hh =>
    rw [hh]
    split at h
    · simp only [Option.some.injEq, Prod.mk.injEq] at h; obtain ⟨rfl, rfl⟩ := h; rfl
    · cases h
  · next n r0 hh =>
    rw [hh]
    split at h
    · simp only [Option.some.injEq, Prod.mk.injEq] at h; obtain ⟨rfl, rfl⟩ := h; rfl
    · cases h

theorem skip_of_parse {b v r} (h : parse b = some (v, r)) : skip b = .ok () r := by
  simp [skip, h]

/-- the stream `Skip` passes over a complete value that holds no ext32 token -/
theorem skipP_of_parse {p b v r} (h : parse b = some (v, r)) (hx : p = .stream → hasExt32 b = false) :
    skipP p b = .ok () r := by
  rw [skipP_eq_skip hx]; exact skip_of_parse h

/-- option keys GetChunk is specified for: non-empty strings -/
def KeysOK : Objs → Prop
  | .nil => True
  | .cons k (.cons _ r) => (∃ s, k = .str s ∧ s ≠ []) ∧ KeysOK r
  | .cons _ .nil => False

/-- outcome of the walker expressed against a specification-level answer -/
def Agrees (res : Res Bytes) (want : Option Bytes) : Prop :=
  match want with
  | some c => ∃ r, res = .ok c r
  | none => res = .err

theorem getChunkKeys_agrees : ∀ (n : Nat) (b : Bytes) (kvs : Objs) (r : Bytes),
    parseSeq (2*n) b = some (kvs, r) → KeysOK kvs → ext32Seq (2*n) b = false →
    Agrees (getChunkKeys n b) (chunkOfKVs kvs)
  | 0, b, kvs, r, h, _, _ => by
    simp [parseSeq] at h; obtain ⟨rfl, _⟩ := h
    simp [getChunkKeys, chunkOfKVs, objsToList, pairs, Agrees]
  | n+1, b, kvs, r, h, hk, hx => by
    have two : 2 * (n+1) = (2*n + 1) + 1 := by omega
    rw [two] at h hx
    cases kvs with
    | nil => have := (parseSeq_nil_inv h).1; omega
    | cons k rest =>
      obtain ⟨m, b1, hm, pk, h1⟩ := parseSeq_cons_inv h
      have hm' : m = 2*n + 1 := by omega
      subst hm'
      cases rest with
      | nil => have := (parseSeq_nil_inv h1).1; omega
      | cons v rest' =>
        obtain ⟨m2, b2, hm2, pv, h2⟩ := parseSeq_cons_inv h1
        have hm2' : m2 = 2*n := by omega
        subst hm2'
        simp only [KeysOK] at hk
        obtain ⟨⟨s, rfl, hne⟩, hk'⟩ := hk
        obtain ⟨_, hx1⟩ := ext32Seq_cons hx pk
        obtain ⟨hxv, hx2⟩ := ext32Seq_cons hx1 pv
        unfold getChunkKeys
        rw [readMapKey_stream_of_parse pk hne]
        simp only [Res.bind]
        by_cases e : s = kChunk
        · subst e
          rw [if_pos rfl, readMapKey_bytes_of_parse pv]
          have : chunkOfKVs (.cons (.str kChunk) (.cons v rest')) =
              (match v with | .str c => some c | .bin c => some c | _ => none) := by
            simp [chunkOfKVs, objsToList, pairs, sChunk, kChunk]
            cases v <;> rfl
          rw [this]
          cases v <;> simp [Agrees]
        · rw [if_neg e, skipP_of_parse pv (fun _ => hxv)]
          simp only [Res.bind]
          have : chunkOfKVs (.cons (.str s) (.cons v rest')) = chunkOfKVs rest' := by
            have e' : (s == sChunk) = false := by
              simp only [beq_eq_false_iff_ne, ne_eq]; exact e
            simp [chunkOfKVs, objsToList, pairs, e']
          rw [this]
          exact getChunkKeys_agrees n b2 rest' r h2 hk' hx2

end FV
