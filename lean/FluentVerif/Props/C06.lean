import FluentVerif.Client.TcpLemmas
/-! # C06 / C14 (sequential part) — invariants of the TCP client over all operation sequences

`Inv s`: the event log is well ordered (`replay`: no write, deadline or close on a connection that
is not open; no connection dialled twice) and the set of open connections — dialled and not yet
closed — is exactly `{session.conn}` (or empty).  Hence at most one connection is open, every
connection is closed at most once and no later than the step that replaces or drops it, and
nothing is written to a connection after the client closed or replaced it.  Proved for **every**
operation sequence of every length, every configuration, every factory / peer / fault script. -/
namespace FV.Tcp

theorem inv_step (H : Bytes → Bytes) (cfg : Cfg) (s : St) (op : Op) (hi : Inv s) : Inv (step H cfg s op).1 := by
  cases op with
  | connect d c =>
    simp only [step]
    split
    · exact hi
    · next hn =>
      have : s.session = none := by
        cases hs : s.session with
        | none => rfl
        | some p => simp [hs] at hn
      exact inv_connect cfg s d c hi this
  | disconnect => exact (inv_disconnect s hi).1
  | reconnect d c =>
    simp only [step]
    have := inv_disconnect s hi
    exact inv_connect cfg _ d c this.1 this.2
  | handshake helo salt pong f =>
    simp only [step, handshake]
    cases hs : s.session with
    | none => exact hi
    | some p =>
      obtain ⟨id, tp⟩ := p
      try simp only
      split
      · next h rest0 hh =>
        split
        · exact hi
        · next ho hho =>
          try simp only
          have hw := inv_emit_write s id tp (doWrite (pingMsg H cfg salt ho.nonce).marshal f).1
            (doWrite (pingMsg H cfg salt ho.nonce).marshal f).2 hi hs
          split
          · exact hw
          · split
            · split
              · exact inv_setTransport _ id tp hw (by simp [St.emit, hs])
              · exact hw
            · exact hw
      · exact hi
      · exact hi
  | send enc chunk f resp =>
    simp only [step, send]
    cases hs : s.session with
    | none => exact hi
    | some p =>
      obtain ⟨id, tp⟩ := p
      try simp only
      split
      · exact hi
      · split
        · exact hi
        · next e =>
          try simp only
          have hw := inv_emit_write s id tp (doWrite e f).1 (doWrite e f).2 hi hs
          split
          · exact hw
          · split
            · exact hw
            · have hd : Inv (if cfg.timeout = true then (s.emit (.write id (doWrite e f).1 (doWrite e f).2)).emit (.deadline id)
                  else s.emit (.write id (doWrite e f).1 (doWrite e f).2)) := by
                split
                · exact inv_emit_deadline _ id tp hw (by simp [St.emit, hs])
                · exact hw
              split
              · split <;> exact hd
              · exact hd
  | sendRaw b f =>
    simp only [step, sendRaw]
    cases hs : s.session with
    | none => exact hi
    | some p =>
      obtain ⟨id, tp⟩ := p
      try simp only
      split
      · exact hi
      · exact inv_emit_write s id tp _ _ hi hs
  | transportPhase => exact hi

/-- **every reachable state** satisfies the invariant -/
theorem C06_inv_run (H : Bytes → Bytes) (cfg : Cfg) (ops : List Op) : Inv (run H cfg {} ops) := by
  suffices ∀ s, Inv s → Inv (run H cfg s ops) from this {} inv_init
  induction ops with
  | nil => intro s h; exact h
  | cons op rest ih => intro s h; exact ih _ (inv_step H cfg s op h)

/-- C14: at most one connection is open, and it is the session's -/
theorem C14_one_open (H : Bytes → Bytes) (cfg : Cfg) (ops : List Op) :
    ∃ o, replay (run H cfg {} ops).log [] = some o ∧ o.length ≤ 1 := by
  have := (C06_inv_run H cfg ops).opens
  refine ⟨_, this, ?_⟩
  cases (run H cfg {} ops).session with
  | none => simp
  | some p => simp

/-- sends outside a live session in transport phase return an error and touch nothing:
before Connect, after Disconnect, after a failed Connect/Reconnect, before a successful Handshake -/
theorem C06_send_needs_transport (cfg : Cfg) (s : St) (enc chunk f resp)
    (h : s.session = none ∨ ∃ id, s.session = some (id, false)) :
    send cfg s enc chunk f resp = (s, .err) := by
  rcases h with h | ⟨id, h⟩ <;> simp [send, h]

theorem C06_sendRaw_needs_transport (s : St) (b f)
    (h : s.session = none ∨ ∃ id, s.session = some (id, false)) :
    sendRaw s b f = (s, .err) := by
  rcases h with h | ⟨id, h⟩ <;> simp [sendRaw, h]

/-- with a shared key configured, a fresh connection is *not* in transport phase -/
theorem C06_connect_not_transport (cfg : Cfg) (s : St) (c : Bool) (key : Bytes) (hk : cfg.sharedKey = some key) :
    (connect cfg s true c).1.session = some (s.conns.length, false) := by
  simp [connect, hk]

/-- after Disconnect, and after a failed Connect / Reconnect, there is no session -/
theorem C06_no_session_after (cfg : Cfg) (s : St) (c : Bool) :
    (disconnect s).1.session = none ∧ (connect cfg (disconnect s).1 false c).1.session = none := by
  refine ⟨(inv_disconnect_session s), ?_⟩
  simp [connect, St.emit, inv_disconnect_session s]
where
  inv_disconnect_session (s : St) : (disconnect s).1.session = none := by
    cases hs : s.session with
    | none => simp [disconnect, hs]
    | some p => simp [disconnect, hs]

/-- which steps write, and where: only `handshake` (one write, the PING, on the current session's
connection) and `send`/`sendRaw` in transport phase; every other step writes nothing -/
theorem C06_writes (H : Bytes → Bytes) (cfg : Cfg) (s : St) (op : Op) (id : Nat) (acc : Bytes) (st : WStatus)
    (hw : Ev.write id acc st ∈ (step H cfg s op).1.log.drop s.log.length) :
    (∃ tp, s.session = some (id, tp)) ∧
    ((∃ helo salt pong f, op = .handshake helo salt pong f) ∨ s.session = some (id, true)) := by
  cases op with
  | connect d c =>
    simp only [step] at hw
    split at hw
    · simp at hw
    · unfold connect at hw
      split at hw <;> simp [St.emit] at hw
  | disconnect =>
    simp only [step, disconnect] at hw
    cases hs : s.session with
    | none => simp [hs] at hw
    | some p => simp [hs] at hw
  | reconnect d c =>
    simp only [step] at hw
    unfold connect disconnect at hw
    cases hs : s.session with
    | none => simp only [hs] at hw; split at hw <;> simp [St.emit] at hw
    | some p => simp only [hs] at hw; split at hw <;> simp [St.emit] at hw
  | transportPhase => simp [step] at hw
  | handshake helo salt pong f =>
    simp only [step, handshake] at hw
    cases hs : s.session with
    | none => simp [hs] at hw
    | some p =>
      obtain ⟨id', tp⟩ := p
      simp only [hs] at hw
      refine ⟨?_, Or.inl ⟨helo, salt, pong, f, rfl⟩⟩
      have : id = id' := by
        repeat' split at hw
        all_goals (simp [St.emit] at hw)
        all_goals (first | exact hw.1 | exact hw.elim)
      exact ⟨tp, by rw [this]⟩
  | send enc chunk f resp =>
    simp only [step, send] at hw
    cases hs : s.session with
    | none => simp [hs] at hw
    | some p =>
      obtain ⟨id', tp⟩ := p
      simp only [hs] at hw
      cases tp with
      | false => simp at hw
      | true =>
        simp only [Bool.not_true, Bool.false_eq_true, ite_false] at hw
        cases enc with
        | none => simp at hw
        | some e =>
          simp only at hw
          have : id = id' := by
            repeat' split at hw
            all_goals (simp [St.emit] at hw)
            all_goals (first | exact hw.1 | exact hw.elim | (rcases hw with h | h <;> first | exact h.1 | cases h))
          exact ⟨⟨true, by rw [this]⟩, Or.inr (by rw [this])⟩
  | sendRaw b f =>
    simp only [step, sendRaw] at hw
    cases hs : s.session with
    | none => simp [hs] at hw
    | some p =>
      obtain ⟨id', tp⟩ := p
      simp only [hs] at hw
      cases tp with
      | false => simp at hw
      | true =>
        simp [St.emit] at hw
        exact ⟨⟨true, by rw [hw.1]⟩, Or.inr (by rw [hw.1])⟩

/-- C14: Connect on an active session returns an error and dials nothing -/
theorem C14_connect_active (H : Bytes → Bytes) (cfg : Cfg) (s : St) (d c : Bool) (h : s.session.isSome) :
    step H cfg s (.connect d c) = (s, .err) := by
  simp [step, h]

/-- C14 / C10: no step of the client panics, whatever the peer sends -/
theorem C14_no_panic (H : Bytes → Bytes) (cfg : Cfg) (s : St) (op : Op) : (step H cfg s op).2 ≠ .panic := by
  cases op <;> simp only [step, connect, disconnect, handshake, send, sendRaw, St.emit]
  all_goals (repeat' split)
  all_goals (first | (simp; done) | (intro _; exfalso; apply Helo.unmarshal_noPanic Path.stream {}; assumption))

-- non-vacuity: a concrete history with a handshake, a send and a reconnect satisfies the invariant
-- and leaves exactly the second connection open
example : (run (fun _ => []) {} {} [.connect true false, .sendRaw [1, 2] .none, .reconnect true false, .disconnect]).log =
    [.dial 0, .write 0 [1, 2] .ok, .close 0, .dial 1, .close 1] := by decide

end FV.Tcp
