import FluentVerif.Proto.ChunkID
import FluentVerif.Proto.RoundTripHs
/-! # C12 — chunk ids are fresh per message, stable once assigned, and carried on the wire -/
namespace FV
open Spec

theorem b64val_char : ∀ n : Fin 64, b64val (b64char n.val) = some n.val := by decide

theorem b64val_char' (n : Nat) (h : n < 64) : b64val (b64char n) = some n := b64val_char ⟨n, h⟩

theorem b64char_ne_pad : ∀ n : Fin 64, b64char n.val ≠ 61 := by decide

/-- base64 decoding inverts encoding, for byte strings of every length -/
theorem b64dec_enc : ∀ (bs : Bytes), b64dec (b64enc bs) = some bs
  | [] => rfl
  | [a] => by
    have ha := a.toNat_lt
    have e1 : a.toNat * 16 / 64 < 64 := by omega
    have e2 : a.toNat * 16 % 64 < 64 := by omega
    simp only [b64enc, b64dec, b64val_char' _ e1, b64val_char' _ e2, Option.bind_some, ite_true, ne_eq,
      not_true_eq_false, ite_false]
    have : (a.toNat * 16 / 64 * 64 + a.toNat * 16 % 64) = a.toNat * 16 := by omega
    rw [this]
    simp
  | [a, b] => by
    have ha := a.toNat_lt; have hb := b.toNat_lt
    have e1 : (a.toNat * 1024 + b.toNat * 4) / 4096 < 64 := by omega
    have e2 : (a.toNat * 1024 + b.toNat * 4) / 64 % 64 < 64 := by omega
    have e3 : (a.toNat * 1024 + b.toNat * 4) % 64 < 64 := by omega
    have n1 : b64char ((a.toNat * 1024 + b.toNat * 4) % 64) ≠ 61 := b64char_ne_pad ⟨_, e3⟩
    simp only [b64enc, b64dec, b64val_char' _ e1, b64val_char' _ e2, b64val_char' _ e3, Option.bind_some, ite_true,
      ne_eq, not_true_eq_false, ite_false, n1]
    have : ((a.toNat * 1024 + b.toNat * 4) / 4096 * 4096 + (a.toNat * 1024 + b.toNat * 4) / 64 % 64 * 64 +
        (a.toNat * 1024 + b.toNat * 4) % 64) = a.toNat * 1024 + b.toNat * 4 := by omega
    rw [this]
    have h1 : (a.toNat * 1024 + b.toNat * 4) % 4 = 0 := by omega
    have h2 : (a.toNat * 1024 + b.toNat * 4) / 1024 = a.toNat := by omega
    have h3 : (a.toNat * 1024 + b.toNat * 4) / 4 % 256 = b.toNat := by omega
    simp [h1, h2, h3]
  | a :: b :: c :: r => by
    have ha := a.toNat_lt; have hb := b.toNat_lt; have hc := c.toNat_lt
    have e1 : (a.toNat * 65536 + b.toNat * 256 + c.toNat) / 262144 < 64 := by omega
    have e2 : (a.toNat * 65536 + b.toNat * 256 + c.toNat) / 4096 % 64 < 64 := by omega
    have e3 : (a.toNat * 65536 + b.toNat * 256 + c.toNat) / 64 % 64 < 64 := by omega
    have e4 : (a.toNat * 65536 + b.toNat * 256 + c.toNat) % 64 < 64 := by omega
    have n4 : b64char ((a.toNat * 65536 + b.toNat * 256 + c.toNat) % 64) ≠ 61 := b64char_ne_pad ⟨_, e4⟩
    simp only [b64enc, b64dec, b64val_char' _ e1, b64val_char' _ e2, b64val_char' _ e3, b64val_char' _ e4,
      Option.bind_some, n4, ite_false, b64dec_enc r, Option.map_some]
    have : ((a.toNat * 65536 + b.toNat * 256 + c.toNat) / 262144 * 262144 +
        (a.toNat * 65536 + b.toNat * 256 + c.toNat) / 4096 % 64 * 4096 +
        (a.toNat * 65536 + b.toNat * 256 + c.toNat) / 64 % 64 * 64 +
        (a.toNat * 65536 + b.toNat * 256 + c.toNat) % 64) = a.toNat * 65536 + b.toNat * 256 + c.toNat := by omega
    rw [this]
    have h1 : (a.toNat * 65536 + b.toNat * 256 + c.toNat) / 65536 = a.toNat := by omega
    have h2 : (a.toNat * 65536 + b.toNat * 256 + c.toNat) / 256 % 256 = b.toNat := by omega
    have h3 : (a.toNat * 65536 + b.toNat * 256 + c.toNat) % 256 = c.toNat := by omega
    simp [h1, h2, h3]

theorem b64enc_injective {a b : Bytes} (h : b64enc a = b64enc b) : a = b := by
  have := congrArg b64dec h
  rw [b64dec_enc, b64dec_enc] at this
  exact Option.some.inj this

/-- ids of two draws coincide exactly when the draws coincide on the 122 random bits -/
theorem C12_injective (d₁ d₂ : Bytes) : makeChunkID d₁ = makeChunkID d₂ ↔ uuidMask d₁ = uuidMask d₂ :=
  ⟨b64enc_injective, fun h => by simp [makeChunkID, h]⟩

theorem b64enc_ne_nil : ∀ (bs : Bytes), bs ≠ [] → b64enc bs ≠ []
  | [], h => absurd rfl h
  | [_], _ => by simp [b64enc]
  | [_, _], _ => by simp [b64enc]
  | _ :: _ :: _ :: _, _ => by simp [b64enc]

theorem makeChunkID_ne_nil (d : Bytes) (h : d ≠ []) : makeChunkID d ≠ [] := by
  apply b64enc_ne_nil
  cases d with
  | nil => exact absurd rfl h
  | cons x xs => simp [uuidMask, List.mapIdx_cons]

/-- no id yet (options nil, empty or populated without chunk): the generated id is stored and returned -/
theorem C12_assign (opts : Option Options) (draw : Bytes) (h : (opts.getD {}).chunk = []) :
    chunkCall opts draw = (some { (opts.getD {}) with chunk := makeChunkID draw }, makeChunkID draw) := by
  simp [chunkCall, h]

/-- an id is present (caller-supplied or assigned earlier): it is returned and nothing changes -/
theorem C12_stable (o : Options) (draw : Bytes) (h : o.chunk ≠ []) :
    chunkCall (some o) draw = (some o, o.chunk) := by
  simp [chunkCall, h]

/-- repeated calls agree, whatever the later draws would have been -/
theorem C12_idempotent (opts : Option Options) (d₁ d₂ : Bytes) (h : d₁ ≠ []) :
    chunkCall (chunkCall opts d₁).1 d₂ = ((chunkCall opts d₁).1, (chunkCall opts d₁).2) := by
  unfold chunkCall
  by_cases e : (opts.getD {}).chunk = []
  · simp [e, makeChunkID_ne_nil d₁ h]
  · simp [e]

theorem chunkOfKVs_toObj (o : Options) (h : o.chunk ≠ []) :
    match o.toObj with | .map kvs => chunkOfKVs kvs = some o.chunk | _ => False := by
  obtain ⟨size, chunk, compressed⟩ := o
  simp only at h
  cases size <;> by_cases e3 : compressed = [] <;>
    simp [Options.toObj, chunkOfKVs, objsToList, pairs, h, e3, kSize, kChunk, kCompressed, sChunk]

/-- after `Chunk()` returned `id`, the option map of every encoding carries exactly `id`
(shown on the object the specification parser reads back from the encoder, C02) -/
theorem C12_carried_Message (tag ts rec) (opts : Option Options) (draw : Bytes) (hd : draw ≠ []) :
    chunkOf (Message.obj tag ts rec (chunkCall opts draw).1) = some (chunkCall opts draw).2 := by
  unfold chunkCall
  by_cases e : (opts.getD {}).chunk = []
  · have hne := makeChunkID_ne_nil draw hd
    have := chunkOfKVs_toObj { (opts.getD {}) with chunk := makeChunkID draw } hne
    simp only [e, ne_eq, not_true_eq_false, ite_false]
    simp only [Message.obj, olist, chunkOf, optionsOf, objsToList, optPtrObj]
    split at this
    · next kvs hk => rw [hk]; exact this
    · exact absurd this id
  · have := chunkOfKVs_toObj (opts.getD {}) e
    simp only [e, ne_eq, not_false_eq_true, ite_true]
    simp only [Message.obj, olist, chunkOf, optionsOf, objsToList, optPtrObj]
    split at this
    · next kvs hk => rw [hk]; exact this
    · exact absurd this id

theorem C12_carried_Packed (tag stream) (opts : Option Options) (draw : Bytes) (hd : draw ≠ []) :
    chunkOf (Packed.obj tag stream (chunkCall opts draw).1) = some (chunkCall opts draw).2 := by
  unfold chunkCall
  by_cases e : (opts.getD {}).chunk = []
  · have hne := makeChunkID_ne_nil draw hd
    have := chunkOfKVs_toObj { (opts.getD {}) with chunk := makeChunkID draw } hne
    simp only [e, ne_eq, not_true_eq_false, ite_false]
    simp only [Packed.obj, olist, chunkOf, optionsOf, objsToList, optPtrObj]
    split at this
    · next kvs hk => rw [hk]; exact this
    · exact absurd this id
  · have := chunkOfKVs_toObj (opts.getD {}) e
    simp only [e, ne_eq, not_false_eq_true, ite_true]
    simp only [Packed.obj, olist, chunkOf, optionsOf, objsToList, optPtrObj]
    split at this
    · next kvs hk => rw [hk]; exact this
    · exact absurd this id

theorem C12_carried_Forward (tag es) (opts : Option Options) (draw : Bytes) (hd : draw ≠ []) :
    chunkOf (Forward.obj tag es (chunkCall opts draw).1) = some (chunkCall opts draw).2 := by
  unfold chunkCall
  by_cases e : (opts.getD {}).chunk = []
  · have hne := makeChunkID_ne_nil draw hd
    have := chunkOfKVs_toObj { (opts.getD {}) with chunk := makeChunkID draw } hne
    simp only [e, ne_eq, not_true_eq_false, ite_false]
    simp only [Forward.obj, olist, chunkOf, optionsOf, objsToList]
    split at this
    · next kvs hk => rw [hk]; exact this
    · exact absurd this id
  · have := chunkOfKVs_toObj (opts.getD {}) e
    simp only [e, ne_eq, not_false_eq_true, ite_true]
    simp only [Forward.obj, olist, chunkOf, optionsOf, objsToList]
    split at this
    · next kvs hk => rw [hk]; exact this
    · exact absurd this id

theorem C12_carried_MessageExt (tag ts rec) (opts : Option Options) (draw : Bytes) (hd : draw ≠ []) :
    chunkOf (MessageExt.obj tag ts rec (chunkCall opts draw).1) = some (chunkCall opts draw).2 := by
  unfold chunkCall
  by_cases e : (opts.getD {}).chunk = []
  · have hne := makeChunkID_ne_nil draw hd
    have := chunkOfKVs_toObj { (opts.getD {}) with chunk := makeChunkID draw } hne
    simp only [e, ne_eq, not_true_eq_false, ite_false]
    simp only [MessageExt.obj, olist, chunkOf, optionsOf, objsToList, optPtrObj]
    split at this
    · next kvs hk => rw [hk]; exact this
    · exact absurd this id
  · have := chunkOfKVs_toObj (opts.getD {}) e
    simp only [e, ne_eq, not_false_eq_true, ite_true]
    simp only [MessageExt.obj, olist, chunkOf, optionsOf, objsToList, optPtrObj]
    split at this
    · next kvs hk => rw [hk]; exact this
    · exact absurd this id

-- non-vacuity / sanity: the id of the all-zero draw
example : makeChunkID (List.replicate 16 0) =
    [65, 65, 65, 65, 65, 65, 65, 65, 81, 65, 67, 65, 65, 65, 65, 65, 65, 65, 65, 65, 65, 65, 61, 61] := by decide

end FV
