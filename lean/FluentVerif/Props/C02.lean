import FluentVerif.Proto.RoundTripHs
import FluentVerif.Client.Helpers
import FluentVerif.Props.C03
/-! # C02 — encoded bytes conform to the Forward Protocol v1 wire format

Judge: the specification parser `parse` and the grammar predicates of `Forward/Spec.lean`, which
share no definition with the encoder models.  For every representable message whose records are
maps, the emitted bytes are exactly one msgpack value (`parse e = some (o, [])`) and that value
has the structure the specification prescribes.  EventTime is written as `0xd7 0x00` followed by
big-endian seconds and nanoseconds (`appendEventTime`, `encodeET`; C19).  The verbatim clause for
`RawMessage`/`SendRaw` and the stamping of the `Send*` helpers are in the client model (C06/C09
files) and in the correspondence. -/
namespace FV
open Spec

theorem C02_Message (tag : Bytes) (ts : Int) (kvs : GoKVs) (opts : Option Options) (e : Bytes)
    (htag : lenOK tag) (hts : inInt64 ts) (hrec : (GoVal.map kvs).WF) (hopts : optPtrWF opts)
    (he : Message.marshal tag ts (.map kvs) opts = some e) :
    ∃ o, parse e = some (o, []) ∧ isMessage o = true := by
  refine ⟨_, ?_, isMessage_obj tag ts kvs opts⟩
  simpa using Message.marshal_parse htag hts hrec hopts he []

theorem C02_MessageExt (tag : Bytes) (ts : Instant) (kvs : GoKVs) (opts : Option Options) (e : Bytes)
    (htag : lenOK tag) (hrec : (GoVal.map kvs).WF) (hopts : optPtrWF opts)
    (he : MessageExt.marshal tag ts (.map kvs) opts = some e) :
    ∃ o, parse e = some (o, []) ∧ isMessageExt o = true := by
  refine ⟨_, ?_, isMessageExt_obj tag ts kvs opts⟩
  simpa using MessageExt.marshal_parse htag hrec hopts he []

theorem C02_Forward (tag : Bytes) (es : List (Instant × GoVal)) (opts : Option Options) (e : Bytes)
    (htag : lenOK tag) (hn : es.length < 4294967296) (hes : entriesWF es) (hm : recordsAreMaps es)
    (hopts : optPtrWF opts) (he : Forward.marshal tag es opts = some e) :
    ∃ o, parse e = some (o, []) ∧ isForward o = true := by
  refine ⟨_, ?_, isForward_obj tag es opts hm⟩
  simpa using Forward.marshal_parse htag hn hes hopts he []

theorem C02_Packed (tag stream : Bytes) (opts : Option Options) (htag : lenOK tag) (hs : lenOK stream)
    (hopts : optPtrWF opts) :
    ∃ o, parse (Packed.marshal tag stream opts) = some (o, []) ∧ isPacked o = true := by
  refine ⟨_, ?_, isPacked_obj tag stream opts⟩
  simpa using Packed.marshal_parse (tag := tag) (stream := stream) (opts := opts) htag hs hopts []

/-- the event stream of a packed message built from entries is the concatenation of the entries'
encodings, each of which is an `[EventTime, record]` pair -/
theorem C02_packed_stream (es : List (Instant × GoVal)) (s : Bytes) (hes : entriesWF es)
    (he : marshalPacked es = some s) : parseSeq es.length s = some (entriesObjs es, []) := by
  simpa using marshalEntries_parse es s hes he []

theorem C02_options (o : Options) (hw : o.WF) :
    ∃ ob, parse o.marshal = some (ob, []) ∧ isOptionMap ob = true := by
  refine ⟨_, ?_, isOptionMap_toObj o⟩
  simpa using Options.marshal_parse o hw []

theorem C02_ack (a : Ack) (h : lenOK a.ack) : ∃ o, parse a.marshal = some (o, []) ∧ isAck o = true := by
  refine ⟨_, ?_, isAck_obj a⟩
  simpa using Ack.marshal_parse a h []

theorem C02_helo (o : HeloOpts) (h : o.WF) :
    ∃ ob, parse (Helo.marshal { mtype := [0x48, 0x45, 0x4c, 0x4f], options := some o }) = some (ob, []) ∧
      isHelo ob = true := by
  refine ⟨_, ?_, isHelo_obj o⟩
  simpa using Helo.marshal_parse { mtype := [0x48, 0x45, 0x4c, 0x4f], options := some o } (by simp [lenOK]) h []

theorem C02_ping (q : Ping) (h : q.WF) (hm : q.mtype = [0x50, 0x49, 0x4e, 0x47]) :
    ∃ o, parse q.marshal = some (o, []) ∧ isPing o = true := by
  refine ⟨_, ?_, isPing_obj q hm⟩
  simpa using Ping.marshal_parse q h []

theorem C02_pong (q : Pong) (h : q.WF) (hm : q.mtype = [0x50, 0x4f, 0x4e, 0x47]) :
    ∃ o, parse q.marshal = some (o, []) ∧ isPong o = true := by
  refine ⟨_, ?_, isPong_obj q hm⟩
  simpa using Pong.marshal_parse q h []

/-- EventTime on the wire: fixext8 (0xd7), type 0, then big-endian seconds and nanoseconds -/
theorem C02_eventtime (t : Instant) :
    appendEventTime t = [0xd7, 0x00] ++ (be 4 (t.sec % 4294967296).toNat ++ be 4 (t.nsec % 4294967296)) := rfl

/-! ### the `Send*` helpers: the mode each one names, stamped with the time of the call -/

theorem stampChunk_WF {ack id o} (ho : optPtrWF o) (hid : lenOK id) : optPtrWF (stampChunk ack id o) := by
  unfold stampChunk
  cases ack with
  | false => simpa using ho
  | true =>
    have hd : (o.getD {}).WF := by
      cases o with
      | none => exact ⟨by simp, by simp, by simp⟩
      | some x => exact ho
    simp only [ite_true, optPtrWF]
    split
    · exact ⟨hd.size, hid, hd.compressed⟩
    · exact hd

/-- the options a helper-built message ends up with: the constructor's, plus the drawn chunk id iff
acks are required -/
theorem stampChunk_fresh (ack : Bool) (id : Bytes) (o : Options) (h : o.chunk = []) :
    stampChunk ack id (some o) = some { o with chunk := if ack then id else [] } := by
  cases ack <;> simp [stampChunk, h]
  cases o; simp_all

/-- `SendMessage`: Message mode, integer time = the second of the call, the given record, and an
option map holding exactly the chunk id when acks are required (nil otherwise) -/
theorem C02_SendMessage (cd pl now ack id) (tag : Bytes) (kvs : GoKVs) (e : Bytes)
    (htag : lenOK tag) (hts : inInt64 now.sec) (hrec : (GoVal.map kvs).WF) (hid : lenOK id)
    (he : Helper.wire cd pl now ack id (.message tag (.map kvs)) = some e) :
    parse e = some (Message.obj tag now.sec (.map kvs) (if ack then some { chunk := id } else none), []) ∧
    isMessage (Message.obj tag now.sec (.map kvs) (if ack then some { chunk := id } else none)) = true := by
  refine ⟨?_, isMessage_obj _ _ _ _⟩
  have h := Message.marshal_parse htag hts hrec (stampChunk_WF (o := none) trivial hid) he []
  cases ack <;> simpa [stampChunk] using h

/-- `SendMessageExt`: the same with an EventTime holding the instant of the call -/
theorem C02_SendMessageExt (cd pl now ack id) (tag : Bytes) (kvs : GoKVs) (e : Bytes)
    (htag : lenOK tag) (hrec : (GoVal.map kvs).WF) (hid : lenOK id)
    (he : Helper.wire cd pl now ack id (.messageExt tag (.map kvs)) = some e) :
    parse e = some (MessageExt.obj tag now (.map kvs) (if ack then some { chunk := id } else none), []) ∧
    isMessageExt (MessageExt.obj tag now (.map kvs) (if ack then some { chunk := id } else none)) = true := by
  refine ⟨?_, isMessageExt_obj _ _ _ _⟩
  have h := MessageExt.marshal_parse htag hrec (stampChunk_WF (o := none) trivial hid) he []
  cases ack <;> simpa [stampChunk] using h

/-- `SendForward`: Forward mode with exactly the given entries in order and `size` = their number -/
theorem C02_SendForward (cd pl now ack id) (tag : Bytes) (es : List (Instant × GoVal)) (e : Bytes)
    (htag : lenOK tag) (hn : es.length < 4294967296) (hes : entriesWF es) (hm : recordsAreMaps es) (hid : lenOK id)
    (he : Helper.wire cd pl now ack id (.forward tag es) = some e) :
    parse e = some (Forward.obj tag es (some { size := some es.length, chunk := if ack then id else [] }), []) ∧
    isForward (Forward.obj tag es (some { size := some es.length, chunk := if ack then id else [] })) = true := by
  refine ⟨?_, isForward_obj _ _ _ hm⟩
  have hw : optPtrWF (some ({ size := some (es.length : Int) } : Options)) :=
    ⟨by intro i hi; simp at hi; subst hi; simp [inInt64]; omega, by simp, by simp⟩
  simp only [Helper.wire, stampChunk_fresh ack id { size := some (es.length : Int) } rfl] at he
  have hw' : optPtrWF (some ({ size := some (es.length : Int), chunk := if ack then id else [] } : Options)) :=
    ⟨hw.size, by cases ack <;> simp <;> exact hid, by simp⟩
  simpa using Forward.marshal_parse htag hn hes hw' he []

/-- `SendPacked`: PackedForward mode — the bin is the concatenation of exactly the given entries'
encodings, the options are `size` (and the chunk id), and there is **no** `compressed` option -/
theorem C02_SendPacked (cd pl now ack id) (tag : Bytes) (es : List (Instant × GoVal)) (e : Bytes)
    (htag : lenOK tag) (hn : es.length < 4294967296) (hes : entriesWF es) (hid : lenOK id)
    (he : Helper.wire cd pl now ack id (.packed tag es) = some e) :
    ∃ stream, marshalPacked es = some stream ∧
      parseSeq es.length stream = some (entriesObjs es, []) ∧
      (lenOK stream →
        parse e = some (Packed.obj tag stream (some { size := some es.length, chunk := if ack then id else [] }), [])) := by
  simp only [Helper.wire, newPacked, Option.map_eq_some_iff] at he
  obtain ⟨m, ⟨s, hs, rfl⟩, rfl⟩ := he
  refine ⟨s, hs, by simpa using marshalEntries_parse es s hes hs [], fun hl => ?_⟩
  simp only [stampChunk_fresh ack id { size := some (es.length : Int) } rfl]
  have hw' : optPtrWF (some ({ size := some (es.length : Int), chunk := if ack then id else [] } : Options)) :=
    ⟨by intro i hi; simp at hi; subst hi; simp [inInt64]; omega, by cases ack <;> simp <;> exact hid, by simp⟩
  simpa using Packed.marshal_parse (tag := tag) (stream := s) htag hl hw' []

/-- `SendCompressed`: CompressedPackedForward — the options say `compressed: gzip` (and `size`, and
the chunk id), and the bin is one complete gzip member of exactly the packed entries -/
theorem C02_SendCompressed (cd pl now ack id) (tag : Bytes) (es : List (Instant × GoVal)) (e : Bytes)
    (htag : lenOK tag) (hn : es.length < 4294967296) (hes : entriesWF es) (hid : lenOK id)
    (he : Helper.wire cd pl now ack id (.compressed tag es) = some e) :
    ∃ plain z, marshalPacked es = some plain ∧
      parseSeq es.length plain = some (entriesObjs es, []) ∧
      cd.gunzipOne z = some (plain, []) ∧
      (lenOK z →
        parse e = some (Packed.obj tag z
          (some { size := some es.length, chunk := if ack then id else [], compressed := vGzip }), [])) := by
  simp only [Helper.wire, newCompressed, newCompressedFromBytes, Compressor.reset, Compressor.write,
    Option.map_eq_some_iff, Option.bind_eq_some_iff] at he
  obtain ⟨m, ⟨s, hs, m0, ⟨c, hc, rfl⟩, rfl⟩, rfl⟩ := he
  simp only [Option.some.injEq] at hc; subst hc
  refine ⟨s, cd.member s, hs, by simpa using marshalEntries_parse es s hes hs [], by simpa using cd.sound s [], fun hl => ?_⟩
  simp only [Option.getD_some, List.nil_append]
  rw [stampChunk_fresh ack id { size := some (es.length : Int), compressed := vGzip } rfl]
  have hw' : optPtrWF (some ({ size := some (es.length : Int), chunk := if ack then id else [], compressed := vGzip } : Options)) :=
    ⟨by intro i hi; simp at hi; subst hi; simp [inInt64]; omega, by cases ack <;> simp <;> exact hid, by simp [vGzip]⟩
  simpa using Packed.marshal_parse (tag := tag) (stream := cd.member s) htag (by simpa using hl) hw' []

/-- `SendPackedFromBytes`: the caller's bytes verbatim as the bin, no option but the chunk id -/
theorem C02_SendPackedFromBytes (cd pl now ack id) (tag b : Bytes) (e : Bytes)
    (htag : lenOK tag) (hb : lenOK b) (hid : lenOK id)
    (he : Helper.wire cd pl now ack id (.packedBytes tag b) = some e) :
    parse e = some (Packed.obj tag b (if ack then some { chunk := id } else none), []) := by
  simp only [Helper.wire, Option.some.injEq] at he; subst he
  have h := Packed.marshal_parse (tag := tag) (stream := b) htag hb (stampChunk_WF (ack := ack) (o := none) trivial hid) []
  cases ack <;> simpa [stampChunk] using h

/-- `SendCompressedFromBytes`: `compressed: gzip`, and the bin gunzips to exactly the caller's bytes -/
theorem C02_SendCompressedFromBytes (cd pl now ack id) (tag b : Bytes) (e : Bytes)
    (htag : lenOK tag) (hid : lenOK id)
    (he : Helper.wire cd pl now ack id (.compressedBytes tag b) = some e) :
    ∃ z, cd.gunzipOne z = some (b, []) ∧
      (lenOK z → parse e = some (Packed.obj tag z (some { chunk := if ack then id else [], compressed := vGzip }), [])) := by
  simp only [Helper.wire, newCompressedFromBytes, Compressor.reset, Compressor.write, Option.map_eq_some_iff] at he
  obtain ⟨m, ⟨c, hc, rfl⟩, rfl⟩ := he
  simp only [Option.some.injEq] at hc; subst hc
  refine ⟨cd.member b, by simpa using cd.sound b [], fun hl => ?_⟩
  simp only [List.nil_append]
  rw [stampChunk_fresh ack id { compressed := vGzip } rfl]
  have hw' : optPtrWF (some ({ chunk := if ack then id else [], compressed := vGzip } : Options)) :=
    ⟨by simp, by cases ack <;> simp <;> exact hid, by simp [vGzip]⟩
  simpa using Packed.marshal_parse (tag := tag) (stream := cd.member b) htag (by simpa using hl) hw' []

end FV
