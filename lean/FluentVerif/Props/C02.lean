import FluentVerif.Proto.RoundTripHs
/-! # C02 — encoded bytes conform to the Forward Protocol v1 wire format

Judge: the specification parser `parse` and the grammar predicates of `Forward/Spec.lean`, which
share no definition with the encoder models.  For every representable message whose records are
maps, the emitted bytes are exactly one msgpack value (`parse e = some (o, [])`) and that value
has the structure the specification prescribes.  EventTime is written as `0xd7 0x00` followed by
big-endian seconds and nanoseconds (`appendEventTime`, `encodeET`; C19).  The verbatim clause for
`RawMessage`/`SendRaw` and the stamping of the `Send*` helpers are in the client model (C06/C09
files) and in the correspondence. -/
namespace FV
open Spec

theorem C02_Message (tag : Bytes) (ts : Int) (kvs : GoKVs) (opts : Option Options) (e : Bytes)
    (htag : lenOK tag) (hts : inInt64 ts) (hrec : (GoVal.map kvs).WF) (hopts : optPtrWF opts)
    (he : Message.marshal tag ts (.map kvs) opts = some e) :
    ∃ o, parse e = some (o, []) ∧ isMessage o = true := by
  refine ⟨_, ?_, isMessage_obj tag ts kvs opts⟩
  simpa using Message.marshal_parse htag hts hrec hopts he []

theorem C02_MessageExt (tag : Bytes) (ts : Instant) (kvs : GoKVs) (opts : Option Options) (e : Bytes)
    (htag : lenOK tag) (hrec : (GoVal.map kvs).WF) (hopts : optPtrWF opts)
    (he : MessageExt.marshal tag ts (.map kvs) opts = some e) :
    ∃ o, parse e = some (o, []) ∧ isMessageExt o = true := by
  refine ⟨_, ?_, isMessageExt_obj tag ts kvs opts⟩
  simpa using MessageExt.marshal_parse htag hrec hopts he []

theorem C02_Forward (tag : Bytes) (es : List (Instant × GoVal)) (opts : Option Options) (e : Bytes)
    (htag : lenOK tag) (hn : es.length < 4294967296) (hes : entriesWF es) (hm : recordsAreMaps es)
    (hopts : optPtrWF opts) (he : Forward.marshal tag es opts = some e) :
    ∃ o, parse e = some (o, []) ∧ isForward o = true := by
  refine ⟨_, ?_, isForward_obj tag es opts hm⟩
  simpa using Forward.marshal_parse htag hn hes hopts he []

theorem C02_Packed (tag stream : Bytes) (opts : Option Options) (htag : lenOK tag) (hs : lenOK stream)
    (hopts : optPtrWF opts) :
    ∃ o, parse (Packed.marshal tag stream opts) = some (o, []) ∧ isPacked o = true := by
  refine ⟨_, ?_, isPacked_obj tag stream opts⟩
  simpa using Packed.marshal_parse (tag := tag) (stream := stream) (opts := opts) htag hs hopts []

/-- the event stream of a packed message built from entries is the concatenation of the entries'
encodings, each of which is an `[EventTime, record]` pair -/
theorem C02_packed_stream (es : List (Instant × GoVal)) (s : Bytes) (hes : entriesWF es)
    (he : marshalPacked es = some s) : parseSeq es.length s = some (entriesObjs es, []) := by
  simpa using marshalEntries_parse es s hes he []

theorem C02_options (o : Options) (hw : o.WF) :
    ∃ ob, parse o.marshal = some (ob, []) ∧ isOptionMap ob = true := by
  refine ⟨_, ?_, isOptionMap_toObj o⟩
  simpa using Options.marshal_parse o hw []

theorem C02_ack (a : Ack) (h : lenOK a.ack) : ∃ o, parse a.marshal = some (o, []) ∧ isAck o = true := by
  refine ⟨_, ?_, isAck_obj a⟩
  simpa using Ack.marshal_parse a h []

theorem C02_helo (o : HeloOpts) (h : o.WF) :
    ∃ ob, parse (Helo.marshal { mtype := [0x48, 0x45, 0x4c, 0x4f], options := some o }) = some (ob, []) ∧
      isHelo ob = true := by
  refine ⟨_, ?_, isHelo_obj o⟩
  simpa using Helo.marshal_parse { mtype := [0x48, 0x45, 0x4c, 0x4f], options := some o } (by simp [lenOK]) h []

theorem C02_ping (q : Ping) (h : q.WF) (hm : q.mtype = [0x50, 0x49, 0x4e, 0x47]) :
    ∃ o, parse q.marshal = some (o, []) ∧ isPing o = true := by
  refine ⟨_, ?_, isPing_obj q hm⟩
  simpa using Ping.marshal_parse q h []

theorem C02_pong (q : Pong) (h : q.WF) (hm : q.mtype = [0x50, 0x4f, 0x4e, 0x47]) :
    ∃ o, parse q.marshal = some (o, []) ∧ isPong o = true := by
  refine ⟨_, ?_, isPong_obj q hm⟩
  simpa using Pong.marshal_parse q h []

/-- EventTime on the wire: fixext8 (0xd7), type 0, then big-endian seconds and nanoseconds -/
theorem C02_eventtime (t : Instant) :
    appendEventTime t = [0xd7, 0x00] ++ (be 4 (t.sec % 4294967296).toNat ++ be 4 (t.nsec % 4294967296)) := rfl

end FV
