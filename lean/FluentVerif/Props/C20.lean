import FluentVerif.Props.C20Lemmas
import FluentVerif.Legacy.Equal
/-! # C20 — `EntryList.Equal` decides multiset equality of entries

Statements only; helper lemmas live in `C20Lemmas`. `α` is any entry type with decidable
equality ("same instant ∧ deeply equal record"). -/
namespace FV.Equal
variable {α : Type} [DecidableEq α]

/-- **C20**: `Equal` returns true exactly when the two lists are permutations of each other
(same entries, same multiplicities, any order) — for all lists of all lengths. -/
theorem C20_iff (l1 l2 : List α) : equal l1 l2 = true ↔ l1.Perm l2 := by
  unfold equal
  constructor
  · intro h
    simp only [Bool.and_eq_true, beq_iff_eq] at h
    obtain ⟨hl, hc⟩ := h
    have := (count_full l1 _).1 hc
    rw [unused_fresh] at this
    exact (fullMatch_perm l1 l2 hl).1 this
  · intro hp
    have hl := hp.length_eq
    simp only [Bool.and_eq_true, beq_iff_eq]
    refine ⟨hl, (count_full l1 _).2 ?_⟩
    rw [unused_fresh]
    exact (fullMatch_perm l1 l2 hl).2 hp

/-- reflexive for every list, including lists with repeated entries -/
theorem C20_refl (l : List α) : equal l l = true := (C20_iff l l).2 (List.Perm.refl l)

/-- symmetric for every pair of lists -/
theorem C20_symm (a b : List α) : equal a b = equal b a := by
  cases h : equal a b with
  | true => exact ((C20_iff b a).2 ((C20_iff a b).1 h).symm).symm
  | false =>
    cases h' : equal b a with
    | false => rfl
    | true => rw [(C20_iff a b).2 ((C20_iff b a).1 h').symm] at h; cases h

/-- the statement excludes the pinned behaviour: the legacy function disagrees with `Perm` -/
theorem C20_legacy_excluded :
    ¬ (∀ l1 l2 : List Nat, FV.Legacy.equalLegacy l1 l2 = true ↔ l1.Perm l2) := by
  intro h
  have := (h [1, 1] [1, 1]).2 (List.Perm.refl _)
  rw [FV.Legacy.legacy_not_reflexive] at this
  cases this

-- non-vacuity: both directions are exercised by concrete lists with repetition
example : equal [1, 1, 2] [2, 1, 1] = true := by decide
example : equal [1, 1, 2] [1, 2, 3] = false := by decide

end FV.Equal
