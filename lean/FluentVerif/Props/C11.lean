import FluentVerif.Props.C11Lemmas
/-! # C11 — GetChunk agrees with full decoding on every well-formed message

`WellFormedMode o`: `o` is a Forward-protocol message of one of the four modes with 2, 3 or 4
elements: `[tag, time, record, option?]` with `time` an integer of **any** width, signed or
unsigned (they all parse to `.int`), or an extension object that is not one of msgp's own types
(EventTime in fixext8 **or** ext8/16/32 form — they all parse to `.ext 0 d`), or
`[tag, entries-array | binary-stream, option?]`; `record` / entries are **arbitrary** objects
(any nesting, decoy `chunk` keys included); `option` is nil or a map with non-empty string keys.
`Agrees res want`: the walker returns exactly the chunk the specification's option map holds and
reports an error exactly when there is none.  The statement is about every byte string `b` that
the specification parser reads as such an object, i.e. every legal msgpack encoding of it. -/
namespace FV
open Spec

inductive IsTime : Obj → Prop
  | int (i : Int) : IsTime (.int i)
  | ext (t : UInt8) (d : Bytes) (h : (t != 3 && t != 4 && t != 5) = true) : IsTime (.ext t d)

inductive IsBulk : Obj → Prop
  | arr (es : Objs) : IsBulk (.arr es)
  | bin (s : Bytes) : IsBulk (.bin s)

def OptOK (o : Obj) : Prop := o = .nil ∨ ∃ kvs, o = .map kvs ∧ KeysOK kvs

/-- the chunk id in an option element -/
def optChunk : Obj → Option Bytes
  | .map kvs => chunkOfKVs kvs
  | _ => none

inductive WellFormedMode : Obj → Prop
  | msg3 (tag : Bytes) (t rec : Obj) : IsTime t →
      WellFormedMode (.arr (.cons (.str tag) (.cons t (.cons rec .nil))))
  | msg4 (tag : Bytes) (t rec opt : Obj) : IsTime t → OptOK opt →
      WellFormedMode (.arr (.cons (.str tag) (.cons t (.cons rec (.cons opt .nil)))))
  | bulk2 (tag : Bytes) (s : Obj) : IsBulk s →
      WellFormedMode (.arr (.cons (.str tag) (.cons s .nil)))
  | bulk3 (tag : Bytes) (s opt : Obj) : IsBulk s → OptOK opt →
      WellFormedMode (.arr (.cons (.str tag) (.cons s (.cons opt .nil))))

theorem isTimestamp_time {b t r} (h : parse b = some (t, r)) (ht : IsTime t) : isTimestampType b = true := by
  rw [isTimestampType_of_parse h]
  cases ht with
  | int i => rfl
  | ext t d hh => exact hh

theorem isTimestamp_bulk {b s r} (h : parse b = some (s, r)) (hs : IsBulk s) : isTimestampType b = false := by
  rw [isTimestampType_of_parse h]
  cases hs <;> rfl

/-- the option element, read by the walker's tail -/
theorem tail_agrees {b opt} (h : parse b = some (opt, [])) (ho : OptOK opt) (hx : hasExt32 b = false) :
    Agrees ((readMapHeader b).bind fun n b5 => getChunkKeys n b5) (optChunk opt) := by
  rcases ho with rfl | ⟨kvs, rfl, hk⟩
  · -- nil: not a map header
    have : readMapHeader b = .err := by
      unfold parse at h
      have e : 2 * b.length + 2 = (2 * b.length + 1) + 1 := by omega
      rw [e] at h
      unfold parseF at h
      unfold readMapHeader
      split at h
      · next hh => rw [hh]
      · next o0 r0 hh => rw [hh]
      · next k n r0 hh => rw [hh]
      · next n r0 hh => rw [hh]
      · next n r0 hh => rw [hh]
      · next n r0 hh =>
        split at h
        · simp at h
        · cases h
    simp [this, Res.bind, Agrees, optChunk]
  · obtain ⟨n, r0, hh, hs⟩ := seq_of_parse_map h
    have : readMapHeader b = .ok n r0 := by unfold readMapHeader; rw [hh]
    simp only [this, Res.bind, optChunk]
    exact getChunkKeys_agrees n r0 kvs [] hs hk (by rw [← hasExt32_map hh hs]; exact hx)

theorem chunkOf_msg4 (tag t rec opt) (ht : IsTime t) :
    chunkOf (.arr (.cons (.str tag) (.cons t (.cons rec (.cons opt .nil))))) =
      optChunk opt := by
  cases ht <;> cases opt <;> simp [chunkOf, optionsOf, objsToList, optChunk]

theorem chunkOf_bulk3 (tag s opt) (hs : IsBulk s) :
    chunkOf (.arr (.cons (.str tag) (.cons s (.cons opt .nil)))) =
      optChunk opt := by
  cases hs <;> cases opt <;> simp [chunkOf, optionsOf, objsToList, optChunk]

theorem chunkOf_msg3 (tag t rec) (ht : IsTime t) :
    chunkOf (.arr (.cons (.str tag) (.cons t (.cons rec .nil)))) = none := by
  cases ht <;> simp [chunkOf, optionsOf, objsToList]

theorem chunkOf_bulk2 (tag s) (hs : IsBulk s) :
    chunkOf (.arr (.cons (.str tag) (.cons s .nil))) = none := by
  cases hs <;> simp [chunkOf, optionsOf, objsToList]

/-- **C11**, for every well-formed message of any mode in any legal msgpack encoding *that uses no
ext32 token* (`hasExt32 b = false`): what msgp's stream `Skip` does to those is part of the model,
and `C11_ext32_witness` below shows that the hypothesis cannot be dropped — the statement without it
is false of the model and of the code (open finding C11-ext32-skip). -/
theorem C11_agree (b : Bytes) (o : Obj) (h : parse b = some (o, [])) (hw : WellFormedMode o)
    (hx : hasExt32 b = false) :
    Agrees (getChunk b) (chunkOf o) := by
  cases hw with
  | msg3 tag t rec ht =>
    obtain ⟨n, r0, hh, hs⟩ := seq_of_parse_arr h
    obtain ⟨n1, b1, e1, p1, hs⟩ := parseSeq_cons_inv hs
    obtain ⟨n2, b2, e2, p2, hs⟩ := parseSeq_cons_inv hs
    obtain ⟨n3, b3, e3, p3, hs⟩ := parseSeq_cons_inv hs
    obtain ⟨e4, _⟩ := parseSeq_nil_inv hs
    have hn : n = 3 := by omega
    subst hn
    rw [chunkOf_msg3 tag t rec ht]
    unfold getChunk
    have : readArrayHeader b = .ok 3 r0 := by unfold readArrayHeader; rw [hh]
    simp [this, Res.bind, skipP_of_parse p1 (fun _ => hasExt32_false_of_str p1), isTimestamp_time p2 ht, Agrees]
  | msg4 tag t rec opt ht ho =>
    obtain ⟨n, r0, hh, hs0⟩ := seq_of_parse_arr h
    obtain ⟨n1, b1, e1, p1, hs⟩ := parseSeq_cons_inv hs0
    obtain ⟨n2, b2, e2, p2, hs⟩ := parseSeq_cons_inv hs
    obtain ⟨n3, b3, e3, p3, hs⟩ := parseSeq_cons_inv hs
    obtain ⟨n4, b4, e4, p4, hs⟩ := parseSeq_cons_inv hs
    obtain ⟨e5, e6⟩ := parseSeq_nil_inv hs
    have hn : n = 4 := by omega
    subst hn; subst e6
    have hxs : ext32Seq 4 r0 = false := by
      rw [← hasExt32_arr hh hs0]; exact hx
    obtain ⟨hx1, hxs⟩ := ext32Seq_cons hxs p1
    obtain ⟨hx2, hxs⟩ := ext32Seq_cons hxs p2
    obtain ⟨hx3, hxs⟩ := ext32Seq_cons hxs p3
    obtain ⟨hx4, _⟩ := ext32Seq_cons hxs p4
    rw [chunkOf_msg4 tag t rec opt ht]
    unfold getChunk
    have : readArrayHeader b = .ok 4 r0 := by unfold readArrayHeader; rw [hh]
    rw [this]; simp only [Res.bind]
    rw [if_neg (by decide), skipP_of_parse p1 (fun _ => hx1)]; simp only
    rw [isTimestamp_time p2 ht]; simp only [ite_true]
    rw [if_neg (by decide), skipP_of_parse p2 (fun _ => hx2)]; simp only
    rw [skipP_of_parse p3 (fun _ => hx3)]; simp only
    exact tail_agrees p4 ho hx4
  | bulk2 tag s hs' =>
    obtain ⟨n, r0, hh, hs⟩ := seq_of_parse_arr h
    obtain ⟨n1, b1, e1, p1, hs⟩ := parseSeq_cons_inv hs
    obtain ⟨n2, b2, e2, p2, hs⟩ := parseSeq_cons_inv hs
    obtain ⟨e3, _⟩ := parseSeq_nil_inv hs
    have hn : n = 2 := by omega
    subst hn
    rw [chunkOf_bulk2 tag s hs']
    unfold getChunk
    have : readArrayHeader b = .ok 2 r0 := by unfold readArrayHeader; rw [hh]
    simp [this, Res.bind, Agrees]
  | bulk3 tag s opt hs' ho =>
    obtain ⟨n, r0, hh, hs0⟩ := seq_of_parse_arr h
    obtain ⟨n1, b1, e1, p1, hs⟩ := parseSeq_cons_inv hs0
    obtain ⟨n2, b2, e2, p2, hs⟩ := parseSeq_cons_inv hs
    obtain ⟨n3, b3, e3, p3, hs⟩ := parseSeq_cons_inv hs
    obtain ⟨e4, e5⟩ := parseSeq_nil_inv hs
    have hn : n = 3 := by omega
    subst hn; subst e5
    have hxs : ext32Seq 3 r0 = false := by
      rw [← hasExt32_arr hh hs0]; exact hx
    obtain ⟨hx1, hxs⟩ := ext32Seq_cons hxs p1
    obtain ⟨hx2, hxs⟩ := ext32Seq_cons hxs p2
    obtain ⟨hx3, _⟩ := ext32Seq_cons hxs p3
    rw [chunkOf_bulk3 tag s opt hs']
    unfold getChunk
    have : readArrayHeader b = .ok 3 r0 := by unfold readArrayHeader; rw [hh]
    rw [this]; simp only [Res.bind]
    rw [if_neg (by decide), skipP_of_parse p1 (fun _ => hx1)]; simp only
    rw [isTimestamp_bulk p2 hs']; simp only [Bool.false_eq_true, ite_false]
    rw [skipP_of_parse p2 (fun _ => hx2)]; simp only
    exact tail_agrees p3 ho hx3

/-- the pinned walker (unsigned timestamps not recognised) returned a record's decoy `chunk`:
`["", uint16 0, {"chunk": "x"}]` has no options, yet the legacy test takes the timestamp for the
record and the record for the option map -/
def isTimestampTypeLegacy (b : Bytes) : Bool :=
  match b with
  | lead :: _ =>
    (match header b with
     | some (.scalar (.int _), _) => !(lead == 0xcc || lead == 0xcd || lead == 0xce || lead == 0xcf)
     | some (.ext _, t :: _) => t != 3 && t != 4 && t != 5
     | _ => false)
  | [] => false

def getChunkLegacy (b : Bytes) : Res Bytes :=
  (readArrayHeader b).bind fun sz b1 =>
    if sz = 2 then .err else
    (skip b1).bind fun _ b2 =>
    (if isTimestampTypeLegacy b2 then (if sz = 3 then .err else skip b2) else .ok () b2).bind fun _ b3 =>
    (skip b3).bind fun _ b4 =>
    (readMapHeader b4).bind fun n b5 => getChunkKeys n b5

def decoy : Bytes := [0x93, 0xa0, 0xcd, 0x00, 0x00, 0x81, 0xa5, 0x63, 0x68, 0x75, 0x6e, 0x6b, 0xa1, 0x78]

theorem C11_legacy_witness :
    (match getChunkLegacy decoy with | .ok c _ => some c | _ => none) = some [0x78] ∧
    (match getChunk decoy with | .ok c _ => some c | _ => none) = none ∧
    (parse decoy).map (fun p => chunkOf p.1) = some none := by decide

-- non-vacuity: a concrete well-formed message with an unsigned timestamp and a real chunk option
example : WellFormedMode (.arr (.cons (.str []) (.cons (.int 7) (.cons (.map .nil)
    (.cons (.map (.cons (.str kChunk) (.cons (.str [0x61]) .nil))) .nil))))) :=
  .msg4 _ _ _ _ (.int 7) (Or.inr ⟨_, rfl, ⟨⟨kChunk, rfl, by decide⟩, trivial⟩⟩)

/-! ### the statement without the ext32 hypothesis is false (open finding C11-ext32-skip)

A Message whose EventTime is written in the ext32 format (legal msgpack, eight payload bytes) and
whose option map is `{"chunk": "abc"}`: well-formed, the option map carries a chunk — and the
walker returns an error, because the stream `Skip` gives up on the ext32 value.  The harness replays
these bytes on the real `GetChunk` (corpus/C11.lines): same answer. -/

deriving instance DecidableEq for Res

def ext32Witness : Bytes := [0x94, 0xa1, 0x74, 0xc9, 0, 0, 0, 8, 0, 0, 0, 0, 1, 0, 0, 0, 2, 0x80,
    0x81, 0xa5, 0x63, 0x68, 0x75, 0x6e, 0x6b, 0xa3, 0x61, 0x62, 0x63]

def ext32WitnessObj : Obj :=
  .arr (.cons (.str [0x74]) (.cons (.ext 0 [0, 0, 0, 1, 0, 0, 0, 2]) (.cons (.map .nil)
    (.cons (.map (.cons (.str [0x63, 0x68, 0x75, 0x6e, 0x6b]) (.cons (.str [0x61, 0x62, 0x63]) .nil))) .nil))))

theorem C11_ext32_witness :
    parse ext32Witness = some (ext32WitnessObj, []) ∧ WellFormedMode ext32WitnessObj ∧
    chunkOf ext32WitnessObj = some [0x61, 0x62, 0x63] ∧ getChunk ext32Witness = .err ∧
    hasExt32 ext32Witness = true := by
  refine ⟨by rfl, ?_, by rfl, by decide +kernel, by decide +kernel⟩
  exact .msg4 _ _ _ _ (.ext 0 _ (by decide)) (Or.inr ⟨_, rfl, by
    simp only [KeysOK]; exact ⟨⟨_, rfl, by decide⟩, trivial⟩⟩)

end FV
