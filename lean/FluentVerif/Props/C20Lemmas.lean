import FluentVerif.Proto.Equal
/-! helper lemmas for C20 (kept apart from the property statements) -/
namespace FV.Equal
variable {α : Type} [DecidableEq α]

def unused (s : List (α × Bool)) : List α := (s.filter (fun p => !p.2)).map (·.1)

theorem markFirst_some : ∀ (a : α) (s : List (α × Bool)), a ∈ unused s →
    ∃ s', markFirst a s = some s' ∧ unused s' = (unused s).erase a
  | a, [], h => by simp [unused] at h
  | a, (b, u) :: r, h => by
    unfold markFirst
    cases u with
    | true =>
      have h' : a ∈ unused r := by simpa [unused] using h
      obtain ⟨s', hs, hu⟩ := markFirst_some a r h'
      refine ⟨(b, true) :: s', by simp [hs], ?_⟩
      simpa [unused] using hu
    | false =>
      by_cases e : a = b
      · subst e
        refine ⟨(a, true) :: r, by simp, ?_⟩
        simp [unused]
      · have h' : a ∈ unused r := by
          simp [unused] at h
          rcases h with h | h
          · exact absurd h e
          · simpa [unused] using h
        obtain ⟨s', hs, hu⟩ := markFirst_some a r h'
        refine ⟨(b, false) :: s', by simp [e, hs], ?_⟩
        have hne : ¬ b = a := fun h => e h.symm
        simp only [unused, List.filter_cons, Bool.not_false, ite_true, List.map_cons] at hu ⊢
        rw [List.erase_cons_tail (by simpa using hne)]
        simpa [unused] using hu

theorem markFirst_none : ∀ (a : α) (s : List (α × Bool)), a ∉ unused s → markFirst a s = none
  | a, [], _ => rfl
  | a, (b, u) :: r, h => by
    unfold markFirst
    cases u with
    | true =>
      have h' : a ∉ unused r := by simpa [unused] using h
      simp [markFirst_none a r h']
    | false =>
      have h2 : a ≠ b ∧ a ∉ unused r := by
        simp [unused] at h
        exact ⟨h.1, by simpa [unused] using h.2⟩
      simp [h2.1, markFirst_none a r h2.2]

theorem countMatches_le : ∀ (l : List α) (s : List (α × Bool)), countMatches l s ≤ l.length
  | [], _ => by simp [countMatches]
  | a :: as, s => by
    unfold countMatches
    split
    · next s' _ => have := countMatches_le as s'; simp; omega
    · have := countMatches_le as s; simp; omega

/-- all of `l` found, one by one, in the unused part -/
def fullMatch : List α → List α → Prop
  | [], _ => True
  | a :: as, u => a ∈ u ∧ fullMatch as (u.erase a)

theorem count_full : ∀ (l : List α) (s : List (α × Bool)),
    countMatches l s = l.length ↔ fullMatch l (unused s)
  | [], s => by simp [countMatches, fullMatch]
  | a :: as, s => by
    unfold countMatches fullMatch
    by_cases h : a ∈ unused s
    · obtain ⟨s', hs, hu⟩ := markFirst_some a s h
      rw [hs]; simp only [List.length_cons]
      rw [← hu]
      constructor
      · intro e; exact ⟨h, (count_full as s').1 (by omega)⟩
      · intro ⟨_, hf⟩; have := (count_full as s').2 hf; omega
    · rw [markFirst_none a s h]; simp only [List.length_cons]
      constructor
      · intro e; have := countMatches_le as s; omega
      · intro ⟨h', _⟩; exact absurd h' h

theorem fullMatch_perm : ∀ (l1 l2 : List α), l1.length = l2.length → (fullMatch l1 l2 ↔ l1.Perm l2)
  | [], l2, hl => by
    have : l2 = [] := by cases l2 with | nil => rfl | cons _ _ => simp at hl
    subst this; simp [fullMatch]
  | a :: as, l2, hl => by
    unfold fullMatch
    rw [List.cons_perm_iff_perm_erase]
    constructor
    · intro ⟨hm, hf⟩
      have : as.length = (l2.erase a).length := by rw [List.length_erase_of_mem hm]; simp at hl; omega
      exact ⟨hm, (fullMatch_perm as _ this).1 hf⟩
    · intro ⟨hm, hp⟩
      have : as.length = (l2.erase a).length := by rw [List.length_erase_of_mem hm]; simp at hl; omega
      exact ⟨hm, (fullMatch_perm as _ this).2 hp⟩

theorem unused_fresh (l : List α) : unused (l.map (·, false)) = l := by
  induction l with
  | nil => rfl
  | cons a as ih => simpa [unused] using ih

end FV.Equal
