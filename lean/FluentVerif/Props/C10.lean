import FluentVerif.Proto.DecodeLemmas2
import FluentVerif.Proto.Chunk
/-! # C10 — decoders are total on arbitrary bytes (decoder half)

* `C10_noPanic_T`: for every byte string, path and receiver the decoder returns a value or an
  error, never `panic` (termination is structural: every model function is total, recursion is on
  fuel `2·|b| + 2`).
* `C10_prefix_T`: each message decoder rejects every strict prefix of an input it accepts in full. -/
namespace FV

theorem C10_noPanic_Message (p recv b) : (Message.unmarshal p recv b).NoPanic := Message.unmarshal_noPanic p recv b
theorem C10_noPanic_MessageExt (p recv b) : (MessageExt.unmarshal p recv b).NoPanic := MessageExt.unmarshal_noPanic p recv b
theorem C10_noPanic_Forward (p recv b) : (Forward.unmarshal p recv b).NoPanic := Forward.unmarshal_noPanic p recv b
theorem C10_noPanic_Packed (p recv b) : (Packed.unmarshal p recv b).NoPanic := Packed.unmarshal_noPanic p recv b
theorem C10_noPanic_Entry (p recv b) : (Entry.unmarshal p recv b).NoPanic := Entry.unmarshal_noPanic p recv b
theorem C10_noPanic_EntryExt (p recv b) : (EntryExt.unmarshal p recv b).NoPanic := EntryExt.unmarshal_noPanic p recv b
theorem C10_noPanic_EntryList (p b) : (EntryList.unmarshal p b).NoPanic := EntryList.unmarshal_noPanic p b
theorem C10_noPanic_Options (p recv b) : (Options.unmarshal p recv b).NoPanic := Options.unmarshal_noPanic p recv b
theorem C10_noPanic_Ack (p recv b) : (Ack.unmarshal p recv b).NoPanic := Ack.unmarshal_noPanic p recv b
theorem C10_noPanic_Helo (p recv b) : (Helo.unmarshal p recv b).NoPanic := Helo.unmarshal_noPanic p recv b
theorem C10_noPanic_HeloOpts (p recv b) : (HeloOpts.unmarshal p recv b).NoPanic := HeloOpts.unmarshal_noPanic p recv b
theorem C10_noPanic_Ping (p recv b) : (Ping.unmarshal p recv b).NoPanic := Ping.unmarshal_noPanic p recv b
theorem C10_noPanic_Pong (p recv b) : (Pong.unmarshal p recv b).NoPanic := Pong.unmarshal_noPanic p recv b

/-- generic: a decoder that consumes exactly one value on success and never panics rejects every
strict prefix of an input it accepts completely -/
theorem prefix_rejected {α} (un : Bytes → Res α) (hs : ∀ b v r, un b = .ok v r → Reads1 b r)
    (hp : ∀ b, (un b).NoPanic) (b : Bytes) (v : α) (h : un b = .ok v [])
    (q y : Bytes) (hb : b = q ++ y) (hy : y ≠ []) : un q = .err := by
  obtain ⟨o, ho⟩ := hs b v [] h
  have hq := parse_prefix_free ho q y hb hy
  cases hu : un q with
  | err => rfl
  | panic w => exact absurd hu (hp q w)
  | ok v' r' =>
    obtain ⟨o', ho'⟩ := hs q v' r' hu
    rw [hq] at ho'; cases ho'

theorem C10_prefix_Message (p recv b v) (h : Message.unmarshal p recv b = .ok v []) (q y : Bytes)
    (hb : b = q ++ y) (hy : y ≠ []) : Message.unmarshal p recv q = .err :=
  prefix_rejected _ (fun _ _ _ => Message.unmarshal_sound) (Message.unmarshal_noPanic p recv) b v h q y hb hy
theorem C10_prefix_MessageExt (p recv b v) (h : MessageExt.unmarshal p recv b = .ok v []) (q y : Bytes)
    (hb : b = q ++ y) (hy : y ≠ []) : MessageExt.unmarshal p recv q = .err :=
  prefix_rejected _ (fun _ _ _ => MessageExt.unmarshal_sound) (MessageExt.unmarshal_noPanic p recv) b v h q y hb hy
theorem C10_prefix_Forward (p recv b v) (h : Forward.unmarshal p recv b = .ok v []) (q y : Bytes)
    (hb : b = q ++ y) (hy : y ≠ []) : Forward.unmarshal p recv q = .err :=
  prefix_rejected _ (fun _ _ _ => Forward.unmarshal_sound) (Forward.unmarshal_noPanic p recv) b v h q y hb hy
theorem C10_prefix_Packed (p recv b v) (h : Packed.unmarshal p recv b = .ok v []) (q y : Bytes)
    (hb : b = q ++ y) (hy : y ≠ []) : Packed.unmarshal p recv q = .err :=
  prefix_rejected _ (fun _ _ _ => Packed.unmarshal_sound) (Packed.unmarshal_noPanic p recv) b v h q y hb hy
theorem C10_prefix_Helo (p recv b v) (h : Helo.unmarshal p recv b = .ok v []) (q y : Bytes)
    (hb : b = q ++ y) (hy : y ≠ []) : Helo.unmarshal p recv q = .err :=
  prefix_rejected _ (fun _ _ _ => Helo.unmarshal_sound) (Helo.unmarshal_noPanic p recv) b v h q y hb hy
theorem C10_prefix_Pong (p recv b v) (h : Pong.unmarshal p recv b = .ok v []) (q y : Bytes)
    (hb : b = q ++ y) (hy : y ≠ []) : Pong.unmarshal p recv q = .err :=
  prefix_rejected _ (fun _ _ _ => Pong.unmarshal_sound) (Pong.unmarshal_noPanic p recv) b v h q y hb hy
theorem C10_prefix_Ping (p recv b v) (h : Ping.unmarshal p recv b = .ok v []) (q y : Bytes)
    (hb : b = q ++ y) (hy : y ≠ []) : Ping.unmarshal p recv q = .err :=
  prefix_rejected _ (fun _ _ _ => Ping.unmarshal_sound) (Ping.unmarshal_noPanic p recv) b v h q y hb hy
theorem C10_prefix_Ack (p recv b v) (h : Ack.unmarshal p recv b = .ok v []) (q y : Bytes)
    (hb : b = q ++ y) (hy : y ≠ []) : Ack.unmarshal p recv q = .err :=
  prefix_rejected _ (fun _ _ _ => Ack.unmarshal_sound) (Ack.unmarshal_noPanic p recv) b v h q y hb hy

theorem getChunkKeys_noPanic : ∀ (n : Nat) (b : Bytes), (getChunkKeys n b).NoPanic
  | 0, _ => by unfold getChunkKeys; exact Res.noPanic_err
  | n+1, b => by
    unfold getChunkKeys
    refine (readMapKey_noPanic _ b).bind fun k b1 => ?_
    split
    · exact readMapKey_noPanic _ b1
    · exact (skipP_noPanic .stream b1).bind fun _ b2 => getChunkKeys_noPanic n b2

/-- `GetChunk` (hence `RawMessage.Chunk`) never panics, whatever the bytes -/
theorem C10_noPanic_getChunk (b : Bytes) : (getChunk b).NoPanic := by
  unfold getChunk
  refine (readArrayHeader_noPanic b).bind fun sz b1 => ?_
  split
  · exact Res.noPanic_err
  · refine (skipP_noPanic .stream b1).bind fun _ b2 => ?_
    refine Res.NoPanic.bind ?_ fun _ b3 => (skipP_noPanic .stream b3).bind fun _ b4 =>
      (readMapHeader_noPanic b4).bind fun n b5 => getChunkKeys_noPanic n b5
    split
    · split
      · exact Res.noPanic_err
      · exact skipP_noPanic .stream b2
    · exact Res.noPanic_ok _ _

/-- EventTime payload decoding is total: a value or an error -/
theorem C10_eventTime_total (p : Bytes) : decodeET p = none ∨ ∃ i, decodeET p = some i := by
  cases h : decodeET p with
  | none => exact Or.inl rfl
  | some i => exact Or.inr ⟨i, rfl⟩

-- non-vacuity: an accepted input exists, and its strict prefix is rejected
example : (Message.unmarshal .stream {} [0x93, 0xa1, 0x79, 0x02, 0x80]).rest? = some [] := by decide
example : (Message.unmarshal .stream {} [0x93, 0xa1, 0x79, 0x02]).rest? = none := by decide

end FV
