import FluentVerif.Proto.DecodeLemmas2
import FluentVerif.Proto.Chunk
import FluentVerif.Proto.Alloc
/-! # C10 — decoders are total on arbitrary bytes (decoder half)

* `C10_noPanic_T`: for every byte string, path and receiver the decoder returns a value or an
  error, never `panic` (termination is structural: every model function is total, recursion is on
  fuel `2·|b| + 2`).
* `C10_prefix_T`: each message decoder rejects every strict prefix of an input it accepts in full.
* memory clause ("when decoding from a byte slice, memory requested stays proportionate to the input
  length").  `T.alloc b` (`Proto/Alloc.lean`) counts the elements the slice decoder of `T` requests through
  count-sized `make` calls; every other request is length-checked against the remaining input first.
  The clause at full strength, `∀ b, T.alloc b ≤ b.length`, is **false** of the model and of the code:
  `C10_alloc_full_false` (an 8-byte input requests 2³² − 1 elements; open finding
  C10-count-driven-allocation).  Proved instead, `C10_alloc_T_partial`: on every input the decoder
  *accepts*, the elements requested are at most the bytes consumed — what is missing is the rejected
  inputs, where a declared count is honoured before the elements turn out to be absent. -/
namespace FV

theorem C10_noPanic_Message (p recv b) : (Message.unmarshal p recv b).NoPanic := Message.unmarshal_noPanic p recv b
theorem C10_noPanic_MessageExt (p recv b) : (MessageExt.unmarshal p recv b).NoPanic := MessageExt.unmarshal_noPanic p recv b
theorem C10_noPanic_Forward (p recv b) : (Forward.unmarshal p recv b).NoPanic := Forward.unmarshal_noPanic p recv b
theorem C10_noPanic_Packed (p recv b) : (Packed.unmarshal p recv b).NoPanic := Packed.unmarshal_noPanic p recv b
theorem C10_noPanic_Entry (p recv b) : (Entry.unmarshal p recv b).NoPanic := Entry.unmarshal_noPanic p recv b
theorem C10_noPanic_EntryExt (p recv b) : (EntryExt.unmarshal p recv b).NoPanic := EntryExt.unmarshal_noPanic p recv b
theorem C10_noPanic_EntryList (p b) : (EntryList.unmarshal p b).NoPanic := EntryList.unmarshal_noPanic p b
theorem C10_noPanic_Options (p recv b) : (Options.unmarshal p recv b).NoPanic := Options.unmarshal_noPanic p recv b
theorem C10_noPanic_Ack (p recv b) : (Ack.unmarshal p recv b).NoPanic := Ack.unmarshal_noPanic p recv b
theorem C10_noPanic_Helo (p recv b) : (Helo.unmarshal p recv b).NoPanic := Helo.unmarshal_noPanic p recv b
theorem C10_noPanic_HeloOpts (p recv b) : (HeloOpts.unmarshal p recv b).NoPanic := HeloOpts.unmarshal_noPanic p recv b
theorem C10_noPanic_Ping (p recv b) : (Ping.unmarshal p recv b).NoPanic := Ping.unmarshal_noPanic p recv b
theorem C10_noPanic_Pong (p recv b) : (Pong.unmarshal p recv b).NoPanic := Pong.unmarshal_noPanic p recv b

/-- generic: a decoder that consumes exactly one value on success and never panics rejects every
strict prefix of an input it accepts completely -/
theorem prefix_rejected {α} (un : Bytes → Res α) (hs : ∀ b v r, un b = .ok v r → Reads1 b r)
    (hp : ∀ b, (un b).NoPanic) (b : Bytes) (v : α) (h : un b = .ok v [])
    (q y : Bytes) (hb : b = q ++ y) (hy : y ≠ []) : un q = .err := by
  obtain ⟨o, ho⟩ := hs b v [] h
  have hq := parse_prefix_free ho q y hb hy
  cases hu : un q with
  | err => rfl
  | panic w => exact absurd hu (hp q w)
  | ok v' r' =>
    obtain ⟨o', ho'⟩ := hs q v' r' hu
    rw [hq] at ho'; cases ho'

theorem C10_prefix_Message (p recv b v) (h : Message.unmarshal p recv b = .ok v []) (q y : Bytes)
    (hb : b = q ++ y) (hy : y ≠ []) : Message.unmarshal p recv q = .err :=
  prefix_rejected _ (fun _ _ _ => Message.unmarshal_sound) (Message.unmarshal_noPanic p recv) b v h q y hb hy
theorem C10_prefix_MessageExt (p recv b v) (h : MessageExt.unmarshal p recv b = .ok v []) (q y : Bytes)
    (hb : b = q ++ y) (hy : y ≠ []) : MessageExt.unmarshal p recv q = .err :=
  prefix_rejected _ (fun _ _ _ => MessageExt.unmarshal_sound) (MessageExt.unmarshal_noPanic p recv) b v h q y hb hy
theorem C10_prefix_Forward (p recv b v) (h : Forward.unmarshal p recv b = .ok v []) (q y : Bytes)
    (hb : b = q ++ y) (hy : y ≠ []) : Forward.unmarshal p recv q = .err :=
  prefix_rejected _ (fun _ _ _ => Forward.unmarshal_sound) (Forward.unmarshal_noPanic p recv) b v h q y hb hy
theorem C10_prefix_Packed (p recv b v) (h : Packed.unmarshal p recv b = .ok v []) (q y : Bytes)
    (hb : b = q ++ y) (hy : y ≠ []) : Packed.unmarshal p recv q = .err :=
  prefix_rejected _ (fun _ _ _ => Packed.unmarshal_sound) (Packed.unmarshal_noPanic p recv) b v h q y hb hy
theorem C10_prefix_Helo (p recv b v) (h : Helo.unmarshal p recv b = .ok v []) (q y : Bytes)
    (hb : b = q ++ y) (hy : y ≠ []) : Helo.unmarshal p recv q = .err :=
  prefix_rejected _ (fun _ _ _ => Helo.unmarshal_sound) (Helo.unmarshal_noPanic p recv) b v h q y hb hy
theorem C10_prefix_Pong (p recv b v) (h : Pong.unmarshal p recv b = .ok v []) (q y : Bytes)
    (hb : b = q ++ y) (hy : y ≠ []) : Pong.unmarshal p recv q = .err :=
  prefix_rejected _ (fun _ _ _ => Pong.unmarshal_sound) (Pong.unmarshal_noPanic p recv) b v h q y hb hy
theorem C10_prefix_Ping (p recv b v) (h : Ping.unmarshal p recv b = .ok v []) (q y : Bytes)
    (hb : b = q ++ y) (hy : y ≠ []) : Ping.unmarshal p recv q = .err :=
  prefix_rejected _ (fun _ _ _ => Ping.unmarshal_sound) (Ping.unmarshal_noPanic p recv) b v h q y hb hy
theorem C10_prefix_Ack (p recv b v) (h : Ack.unmarshal p recv b = .ok v []) (q y : Bytes)
    (hb : b = q ++ y) (hy : y ≠ []) : Ack.unmarshal p recv q = .err :=
  prefix_rejected _ (fun _ _ _ => Ack.unmarshal_sound) (Ack.unmarshal_noPanic p recv) b v h q y hb hy

theorem getChunkKeys_noPanic : ∀ (n : Nat) (b : Bytes), (getChunkKeys n b).NoPanic
  | 0, _ => by unfold getChunkKeys; exact Res.noPanic_err
  | n+1, b => by
    unfold getChunkKeys
    refine (readMapKey_noPanic _ b).bind fun k b1 => ?_
    split
    · exact readMapKey_noPanic _ b1
    · exact (skipP_noPanic .stream b1).bind fun _ b2 => getChunkKeys_noPanic n b2

/-- `GetChunk` (hence `RawMessage.Chunk`) never panics, whatever the bytes -/
theorem C10_noPanic_getChunk (b : Bytes) : (getChunk b).NoPanic := by
  unfold getChunk
  refine (readArrayHeader_noPanic b).bind fun sz b1 => ?_
  split
  · exact Res.noPanic_err
  · refine (skipP_noPanic .stream b1).bind fun _ b2 => ?_
    refine Res.NoPanic.bind ?_ fun _ b3 => (skipP_noPanic .stream b3).bind fun _ b4 =>
      (readMapHeader_noPanic b4).bind fun n b5 => getChunkKeys_noPanic n b5
    split
    · split
      · exact Res.noPanic_err
      · exact skipP_noPanic .stream b2
    · exact Res.noPanic_ok _ _

/-- EventTime payload decoding is total: a value or an error -/
theorem C10_eventTime_total (p : Bytes) : decodeET p = none ∨ ∃ i, decodeET p = some i := by
  cases h : decodeET p with
  | none => exact Or.inl rfl
  | some i => exact Or.inr ⟨i, rfl⟩

/-! ### memory clause -/

theorem C10_alloc_Message_partial (recv b v r) (h : Message.unmarshal .bytes recv b = .ok v r) :
    Message.alloc b ≤ b.length - r.length := by have := Message.alloc_le h; omega
theorem C10_alloc_MessageExt_partial (recv b v r) (h : MessageExt.unmarshal .bytes recv b = .ok v r) :
    MessageExt.alloc b ≤ b.length - r.length := by have := MessageExt.alloc_le h; omega
theorem C10_alloc_Forward_partial (recv b v r) (h : Forward.unmarshal .bytes recv b = .ok v r) :
    Forward.alloc b ≤ b.length - r.length := by have := Forward.alloc_le h; omega
theorem C10_alloc_Entry_partial (recv b v r) (h : Entry.unmarshal .bytes recv b = .ok v r) :
    Entry.alloc b ≤ b.length - r.length := by have := Entry.alloc_le h; omega
theorem C10_alloc_EntryExt_partial (recv b v r) (h : EntryExt.unmarshal .bytes recv b = .ok v r) :
    EntryExt.alloc b ≤ b.length - r.length := by have := EntryExt.alloc_le h; omega
theorem C10_alloc_EntryList_partial (b v r) (h : EntryList.unmarshal .bytes b = .ok v r) :
    EntryList.alloc b ≤ b.length - r.length := by have := EntryList.alloc_le h; omega
/-- `UnmarshalPacked` that reads the whole stream without error -/
theorem C10_alloc_unmarshalPacked_partial (b es) (h : unmarshalPacked b = (es, true)) :
    unmarshalPackedAlloc b ≤ b.length := unmarshalPackedAllocF_le _ b [] es h

/-- `["", 0, <array32 declaring 0xffffffff elements>` … and nothing else: eight bytes -/
def allocWitness : Bytes := [0x93, 0xa0, 0x00, 0xdd, 0xff, 0xff, 0xff, 0xff]
/-- `["", <array32 declaring 0xffffffff entries>`: seven bytes, `make(EntryList, 4294967295)` -/
def allocWitnessFwd : Bytes := [0x92, 0xa0, 0xdd, 0xff, 0xff, 0xff, 0xff]

theorem C10_alloc_witness_Message : Message.alloc allocWitness = 4294967295 ∧ allocWitness.length = 8 ∧
    (Message.unmarshal .bytes {} allocWitness).rest? = none := by
  refine ⟨by decide +kernel, rfl, by decide +kernel⟩
theorem C10_alloc_witness_Forward : Forward.alloc allocWitnessFwd = 4294967295 ∧ allocWitnessFwd.length = 7 ∧
    (Forward.unmarshal .bytes {} allocWitnessFwd).rest? = none := by
  refine ⟨by decide +kernel, rfl, by decide +kernel⟩

/-- the memory clause at full strength is false of the model -/
theorem C10_alloc_full_false : ¬ ∀ b, Message.alloc b ≤ b.length := by
  intro h
  have := h allocWitness
  rw [C10_alloc_witness_Message.1] at this
  simp [allocWitness] at this

-- non-vacuity of the partial theorem: an accepted message whose record requests elements
example : (Message.unmarshal .bytes {} [0x93, 0xa1, 0x79, 0x02, 0x81, 0xa1, 0x6b, 0x92, 0x01, 0x02]).rest? = some [] ∧
    Message.alloc [0x93, 0xa1, 0x79, 0x02, 0x81, 0xa1, 0x6b, 0x92, 0x01, 0x02] = 3 := by
  constructor <;> decide +kernel

-- non-vacuity: an accepted input exists, and its strict prefix is rejected
example : (Message.unmarshal .stream {} [0x93, 0xa1, 0x79, 0x02, 0x80]).rest? = some [] := by decide
example : (Message.unmarshal .stream {} [0x93, 0xa1, 0x79, 0x02]).rest? = none := by decide

end FV
