import FluentVerif.Client.Ws
/-! # C17 — websocket client: one frame per message, sticky read errors, safe lifecycle
(sequential half; race freedom over all schedules is `Tie.C17_race_free`) -/
namespace FV.WsC

/-- frames on connection `i` -/
def framesOf (s : St) (i : Nat) : List (Nat × Bytes) := (s.conns[i]?).map (·.frames) |>.getD []

theorem modConn_frames_other (s : St) (i j : Nat) (f : Sess → Sess) (h : i ≠ j) :
    framesOf (modConn s i f) j = framesOf s j := by
  simp [framesOf, modConn, List.getElem?_modify, h]

theorem modConn_frames_same (s : St) (i : Nat) (f : Sess → Sess) (c : Sess) (h : s.conns[i]? = some c) :
    framesOf (modConn s i f) i = (f c).frames := by
  simp [framesOf, modConn, List.getElem?_modify, h]

/-- **one frame**: a successful Send / SendRaw hands the session's connection exactly one more
frame, a binary frame carrying exactly the given bytes (the complete encoding / the caller's bytes),
and touches no other connection -/
theorem C17_one_frame (s : St) (b : Bytes) (fails : Bool) (h : (writeFrame s b fails).2 = .ok) :
    ∃ i, s.session = some i ∧
      framesOf (writeFrame s b fails).1 i = framesOf s i ++ [(binaryFrame, b)] ∧
      ∀ j, j ≠ i → framesOf (writeFrame s b fails).1 j = framesOf s j := by
  unfold writeFrame at h ⊢
  by_cases hst : s.sticky = true
  · simp [hst] at h
  · simp only [hst, Bool.false_eq_true, ite_false] at h ⊢
    cases hs : s.session with
    | none => simp [hs] at h
    | some i =>
      simp only [hs] at h ⊢
      by_cases ho : isOpen s i = true
      · simp only [ho, Bool.not_true, Bool.false_eq_true, ite_false] at h ⊢
        cases fails with
        | true => simp at h
        | false =>
          simp only [Bool.false_eq_true, ite_false]
          refine ⟨i, rfl, ?_, ?_⟩
          · unfold isOpen at ho
            cases hc : s.conns[i]? with
            | none => simp [hc] at ho
            | some c =>
              rw [modConn_frames_same s i _ c hc]
              simp [framesOf, hc]
          · intro j hj
            exact modConn_frames_other s i j _ (Ne.symm hj)
      · simp [ho] at h

theorem C17_send_one_frame (s : St) (e : Bytes) (fails : Bool) (h : (step s (.send (some e) fails)).2 = .ok) :
    ∃ i, s.session = some i ∧ framesOf (step s (.send (some e) fails)).1 i = framesOf s i ++ [(binaryFrame, e)] := by
  simp only [step] at h ⊢
  by_cases hst : s.sticky = true
  · simp [hst] at h
  · simp only [hst, Bool.false_eq_true, ite_false] at h ⊢
    obtain ⟨i, h1, h2, _⟩ := C17_one_frame s e fails h
    exact ⟨i, h1, h2⟩

/-- a failed frame write, an unencodable message: error, and no data frame anywhere (C09, websocket half) -/
theorem C17_failed_write (s : St) (b : Bytes) : (writeFrame s b true).2 = .err ∧ (writeFrame s b true).1 = s := by
  unfold writeFrame
  repeat' split
  all_goals simp_all

theorem C17_unencodable (s : St) (fails : Bool) : step s (.send none fails) = (s, .err) := by
  simp only [step]; split <;> rfl

/-- **sticky**: once the reader of the session ended with an error, every later Send / SendRaw
returns an error and writes nothing … -/
theorem C17_sticky (s : St) (b : Bytes) (fails : Bool) (h : s.sticky = true) : writeFrame s b fails = (s, .err) := by
  simp [writeFrame, h]

/-- … the error is set by a reader ending with anything but a normal closure … -/
theorem C17_sticky_set (s : St) (k : EndKind) (i : Nat) (hs : s.session = some i) (ho : isOpen s i = true)
    (hk : k ≠ .normal) : (step s (.listenerEnds k)).1.sticky = true := by
  simp only [step, hs, ho, Bool.not_true, Bool.false_eq_true, ite_false]
  cases k <;> simp_all [modConn]

/-- … survives everything except a successful Reconnect, which clears it -/
theorem C17_sticky_persists (s : St) (op : Op) (h : s.sticky = true)
    (hop : ∀ d n, op ≠ .reconnect d n) : (step s op).1.sticky = true := by
  cases op with
  | connect d n =>
    simp only [step]
    split
    · exact h
    · unfold connect; repeat' split
      all_goals simp_all
  | disconnect => simp [step, closeCurrent, h]; repeat' split <;> simp_all [modConn]
  | reconnect d n => exact absurd rfl (hop d n)
  | send enc f => simp [step, h]
  | sendRaw b f => simp [step, writeFrame, h]
  | listenerEnds k =>
    simp only [step]
    repeat' split
    all_goals simp_all [modConn]

theorem C17_reconnect_clears (s : St) (h : (step s (.reconnect true true)).2 = .ok) :
    (step s (.reconnect true true)).1.sticky = false := by
  simp [step, connect]

/-- sends without a live session fail and write nothing -/
theorem C17_no_session (s : St) (b : Bytes) (fails : Bool) (h : s.session = none) : writeFrame s b fails = (s, .err) := by
  unfold writeFrame; split
  · rfl
  · simp [h]

theorem C17_closed_session (s : St) (b : Bytes) (fails : Bool) (i : Nat) (h : s.session = some i) (hc : isOpen s i = false) :
    writeFrame s b fails = (s, .err) := by
  unfold writeFrame; split
  · rfl
  · simp [h, hc]

/-- Connect on an active session fails without dialing -/
theorem C17_connect_active (s : St) (d n : Bool) (h : s.session.isSome) : step s (.connect d n) = (s, .err) := by
  simp [step, h]

/-- a failed Reconnect leaves no session behind -/
theorem C17_failed_reconnect (s : St) (d n : Bool) (h : (step s (.reconnect d n)).2 ≠ .ok) :
    (step s (.reconnect d n)).1.session = none := by
  simp only [step] at h ⊢
  split at h
  · simp at h
  · simp_all

/-- Disconnect always leaves no session -/
theorem C17_disconnect (s : St) : (step s .disconnect).1.session = none := by simp [step]

-- non-vacuity
example : (run {} [.connect true true, .sendRaw [1] false, .listenerEnds .abnormal, .sendRaw [2] false,
    .reconnect true true, .sendRaw [3] false]).conns.map (·.frames) = [[(2, [1])], [(2, [3])]] := by decide

end FV.WsC
