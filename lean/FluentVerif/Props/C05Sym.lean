/-! # C05, symbolic level (Dolev–Yao)

Terms, a derivability relation for a peer that can pair, project, hash and invent public names
but cannot invert `hash`, and the handshake's digest formula.  The adversary chooses every HELO
nonce, and has observed every PING of handshakes `0 … i` (salt and digest; hostnames and nonces
are public) and every PONG of honest key-holding servers in **earlier** handshakes `j < i`. -/
namespace FV.Dy

inductive Term where
  | pub (n : Nat)            -- public names: hostnames, nonces, anything the adversary invents
  | salt (i : Nat)           -- the fresh salt of the client's i-th handshake (distinct atoms)
  | key                      -- the shared key
  | pair (a b : Term)
  | hash (t : Term)
deriving DecidableEq, Repr

open Term

def tuple4 (a b c d : Term) : Term := pair a (pair b (pair c d))

/-- digest formula of the protocol: SHA-512(salt ‖ hostname ‖ nonce ‖ key), symbolically -/
def digest (s h n : Term) : Term := hash (tuple4 s h n key)

/-- what a peer can build from a set of known terms -/
inductive Derivable (K : Term → Prop) : Term → Prop where
  | known {t} : K t → Derivable K t
  | pub (n) : Derivable K (pub n)
  | pair {a b} : Derivable K a → Derivable K b → Derivable K (pair a b)
  | fst {a b} : Derivable K (pair a b) → Derivable K a
  | snd {a b} : Derivable K (pair a b) → Derivable K b
  | hash {t} : Derivable K t → Derivable K (hash t)

/-- the non-pair components of a term -/
def parts : Term → List Term
  | pair a b => parts a ++ parts b
  | t => [t]

def Parts (K : Term → Prop) (t : Term) : Prop := ∃ k, K k ∧ t ∈ parts k

inductive Synth (P : Term → Prop) : Term → Prop where
  | base {t} : P t → Synth P t
  | pub (n) : Synth P (pub n)
  | pair {a b} : Synth P a → Synth P b → Synth P (pair a b)
  | hash {t} : Synth P t → Synth P (hash t)

theorem parts_not_pair : ∀ (k a b : Term), pair a b ∉ parts k
  | .pub n, a, b => by simp [parts]
  | .salt i, a, b => by simp [parts]
  | .key, a, b => by simp [parts]
  | .hash t, a, b => by simp [parts]
  | .pair x y, a, b => by
    simp only [parts, List.mem_append]
    intro h; rcases h with h | h
    · exact parts_not_pair x a b h
    · exact parts_not_pair y a b h

theorem synth_of_parts {P : Term → Prop} : ∀ (k : Term), (∀ t, t ∈ parts k → P t) → Synth P k
  | .pub n, _ => .pub n
  | .salt i, h => .base (h _ (by simp [parts]))
  | .key, h => .base (h _ (by simp [parts]))
  | .hash t, h => .base (h _ (by simp [parts]))
  | .pair a b, h =>
    .pair (synth_of_parts a (fun t ht => h t (by simp [parts]; exact Or.inl ht)))
          (synth_of_parts b (fun t ht => h t (by simp [parts]; exact Or.inr ht)))

theorem synth_pair_inv {P : Term → Prop} (hP : ∀ a b, ¬ P (pair a b)) {a b : Term}
    (h : Synth P (pair a b)) : Synth P a ∧ Synth P b := by
  cases h with
  | base hp => exact absurd hp (hP a b)
  | pair ha hb => exact ⟨ha, hb⟩

/-- normal form: anything derivable is synthesised from the atomic parts of what is known -/
theorem derivable_synth {K : Term → Prop} {t : Term} (h : Derivable K t) : Synth (Parts K) t := by
  have hP : ∀ a b, ¬ Parts K (pair a b) := by
    intro a b ⟨k, _, hm⟩; exact parts_not_pair k a b hm
  induction h with
  | known hk => exact synth_of_parts _ (fun t ht => ⟨_, hk, ht⟩)
  | pub n => exact .pub n
  | pair _ _ iha ihb => exact .pair iha ihb
  | fst _ ih => exact (synth_pair_inv hP ih).1
  | snd _ ih => exact (synth_pair_inv hP ih).2
  | hash _ ih => exact .hash ih

/-! ### the handshake -/

/-- the adversary's knowledge in the client's `i`-th handshake: salts and digests of the PINGs of
handshakes `0 … i`, and the digests of honest servers' PONGs in handshakes `j < i` -/
def Knows (clientHost : Term) (serverHost nonce : Nat → Term) (i : Nat) (t : Term) : Prop :=
  (∃ j, j ≤ i ∧ (t = salt j ∨ t = digest (salt j) clientHost (nonce j))) ∨
  (∃ j, j < i ∧ t = digest (salt j) (serverHost j) (nonce j))

theorem key_not_synth {P : Term → Prop} (h : ¬ P key) : ¬ Synth P key := by
  intro hs; cases hs with
  | base hp => exact h hp

/-- **C05, symbolic, partial**: whatever HELO nonces the peer chose in this and all earlier
handshakes, whatever it replays or recombines from the PINGs and honest PONGs it has seen, if a
peer that does not hold the key produces a PONG `(host, d)` the client's check accepts, i.e.
`d = digest (salt i) host (nonce i)`, then `host` is the client's own hostname: the only way in is
to reflect this very handshake's PING. -/
theorem C05_sym_partial (clientHost : Term) (serverHost nonce : Nat → Term)
    (i : Nat) (host : Term)
    (hd : Derivable (Knows clientHost serverHost nonce i) (digest (salt i) host (nonce i))) :
    host = clientHost := by
  have hs := derivable_synth hd
  have keyNotPart : ¬ Parts (Knows clientHost serverHost nonce i) key := by
    intro ⟨k, hk, hm⟩
    rcases hk with ⟨j, _, rfl | rfl⟩ | ⟨j, _, rfl⟩ <;> simp [parts, digest] at hm
  unfold digest at hs
  cases hs with
  | base hp =>
    -- the digest is one of the observed digests
    obtain ⟨k, hk, hm⟩ := hp
    rcases hk with ⟨j, _, rfl | rfl⟩ | ⟨j, hj, rfl⟩
    · simp [parts] at hm
    · simp [parts, digest, tuple4] at hm
      exact hm.2.1
    · -- an honest PONG of an earlier handshake carries an earlier salt
      simp [parts, digest, tuple4] at hm
      omega
  | hash hx =>
    -- built by hashing: the peer would have to build the key
    have hP : ∀ a b, ¬ Parts (Knows clientHost serverHost nonce i) (pair a b) := by
      intro a b ⟨k, _, hm⟩; exact parts_not_pair k a b hm
    have := (synth_pair_inv hP (synth_pair_inv hP (synth_pair_inv hP hx).2).2).2
    exact absurd this (key_not_synth keyNotPart)

/-- … and the reflection does get in: the full statement ("no peer ignorant of the key") is false
of the protocol as implemented — the negation, with its witness -/
theorem C05_reflection_witness (clientHost : Term) (serverHost nonce : Nat → Term) (i : Nat) :
    Derivable (Knows clientHost serverHost nonce i) (digest (salt i) clientHost (nonce i)) :=
  .known (Or.inl ⟨i, Nat.le_refl i, Or.inr rfl⟩)

/-- full statement under the hypothesis the implementation does not enforce: if the client
refused its own hostname, no keyless peer would get in -/
theorem C05_sym_if_own_hostname_refused (clientHost : Term) (serverHost nonce : Nat → Term)
    (i : Nat) (host : Term) (hne : host ≠ clientHost) :
    ¬ Derivable (Knows clientHost serverHost nonce i) (digest (salt i) host (nonce i)) :=
  fun hd => hne (C05_sym_partial clientHost serverHost nonce i host hd)

end FV.Dy
