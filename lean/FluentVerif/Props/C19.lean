import FluentVerif.Proto.EventTime
/-! # C19 — EventTime preserves the instant to the nanosecond, independent of time zone -/
namespace FV

/-- encode then decode returns the same instant to the nanosecond, for every instant whose Unix
seconds fit in 32 unsigned bits -/
theorem C19_roundtrip (t : Instant) (h : t.InDomain) :
    (decodeET (encodeET t)).map (fun u => (u.sec, u.nsec)) = some (t.sec, t.nsec) := by
  obtain ⟨h0, h1, h2⟩ := h
  have e1 : (t.sec % 4294967296).toNat < 256 ^ 4 := by simp; omega
  have e2 : t.nsec % 4294967296 < 256 ^ 4 := by simp; omega
  simp [decodeET, encodeET, beVal_be 4 _ e1, beVal_be 4 _ e2]
  omega

/-- the encoding depends only on the instant, not on the zone it is expressed in -/
theorem C19_zone (t : Instant) (z : Int) : encodeET { t with zone := z } = encodeET t := rfl

/-- payloads that are not exactly eight bytes are rejected -/
theorem C19_length (p : Bytes) (h : p.length ≠ 8) : decodeET p = none := by simp [decodeET, h]

/-- re-encoding a decoded payload reproduces it bit for bit when its nanosecond field is < 10^9 -/
theorem C19_payload (p : Bytes) (hl : p.length = 8) (hn : beVal (p.drop 4) < 1000000000) :
    (decodeET p).map encodeET = some p := by
  have h4 : (p.take 4).length = 4 := by simp [hl]
  have h4' : (p.drop 4).length = 4 := by simp [hl]
  have b1 := beVal_lt (p.take 4); rw [h4] at b1
  simp only [decodeET, hl, ne_eq, not_true_eq_false, ite_false, Option.map_some, encodeET]
  have hdiv : beVal (p.drop 4) / 1000000000 = 0 := Nat.div_eq_of_lt hn
  have hmod : beVal (p.drop 4) % 1000000000 = beVal (p.drop 4) := Nat.mod_eq_of_lt hn
  simp only [hdiv, hmod]
  have s1 : (((beVal (p.take 4) : Nat) : Int) + ((0 : Nat) : Int)) % 4294967296 = (beVal (p.take 4) : Nat) := by
    have : (256 : Nat) ^ 4 = 4294967296 := by decide
    omega
  rw [s1]
  have s2 : beVal (p.drop 4) % 4294967296 = beVal (p.drop 4) := by omega
  rw [s2, Int.toNat_natCast]
  have r1 := be_beVal (p.take 4); rw [h4] at r1
  have r2 := be_beVal (p.drop 4); rw [h4'] at r2
  rw [r1, r2, List.take_append_drop]

/-- order: on the domain, comparing (sec, nsec) lexicographically is comparing the 64-bit
big-endian reading of the eight payload bytes -/
theorem C19_order (t u : Instant) (ht : t.InDomain) (hu : u.InDomain) :
    (t.sec < u.sec ∨ (t.sec = u.sec ∧ t.nsec < u.nsec)) ↔
    beVal (encodeET t) < beVal (encodeET u) := by
  obtain ⟨a0, a1, a2⟩ := ht
  obtain ⟨b0, b1, b2⟩ := hu
  have key : ∀ (x y : Nat), x < 256 ^ 4 → y < 256 ^ 4 →
      beVal (be 4 x ++ be 4 y) = x * 4294967296 + y := by
    intro x y hx hy
    rw [beVal_append, beVal_be 4 x hx, beVal_be 4 y hy]; simp
  unfold encodeET
  rw [key _ _ (by simp; omega) (by simp; omega), key _ _ (by simp; omega) (by simp; omega)]
  omega

-- non-vacuity
example : ({ sec := 4294967295, nsec := 999999999, zone := 3600 } : Instant).InDomain := by decide
example : decodeET (encodeET { sec := 1, nsec := 2 }) = some { sec := 1, nsec := 2 } := by decide

end FV
