import FluentVerif.Proto.Heap
/-! # C07 — returned messages and byte slices are independent values (no hidden sharing) -/
namespace FV.Heap

theorem stable_of_owner {c : Cell} (h : ∀ s, c.owner ≠ .returned s) (h' : ∀ s, c.owner ≠ .arg s) : c.Stable := by
  unfold Cell.Stable
  split
  · next s e => exact absurd e (h s)
  · next s e => exact absurd e (h' s)
  · trivial

/-- modifying a cell that is owned by a call in flight / the pool keeps the invariant -/
theorem inv_modify {s : State} {l : Nat} {f : Cell → Cell} (hi : Inv s)
    (hf : ∀ c, s[l]? = some c → (f c).Stable) : Inv (s.modify l f) := by
  intro c hc
  rw [List.mem_iff_getElem?] at hc
  obtain ⟨i, hi'⟩ := hc
  rw [List.getElem?_modify] at hi'
  by_cases e : l = i
  · subst e
    simp only [ite_true] at hi'
    cases hs : s[l]? with
    | none => simp [hs] at hi'
    | some c0 =>
      simp [hs] at hi'
      subst hi'
      exact hf c0 hs
  · simp only [e, ite_false] at hi'
    have hi'' : s[i]? = some c := by simpa using hi'
    exact hi c (List.mem_iff_getElem?.2 ⟨i, hi''⟩)

theorem inv_append {s : State} {c : Cell} (hi : Inv s) (hc : c.Stable) : Inv (s ++ [c]) := by
  intro c' h
  simp only [List.mem_append, List.mem_singleton] at h
  rcases h with h | rfl
  · exact hi c' h
  · exact hc

theorem ownerAt_some {s : State} {l : Nat} {o : Owner} (h : ownerAt s l = some o) :
    ∃ c, s[l]? = some c ∧ c.owner = o := by
  unfold ownerAt at h
  cases hs : s[l]? with
  | none => simp [hs] at h
  | some c => simp [hs] at h; exact ⟨c, rfl, h⟩

/-- **one step** of any goroutine preserves "every returned value and every argument is unchanged" -/
theorem inv_step (s : State) (st : Step) (hi : Inv s) : Inv (step s st) := by
  cases st with
  | get t l =>
    cases l with
    | none => exact inv_append hi (by simp [Cell.Stable])
    | some l =>
      simp only [step]
      split
      · next h =>
        refine inv_modify hi fun c _ => ?_
        simp [Cell.Stable]
      · exact hi
  | write t l content grow =>
    simp only [step]
    split
    · next h =>
      obtain ⟨c0, hc0, ho⟩ := ownerAt_some h
      split
      · refine inv_append (inv_modify hi fun c _ => ?_) (by simp [Cell.Stable])
        simp [Cell.Stable]
      · refine inv_modify hi fun c hc => ?_
        have : c = c0 := by rw [hc0] at hc; exact (Option.some.inj hc).symm
        subst this
        simp [Cell.Stable, ho]
    · exact hi
  | ret t l =>
    simp only [step]
    split
    · next c hc =>
      split
      · exact inv_append hi (by simp [Cell.Stable])
      · exact hi
    · exact hi
  | put t l =>
    simp only [step]
    split
    · refine inv_modify hi fun c _ => ?_
      simp [Cell.Stable]
    · exact hi
  | callerArg content => exact inv_append hi (by simp [Cell.Stable])
  | readArg t l => exact hi

/-- **C07**: for every sequence *and every interleaving* of get / write / return / put steps of any
number of goroutines, with any pool choices, every value returned earlier and every caller-supplied
argument reads now as it read when it was returned / passed in -/
theorem C07_stable (steps : List Step) : Inv (steps.foldl step []) := by
  suffices ∀ s, Inv s → Inv (steps.foldl step s) from this [] (by intro c h; cases h)
  induction steps with
  | nil => intro s h; exact h
  | cons st rest ih => intro s h; exact ih _ (inv_step s st h)

/-- spelled out for one returned value -/
theorem C07_returned_unchanged (steps : List Step) (c : Cell) (snap : Bytes)
    (hc : c ∈ steps.foldl step []) (ho : c.owner = .returned snap) : c.content = snap := by
  have := C07_stable steps c hc
  simpa [Cell.Stable, ho] using this

theorem C07_args_unchanged (steps : List Step) (c : Cell) (snap : Bytes)
    (hc : c ∈ steps.foldl step []) (ho : c.owner = .arg snap) : c.content = snap := by
  have := C07_stable steps c hc
  simpa [Cell.Stable, ho] using this

/-! the pinned behaviour: the caller received a *view* of the pooled storage (`buf.Bytes()`), i.e.
the location stayed reachable from the pool.  Two sequential calls suffice to change the first
result. -/

/-- legacy state: (storage content of the single pooled buffer, snapshot handed to the first caller) -/
def legacyTwoCalls (first second : Bytes) : Bytes × Bytes :=
  let pooled := first            -- call 1: Reset, write `first`, return a view, Put
  let view1Snapshot := pooled
  let pooled := second           -- call 2: Get the same buffer, Reset, write `second`
  (pooled, view1Snapshot)        -- what the first caller's view reads now, and what it read at return

theorem C07_legacy_witness : (legacyTwoCalls [1] [2]).1 ≠ (legacyTwoCalls [1] [2]).2 := by decide

-- non-vacuity: a schedule in which a buffer is reused by another goroutine after its content was returned
example :
    let s := [Step.get 0 none, .write 0 0 [1] false, .ret 0 0, .put 0 0, .get 1 (some 0), .write 1 0 [2] false].foldl step []
    (s.map (·.content)) = [[2], [1]] := by decide

end FV.Heap
