import FluentVerif.Client.TcpLemmas
import FluentVerif.Props.C05Sym
import FluentVerif.Proto.RoundTripHs
/-! # C05 — handshake completes only with a peer that proves knowledge of the shared key

Byte level, with the hex SHA-512 digest `H` uninterpreted.  (Symbolic level: `C05Sym.lean`.) -/
namespace FV.Tcp

/-- the client is in transport phase after `Handshake` **iff** a session exists, the HELO decodes
and carries options, the PING was accepted by the connection, the PONG decodes, says
auth_result=true and carries hex(H(salt ‖ server_hostname ‖ nonce ‖ key)) for the salt sent in
*this* handshake and the nonce of *this* HELO (starting from a session not yet in transport phase) -/
theorem C05_accept_iff (H : Bytes → Bytes) (cfg : Cfg) (s : St) (id : Nat) (helo salt pong : Bytes) (f : WFault)
    (hs : s.session = some (id, false)) :
    (handshake H cfg s helo salt pong f).1.session = some (id, true) ↔
      ∃ h rest0 ho p rest,
        Helo.unmarshal .stream {} helo = .ok h rest0 ∧ h.options = some ho ∧
        (doWrite (pingMsg H cfg salt ho.nonce).marshal f).2 = .ok ∧
        Pong.unmarshal .stream {} (rest0 ++ pong) = .ok p rest ∧
        p.authResult = true ∧ p.digest = H (salt ++ p.hostname ++ ho.nonce ++ cfg.sharedKey.getD []) := by
  unfold handshake
  simp only [hs]
  constructor
  · intro h
    split at h
    · next hl rest0 hh =>
      split at h
      · simp [hs] at h
      · next ho hho =>
        try simp only at h
        split at h
        · simp [St.emit, hs] at h
        · next hw =>
          split at h
          · next p rest hp =>
            split at h
            · next hacc =>
              simp only [pongAccepted, Bool.and_eq_true, beq_iff_eq] at hacc
              exact ⟨hl, rest0, ho, p, rest, hh, hho, by simpa using hw, hp, hacc.1, hacc.2⟩
            · simp [St.emit, hs] at h
          · simp [St.emit, hs] at h
    · simp [hs] at h
    · simp [hs] at h
  · rintro ⟨hl, rest0, ho, p, rest, hh, hho, hw, hp, ha, hd⟩
    simp [hh, hho, hw, hp, pongAccepted, ha, hd]

/-- success is reported exactly in that case -/
theorem C05_ok_iff (H : Bytes → Bytes) (cfg : Cfg) (s : St) (id : Nat) (helo salt pong : Bytes) (f : WFault)
    (hs : s.session = some (id, false)) :
    (handshake H cfg s helo salt pong f).2 = .ok ↔ (handshake H cfg s helo salt pong f).1.session = some (id, true) := by
  unfold handshake
  simp only [hs]
  repeat' split
  all_goals simp [St.emit, hs]

/-- the PING the client puts on the wire -/
theorem C05_ping (H : Bytes → Bytes) (cfg : Cfg) (salt nonce : Bytes) :
    pingMsg H cfg salt nonce =
      { mtype := [0x50, 0x49, 0x4e, 0x47], hostname := cfg.hostname, salt := salt,
        digest := H (salt ++ cfg.hostname ++ nonce ++ cfg.sharedKey.getD []), username := [], password := [] } := rfl

/-! ### server-side helpers: `NewPong`, `ValidatePingDigest`, `ValidatePongDigest` -/

/-- a server holding the same key validates the client's PING -/
theorem C05_server_accepts_ping (H : Bytes → Bytes) (cfg : Cfg) (salt nonce : Bytes) :
    validatePing H (pingMsg H cfg salt nonce) (cfg.sharedKey.getD []) nonce = true := by
  simp [validatePing, pingMsg, hexDigest]

/-- a server holding any other key rejects it, unless `H` collides on the two inputs -/
theorem C05_other_key_rejects (H : Bytes → Bytes) (cfg : Cfg) (salt nonce key' : Bytes)
    (hcf : H (salt ++ cfg.hostname ++ nonce ++ cfg.sharedKey.getD []) ≠ H (salt ++ cfg.hostname ++ nonce ++ key')) :
    validatePing H (pingMsg H cfg salt nonce) key' nonce = false := by
  simp only [validatePing, pingMsg, hexDigest, beq_eq_false_iff_ne, ne_eq]
  exact hcf

/-- the PONG an honest server builds with `NewPong(true, …)` is accepted by the client's check,
and `ValidatePongDigest` accepts exactly the digests of the formula -/
theorem C05_honest_pong_accepted (H : Bytes → Bytes) (cfg : Cfg) (salt nonce reason shost : Bytes) :
    pongAccepted H cfg salt nonce (newPong H true reason shost (cfg.sharedKey.getD []) nonce (pingMsg H cfg salt nonce)) = true := by
  simp [pongAccepted, newPong, pingMsg, hexDigest]

theorem C05_validatePong_iff (H : Bytes → Bytes) (p : Pong) (key nonce salt : Bytes) :
    validatePong H p key nonce salt = true ↔ p.digest = H (salt ++ p.hostname ++ nonce ++ key) := by
  simp [validatePong, hexDigest]

/-- end to end: an honest exchange (HELO with options, PING accepted, honest PONG) puts the client
into transport phase -/
theorem C05_honest_handshake (H : Bytes → Bytes) (cfg : Cfg) (s : St) (id : Nat) (ho : HeloOpts) (salt reason shost : Bytes)
    (hs : s.session = some (id, false)) (hho : ho.WF) (hr : lenOK reason) (hh : lenOK shost)
    (hd : lenOK (H (salt ++ shost ++ ho.nonce ++ cfg.sharedKey.getD []))) :
    (handshake H cfg s (Helo.marshal { mtype := [0x48, 0x45, 0x4c, 0x4f], options := some ho }) salt
      (newPong H true reason shost (cfg.sharedKey.getD []) ho.nonce (pingMsg H cfg salt ho.nonce)).marshal .none).1.session
      = some (id, true) := by
  rw [C05_accept_iff H cfg s id _ _ _ _ hs]
  have h1 := Helo.roundtrip .stream { mtype := [0x48, 0x45, 0x4c, 0x4f], options := some ho } (by simp [lenOK]) hho []
  simp only [List.append_nil] at h1
  refine ⟨_, _, ho, newPong H true reason shost (cfg.sharedKey.getD []) ho.nonce (pingMsg H cfg salt ho.nonce), [],
    h1, rfl, rfl, ?_, ?_, ?_⟩
  · simp only [List.nil_append]
    have := Pong.roundtrip .stream {} (newPong H true reason shost (cfg.sharedKey.getD []) ho.nonce (pingMsg H cfg salt ho.nonce))
      ⟨by simp [newPong, lenOK], hr, hh, by simpa [newPong, hexDigest, pingMsg] using hd⟩ []
    simpa using this
  · rfl
  · simp [newPong, hexDigest, pingMsg]

/-- the reflection at byte level: a peer that echoes the client's own hostname and PING digest is
accepted although it never used the key — the negation of "no peer ignorant of the key", recorded
as the open finding C05-reflection -/
theorem C05_reflection_accepted (H : Bytes → Bytes) (cfg : Cfg) (salt nonce : Bytes) :
    pongAccepted H cfg salt nonce
      { mtype := [0x50, 0x4f, 0x4e, 0x47], authResult := true, reason := [],
        hostname := (pingMsg H cfg salt nonce).hostname, digest := (pingMsg H cfg salt nonce).digest } = true := by
  simp [pongAccepted, pingMsg]

end FV.Tcp
