import FluentVerif.Proto.Packed
/-! # C03 — packed and gzip-compressed event streams carry exactly the given entries -/
namespace FV

theorem entry_enc_nonempty {t r a} (h : EntryExt.marshal t r = some a) : a ≠ [] := by
  simp only [EntryExt.marshal, Option.map_eq_some_iff] at h
  obtain ⟨rb, _, rfl⟩ := h
  simp

/-- `UnmarshalPacked` of a packed stream (plus nothing) returns the entries, in order -/
theorem unmarshalPackedF_marshal : ∀ (es : List (Instant × GoVal)) (eb : Bytes) (f : Nat) (acc : List EntryExt),
    entriesWF es → marshalEntries es = some eb → eb.length < f →
    unmarshalPackedF f eb acc = (acc.reverse ++ entriesNorm es, true)
  | [], eb, f, acc, _, he, hf => by
    simp [marshalEntries] at he; subst he
    cases f with
    | zero => omega
    | succ f => simp [unmarshalPackedF, entriesNorm]
  | (t, r) :: es, eb, f, acc, hw, he, hf => by
    simp only [entriesWF] at hw
    unfold marshalEntries at he
    split at he
    · next a b ha hb =>
      simp only [Option.some.injEq] at he; subst he
      have hne := entry_enc_nonempty ha
      cases f with
      | zero => omega
      | succ f =>
        unfold unmarshalPackedF
        have : (a ++ b).isEmpty = false := by
          cases a with
          | nil => exact absurd rfl hne
          | cons x xs => rfl
        rw [this]
        simp only [Bool.false_eq_true, ite_false]
        rw [EntryExt.roundtrip .bytes {} hw.1 hw.2.1 ha b]
        simp only
        have hlen : b.length < f := by
          have : 0 < a.length := by
            cases a with
            | nil => exact absurd rfl hne
            | cons x xs => simp
          simp at hf; omega
        rw [unmarshalPackedF_marshal es b f _ hw.2.2 hb hlen]
        simp [entriesNorm]
    · cases he

/-- **packed**: the stream is the concatenation, in order, of the encodings of exactly those
entries (each read back by the specification parser as `[EventTime, record]`), the size option is
the number of entries, and unpacking returns the list -/
theorem C03_packed (tag : Bytes) (es : List (Instant × GoVal)) (m : Packed) (hes : entriesWF es)
    (h : newPacked tag es = some m) :
    parseSeq es.length m.stream = some (entriesObjs es, []) ∧
    m.options = some { size := some es.length } ∧
    unmarshalPacked m.stream = (entriesNorm es, true) := by
  simp only [newPacked, Option.map_eq_some_iff] at h
  obtain ⟨s, hs, rfl⟩ := h
  refine ⟨?_, rfl, ?_⟩
  · simpa using marshalEntries_parse es s hes hs []
  · simpa [unmarshalPacked] using unmarshalPackedF_marshal es s (s.length + 1) [] hes hs (by omega)

/-- **compressed, FromBytes**: whatever state the recycled compressor was left in (any buffer
content, member open, closed, never used), the message carries exactly one complete gzip member
that decompresses to exactly the caller's bytes, with nothing after it, flagged compressed=gzip -/
theorem C03_compressed_fromBytes (cd : Codec) (pooled : Compressor) (tag payload : Bytes) :
    ∃ m, newCompressedFromBytes cd pooled tag payload = some m ∧
      cd.gunzipOne m.stream = some (payload, []) ∧
      m.options = some { compressed := vGzip } := by
  refine ⟨_, rfl, ?_, rfl⟩
  simpa [Compressor.reset, Compressor.write] using cd.sound payload []

/-- **compressed, from entries**: decompresses to exactly the bytes of the uncompressed variant -/
theorem C03_compressed (cd : Codec) (pooled : Compressor) (tag : Bytes) (es : List (Instant × GoVal))
    (plain : Packed) (hp : newPacked tag es = some plain) :
    ∃ m, newCompressed cd pooled tag es = some m ∧
      cd.gunzipOne m.stream = some (plain.stream, []) ∧
      m.options = some { size := some es.length, compressed := vGzip } := by
  simp only [newPacked, Option.map_eq_some_iff] at hp
  obtain ⟨s, hs, rfl⟩ := hp
  refine ⟨{ tag := tag, stream := cd.member s, options := some { size := some es.length, compressed := vGzip } },
    by simp [newCompressed, hs, newCompressedFromBytes, Compressor.reset, Compressor.write], ?_, rfl⟩
  simpa using cd.sound s []

/-- the result does not depend on the pool history at all -/
theorem C03_history_independent (cd : Codec) (p₁ p₂ : Compressor) (tag payload : Bytes) :
    newCompressedFromBytes cd p₁ tag payload = newCompressedFromBytes cd p₂ tag payload := rfl

-- non-vacuity: the `Codec` interface is satisfiable (a toy self-delimiting code: each payload byte
-- is preceded by 1, the member ends with 0)
def toyMember : Bytes → Bytes
  | [] => [0]
  | b :: p => 1 :: b :: toyMember p
def toyGunzip : Bytes → Option (Bytes × Bytes)
  | 0 :: r => some ([], r)
  | 1 :: b :: r => (toyGunzip r).map fun (p, rest) => (b :: p, rest)
  | _ => none
theorem toy_sound : ∀ p rest, toyGunzip (toyMember p ++ rest) = some (p, rest)
  | [], rest => by simp [toyMember, toyGunzip]
  | b :: p, rest => by simp [toyMember, toyGunzip, toy_sound p rest]
def toyCodec : Codec := { member := toyMember, gunzipOne := toyGunzip, sound := toy_sound }
example : (newCompressedFromBytes toyCodec { buffer := [9, 9], openMember := some [7] } [] [1, 2]).bind
    (fun m => toyCodec.gunzipOne m.stream) = some ([1, 2], []) := by decide

end FV
