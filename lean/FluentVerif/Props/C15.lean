import FluentVerif.Ws.Closers
import FluentVerif.Ws.Reader
/-! # C15 — websocket close protocol: single closer, single close frame, … / C16 read side -/
namespace FV.WsCl

/-- `Open`, once cleared, stays cleared -/
theorem step_open_monotone (s : St) (t ch : Nat) (h : s.opn = false) : (step s t ch).opn = false := by
  unfold step
  repeat' split
  all_goals simp_all [St.setPc]

theorem C15_open_monotone (sched : List (Nat × Nat)) : ∀ s, s.opn = false → (run s sched).opn = false := by
  induction sched with
  | nil => intro s h; exact h
  | cons x xs ih => intro s h; exact ih _ (step_open_monotone s x.1 x.2 h)

/-- a closer waiting for the peer's answer always has an enabled step: the timer alternative
(`ch` even) moves it on whatever the environment does — every close call can return -/
theorem C15_closer_enabled (s : St) (t : Nat) (wok : Bool) (h : s.threads[t]? = some (.c5 wok)) :
    (step s t 0).threads[t]? = some .c6 := by
  have hlt : t < s.threads.length := lt_of_get h
  unfold step
  rw [h]
  simp only
  split <;> simp [St.setPc, hlt]

/-- every loser returns "multiple close calls" without touching anything but the lock -/
theorem C15_loser (s : St) (t ch : Nat) (h : s.threads[t]? = some .c1) (hc : s.opn = false) :
    (step s t ch).threads[t]? = some .retMultiple ∧ (step s t ch).frames = s.frames ∧
    (step s t ch).connCloses = s.connCloses := by
  have hlt : t < s.threads.length := lt_of_get h
  unfold step
  rw [h]
  simp [hc, St.setPc, hlt]

end FV.WsCl

namespace FV.WsCl
/-- **Listen returns nil after a local close**: under every schedule of any number of closers and
every behaviour of reader, peer and network, the `Closed` bit is set no later than the underlying
connection is closed — so a reader whose `ReadMessage` fails *because of* that close finds
`hasConnState(Closed)` true and takes the healthy-close exit — and a `Close` call that returned
without the multiple-close error has left `Closed` set. -/
theorem C15_closed_before_close (n : Nat) (sched : List (Nat × Nat)) :
    (1 ≤ (run (init n) sched).connCloses → (run (init n) sched).closed = true) ∧
    (∀ t : Nat, (run (init n) sched).threads[t]? = some CPc.retDone → (run (init n) sched).closed = true) :=
  ⟨(inv2_run _ sched (inv2_init n)).cc, (inv2_run _ sched (inv2_init n)).done⟩
end FV.WsCl

namespace FV.WsR

theorem lt_of_get {l : List Pc} {t : Nat} {p : Pc} (h : l[t]? = some p) : t < l.length := by
  rcases Nat.lt_or_ge t l.length with h' | h'
  · exact h'
  · rw [List.getElem?_eq_none h'] at h; cases h

/-- replacing one entry changes the count of active loops by that entry's contribution -/
theorem activeCount_set : ∀ (l : List Pc) (t : Nat) (p0 p1 : Pc), l[t]? = some p0 →
    activeCount (l.set t p1) + (if p0.active then 1 else 0) = activeCount l + (if p1.active then 1 else 0)
  | [], t, _, _, h => by simp at h
  | x :: xs, 0, p0, p1, h => by
    simp at h; subst h
    simp only [List.set_cons_zero, activeCount, List.filter_cons]
    cases hx : x.active <;> cases hp : p1.active <;> simp
    all_goals omega
  | x :: xs, t+1, p0, p1, h => by
    simp at h
    have ih := activeCount_set xs t p0 p1 h
    simp only [List.set_cons_succ, activeCount, List.filter_cons] at ih ⊢
    cases hx : x.active <;> simp <;> omega

structure Inv (s : St) : Prop where
  lock : ∀ (t : Nat), s.listenLock = some t ↔ s.threads[t]? = some .l1
  one : activeCount s.threads ≤ 1
  idle : s.listening = false → activeCount s.threads = 0

theorem activeCount_replicate (n : Nat) : activeCount (List.replicate n Pc.l0) = 0 := by
  induction n with
  | zero => rfl
  | succ n ih => simpa [List.replicate_succ, activeCount, List.filter_cons, Pc.active] using ih

theorem inv_init (n : Nat) : Inv (init n) := by
  refine ⟨?_, ?_, ?_⟩
  · intro t; simp [init, List.getElem?_replicate]
  · simp [init, activeCount_replicate]
  · intro _; simp [init, activeCount_replicate]

/-- a move that touches neither the lock nor Listening -/
theorem inv_move {s : St} {t : Nat} {p0 p1 : Pc} (h : Inv s) (h0 : s.threads[t]? = some p0)
    (hc0 : p0 ≠ .l1) (hc1 : p1 ≠ .l1) (ha : p1.active = p0.active) : Inv (s.setPc t p1) := by
  have hlt := lt_of_get h0
  have hcnt := activeCount_set s.threads t p0 p1 h0
  rw [ha] at hcnt
  have e : activeCount (s.threads.set t p1) = activeCount s.threads := by omega
  refine ⟨?_, ?_, ?_⟩
  · intro u
    simp only [St.setPc]
    rw [List.getElem?_set]
    by_cases e' : t = u
    · subst e'; simp [hlt]
      constructor
      · intro hl; have := (h.lock t).1 hl; rw [h0] at this; cases this; exact absurd rfl hc0
      · intro e1; exact absurd e1 hc1
    · simp [e']; exact h.lock u
  · simp only [St.setPc]; rw [e]; exact h.one
  · intro hl; simp only [St.setPc] at hl ⊢; rw [e]; exact h.idle hl

theorem inv_step (once : Bool) (s : St) (t ch : Nat) (h : Inv s) : Inv (step once s t ch) := by
  unfold step
  split
  · exact h
  · -- l0
    next h0 =>
    have hlt := lt_of_get h0
    split
    · next hfree =>
      have hnone : s.listenLock = none := by
        cases hcl : s.listenLock with
        | none => rfl
        | some x => rw [hcl] at hfree; simp at hfree
      have hcnt := activeCount_set s.threads t .l0 .l1 h0
      simp only [Pc.active, Bool.false_eq_true, ite_false, Nat.add_zero] at hcnt
      refine ⟨?_, ?_, ?_⟩
      · intro u
        simp only [St.setPc]
        rw [List.getElem?_set]
        by_cases e : t = u
        · subst e; simp [hlt]
        · simp [e]
          intro hu; have := (h.lock u).2 hu; rw [hnone] at this; cases this
      · simp only [St.setPc]; rw [hcnt]; exact h.one
      · intro hl; simp only [St.setPc] at hl ⊢; rw [hcnt]; exact h.idle hl
    · exact h
  · -- l1
    next h0 =>
    have hlt := lt_of_get h0
    have hheld : s.listenLock = some t := (h.lock t).2 h0
    have others : ∀ u, u ≠ t → s.threads[u]? ≠ some .l1 := by
      intro u hu hc; have := (h.lock u).2 hc; rw [hheld] at this; cases this; exact hu rfl
    have lockcase : ∀ (p1 : Pc), p1 ≠ .l1 → ∀ (u : Nat),
        (none : Option Nat) = some u ↔ (s.threads.set t p1)[u]? = some .l1 := by
      intro p1 hp1 u
      rw [List.getElem?_set]
      by_cases e : t = u
      · subst e; simp [hlt]; exact fun e' => hp1 e'
      · simp [e]; exact others u (fun e' => e e'.symm)
    split
    · next hl =>
      have hcnt := activeCount_set s.threads t .l1 .already h0
      simp only [Pc.active, Bool.false_eq_true, ite_false, Nat.add_zero] at hcnt
      refine ⟨lockcase .already (by decide), ?_, ?_⟩
      · simp only [St.setPc]; rw [hcnt]; exact h.one
      · intro hl'; simp only [St.setPc] at hl' ⊢; rw [hl] at hl'; cases hl'
    · next hl =>
      have hl' : s.listening = false := by cases hs : s.listening with | true => exact absurd hs hl | false => rfl
      have hz := h.idle hl'
      have hcnt := activeCount_set s.threads t .l1 .reading h0
      simp only [Pc.active, Bool.false_eq_true, ite_false, Nat.add_zero, ite_true] at hcnt
      refine ⟨lockcase .reading (by decide), ?_, ?_⟩
      · simp only [St.setPc]; omega
      · intro hf; simp at hf
  · -- reading
    next h0 =>
    split
    · exact h
    · exact inv_move h h0 (by decide) (by decide) rfl
  · -- got
    next h0 => exact inv_move h h0 (by decide) (by decide) rfl
  · -- exit1: Listening is cleared; this loop stops being the active one
    next h0 =>
    have hlt := lt_of_get h0
    have hcnt := activeCount_set s.threads t .exit1 .exit2 h0
    simp only [Pc.active, ite_true, Bool.false_eq_true, ite_false, Nat.add_zero] at hcnt
    have hone := h.one
    refine ⟨?_, ?_, ?_⟩
    · intro u
      simp only [St.setPc]
      rw [List.getElem?_set]
      by_cases e' : t = u
      · subst e'; simp [hlt]
        intro hl; have := (h.lock t).1 hl; rw [h0] at this; cases this
      · simp [e']; exact h.lock u
    · simp only [St.setPc]; omega
    · intro _; simp only [St.setPc]; omega
  · -- exit2
    next h0 =>
    split
    · exact inv_move h h0 (by decide) (by decide) rfl
    · have := inv_move (p1 := .fin) h h0 (by decide) (by decide) rfl
      exact ⟨this.lock, this.one, this.idle⟩
  · exact h
  · exact h

theorem inv_run (once : Bool) (sched : List (Nat × Nat)) : ∀ s, Inv s → Inv (run once s sched) := by
  induction sched with
  | nil => intro s h; exact h
  | cons x xs ih => intro s h; exact ih _ (inv_step once s x.1 x.2 h)

/-- **C16 (one reader)**: for any number of `Listen` calls on one connection, any schedule and any
behaviour of the peer, at most one read loop is between its spawn and the clearing of the Listening
flag — in particular at most one goroutine is inside `Conn.ReadMessage` at any time; every other
`Listen` call returns "already listening" -/
theorem C16_one_reader (once : Bool) (n : Nat) (sched : List (Nat × Nat)) :
    activeCount (run once (init n) sched).threads ≤ 1 :=
  (inv_run once sched (init n) (inv_init n)).one

/-- with the `sync.Once`, `done` is closed at most once whatever the number of Listen calls (before,
during and after closure): no "close of closed channel" -/
theorem step_done_once (s : St) (t ch : Nat) (h : s.doneCloses ≤ 1 ∧ (s.doneCloses = 1 → s.doneFired = true)) :
    (step true s t ch).doneCloses ≤ 1 ∧ ((step true s t ch).doneCloses = 1 → (step true s t ch).doneFired = true) := by
  unfold step
  repeat' split
  all_goals simp_all [St.setPc]
  all_goals omega

theorem C15_done_closed_once (n : Nat) (sched : List (Nat × Nat)) :
    (run true (init n) sched).doneCloses ≤ 1 := by
  suffices ∀ s, (s.doneCloses ≤ 1 ∧ (s.doneCloses = 1 → s.doneFired = true)) →
      (run true s sched).doneCloses ≤ 1 from this (init n) (by simp [init])
  induction sched with
  | nil => intro s h; exact h.1
  | cons x xs ih => intro s h; exact ih _ (step_done_once s x.1 x.2 h)

/-- the pinned code (no Once): two Listen calls, the second after the first loop has ended, close
`done` twice — the panic the repaired code excludes -/
theorem C15_legacy_witness :
    (run false (init 2) [(0, 0), (0, 0), (0, 1), (0, 0), (0, 0), (0, 0), (1, 0), (1, 0), (1, 1), (1, 0), (1, 0), (1, 0)]).doneCloses = 2 := by
  decide

-- non-vacuity: two overlapping Listen calls: the second returns "already listening"
example : (run true (init 2) [(0, 0), (0, 0), (1, 0), (1, 0)]).threads = [.reading, .already] := by decide

end FV.WsR
