import FluentVerif.Bytes
/-! msgpack specification parser, full format table, `classify`/`headerOf` factoring -/
namespace FV

inductive BlobKind | str | bin
deriving DecidableEq, Repr

mutual
inductive Obj where
  | nil : Obj
  | bool (b : Bool)
  | int (i : Int)
  | f32 (bits : Nat)
  | f64 (bits : Nat)
  | str (s : Bytes)
  | bin (s : Bytes)
  | ext (ty : UInt8) (data : Bytes)
  | arr (xs : Objs)
  | map (kvs : Objs)          -- k₁ v₁ k₂ v₂ …
inductive Objs where
  | nil : Objs
  | cons : Obj → Objs → Objs
end

/-- the objects a header alone determines -/
inductive Scalar where
  | nil : Scalar
  | bool (b : Bool)
  | int (i : Int)
  | f32 (bits : Nat)
  | f64 (bits : Nat)

def Scalar.toObj : Scalar → Obj
  | .nil => .nil
  | .bool b => .bool b
  | .int i => .int i
  | .f32 b => .f32 b
  | .f64 b => .f64 b

inductive Hdr where
  | scalar (o : Scalar)
  | blob (k : BlobKind) (n : Nat)
  | ext (n : Nat)
  | arr (n : Nat)
  | map (n : Nat)

inductive Lead where
  | imm (h : Hdr)
  | uintW (w : Nat)
  | intW (w : Nat)
  | f32 | f64
  | blobL (k : BlobKind) (lw : Nat)
  | extFix (n : Nat)
  | extL (lw : Nat)
  | arrL (lw : Nat)
  | mapL (lw : Nat)
  | invalid

/-- two's complement reading of a `w`-byte big-endian value -/
def signed (w v : Nat) : Int := if v < 2 ^ (8 * w - 1) then (v : Int) else (v : Int) - (2 ^ (8 * w) : Nat)

/-- **the msgpack format table** -/
def classify (b : UInt8) : Lead :=
  if b < 0x80 then .imm (.scalar (.int b.toNat))
  else if b < 0x90 then .imm (.map (b.toNat - 0x80))
  else if b < 0xa0 then .imm (.arr (b.toNat - 0x90))
  else if b < 0xc0 then .imm (.blob .str (b.toNat - 0xa0))
  else if b = 0xc0 then .imm (.scalar .nil)
  else if b = 0xc1 then .invalid
  else if b = 0xc2 then .imm (.scalar (.bool false))
  else if b = 0xc3 then .imm (.scalar (.bool true))
  else if b = 0xc4 then .blobL .bin 1
  else if b = 0xc5 then .blobL .bin 2
  else if b = 0xc6 then .blobL .bin 4
  else if b = 0xc7 then .extL 1
  else if b = 0xc8 then .extL 2
  else if b = 0xc9 then .extL 4
  else if b = 0xca then .f32
  else if b = 0xcb then .f64
  else if b = 0xcc then .uintW 1
  else if b = 0xcd then .uintW 2
  else if b = 0xce then .uintW 4
  else if b = 0xcf then .uintW 8
  else if b = 0xd0 then .intW 1
  else if b = 0xd1 then .intW 2
  else if b = 0xd2 then .intW 4
  else if b = 0xd3 then .intW 8
  else if b = 0xd4 then .extFix 1
  else if b = 0xd5 then .extFix 2
  else if b = 0xd6 then .extFix 4
  else if b = 0xd7 then .extFix 8
  else if b = 0xd8 then .extFix 16
  else if b = 0xd9 then .blobL .str 1
  else if b = 0xda then .blobL .str 2
  else if b = 0xdb then .blobL .str 4
  else if b = 0xdc then .arrL 2
  else if b = 0xdd then .arrL 4
  else if b = 0xde then .mapL 2
  else if b = 0xdf then .mapL 4
  else .imm (.scalar (.int ((b.toNat : Int) - 256)))

def needs (w : Nat) (r : Bytes) (k : Bytes → Hdr) : Option (Hdr × Bytes) :=
  if r.length < w then none else some (k (r.take w), r.drop w)

/-! ### linear-time replacements for compiled code, proved equal

`r.length < n` measures the *whole* rest of the input, and the parser asks it at every multi-byte
header, string, binary and extension: quadratic on inputs with thousands of tokens.  `lenLt r n` walks
at most `n` cells.  `needsFast`, `parseFFast`, `parseNFast` repeat the definitions with that test and
are proved equal, so the compiler may substitute them (`@[csimp]`: the kernel checks the equation,
nothing is trusted beyond it; the logic, and every theorem, keeps the original definitions). -/

/-- `r.length < n`, looking at no more than `n` cells of `r` -/
def lenLt : Bytes → Nat → Bool
  | _, 0 => false
  | [], _+1 => true
  | _ :: r, n+1 => lenLt r n

theorem lenLt_iff : ∀ (r : Bytes) (n : Nat), lenLt r n = true ↔ r.length < n
  | _, 0 => by simp [lenLt]
  | [], n+1 => by simp [lenLt]
  | _ :: r, n+1 => by simp [lenLt, lenLt_iff r n]

theorem lenLt_eq (r : Bytes) (n : Nat) : lenLt r n = decide (r.length < n) := by
  cases h : lenLt r n with
  | true => exact (decide_eq_true ((lenLt_iff r n).1 h)).symm
  | false =>
    have : ¬ r.length < n := fun hh => by rw [(lenLt_iff r n).2 hh] at h; cases h
    exact (decide_eq_false this).symm

def needsFast (w : Nat) (r : Bytes) (k : Bytes → Hdr) : Option (Hdr × Bytes) :=
  if lenLt r w then none else some (k (r.take w), r.drop w)

@[csimp] theorem needs_csimp : @needs = @needsFast := by
  funext w r k
  unfold needs needsFast
  rw [lenLt_eq]
  by_cases h : r.length < w <;> simp [h]


def headerOf (l : Lead) (r : Bytes) : Option (Hdr × Bytes) :=
  match l with
  | .imm h => some (h, r)
  | .uintW w => needs w r (fun p => .scalar (.int (beVal p)))
  | .intW w => needs w r (fun p => .scalar (.int (signed w (beVal p))))
  | .f32 => needs 4 r (fun p => .scalar (.f32 (beVal p)))
  | .f64 => needs 8 r (fun p => .scalar (.f64 (beVal p)))
  | .blobL k lw => needs lw r (fun p => .blob k (beVal p))
  | .extFix n => some (.ext n, r)
  | .extL lw => needs lw r (fun p => .ext (beVal p))
  | .arrL lw => needs lw r (fun p => .arr (beVal p))
  | .mapL lw => needs lw r (fun p => .map (beVal p))
  | .invalid => none

def header : Bytes → Option (Hdr × Bytes)
  | [] => none
  | b :: r => headerOf (classify b) r

def blobObj : BlobKind → Bytes → Obj
  | .str, s => .str s
  | .bin, s => .bin s

mutual
def parseF : Nat → Bytes → Option (Obj × Bytes)
  | 0, _ => none
  | f+1, b =>
    match header b with
    | none => none
    | some (.scalar o, r) => some (o.toObj, r)
    | some (.blob k n, r) =>
      if r.length < n then none
      else some (blobObj k (r.take n), r.drop n)
    | some (.ext n, r) =>
      match r with
      | [] => none
      | t :: d => if d.length < n then none else some (.ext t (d.take n), d.drop n)
    | some (.arr n, r) => match parseN f n r with
        | some (xs, r') => some (.arr xs, r')
        | none => none
    | some (.map n, r) => match parseN f (2*n) r with
        | some (xs, r') => some (.map xs, r')
        | none => none
def parseN : Nat → Nat → Bytes → Option (Objs × Bytes)
  | 0, _, _ => none
  | _+1, 0, b => some (.nil, b)
  | f+1, n+1, b => match parseF f b with
    | none => none
    | some (x, r) => match parseN f n r with
      | none => none
      | some (xs, r') => some (.cons x xs, r')
end

mutual
def parseFFast : Nat → Bytes → Option (Obj × Bytes)
  | 0, _ => none
  | f+1, b =>
    match header b with
    | none => none
    | some (.scalar o, r) => some (o.toObj, r)
    | some (.blob k n, r) =>
      if lenLt r n then none
      else some (blobObj k (r.take n), r.drop n)
    | some (.ext n, r) =>
      match r with
      | [] => none
      | t :: d => if lenLt d n then none else some (.ext t (d.take n), d.drop n)
    | some (.arr n, r) => match parseNFast f n r with
        | some (xs, r') => some (.arr xs, r')
        | none => none
    | some (.map n, r) => match parseNFast f (2*n) r with
        | some (xs, r') => some (.map xs, r')
        | none => none
def parseNFast : Nat → Nat → Bytes → Option (Objs × Bytes)
  | 0, _, _ => none
  | _+1, 0, b => some (.nil, b)
  | f+1, n+1, b => match parseFFast f b with
    | none => none
    | some (x, r) => match parseNFast f n r with
      | none => none
      | some (xs, r') => some (.cons x xs, r')
end

mutual
theorem parseF_eq_fast : ∀ (f : Nat) (b : Bytes), parseF f b = parseFFast f b
  | 0, _ => by simp [parseF, parseFFast]
  | f+1, b => by
    unfold parseF parseFFast
    split
    · next h => first | rfl | rw [h]
    · next o r h => first | rfl | rw [h]
    · next k n r h =>
      try rw [h]
      try simp only
      rw [lenLt_eq]
      by_cases hl : r.length < n <;> simp [hl]
    · next n r h =>
      try rw [h]
      try simp only
      cases r with
      | nil => rfl
      | cons t d =>
        simp only
        rw [lenLt_eq]
        by_cases hl : d.length < n <;> simp [hl]
    · next n r h =>
      try rw [h]
      try simp only
      rw [parseN_eq_fast f n r]
      try rfl
    · next n r h =>
      try rw [h]
      try simp only
      rw [parseN_eq_fast f (2*n) r]
      try rfl
theorem parseN_eq_fast : ∀ (f n : Nat) (b : Bytes), parseN f n b = parseNFast f n b
  | 0, _, _ => by simp [parseN, parseNFast]
  | f+1, 0, b => by simp [parseN, parseNFast]
  | f+1, n+1, b => by
    unfold parseN parseNFast
    rw [parseF_eq_fast f b]
    split
    · next h => first | rfl | rw [h]
    · next x r h =>
      try rw [h]
      try simp only
      rw [parseN_eq_fast f n r]
      try rfl
end

@[csimp] theorem parseF_csimp : @parseF = @parseFFast := by
  funext f b; exact parseF_eq_fast f b
@[csimp] theorem parseN_csimp : @parseN = @parseNFast := by
  funext f n b; exact parseN_eq_fast f n b


/-- fuel: each nesting level costs two units (`parseF → parseN → parseF`) and each sibling one,
while consuming at least one byte, so `2 * length + 2` always suffices -/
def parse (b : Bytes) : Option (Obj × Bytes) := parseF (2 * b.length + 2) b

/-! ### header lemmas -/

theorem needs_append {w r k h r'} (x : Bytes) (hh : needs w r k = some (h, r')) :
    needs w (r ++ x) k = some (h, r' ++ x) := by
  unfold needs at hh ⊢
  split at hh
  · simp at hh
  · rename_i hlen
    have hle := Nat.le_of_not_lt hlen
    simp only [Option.some.injEq, Prod.mk.injEq] at hh; obtain ⟨rfl, rfl⟩ := hh
    rw [if_neg (by simp; omega)]
    simp [List.take_append_of_le_length hle, List.drop_append_of_le_length hle]

theorem needs_shrinks {w r k h r'} (hh : needs w r k = some (h, r')) : r'.length ≤ r.length := by
  unfold needs at hh
  split at hh
  · simp at hh
  · simp only [Option.some.injEq, Prod.mk.injEq] at hh; obtain ⟨_, rfl⟩ := hh; simp

theorem headerOf_append {l r h r'} (x : Bytes) (hh : headerOf l r = some (h, r')) :
    headerOf l (r ++ x) = some (h, r' ++ x) := by
  cases l <;> simp only [headerOf] at hh ⊢ <;>
    first
    | exact needs_append x hh
    | (simp at hh; obtain ⟨rfl, rfl⟩ := hh; rfl)
    | (simp at hh)

theorem headerOf_shrinks {l r h r'} (hh : headerOf l r = some (h, r')) : r'.length ≤ r.length := by
  cases l <;> simp only [headerOf] at hh <;>
    first
    | exact needs_shrinks hh
    | (simp at hh; obtain ⟨_, rfl⟩ := hh; exact Nat.le_refl _)
    | (simp at hh)

theorem header_append {b h r} (x : Bytes) (hh : header b = some (h, r)) :
    header (b ++ x) = some (h, r ++ x) := by
  cases b with
  | nil => simp [header] at hh
  | cons c t => exact headerOf_append x hh

theorem header_shrinks {b h r} (hh : header b = some (h, r)) : r.length < b.length := by
  cases b with
  | nil => simp [header] at hh
  | cons c t => have := headerOf_shrinks hh; simp; omega

end FV
