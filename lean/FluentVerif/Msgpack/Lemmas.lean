import FluentVerif.Msgpack.Spec
namespace FV

mutual
theorem parseF_mono : ∀ (f : Nat) (b : Bytes) (res), parseF f b = some res → parseF (f+1) b = some res
  | 0, _, _, h => by simp [parseF] at h
  | f+1, b, res, h => by
    unfold parseF at h ⊢
    split at h
    · simp at h
    · exact h
    · exact h
    · exact h
    · next n r hh =>
      split at h
      · next xs r' hp => rw [parseN_mono f n r _ hp]; exact h
      · simp at h
    · next n r hh =>
      split at h
      · next xs r' hp => rw [parseN_mono f (2*n) r _ hp]; exact h
      · simp at h
theorem parseN_mono : ∀ (f n : Nat) (b : Bytes) (res), parseN f n b = some res → parseN (f+1) n b = some res
  | 0, _, _, _, h => by simp [parseN] at h
  | f+1, 0, b, res, h => by simpa [parseN] using h
  | f+1, n+1, b, res, h => by
    unfold parseN at h ⊢
    split at h
    · simp at h
    · next x r hp =>
      rw [parseF_mono f b _ hp]; simp only
      split at h
      · simp at h
      · next xs r' hq => rw [parseN_mono f n r _ hq]; exact h
end

theorem parseF_mono_le {f f' b res} (hle : f ≤ f') (h : parseF f b = some res) : parseF f' b = some res := by
  induction hle with
  | refl => exact h
  | step _ ih => exact parseF_mono _ _ _ ih

theorem parseN_mono_le {f f' n b res} (hle : f ≤ f') (h : parseN f n b = some res) : parseN f' n b = some res := by
  induction hle with
  | refl => exact h
  | step _ ih => exact parseN_mono _ _ _ _ ih

mutual
theorem parseF_append : ∀ (f : Nat) (b x : Bytes) (o r), parseF f b = some (o, r) →
    parseF f (b ++ x) = some (o, r ++ x)
  | 0, _, _, _, _, h => by simp [parseF] at h
  | f+1, b, x, o, r, h => by
    unfold parseF at h ⊢
    split at h
    · simp at h
    · next o0 r0 hh =>
      rw [header_append x hh]; simp at h ⊢; obtain ⟨rfl, rfl⟩ := h; exact ⟨rfl, rfl⟩
    · next k n r0 hh =>
      rw [header_append x hh]; simp only
      split at h
      · simp at h
      · next hlen =>
        have hle := Nat.le_of_not_lt hlen
        simp only [Option.some.injEq, Prod.mk.injEq] at h; obtain ⟨rfl, rfl⟩ := h
        rw [if_neg (by simp; omega)]
        simp [List.take_append_of_le_length hle, List.drop_append_of_le_length hle]
    · next n r0 hh =>
      rw [header_append x hh]; simp only
      cases r0 with
      | nil => simp at h
      | cons t d =>
        simp only [List.cons_append] at h ⊢
        split at h
        · simp at h
        · next hlen =>
          have hle := Nat.le_of_not_lt hlen
          simp only [Option.some.injEq, Prod.mk.injEq] at h; obtain ⟨rfl, rfl⟩ := h
          rw [if_neg (by simp; omega)]
          simp [List.take_append_of_le_length hle, List.drop_append_of_le_length hle]
    · next n r0 hh =>
      rw [header_append x hh]; simp only
      split at h
      · next xs r' hp =>
        simp only [Option.some.injEq, Prod.mk.injEq] at h; obtain ⟨rfl, rfl⟩ := h
        rw [parseN_append f n r0 x _ _ hp]
      · simp at h
    · next n r0 hh =>
      rw [header_append x hh]; simp only
      split at h
      · next xs r' hp =>
        simp only [Option.some.injEq, Prod.mk.injEq] at h; obtain ⟨rfl, rfl⟩ := h
        rw [parseN_append f (2*n) r0 x _ _ hp]
      · simp at h
theorem parseN_append : ∀ (f n : Nat) (b x : Bytes) (os r), parseN f n b = some (os, r) →
    parseN f n (b ++ x) = some (os, r ++ x)
  | 0, _, _, _, _, _, h => by simp [parseN] at h
  | f+1, 0, b, x, os, r, h => by
    simp [parseN] at h ⊢; obtain ⟨rfl, rfl⟩ := h; simp
  | f+1, n+1, b, x, os, r, h => by
    unfold parseN at h ⊢
    split at h
    · simp at h
    · next o r1 hp =>
      rw [parseF_append f b x _ _ hp]; simp only
      split at h
      · simp at h
      · next xs r' hq =>
        simp only [Option.some.injEq, Prod.mk.injEq] at h; obtain ⟨rfl, rfl⟩ := h
        rw [parseN_append f n r1 x _ _ hq]
end

theorem parse_append {b o r} (x : Bytes) (h : parse b = some (o, r)) :
    parse (b ++ x) = some (o, r ++ x) := by
  unfold parse at h ⊢
  exact parseF_mono_le (by simp; omega) (parseF_append _ b x o r h)

mutual
theorem parseF_shrinks : ∀ (f : Nat) (b : Bytes) (o r), parseF f b = some (o, r) → r.length < b.length
  | 0, _, _, _, h => by simp [parseF] at h
  | f+1, b, o, r, h => by
    unfold parseF at h
    split at h
    · simp at h
    · next hh => simp at h; obtain ⟨_, rfl⟩ := h; exact header_shrinks hh
    · next k n r0 hh =>
      split at h
      · simp at h
      · simp only [Option.some.injEq, Prod.mk.injEq] at h; obtain ⟨_, rfl⟩ := h
        have := header_shrinks hh; simp; omega
    · next n r0 hh =>
      cases r0 with
      | nil => simp at h
      | cons t d =>
        simp only at h
        split at h
        · simp at h
        · simp only [Option.some.injEq, Prod.mk.injEq] at h; obtain ⟨_, rfl⟩ := h
          have := header_shrinks hh; simp at this ⊢; omega
    · next n r0 hh =>
      split at h
      · next xs r' hp =>
        simp only [Option.some.injEq, Prod.mk.injEq] at h; obtain ⟨_, rfl⟩ := h
        have := parseN_shrinks f n r0 _ _ hp; have := header_shrinks hh; omega
      · simp at h
    · next n r0 hh =>
      split at h
      · next xs r' hp =>
        simp only [Option.some.injEq, Prod.mk.injEq] at h; obtain ⟨_, rfl⟩ := h
        have := parseN_shrinks f (2*n) r0 _ _ hp; have := header_shrinks hh; omega
      · simp at h
theorem parseN_shrinks : ∀ (f n : Nat) (b : Bytes) (os r), parseN f n b = some (os, r) → r.length ≤ b.length
  | 0, _, _, _, _, h => by simp [parseN] at h
  | f+1, 0, b, os, r, h => by simp [parseN] at h; obtain ⟨_, rfl⟩ := h; exact Nat.le_refl _
  | f+1, n+1, b, os, r, h => by
    unfold parseN at h
    split at h
    · simp at h
    · next o r1 hp =>
      split at h
      · simp at h
      · next xs r' hq =>
        simp only [Option.some.injEq, Prod.mk.injEq] at h; obtain ⟨_, rfl⟩ := h
        have := parseF_shrinks f b _ _ hp; have := parseN_shrinks f n r1 _ _ hq; omega
end

theorem parse_shrinks {b o r} (h : parse b = some (o, r)) : r.length < b.length :=
  parseF_shrinks _ _ _ _ h

/-- msgpack is a prefix code -/
theorem parse_prefix_free {b o} (h : parse b = some (o, [])) (p y : Bytes) (hb : b = p ++ y) (hy : y ≠ []) :
    parse p = none := by
  cases hp : parse p with
  | none => rfl
  | some res =>
    obtain ⟨o', r'⟩ := res
    have := parse_append y hp
    rw [← hb, h] at this
    simp at this
    exact absurd this.2.2 hy

end FV
