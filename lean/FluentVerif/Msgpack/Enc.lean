import FluentVerif.Msgpack.Lemmas
namespace FV

/-! ### facts about the format table, by ranges of the lead byte -/

theorem classify_posfix (b : UInt8) (h : b.toNat < 0x80) : classify b = .imm (.scalar (.int b.toNat)) := by
  unfold classify; rw [if_pos (UInt8.lt_iff_toNat_lt.2 h)]

theorem classify_fixmap (b : UInt8) (h1 : 0x80 ≤ b.toNat) (h2 : b.toNat < 0x90) :
    classify b = .imm (.map (b.toNat - 0x80)) := by
  unfold classify
  rw [if_neg (by rw [UInt8.lt_iff_toNat_lt]; simp; omega), if_pos (by rw [UInt8.lt_iff_toNat_lt]; simp; omega)]

theorem classify_fixarr (b : UInt8) (h1 : 0x90 ≤ b.toNat) (h2 : b.toNat < 0xa0) :
    classify b = .imm (.arr (b.toNat - 0x90)) := by
  unfold classify
  rw [if_neg (by rw [UInt8.lt_iff_toNat_lt]; simp; omega), if_neg (by rw [UInt8.lt_iff_toNat_lt]; simp; omega),
    if_pos (by rw [UInt8.lt_iff_toNat_lt]; simp; omega)]

theorem classify_fixstr (b : UInt8) (h1 : 0xa0 ≤ b.toNat) (h2 : b.toNat < 0xc0) :
    classify b = .imm (.blob .str (b.toNat - 0xa0)) := by
  unfold classify
  rw [if_neg (by rw [UInt8.lt_iff_toNat_lt]; simp; omega), if_neg (by rw [UInt8.lt_iff_toNat_lt]; simp; omega),
    if_neg (by rw [UInt8.lt_iff_toNat_lt]; simp; omega), if_pos (by rw [UInt8.lt_iff_toNat_lt]; simp; omega)]

theorem classify_negfix (b : UInt8) (h : 0xe0 ≤ b.toNat) :
    classify b = .imm (.scalar (.int ((b.toNat : Int) - 256))) := by
  unfold classify
  have hne : ∀ c : UInt8, c.toNat < 0xe0 → ¬ b = c := by
    intro c hc e; subst e; omega
  have hlt : ∀ c : UInt8, c.toNat ≤ 0xe0 → ¬ b < c := by
    intro c hc; rw [UInt8.lt_iff_toNat_lt]; omega
  simp only [hlt 0x80 (by decide), hlt 0x90 (by decide), hlt 0xa0 (by decide), hlt 0xc0 (by decide),
    hne 0xc0 (by decide), hne 0xc1 (by decide), hne 0xc2 (by decide), hne 0xc3 (by decide),
    hne 0xc4 (by decide), hne 0xc5 (by decide), hne 0xc6 (by decide), hne 0xc7 (by decide),
    hne 0xc8 (by decide), hne 0xc9 (by decide), hne 0xca (by decide), hne 0xcb (by decide),
    hne 0xcc (by decide), hne 0xcd (by decide), hne 0xce (by decide), hne 0xcf (by decide),
    hne 0xd0 (by decide), hne 0xd1 (by decide), hne 0xd2 (by decide), hne 0xd3 (by decide),
    hne 0xd4 (by decide), hne 0xd5 (by decide), hne 0xd6 (by decide), hne 0xd7 (by decide),
    hne 0xd8 (by decide), hne 0xd9 (by decide), hne 0xda (by decide), hne 0xdb (by decide),
    hne 0xdc (by decide), hne 0xdd (by decide), hne 0xde (by decide), hne 0xdf (by decide), if_false]

-- fixed lead bytes: by evaluation
theorem classify_c0 : classify 0xc0 = .imm (.scalar .nil) := by rfl
theorem classify_c2 : classify 0xc2 = .imm (.scalar (.bool false)) := by rfl
theorem classify_c3 : classify 0xc3 = .imm (.scalar (.bool true)) := by rfl
theorem classify_d0 : classify 0xd0 = .intW 1 := by rfl
theorem classify_d1 : classify 0xd1 = .intW 2 := by rfl
theorem classify_d2 : classify 0xd2 = .intW 4 := by rfl
theorem classify_d3 : classify 0xd3 = .intW 8 := by rfl
theorem classify_d9 : classify 0xd9 = .blobL .str 1 := by rfl
theorem classify_da : classify 0xda = .blobL .str 2 := by rfl
theorem classify_db : classify 0xdb = .blobL .str 4 := by rfl
theorem classify_dc : classify 0xdc = .arrL 2 := by rfl
theorem classify_dd : classify 0xdd = .arrL 4 := by rfl

/-! ### msgp's encoders (model of AppendInt64 / AppendString / AppendArrayHeader) -/

def appendInt64 (i : Int) : Bytes :=
  if 0 ≤ i then
    if i ≤ 127 then [UInt8.ofNat i.toNat]
    else if i ≤ 32767 then 0xd1 :: be 2 i.toNat
    else if i ≤ 2147483647 then 0xd2 :: be 4 i.toNat
    else 0xd3 :: be 8 i.toNat
  else
    if -32 ≤ i then [UInt8.ofNat (256 + i).toNat]
    else if -128 ≤ i then 0xd0 :: be 1 (256 + i).toNat
    else if -32768 ≤ i then 0xd1 :: be 2 (65536 + i).toNat
    else if -2147483648 ≤ i then 0xd2 :: be 4 (4294967296 + i).toNat
    else 0xd3 :: be 8 (18446744073709551616 + i).toNat

def appendString (s : Bytes) : Bytes :=
  let n := s.length
  if n ≤ 31 then UInt8.ofNat (0xa0 + n) :: s
  else if n ≤ 255 then 0xd9 :: be 1 n ++ s
  else if n ≤ 65535 then 0xda :: be 2 n ++ s
  else 0xdb :: be 4 n ++ s

def appendArrayHeader (n : Nat) : Bytes :=
  if n ≤ 15 then [UInt8.ofNat (0x90 + n)]
  else if n ≤ 65535 then 0xdc :: be 2 n
  else 0xdd :: be 4 n

/-! ### soundness against the spec parser -/

theorem take_be_append (k n : Nat) (r : Bytes) : (be k n ++ r).take k = be k n := by
  simp
theorem drop_be_append (k n : Nat) (r : Bytes) : (be k n ++ r).drop k = r := by
  have := be_length k n
  simp [this]

theorem header_intW (lead : UInt8) (w v : Nat) (r : Bytes) (hc : classify lead = .intW w)
    (hv : v < 256 ^ w) :
    header (lead :: (be w v ++ r)) = some (.scalar (.int (signed w v)), r) := by
  simp [header, hc, headerOf, needs, beVal_be w v hv]

theorem parse_of_header_scalar {b o r} (h : header b = some (.scalar o, r)) : parse b = some (o.toObj, r) := by
  simp [parse, parseF, h]

theorem appendInt64_sound (i : Int) (lo : -9223372036854775808 ≤ i) (hi : i ≤ 9223372036854775807) (r : Bytes) :
    parse (appendInt64 i ++ r) = some (.int i, r) := by
  refine parse_of_header_scalar (o := .int i) ?_
  unfold appendInt64
  split
  · -- non-negative
    split
    · have hb : (UInt8.ofNat i.toNat).toNat = i.toNat := by simp [UInt8.toNat_ofNat']; omega
      simp only [List.cons_append, List.nil_append, header]
      rw [classify_posfix _ (by omega)]
      simp [headerOf, hb]; omega
    · split
      · rw [List.cons_append, header_intW 0xd1 2 _ r classify_d1 (by simp; omega)]
        simp [signed]; omega
      · split
        · rw [List.cons_append, header_intW 0xd2 4 _ r classify_d2 (by simp; omega)]
          simp [signed]; omega
        · rw [List.cons_append, header_intW 0xd3 8 _ r classify_d3 (by simp; omega)]
          simp [signed]; omega
  · split
    · have hb : (UInt8.ofNat (256 + i).toNat).toNat = (256 + i).toNat := by simp [UInt8.toNat_ofNat']; omega
      simp only [List.cons_append, List.nil_append, header]
      rw [classify_negfix _ (by omega)]
      simp [headerOf, hb]; omega
    · split
      · rw [List.cons_append, header_intW 0xd0 1 _ r classify_d0 (by simp; omega)]
        simp [signed]; omega
      · split
        · rw [List.cons_append, header_intW 0xd1 2 _ r classify_d1 (by simp; omega)]
          simp [signed]; omega
        · split
          · rw [List.cons_append, header_intW 0xd2 4 _ r classify_d2 (by simp; omega)]
            simp [signed]; omega
          · rw [List.cons_append, header_intW 0xd3 8 _ r classify_d3 (by simp; omega)]
            simp [signed]; omega

end FV
