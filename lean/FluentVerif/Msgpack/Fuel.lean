import FluentVerif.Msgpack.Seq
/-! Fuel sufficiency: whatever fuel a parse succeeded with, `parse` (fuel `2·|b| + 2`) finds the
same object; and the converse bridge: one array / map object is a header followed by its elements
read one after another. -/
namespace FV

mutual
def Obj.fuel : Obj → Nat
  | .arr xs => 1 + Objs.fuel xs
  | .map kvs => 1 + Objs.fuel kvs
  | _ => 1
def Objs.fuel : Objs → Nat
  | .nil => 1
  | .cons x xs => 1 + max (Obj.fuel x) (Objs.fuel xs)
end

mutual
/-- a successful parse succeeds with any fuel at least the object's own need -/
theorem parseF_fuel : ∀ (f : Nat) (b : Bytes) (o r), parseF f b = some (o, r) →
    ∀ f', Obj.fuel o ≤ f' → parseF f' b = some (o, r)
  | 0, _, _, _, h, _, _ => by simp [parseF] at h
  | f+1, b, o, r, h, f', hf => by
    cases f' with
    | zero => cases o <;> simp [Obj.fuel] at hf <;> omega
    | succ g =>
      unfold parseF at h ⊢
      split at h
      · cases h
      · exact h
      · exact h
      · exact h
      · next n r0 hh =>
        split at h
        · next xs r' hp =>
          simp only [Option.some.injEq, Prod.mk.injEq] at h; obtain ⟨rfl, rfl⟩ := h
          simp only [Obj.fuel] at hf
          rw [parseN_fuel f n r0 xs r' hp g (by omega)]
        · cases h
      · next n r0 hh =>
        split at h
        · next xs r' hp =>
          simp only [Option.some.injEq, Prod.mk.injEq] at h; obtain ⟨rfl, rfl⟩ := h
          simp only [Obj.fuel] at hf
          rw [parseN_fuel f (2*n) r0 xs r' hp g (by omega)]
        · cases h
theorem parseN_fuel : ∀ (f n : Nat) (b : Bytes) (os r), parseN f n b = some (os, r) →
    ∀ f', Objs.fuel os ≤ f' → parseN f' n b = some (os, r)
  | 0, _, _, _, _, h, _, _ => by simp [parseN] at h
  | f+1, 0, b, os, r, h, f', hf => by
    simp [parseN] at h; obtain ⟨rfl, rfl⟩ := h
    cases f' with
    | zero => simp [Objs.fuel] at hf
    | succ g => simp [parseN]
  | f+1, n+1, b, os, r, h, f', hf => by
    unfold parseN at h
    split at h
    · cases h
    · next x r1 hx =>
      split at h
      · cases h
      · next xs r' hxs =>
        simp only [Option.some.injEq, Prod.mk.injEq] at h; obtain ⟨rfl, rfl⟩ := h
        simp only [Objs.fuel] at hf
        cases f' with
        | zero => omega
        | succ g =>
          unfold parseN
          rw [parseF_fuel f b x r1 hx g (by omega)]
          simp only
          rw [parseN_fuel f n r1 xs r' hxs g (by omega)]
end

mutual
/-- an object's fuel need is at most twice the bytes it occupies -/
theorem parseF_need : ∀ (f : Nat) (b : Bytes) (o r), parseF f b = some (o, r) →
    Obj.fuel o + 2 * r.length ≤ 2 * b.length
  | 0, _, _, _, h => by simp [parseF] at h
  | f+1, b, o, r, h => by
    have hsh := parseF_shrinks (f+1) b o r h
    unfold parseF at h
    split at h
    · cases h
    · next o0 r0 hh =>
      simp only [Option.some.injEq, Prod.mk.injEq] at h; obtain ⟨rfl, rfl⟩ := h
      have : Obj.fuel o0.toObj = 1 := by cases o0 <;> rfl
      omega
    · next k n r0 hh =>
      split at h
      · cases h
      · simp only [Option.some.injEq, Prod.mk.injEq] at h; obtain ⟨rfl, rfl⟩ := h
        have : Obj.fuel (blobObj k (List.take n r0)) = 1 := by cases k <;> rfl
        omega
    · next n r0 hh =>
      split at h
      · cases h
      · split at h
        · cases h
        · simp only [Option.some.injEq, Prod.mk.injEq] at h; obtain ⟨rfl, rfl⟩ := h
          simp only [Obj.fuel]; omega
    · next n r0 hh =>
      split at h
      · next xs r' hp =>
        simp only [Option.some.injEq, Prod.mk.injEq] at h; obtain ⟨rfl, rfl⟩ := h
        have := parseN_need f n r0 xs r' hp
        have := header_shrinks hh
        simp only [Obj.fuel]; omega
      · cases h
    · next n r0 hh =>
      split at h
      · next xs r' hp =>
        simp only [Option.some.injEq, Prod.mk.injEq] at h; obtain ⟨rfl, rfl⟩ := h
        have := parseN_need f (2*n) r0 xs r' hp
        have := header_shrinks hh
        simp only [Obj.fuel]; omega
      · cases h
theorem parseN_need : ∀ (f n : Nat) (b : Bytes) (os r), parseN f n b = some (os, r) →
    Objs.fuel os + 2 * r.length ≤ 2 * b.length + 1
  | 0, _, _, _, _, h => by simp [parseN] at h
  | f+1, 0, b, os, r, h => by
    simp [parseN] at h; obtain ⟨rfl, rfl⟩ := h; simp [Objs.fuel]; omega
  | f+1, n+1, b, os, r, h => by
    unfold parseN at h
    split at h
    · cases h
    · next x r1 hx =>
      split at h
      · cases h
      · next xs r' hxs =>
        simp only [Option.some.injEq, Prod.mk.injEq] at h; obtain ⟨rfl, rfl⟩ := h
        have h1 := parseF_need f b x r1 hx
        have h2 := parseN_need f n r1 xs r' hxs
        have h3 := parseF_shrinks f b x r1 hx
        have h4 := parseN_shrinks f n r1 xs r' hxs
        simp only [Objs.fuel]
        omega
end

/-- **fuel sufficiency**: a parse that succeeds with any fuel is the parse -/
theorem parse_of_parseF {f b o r} (h : parseF f b = some (o, r)) : parse b = some (o, r) := by
  have := parseF_need f b o r h
  exact parseF_fuel f b o r h _ (by omega)

/-- a counted run parsed with any fuel is the run read one object after another -/
theorem parseSeq_of_parseN : ∀ (f n : Nat) (b : Bytes) (os r), parseN f n b = some (os, r) →
    parseSeq n b = some (os, r)
  | 0, _, _, _, _, h => by simp [parseN] at h
  | f+1, 0, b, os, r, h => by simpa [parseN, parseSeq] using h
  | f+1, n+1, b, os, r, h => by
    unfold parseN at h
    split at h
    · cases h
    · next x r1 hx =>
      split at h
      · cases h
      · next xs r' hxs =>
        simp only [Option.some.injEq, Prod.mk.injEq] at h; obtain ⟨rfl, rfl⟩ := h
        simp [parseSeq, parse_of_parseF hx, parseSeq_of_parseN f n r1 xs r' hxs]

/-- **converse bridge** for arrays -/
theorem seq_of_parse_arr {b xs r} (h : parse b = some (.arr xs, r)) :
    ∃ n r0, header b = some (.arr n, r0) ∧ parseSeq n r0 = some (xs, r) := by
  unfold parse at h
  have e : 2 * b.length + 2 = (2 * b.length + 1) + 1 := by omega
  rw [e] at h
  unfold parseF at h
  split at h
  · cases h
  · next o0 r0 hh => simp only [Option.some.injEq, Prod.mk.injEq] at h; cases o0 <;> simp [Scalar.toObj] at h
  · next k n r0 hh =>
    split at h
    · cases h
    · simp only [Option.some.injEq, Prod.mk.injEq] at h; cases k <;> simp [blobObj] at h
  · next n r0 hh =>
    split at h
    · cases h
    · split at h
      · cases h
      · simp at h
  · next n r0 hh =>
    split at h
    · next ys r' hp =>
      simp only [Option.some.injEq, Prod.mk.injEq, Obj.arr.injEq] at h; obtain ⟨rfl, rfl⟩ := h
      exact ⟨n, r0, hh, parseSeq_of_parseN _ n r0 ys r' hp⟩
    · cases h
  · split at h
    · simp at h
    · cases h

/-- **converse bridge** for maps -/
theorem seq_of_parse_map {b kvs r} (h : parse b = some (.map kvs, r)) :
    ∃ n r0, header b = some (.map n, r0) ∧ parseSeq (2*n) r0 = some (kvs, r) := by
  unfold parse at h
  have e : 2 * b.length + 2 = (2 * b.length + 1) + 1 := by omega
  rw [e] at h
  unfold parseF at h
  split at h
  · cases h
  · next o0 r0 hh => simp only [Option.some.injEq, Prod.mk.injEq] at h; cases o0 <;> simp [Scalar.toObj] at h
  · next k n r0 hh =>
    split at h
    · cases h
    · simp only [Option.some.injEq, Prod.mk.injEq] at h; cases k <;> simp [blobObj] at h
  · next n r0 hh =>
    split at h
    · cases h
    · split at h
      · cases h
      · simp at h
  · split at h
    · simp at h
    · cases h
  · next n r0 hh =>
    split at h
    · next ys r' hp =>
      simp only [Option.some.injEq, Prod.mk.injEq, Obj.map.injEq] at h; obtain ⟨rfl, rfl⟩ := h
      exact ⟨n, r0, hh, parseSeq_of_parseN _ (2*n) r0 ys r' hp⟩
    · cases h

/-! ### a linear-time `parseSeq` for compiled code

`parseSeq` gives every element its own fuel `2·|rest| + 2`, i.e. it measures the rest of the input once per
element: quadratic on a stream of thousands of small entries.  `parseSeqFast` measures once and is proved equal,
so the compiler may use it wherever `parseSeq` is called (`@[csimp]`: a kernel-checked replacement, no trust added). -/

def parseSeqFast (n : Nat) (b : Bytes) : Option (Objs × Bytes) := parseN (2 * b.length + 3) n b

theorem parseSeq_eq_fast (n : Nat) (b : Bytes) : parseSeq n b = parseSeqFast n b := by
  unfold parseSeqFast
  cases h : parseSeq n b with
  | some res =>
    obtain ⟨os, r⟩ := res
    exact (parseN_of_seq n b os r h _ (by omega)).symm
  | none =>
    cases h2 : parseN (2 * b.length + 3) n b with
    | none => rfl
    | some res =>
      obtain ⟨os, r⟩ := res
      rw [parseSeq_of_parseN _ n b os r h2] at h
      cases h

@[csimp] theorem parseSeq_csimp : @parseSeq = @parseSeqFast := by
  funext n b; exact parseSeq_eq_fast n b

end FV
