import FluentVerif.Msgpack.Enc
namespace FV

/-- read `n` objects one after another, each with `parse` (its own fuel) -/
def parseSeq : Nat → Bytes → Option (Objs × Bytes)
  | 0, b => some (.nil, b)
  | n+1, b => match parse b with
    | none => none
    | some (o, r) => match parseSeq n r with
      | none => none
      | some (os, r') => some (.cons o os, r')

/-- sequential element reads imply the counted parse, for any sufficient fuel -/
theorem parseN_of_seq : ∀ (n : Nat) (b : Bytes) (os r), parseSeq n b = some (os, r) →
    ∀ f, 2 * b.length + 2 < f → parseN f n b = some (os, r)
  | 0, b, os, r, h, f, hf => by
    cases f with
    | zero => omega
    | succ f => simp [parseSeq] at h; obtain ⟨rfl, rfl⟩ := h; simp [parseN]
  | n+1, b, os, r, h, f, hf => by
    cases f with
    | zero => omega
    | succ f =>
      unfold parseSeq at h
      split at h
      · simp at h
      · next o1 r1 hp =>
        split at h
        · simp at h
        · next os1 r2 hq =>
          simp only [Option.some.injEq, Prod.mk.injEq] at h; obtain ⟨rfl, rfl⟩ := h
          unfold parseN
          have h1 : parseF f b = some (o1, r1) := parseF_mono_le (by omega) hp
          rw [h1]; simp only
          have hle := parse_shrinks hp
          rw [parseN_of_seq n r1 os1 r2 hq f (by omega)]

/-- **bridge**: an array header followed by `n` sequentially readable objects is one array object -/
theorem parse_arr_of_seq {b n r0 os r} (hh : header b = some (.arr n, r0)) (hs : parseSeq n r0 = some (os, r)) :
    parse b = some (.arr os, r) := by
  have hlt := header_shrinks hh
  unfold parse
  have : 2 * b.length + 2 = (2 * b.length + 1) + 1 := by omega
  rw [this]
  unfold parseF
  rw [hh]; simp only
  rw [parseN_of_seq n r0 os r hs (2 * b.length + 1) (by omega)]

/-- nested containers do parse with the chosen fuel -/
example : (parse [0x91, 0x91, 0x91, 0x01]).isSome = true := by rfl
example : (parse [0x92, 0x91, 0x01, 0x81, 0xa1, 0x61, 0x90]).isSome = true := by rfl

end FV
