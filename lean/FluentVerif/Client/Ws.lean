import FluentVerif.Bytes
/-! Sequential model of the websocket client (`fluent/client/ws_client.go`) over the websocket
connection's observable behaviour (frames written, underlying close).  The background listener of
a session ends at a moment and with a result chosen by the environment (`listenerEnds`). -/
namespace FV.WsC

/-- how the background reader of the current session ends -/
inductive EndKind
  | transportErr     -- a net.Error from the socket
  | abnormal         -- close code 1006
  | otherCode        -- the peer closed with a code other than 1000 (e.g. 1001)
  | normal           -- the peer closed with 1000
deriving DecidableEq, Repr

/-- frame types -/
def binaryFrame : Nat := 2
def closeFrame : Nat := 8

/-- `FormatCloseMessage(1000, "closing connection")` -/
def closePayload : Bytes :=
  [0x03, 0xe8] ++ [0x63, 0x6c, 0x6f, 0x73, 0x69, 0x6e, 0x67, 0x20, 0x63, 0x6f, 0x6e, 0x6e, 0x65, 0x63, 0x74, 0x69, 0x6f, 0x6e]

structure Sess where
  closed : Bool := false            -- `Connection.Closed()`
  errorState : Bool := false        -- ConnStateError: no close frame will be sent
  frames : List (Nat × Bytes) := [] -- frames handed to the underlying connection, oldest first
  closes : Nat := 0                 -- calls of the underlying `Close`
  usable : Bool := true             -- `ws.NewConnection` succeeded for it
deriving Repr

structure St where
  session : Option Nat := none      -- index into `conns`
  sticky : Bool := false            -- `c.err ≠ nil`
  conns : List Sess := []           -- every connection the factory handed out
deriving Repr

inductive Out | ok | err | none | ended
deriving DecidableEq, Repr

inductive Op where
  | connect (dialOk newConnOk : Bool)
  | disconnect
  | reconnect (dialOk newConnOk : Bool)
  | send (enc : Option Bytes) (writeFails : Bool)
  | sendRaw (b : Bytes) (writeFails : Bool)
  | listenerEnds (k : EndKind)

def modConn (s : St) (i : Nat) (f : Sess → Sess) : St := { s with conns := s.conns.modify i f }

/-- `Connection.Close()` on an open connection: close frame unless the connection is in error
state, then the underlying close -/
def closeConn (c : Sess) : Sess :=
  { c with closed := true,
           frames := if c.errorState then c.frames else c.frames ++ [(closeFrame, closePayload)],
           closes := c.closes + 1 }

def isOpen (s : St) (i : Nat) : Bool := (s.conns[i]?).map (fun c => !c.closed) |>.getD false

/-- close the current session's connection if it is still open -/
def closeCurrent (s : St) : St :=
  match s.session with
  | some i => if isOpen s i then modConn s i closeConn else s
  | none => s

/-- `connect()`; returns the new state and whether it succeeded -/
def connect (s : St) (dialOk ncOk : Bool) : St × Bool :=
  if !dialOk then (s, false)
  else if !ncOk then ({ s with conns := s.conns ++ [{ usable := false }] }, false)
  else ({ s with conns := s.conns ++ [{}], session := some s.conns.length }, true)

/-- one frame write on the current session -/
def writeFrame (s : St) (b : Bytes) (fails : Bool) : St × Out :=
  if s.sticky then (s, .err) else
  match s.session with
  | none => (s, .err)
  | some i =>
    if !isOpen s i then (s, .err)
    else if fails then (s, .err)
    else (modConn s i (fun c => { c with frames := c.frames ++ [(binaryFrame, b)] }), .ok)

def step (s : St) : Op → St × Out
  | .connect d n =>
    if s.session.isSome then (s, .err)
    else let (s', ok) := connect s d n; (s', if ok then .ok else .err)
  | .disconnect => ({ closeCurrent s with session := none }, .ok)
  | .reconnect d n =>
    let s1 := closeCurrent s
    let (s2, ok) := connect s1 d n
    if ok then ({ s2 with sticky := false }, .ok)
    else ({ s2 with session := none, sticky := true }, .err)
  | .send enc fails =>
    if s.sticky then (s, .err) else
    match enc with
    | none =>
      -- the session check comes first; an unencodable message is an error either way
      (s, .err)
    | some e => writeFrame s e fails
  | .sendRaw b fails => writeFrame s b fails
  | .listenerEnds k =>
    match s.session with
    | none => (s, .none)
    | some i =>
      if !isOpen s i then (s, .none)
      else
        let markErr := k == .transportErr || k == .abnormal
        let s1 := modConn s i (fun c => closeConn { c with errorState := c.errorState || markErr })
        ({ s1 with sticky := s1.sticky || k != .normal }, .ended)

def run : St → List Op → St
  | s, [] => s
  | s, op :: ops => run (step s op).1 ops

end FV.WsC
