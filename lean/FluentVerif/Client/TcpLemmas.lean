import FluentVerif.Client.Tcp
import FluentVerif.Proto.DecodeLemmas2
/-! helper lemmas about the sequential TCP client model -/
namespace FV.Tcp

/-- the connections that are open after a log: dialled and not yet closed; `none` if the log is not
well ordered (write or close on a connection that is not open, a connection dialled twice) -/
def replay : List Ev → List Nat → Option (List Nat)
  | [], o => some o
  | .dial id :: r, o => if id ∈ o then none else replay r (id :: o)
  | .dialFail :: r, o => replay r o
  | .write id _ _ :: r, o => if id ∈ o then replay r o else none
  | .deadline id :: r, o => if id ∈ o then replay r o else none
  | .close id :: r, o => if id ∈ o then replay r (o.erase id) else none

theorem replay_append {l1 l2 : List Ev} {o o1 : List Nat} (h : replay l1 o = some o1) :
    replay (l1 ++ l2) o = replay l2 o1 := by
  induction l1 generalizing o with
  | nil => simp [replay] at h; subst h; rfl
  | cons e r ih =>
    cases e <;> simp only [List.cons_append, replay] at h ⊢
    · split at h
      · cases h
      · next hn => rw [if_neg hn]; exact ih h
    · exact ih h
    · split at h
      · next hm => rw [if_pos hm]; exact ih h
      · cases h
    · split at h
      · next hm => rw [if_pos hm]; exact ih h
      · cases h
    · split at h
      · next hm => rw [if_pos hm]; exact ih h
      · cases h

/-- the state invariant: the log is well ordered, exactly the session's connection is open, every
connection id the log mentions is one the factory handed out, ids are fresh -/
structure Inv (s : St) : Prop where
  opens : replay s.log [] = some (match s.session with | some (id, _) => [id] | none => [])
  sess : ∀ id tp, s.session = some (id, tp) → id < s.conns.length
  fresh : ∀ id, Ev.dial id ∈ s.log → id < s.conns.length

theorem doWrite_prefix (b : Bytes) (f : WFault) : (doWrite b f).1 <+: b := by
  cases f with
  | none => exact List.prefix_refl b
  | failAfter n => exact List.take_prefix n b
  | short n =>
    simp only [doWrite]
    split
    · exact List.take_prefix n b
    · exact List.prefix_refl b

theorem doWrite_ok {b : Bytes} {f : WFault} (h : (doWrite b f).2 = .ok) : (doWrite b f).1 = b := by
  cases f with
  | none => rfl
  | failAfter n => simp [doWrite] at h
  | short n =>
    simp only [doWrite] at h ⊢
    split
    · next hlt => simp [hlt] at h
    · rfl

theorem not_mem_dial_of_fresh {s : St} (hi : Inv s) : s.conns.length ∉
    (match s.session with | some (id, _) => [id] | none => []) := by
  cases hs : s.session with
  | none => simp
  | some p =>
    obtain ⟨id, tp⟩ := p
    have := hi.sess id tp hs
    simp; omega

theorem inv_init : Inv {} := by
  refine ⟨rfl, ?_, ?_⟩
  · intro id tp h; cases h
  · intro id h; cases h

theorem inv_connect (cfg : Cfg) (s : St) (d c : Bool) (hi : Inv s) (hn : s.session = none) :
    Inv (connect cfg s d c).1 := by
  unfold connect
  split
  · refine ⟨?_, ?_, ?_⟩
    · simp only
      rw [replay_append hi.opens, hn]
      simp [replay]
    · intro id tp h; simp at h; simp; omega
    · intro id h
      simp only [List.mem_append, List.mem_singleton] at h
      rcases h with h | h
      · have := hi.fresh id h; simp; omega
      · cases h; simp
  · refine ⟨?_, ?_, ?_⟩
    · simp only [St.emit]
      rw [replay_append hi.opens]; simp [replay]
    · intro id tp h; exact hi.sess id tp h
    · intro id h
      simp only [St.emit, List.mem_append, List.mem_singleton] at h
      rcases h with h | h
      · exact hi.fresh id h
      · cases h

theorem inv_disconnect (s : St) (hi : Inv s) : Inv (disconnect s).1 ∧ (disconnect s).1.session = none := by
  unfold disconnect
  cases hs : s.session with
  | none => simp only; exact ⟨hi, hs⟩
  | some p =>
    obtain ⟨id, tp⟩ := p
    simp only
    refine ⟨⟨?_, ?_, ?_⟩, trivial⟩
    · have := hi.opens
      rw [hs] at this
      rw [replay_append this]
      simp [replay]
    · intro id' tp' h; cases h
    · intro id' h
      simp only [List.mem_append, List.mem_singleton] at h
      rcases h with h | h
      · have := hi.fresh id' h; simp; omega
      · cases h

theorem inv_emit_write (s : St) (id : Nat) (tp : Bool) (acc : Bytes) (st : WStatus) (hi : Inv s)
    (hs : s.session = some (id, tp)) : Inv (s.emit (.write id acc st)) := by
  refine ⟨?_, ?_, ?_⟩
  · have := hi.opens
    rw [hs] at this
    simp only [St.emit]
    rw [replay_append this, hs]
    simp [replay]
  · intro id' tp' h; exact hi.sess id' tp' h
  · intro id' h
    simp only [St.emit, List.mem_append, List.mem_singleton] at h
    rcases h with h | h
    · exact hi.fresh id' h
    · cases h

theorem inv_emit_deadline (s : St) (id : Nat) (tp : Bool) (hi : Inv s)
    (hs : s.session = some (id, tp)) : Inv (s.emit (.deadline id)) := by
  refine ⟨?_, ?_, ?_⟩
  · have := hi.opens
    rw [hs] at this
    simp only [St.emit]
    rw [replay_append this, hs]
    simp [replay]
  · intro id' tp' h; exact hi.sess id' tp' h
  · intro id' h
    simp only [St.emit, List.mem_append, List.mem_singleton] at h
    rcases h with h | h
    · exact hi.fresh id' h
    · cases h

theorem inv_setTransport (s : St) (id : Nat) (tp : Bool) (hi : Inv s) (hs : s.session = some (id, tp)) :
    Inv { s with session := some (id, true) } := by
  refine ⟨?_, ?_, ?_⟩
  · have := hi.opens; rw [hs] at this; exact this
  · intro id' tp' h; simp at h; obtain ⟨rfl, _⟩ := h; exact hi.sess _ tp hs
  · exact hi.fresh

end FV.Tcp
