import FluentVerif.Proto.Decode
import FluentVerif.Proto.Encode
import FluentVerif.Proto.Chunk
/-! Sequential model of the TCP client (`fluent/client/client.go`): session lifecycle, handshake,
send / ack.  The peer and the network are *inputs* of each step (scripts), so theorems quantify
over every peer behaviour and every fault position.  `H` is the hex SHA-512 digest, uninterpreted. -/
namespace FV.Tcp

structure Cfg where
  sharedKey : Option Bytes := none
  requireAck : Bool := false
  timeout : Bool := true          -- `Timeout ≠ 0`
  hostname : Bytes := []

/-- what a `Write` call on the connection does -/
inductive WFault where
  | none                       -- accepts everything
  | failAfter (n : Nat)        -- accepts `n` bytes, then returns an error
  | short (n : Nat)            -- accepts `n` bytes and returns no error (a non-conforming writer)
deriving DecidableEq, Repr

inductive WStatus | ok | err | short
deriving DecidableEq, Repr

inductive Ev where
  | dial (id : Nat)
  | dialFail
  | write (id : Nat) (accepted : Bytes) (st : WStatus)
  | close (id : Nat)
  | deadline (id : Nat)
deriving DecidableEq, Repr

structure ConnInfo where
  closeErr : Bool
  closed : Nat := 0

structure St where
  session : Option (Nat × Bool) := none      -- (connection id, TransportPhase)
  conns : List ConnInfo := []                -- every connection the factory handed out; id = index
  log : List Ev := []                        -- events, oldest first

inductive Out | ok | err | bool (b : Bool) | panic
deriving DecidableEq, Repr

inductive Op where
  | connect (dialOk closeErr : Bool)
  | disconnect
  | reconnect (dialOk closeErr : Bool)
  | handshake (helo salt pong : Bytes) (fault : WFault)
  | send (enc : Option Bytes) (chunk : Bytes) (fault : WFault) (resp : Bytes)
  | sendRaw (b : Bytes) (fault : WFault)
  | transportPhase

/-- one `Write(b)` under a fault: what is accepted and how the call ends -/
def doWrite (b : Bytes) : WFault → Bytes × WStatus
  | .none => (b, .ok)
  | .failAfter n => (b.take n, .err)
  | .short n => if n < b.length then (b.take n, .short) else (b, .ok)

def St.emit (s : St) (e : Ev) : St := { s with log := s.log ++ [e] }

/-- `connect()` -/
def connect (cfg : Cfg) (s : St) (dialOk closeErr : Bool) : St × Out :=
  if dialOk then
    let id := s.conns.length
    ({ s with session := some (id, cfg.sharedKey.isNone), conns := s.conns ++ [{ closeErr := closeErr }],
              log := s.log ++ [.dial id] }, .ok)
  else (s.emit .dialFail, .err)

/-- `disconnect()`: close the session's connection (if any), forget the session -/
def disconnect (s : St) : St × Out :=
  match s.session with
  | none => (s, .ok)
  | some (id, _) =>
    let ce := (s.conns[id]?).map (·.closeErr) |>.getD false
    ({ s with session := none,
              conns := s.conns.modify id (fun c => { c with closed := c.closed + 1 }),
              log := s.log ++ [.close id] }, if ce then .err else .ok)

def pingMsg (H : Bytes → Bytes) (cfg : Cfg) (salt nonce : Bytes) : Ping :=
  { mtype := [0x50, 0x49, 0x4e, 0x47], hostname := cfg.hostname, salt := salt,
    digest := H (salt ++ cfg.hostname ++ nonce ++ cfg.sharedKey.getD []), username := [], password := [] }

/-- the acceptance test of the handshake, stated once (C05 refers to it) -/
def pongAccepted (H : Bytes → Bytes) (cfg : Cfg) (salt nonce : Bytes) (p : Pong) : Bool :=
  p.authResult && p.digest == H (salt ++ p.hostname ++ nonce ++ cfg.sharedKey.getD [])

/-! server-side helpers of `handshake.go`: `computeHexDigest`, `ValidatePingDigest`, `ValidatePongDigest`, `NewPong` -/

/-- `computeHexDigest(salt, hostname, nonce, key)` -/
def hexDigest (H : Bytes → Bytes) (salt hostname nonce key : Bytes) : Bytes := H (salt ++ hostname ++ nonce ++ key)

/-- `ValidatePingDigest(p, key, nonce)` -/
def validatePing (H : Bytes → Bytes) (p : Ping) (key nonce : Bytes) : Bool :=
  p.digest == hexDigest H p.salt p.hostname nonce key

/-- `ValidatePongDigest(p, key, nonce, salt)` -/
def validatePong (H : Bytes → Bytes) (p : Pong) (key nonce salt : Bytes) : Bool :=
  p.digest == hexDigest H salt p.hostname nonce key

/-- `NewPong(authResult, reason, hostname, key, helo, ping)` -/
def newPong (H : Bytes → Bytes) (auth : Bool) (reason hostname key nonce : Bytes) (ping : Ping) : Pong :=
  { mtype := [0x50, 0x4f, 0x4e, 0x47], authResult := auth, reason := reason, hostname := hostname,
    digest := hexDigest H ping.salt hostname nonce key }

/-- `Handshake()` -/
def handshake (H : Bytes → Bytes) (cfg : Cfg) (s : St) (helo salt pong : Bytes) (fault : WFault) : St × Out :=
  match s.session with
  | none => (s, .err)
  | some (id, tp) =>
    match Helo.unmarshal .stream {} helo with
    | .ok h rest0 =>
      match h.options with
      | none => (s, .err)
      | some ho =>
        let ping := (pingMsg H cfg salt ho.nonce).marshal
        let (acc, st) := doWrite ping fault
        let s1 := s.emit (.write id acc st)
        if st ≠ .ok then (s1, .err) else
        match Pong.unmarshal .stream {} (rest0 ++ pong) with
        | .ok p _ =>
          if pongAccepted H cfg salt ho.nonce p then ({ s1 with session := some (id, true) }, .ok)
          else (s1, .err)
        | _ => (s1, .err)
    | .panic _ => (s, .panic)
    | .err => (s, .err)

/-- `Send(e)`; `enc = none`: `Chunk()` or the encoder failed; `chunk`: the id `Chunk()` returned -/
def send (cfg : Cfg) (s : St) (enc : Option Bytes) (chunk : Bytes) (fault : WFault) (resp : Bytes) : St × Out :=
  match s.session with
  | none => (s, .err)
  | some (id, tp) =>
    if !tp then (s, .err) else
    match enc with
    | none => (s, .err)
    | some e =>
      let (acc, st) := doWrite e fault
      let s1 := s.emit (.write id acc st)
      if st ≠ .ok then (s1, .err)
      else if !cfg.requireAck then (s1, .ok)
      else
        let s2 := if cfg.timeout then s1.emit (.deadline id) else s1
        match Ack.unmarshal .stream {} resp with
        | .ok a _ => if a.ack = chunk then (s2, .ok) else (s2, .err)
        | _ => (s2, .err)

/-- `SendRaw(m)` -/
def sendRaw (s : St) (b : Bytes) (fault : WFault) : St × Out :=
  match s.session with
  | none => (s, .err)
  | some (id, tp) =>
    if !tp then (s, .err) else
    let (acc, st) := doWrite b fault
    let s1 := s.emit (.write id acc st)
    (s1, if st = .ok then .ok else .err)

def step (H : Bytes → Bytes) (cfg : Cfg) (s : St) : Op → St × Out
  | .connect d c => if s.session.isSome then (s, .err) else connect cfg s d c
  | .disconnect => disconnect s
  | .reconnect d c => connect cfg (disconnect s).1 d c
  | .handshake helo salt pong f => handshake H cfg s helo salt pong f
  | .send enc chunk f resp => send cfg s enc chunk f resp
  | .sendRaw b f => sendRaw s b f
  | .transportPhase => (s, .bool (match s.session with | some (_, tp) => tp | none => false))

def run (H : Bytes → Bytes) (cfg : Cfg) : St → List Op → St
  | s, [] => s
  | s, op :: ops => run H cfg (step H cfg s op).1 ops

end FV.Tcp
