import FluentVerif.Proto.Packed
/-! Model of the `Send*` helpers of `client.go` (and `ws_client.go`, which has the same bodies):
the constructor each one calls, then `Send`'s `Chunk()` when acks are required, then the encoder.
`now` is the clock reading the constructor takes; gzip is the abstract `Codec`. -/
namespace FV

inductive Helper where
  | message (tag : Bytes) (record : GoVal)
  | messageExt (tag : Bytes) (record : GoVal)
  | forward (tag : Bytes) (es : List (Instant × GoVal))
  | packed (tag : Bytes) (es : List (Instant × GoVal))
  | compressed (tag : Bytes) (es : List (Instant × GoVal))
  | packedBytes (tag b : Bytes)
  | compressedBytes (tag b : Bytes)

/-- `Chunk()` as `Send` calls it when `RequireAck`: options are created if absent and get the drawn
id unless they carry one already; every other option stays -/
def stampChunk (ack : Bool) (id : Bytes) (o : Option Options) : Option Options :=
  if ack then
    some (if (o.getD {}).chunk = [] then { (o.getD {}) with chunk := id } else o.getD {})
  else o

/-- the bytes the helper hands to the connection -/
def Helper.wire (cd : Codec) (pooled : Compressor) (now : Instant) (ack : Bool) (id : Bytes) : Helper → Option Bytes
  | .message tag r => Message.marshal tag now.sec r (stampChunk ack id none)
  | .messageExt tag r => MessageExt.marshal tag now r (stampChunk ack id none)
  | .forward tag es => Forward.marshal tag es (stampChunk ack id (some { size := some es.length }))
  | .packed tag es => (newPacked tag es).map fun m => Packed.marshal m.tag m.stream (stampChunk ack id m.options)
  | .compressed tag es =>
    (newCompressed cd pooled tag es).map fun m => Packed.marshal m.tag m.stream (stampChunk ack id m.options)
  | .packedBytes tag b => some (Packed.marshal tag b (stampChunk ack id none))
  | .compressedBytes tag b =>
    (newCompressedFromBytes cd pooled tag b).map fun m => Packed.marshal m.tag m.stream (stampChunk ack id m.options)

end FV

namespace FV
/-- the same with the compressor given as a bare function (used by the driver, which is handed the
compressed bytes the real run produced) -/
def Helper.wireG (gz : Bytes → Option Bytes) (now : Instant) (ack : Bool) (id : Bytes) : Helper → Option Bytes
  | .compressed tag es =>
    (marshalPacked es).bind fun s => (gz s).map fun z =>
      Packed.marshal tag z (stampChunk ack id (some { size := some es.length, compressed := vGzip }))
  | .compressedBytes tag b =>
    (gz b).map fun z => Packed.marshal tag z (stampChunk ack id (some { compressed := vGzip }))
  | .message tag r => Message.marshal tag now.sec r (stampChunk ack id none)
  | .messageExt tag r => MessageExt.marshal tag now r (stampChunk ack id none)
  | .forward tag es => Forward.marshal tag es (stampChunk ack id (some { size := some es.length }))
  | .packed tag es => (newPacked tag es).map fun m => Packed.marshal m.tag m.stream (stampChunk ack id m.options)
  | .packedBytes tag b => some (Packed.marshal tag b (stampChunk ack id none))

theorem Helper.wire_eq_wireG (cd : Codec) (pooled : Compressor) (now ack id) (h : Helper) :
    h.wire cd pooled now ack id = h.wireG (fun p => (pooled.reset.write cd p).map (·.buffer)) now ack id := by
  cases h <;> simp [Helper.wire, Helper.wireG, newCompressed, newCompressedFromBytes, Compressor.reset, Compressor.write]
  · rename_i tag es
    cases marshalPacked es <;> simp
end FV
