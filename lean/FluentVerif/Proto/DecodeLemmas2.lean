import FluentVerif.Proto.DecodeLemmas
/-! helper lemmas, continued: handshake tuples and the four hand-written message decoders -/
namespace FV

theorem Helo.unmarshal_sound {p recv b v r} (h : Helo.unmarshal p recv b = .ok v r) : Reads1 b r := by
  unfold Helo.unmarshal at h
  obtain ⟨sz, b1, ha, h⟩ := Res.bind_ok.1 h
  split at h
  · cases h
  · next hsz =>
    have : sz = 2 := by omega
    subst this
    obtain ⟨mt, b2, h1, h⟩ := Res.bind_ok.1 h
    have hh := readArrayHeader_sound ha
    split at h
    · obtain ⟨_, h2, _⟩ := Res.map_ok.1 h
      exact Reads1.ofArr hh (ReadsN.cons ⟨_, readString_sound h1⟩ (ReadsN.cons ⟨_, readNil_sound h2⟩ (ReadsN.zero _)))
    · obtain ⟨_, h2, _⟩ := Res.map_ok.1 h
      exact Reads1.ofArr hh (ReadsN.cons ⟨_, readString_sound h1⟩ (ReadsN.cons (HeloOpts.unmarshal_sound h2) (ReadsN.zero _)))

theorem Helo.unmarshal_noPanic (p recv b) : (Helo.unmarshal p recv b).NoPanic := by
  unfold Helo.unmarshal
  refine (readArrayHeader_noPanic b).bind fun sz b1 => ?_
  split
  · exact Res.noPanic_err
  · refine (readString_noPanic b1).bind fun _ b2 => ?_
    split
    · exact (readNil_noPanic b2).map
    · exact (HeloOpts.unmarshal_noPanic p _ b2).map

theorem Ping.unmarshal_sound {p recv b v r} (h : Ping.unmarshal p recv b = .ok v r) : Reads1 b r := by
  unfold Ping.unmarshal at h
  obtain ⟨sz, b1, ha, h⟩ := Res.bind_ok.1 h
  split at h
  · cases h
  · next hsz =>
    have : sz = 6 := by omega
    subst this
    obtain ⟨_, b2, h1, h⟩ := Res.bind_ok.1 h
    obtain ⟨_, b3, h2, h⟩ := Res.bind_ok.1 h
    obtain ⟨_, b4, h3, h⟩ := Res.bind_ok.1 h
    obtain ⟨_, b5, h4, h⟩ := Res.bind_ok.1 h
    obtain ⟨_, b6, h5, h⟩ := Res.bind_ok.1 h
    obtain ⟨_, h6, _⟩ := Res.map_ok.1 h
    exact Reads1.ofArr (readArrayHeader_sound ha)
      (ReadsN.cons ⟨_, readString_sound h1⟩ (ReadsN.cons ⟨_, readString_sound h2⟩
      (ReadsN.cons ⟨_, readBytes_sound h3⟩ (ReadsN.cons ⟨_, readString_sound h4⟩
      (ReadsN.cons ⟨_, readString_sound h5⟩ (ReadsN.cons ⟨_, readString_sound h6⟩ (ReadsN.zero _)))))))

theorem Ping.unmarshal_noPanic (p recv b) : (Ping.unmarshal p recv b).NoPanic := by
  unfold Ping.unmarshal
  refine (readArrayHeader_noPanic b).bind fun sz b1 => ?_
  split
  · exact Res.noPanic_err
  · exact (readString_noPanic _).bind fun _ _ => (readString_noPanic _).bind fun _ _ =>
      (readBytes_noPanic _).bind fun _ _ => (readString_noPanic _).bind fun _ _ =>
      (readString_noPanic _).bind fun _ _ => (readString_noPanic _).map

theorem Pong.unmarshal_sound {p recv b v r} (h : Pong.unmarshal p recv b = .ok v r) : Reads1 b r := by
  unfold Pong.unmarshal at h
  obtain ⟨sz, b1, ha, h⟩ := Res.bind_ok.1 h
  split at h
  · cases h
  · next hsz =>
    have : sz = 5 := by omega
    subst this
    obtain ⟨_, b2, h1, h⟩ := Res.bind_ok.1 h
    obtain ⟨_, b3, h2, h⟩ := Res.bind_ok.1 h
    obtain ⟨_, b4, h3, h⟩ := Res.bind_ok.1 h
    obtain ⟨_, b5, h4, h⟩ := Res.bind_ok.1 h
    obtain ⟨_, h5, _⟩ := Res.map_ok.1 h
    exact Reads1.ofArr (readArrayHeader_sound ha)
      (ReadsN.cons ⟨_, readString_sound h1⟩ (ReadsN.cons ⟨_, readBool_sound h2⟩
      (ReadsN.cons ⟨_, readString_sound h3⟩ (ReadsN.cons ⟨_, readString_sound h4⟩
      (ReadsN.cons ⟨_, readString_sound h5⟩ (ReadsN.zero _))))))

theorem Pong.unmarshal_noPanic (p recv b) : (Pong.unmarshal p recv b).NoPanic := by
  unfold Pong.unmarshal
  refine (readArrayHeader_noPanic b).bind fun sz b1 => ?_
  split
  · exact Res.noPanic_err
  · exact (readString_noPanic _).bind fun _ _ => (readBool_noPanic _).bind fun _ _ =>
      (readString_noPanic _).bind fun _ _ => (readString_noPanic _).bind fun _ _ =>
      (readString_noPanic _).map

/-! ### Message / MessageExt / Forward / Packed -/

theorem Message.unmarshal_sound {p recv b v r} (h : Message.unmarshal p recv b = .ok v r) : Reads1 b r := by
  unfold Message.unmarshal at h
  obtain ⟨sz, b1, ha, h⟩ := Res.bind_ok.1 h
  have hh := readArrayHeader_sound ha
  split at h
  · cases h
  · next hsz =>
    simp only at h
    obtain ⟨_, b2, h1, k1⟩ := Res.bind_ok.1 h
    obtain ⟨_, b3, h2, k2⟩ := Res.bind_ok.1 k1
    obtain ⟨_, b4, h3, k3⟩ := Res.bind_ok.1 k2
    split at k3
    · next h4 =>
      subst h4
      obtain ⟨_, h5, _⟩ := Res.map_ok.1 k3
      exact Reads1.ofArr hh (ReadsN.cons ⟨_, readString_sound h1⟩ (ReadsN.cons ⟨_, readInt64_sound h2⟩
        (ReadsN.cons (readIntf_sound h3) (ReadsN.cons (readOptionsOrNil_sound h5) (ReadsN.zero _)))))
    · next h4 =>
      cases k3
      have : sz = 3 := by omega
      subst this
      exact Reads1.ofArr hh (ReadsN.cons ⟨_, readString_sound h1⟩ (ReadsN.cons ⟨_, readInt64_sound h2⟩
        (ReadsN.cons (readIntf_sound h3) (ReadsN.zero _))))

theorem Message.unmarshal_noPanic (p recv b) : (Message.unmarshal p recv b).NoPanic := by
  unfold Message.unmarshal
  refine (readArrayHeader_noPanic b).bind fun sz b1 => ?_
  split
  · exact Res.noPanic_err
  · refine (readString_noPanic _).bind fun _ _ => (readInt64_noPanic _).bind fun _ _ =>
      (readIntf_noPanic p _).bind fun _ b4 => ?_
    split
    · exact (readOptionsOrNil_noPanic p b4).map
    · exact Res.noPanic_ok _ _

theorem MessageExt.unmarshal_sound {p recv b v r} (h : MessageExt.unmarshal p recv b = .ok v r) : Reads1 b r := by
  unfold MessageExt.unmarshal at h
  obtain ⟨sz, b1, ha, h⟩ := Res.bind_ok.1 h
  have hh := readArrayHeader_sound ha
  split at h
  · cases h
  · next hsz =>
    simp only at h
    obtain ⟨_, b2, h1, k1⟩ := Res.bind_ok.1 h
    obtain ⟨_, b3, h2, k2⟩ := Res.bind_ok.1 k1
    obtain ⟨_, b4, h3, k3⟩ := Res.bind_ok.1 k2
    split at k3
    · next h4 =>
      subst h4
      obtain ⟨_, h5, _⟩ := Res.map_ok.1 k3
      exact Reads1.ofArr hh (ReadsN.cons ⟨_, readString_sound h1⟩ (ReadsN.cons (readEventTime_sound h2)
        (ReadsN.cons (readIntf_sound h3) (ReadsN.cons (readOptionsOrNil_sound h5) (ReadsN.zero _)))))
    · next h4 =>
      cases k3
      have : sz = 3 := by omega
      subst this
      exact Reads1.ofArr hh (ReadsN.cons ⟨_, readString_sound h1⟩ (ReadsN.cons (readEventTime_sound h2)
        (ReadsN.cons (readIntf_sound h3) (ReadsN.zero _))))

theorem MessageExt.unmarshal_noPanic (p recv b) : (MessageExt.unmarshal p recv b).NoPanic := by
  unfold MessageExt.unmarshal
  refine (readArrayHeader_noPanic b).bind fun sz b1 => ?_
  split
  · exact Res.noPanic_err
  · refine (readString_noPanic _).bind fun _ _ => (readEventTime_noPanic _).bind fun _ _ =>
      (readIntf_noPanic p _).bind fun _ b4 => ?_
    split
    · exact (readOptionsOrNil_noPanic p b4).map
    · exact Res.noPanic_ok _ _

theorem Forward.unmarshal_sound {p recv b v r} (h : Forward.unmarshal p recv b = .ok v r) : Reads1 b r := by
  unfold Forward.unmarshal at h
  obtain ⟨sz, b1, ha, h⟩ := Res.bind_ok.1 h
  have hh := readArrayHeader_sound ha
  split at h
  · cases h
  · next hsz =>
    simp only at h
    obtain ⟨_, b2, h1, k1⟩ := Res.bind_ok.1 h
    obtain ⟨_, b3, h2, k2⟩ := Res.bind_ok.1 k1
    split at k2
    · next h4 =>
      subst h4
      obtain ⟨_, h5, _⟩ := Res.map_ok.1 k2
      exact Reads1.ofArr hh (ReadsN.cons ⟨_, readString_sound h1⟩ (ReadsN.cons (EntryList.unmarshal_sound h2)
        (ReadsN.cons (readOptionsOrNil_sound h5) (ReadsN.zero _))))
    · next h4 =>
      cases k2
      have : sz = 2 := by omega
      subst this
      exact Reads1.ofArr hh (ReadsN.cons ⟨_, readString_sound h1⟩ (ReadsN.cons (EntryList.unmarshal_sound h2)
        (ReadsN.zero _)))

theorem Forward.unmarshal_noPanic (p recv b) : (Forward.unmarshal p recv b).NoPanic := by
  unfold Forward.unmarshal
  refine (readArrayHeader_noPanic b).bind fun sz b1 => ?_
  split
  · exact Res.noPanic_err
  · refine (readString_noPanic _).bind fun _ _ => (EntryList.unmarshal_noPanic p _).bind fun _ b3 => ?_
    split
    · exact (readOptionsOrNil_noPanic p b3).map
    · exact Res.noPanic_ok _ _

theorem Packed.unmarshal_sound {p recv b v r} (h : Packed.unmarshal p recv b = .ok v r) : Reads1 b r := by
  unfold Packed.unmarshal at h
  obtain ⟨sz, b1, ha, h⟩ := Res.bind_ok.1 h
  have hh := readArrayHeader_sound ha
  split at h
  · cases h
  · next hsz =>
    simp only at h
    obtain ⟨_, b2, h1, k1⟩ := Res.bind_ok.1 h
    obtain ⟨_, b3, h2, k2⟩ := Res.bind_ok.1 k1
    split at k2
    · next h4 =>
      subst h4
      obtain ⟨_, h5, _⟩ := Res.map_ok.1 k2
      exact Reads1.ofArr hh (ReadsN.cons ⟨_, readString_sound h1⟩ (ReadsN.cons ⟨_, readBytes_sound h2⟩
        (ReadsN.cons (readOptionsOrNil_sound h5) (ReadsN.zero _))))
    · next h4 =>
      cases k2
      have : sz = 2 := by omega
      subst this
      exact Reads1.ofArr hh (ReadsN.cons ⟨_, readString_sound h1⟩ (ReadsN.cons ⟨_, readBytes_sound h2⟩
        (ReadsN.zero _)))

theorem Packed.unmarshal_noPanic (p recv b) : (Packed.unmarshal p recv b).NoPanic := by
  unfold Packed.unmarshal
  refine (readArrayHeader_noPanic b).bind fun sz b1 => ?_
  split
  · exact Res.noPanic_err
  · refine (readString_noPanic _).bind fun _ _ => (readBytes_noPanic _).bind fun _ b3 => ?_
    split
    · exact (readOptionsOrNil_noPanic p b3).map
    · exact Res.noPanic_ok _ _

end FV
