import FluentVerif.Proto.EncodeLemmas
/-! helper lemmas: each repository encoder followed by the specification parser / the repository
decoder (either path, any receiver, any trailing bytes) -/
set_option linter.unusedSimpArgs false
namespace FV

def lenOK (s : Bytes) : Prop := s.length < 4294967296

/-- the instant a decoded EventTime denotes (zone information is not carried) -/
def Instant.norm (t : Instant) : Instant := { sec := t.sec, nsec := t.nsec }

theorem decodeET_encodeET (t : Instant) (h : t.InDomain) : decodeET (encodeET t) = some t.norm := by
  obtain ⟨h0, h1, h2⟩ := h
  have e1 : (t.sec % 4294967296).toNat < 256 ^ 4 := by simp; omega
  have e2 : t.nsec % 4294967296 < 256 ^ 4 := by simp; omega
  simp [decodeET, encodeET, beVal_be 4 _ e1, beVal_be 4 _ e2, Instant.norm]
  constructor
  · omega
  · omega

theorem header_92 (r : Bytes) : header (0x92 :: r) = some (.arr 2, r) := header_fixarr 2 (by omega) r
theorem header_93 (r : Bytes) : header (0x93 :: r) = some (.arr 3, r) := header_fixarr 3 (by omega) r
theorem header_94 (r : Bytes) : header (0x94 :: r) = some (.arr 4, r) := header_fixarr 4 (by omega) r
theorem header_95 (r : Bytes) : header (0x95 :: r) = some (.arr 5, r) := header_fixarr 5 (by omega) r
theorem header_96 (r : Bytes) : header (0x96 :: r) = some (.arr 6, r) := header_fixarr 6 (by omega) r
theorem header_81 (r : Bytes) : header (0x81 :: r) = some (.map 1, r) := header_fixmap 1 (by omega) r
theorem header_83 (r : Bytes) : header (0x83 :: r) = some (.map 3, r) := header_fixmap 3 (by omega) r

theorem readArrayHeader_of {b n r} (h : header b = some (.arr n, r)) : readArrayHeader b = .ok n r := by
  unfold readArrayHeader; rw [h]
theorem readMapHeader_of {b n r} (h : header b = some (.map n, r)) : readMapHeader b = .ok n r := by
  unfold readMapHeader; rw [h]

def olist : List Obj → Objs
  | [] => .nil
  | x :: xs => .cons x (olist xs)

/-! ### Message -/

def Message.obj (tag : Bytes) (ts : Int) (rec : GoVal) (opts : Option Options) : Obj :=
  .arr (olist [.str tag, .int ts, rec.toObj, optPtrObj opts])

theorem Message.marshal_parse {tag ts rec opts e} (htag : lenOK tag) (hts : inInt64 ts) (hrec : rec.WF)
    (hopts : optPtrWF opts) (he : Message.marshal tag ts rec opts = some e) (x : Bytes) :
    parse (e ++ x) = some (Message.obj tag ts rec opts, x) := by
  simp only [Message.marshal, Option.map_eq_some_iff] at he
  obtain ⟨rb, hrb, rfl⟩ := he
  simp only [List.cons_append, List.nil_append, List.append_assoc]
  exact parse_arr_of_seq (header_94 _)
    (parseSeq_cons (parse_appendString tag _ htag) (parseSeq_cons (parse_appendInt64 ts hts _)
    (parseSeq_cons (GoVal.encode_sound rec rb hrec hrb _) (parseSeq_cons (marshalOptPtr_parse opts hopts x) rfl))))

theorem Message.roundtrip (p : Path) (recv : Message) {tag ts rec opts e} (htag : lenOK tag) (hts : inInt64 ts)
    (hrec : rec.WF) (hopts : optPtrWF opts) (he : Message.marshal tag ts rec opts = some e) (x : Bytes) :
    Message.unmarshal p recv (e ++ x) = .ok { tag := tag, ts := ts, record := rec.toObj, options := opts } x := by
  simp only [Message.marshal, Option.map_eq_some_iff] at he
  obtain ⟨rb, hrb, rfl⟩ := he
  simp only [List.cons_append, List.nil_append, List.append_assoc]
  unfold Message.unmarshal
  rw [readArrayHeader_of (header_94 _)]
  simp [Res.bind, Res.map, readString_appendString _ _ htag, readInt64_appendInt64 _ hts,
    readIntf_encode p rec rb hrec hrb, readOptionsOrNil_marshal p opts hopts]

/-! ### MessageExt -/

def MessageExt.obj (tag : Bytes) (ts : Instant) (rec : GoVal) (opts : Option Options) : Obj :=
  .arr (olist [.str tag, .ext 0 (encodeET ts), rec.toObj, optPtrObj opts])

theorem MessageExt.marshal_parse {tag ts rec opts e} (htag : lenOK tag) (hrec : rec.WF)
    (hopts : optPtrWF opts) (he : MessageExt.marshal tag ts rec opts = some e) (x : Bytes) :
    parse (e ++ x) = some (MessageExt.obj tag ts rec opts, x) := by
  simp only [MessageExt.marshal, Option.map_eq_some_iff] at he
  obtain ⟨rb, hrb, rfl⟩ := he
  simp only [List.cons_append, List.nil_append, List.append_assoc]
  exact parse_arr_of_seq (header_94 _)
    (parseSeq_cons (parse_appendString tag _ htag) (parseSeq_cons (parse_appendEventTime ts _)
    (parseSeq_cons (GoVal.encode_sound rec rb hrec hrb _) (parseSeq_cons (marshalOptPtr_parse opts hopts x) rfl))))

theorem MessageExt.roundtrip (p : Path) (recv : MessageExt) {tag ts rec opts e} (htag : lenOK tag)
    (hts : ts.InDomain) (hrec : rec.WF) (hopts : optPtrWF opts)
    (he : MessageExt.marshal tag ts rec opts = some e) (x : Bytes) :
    MessageExt.unmarshal p recv (e ++ x) = .ok { tag := tag, ts := ts.norm, record := rec.toObj, options := opts } x := by
  simp only [MessageExt.marshal, Option.map_eq_some_iff] at he
  obtain ⟨rb, hrb, rfl⟩ := he
  simp only [List.cons_append, List.nil_append, List.append_assoc]
  unfold MessageExt.unmarshal
  rw [readArrayHeader_of (header_94 _)]
  simp [Res.bind, Res.map, readString_appendString _ _ htag, readEventTime_append ts ts.norm _ (decodeET_encodeET ts hts),
    readIntf_encode p rec rb hrec hrb, readOptionsOrNil_marshal p opts hopts]

/-! ### entries -/

def EntryExt.obj (ts : Instant) (rec : GoVal) : Obj := .arr (olist [.ext 0 (encodeET ts), rec.toObj])

theorem EntryExt.marshal_parse {ts rec e} (hrec : rec.WF) (he : EntryExt.marshal ts rec = some e) (x : Bytes) :
    parse (e ++ x) = some (EntryExt.obj ts rec, x) := by
  simp only [EntryExt.marshal, Option.map_eq_some_iff] at he
  obtain ⟨rb, hrb, rfl⟩ := he
  simp only [List.cons_append, List.nil_append, List.append_assoc]
  exact parse_arr_of_seq (header_92 _)
    (parseSeq_cons (parse_appendEventTime ts _) (parseSeq_cons (GoVal.encode_sound rec rb hrec hrb x) rfl))

theorem EntryExt.roundtrip (p : Path) (recv : EntryExt) {ts rec e} (hts : ts.InDomain) (hrec : rec.WF)
    (he : EntryExt.marshal ts rec = some e) (x : Bytes) :
    EntryExt.unmarshal p recv (e ++ x) = .ok { ts := ts.norm, record := rec.toObj } x := by
  simp only [EntryExt.marshal, Option.map_eq_some_iff] at he
  obtain ⟨rb, hrb, rfl⟩ := he
  simp only [List.cons_append, List.nil_append, List.append_assoc]
  unfold EntryExt.unmarshal
  rw [readArrayHeader_of (header_92 _)]
  simp [Res.bind, Res.map, readEventTime_append ts ts.norm _ (decodeET_encodeET ts hts),
    readIntf_encode p rec rb hrec hrb]

def Entry.obj (ts : Int) (rec : GoVal) : Obj := .arr (olist [.int ts, rec.toObj])

theorem Entry.marshal_parse {ts rec e} (hts : inInt64 ts) (hrec : rec.WF) (he : Entry.marshal ts rec = some e) (x : Bytes) :
    parse (e ++ x) = some (Entry.obj ts rec, x) := by
  simp only [Entry.marshal, Option.map_eq_some_iff] at he
  obtain ⟨rb, hrb, rfl⟩ := he
  simp only [List.cons_append, List.nil_append, List.append_assoc]
  exact parse_arr_of_seq (header_92 _)
    (parseSeq_cons (parse_appendInt64 ts hts _) (parseSeq_cons (GoVal.encode_sound rec rb hrec hrb x) rfl))

theorem Entry.roundtrip (p : Path) (recv : Entry) {ts rec e} (hts : inInt64 ts) (hrec : rec.WF)
    (he : Entry.marshal ts rec = some e) (x : Bytes) :
    Entry.unmarshal p recv (e ++ x) = .ok { ts := ts, record := rec.toObj } x := by
  simp only [Entry.marshal, Option.map_eq_some_iff] at he
  obtain ⟨rb, hrb, rfl⟩ := he
  simp only [List.cons_append, List.nil_append, List.append_assoc]
  unfold Entry.unmarshal
  rw [readArrayHeader_of (header_92 _)]
  simp [Res.bind, Res.map, readInt64_appendInt64 _ hts, readIntf_encode p rec rb hrec hrb]

/-- well-formed entry list: instants in the 32-bit-second domain, representable records -/
def entriesWF : List (Instant × GoVal) → Prop
  | [] => True
  | (t, r) :: es => t.InDomain ∧ r.WF ∧ entriesWF es

def entriesObjs : List (Instant × GoVal) → Objs
  | [] => .nil
  | (t, r) :: es => .cons (EntryExt.obj t r) (entriesObjs es)

def entriesNorm (es : List (Instant × GoVal)) : List EntryExt :=
  es.map fun (t, r) => { ts := t.norm, record := r.toObj }

theorem marshalEntries_parse : ∀ (es : List (Instant × GoVal)) (eb : Bytes), entriesWF es →
    marshalEntries es = some eb → ∀ x, parseSeq es.length (eb ++ x) = some (entriesObjs es, x)
  | [], eb, _, he, x => by simp [marshalEntries] at he; subst he; rfl
  | (t, r) :: es, eb, hw, he, x => by
    simp only [entriesWF] at hw
    unfold marshalEntries at he
    split at he
    · next a b ha hb =>
      simp only [Option.some.injEq] at he; subst he
      rw [List.append_assoc]
      exact parseSeq_cons (EntryExt.marshal_parse hw.2.1 ha _) (marshalEntries_parse es b hw.2.2 hb x)
    · cases he

theorem marshalEntries_read (p : Path) : ∀ (es : List (Instant × GoVal)) (eb : Bytes), entriesWF es →
    marshalEntries es = some eb → ∀ x, readEntries p es.length (eb ++ x) = .ok (entriesNorm es) x
  | [], eb, _, he, x => by simp [marshalEntries] at he; subst he; simp [readEntries, entriesNorm]
  | (t, r) :: es, eb, hw, he, x => by
    simp only [entriesWF] at hw
    unfold marshalEntries at he
    split at he
    · next a b ha hb =>
      simp only [Option.some.injEq] at he; subst he
      rw [List.append_assoc]
      simp only [List.length_cons, readEntries]
      rw [EntryExt.roundtrip p {} hw.1 hw.2.1 ha]
      simp only [Res.bind]
      rw [marshalEntries_read p es b hw.2.2 hb x]
      simp [Res.map, entriesNorm]
    · cases he

/-! ### Forward -/

def Forward.obj (tag : Bytes) (es : List (Instant × GoVal)) (opts : Option Options) : Obj :=
  match opts with
  | none => .arr (olist [.str tag, .arr (entriesObjs es)])
  | some o => .arr (olist [.str tag, .arr (entriesObjs es), o.toObj])

theorem Forward.marshal_parse {tag es opts e} (htag : lenOK tag) (hn : es.length < 4294967296) (hes : entriesWF es)
    (hopts : optPtrWF opts) (he : Forward.marshal tag es opts = some e) (x : Bytes) :
    parse (e ++ x) = some (Forward.obj tag es opts, x) := by
  simp only [Forward.marshal, EntryList.marshal, Option.map_eq_some_iff] at he
  obtain ⟨eb', ⟨eb, heb, rfl⟩, rfl⟩ := he
  cases opts with
  | none =>
    simp only [List.cons_append, List.nil_append, List.append_assoc, Forward.obj]
    exact parse_arr_of_seq (header_92 _)
      (parseSeq_cons (parse_appendString tag _ htag)
      (parseSeq_cons (parse_arr_of_seq (header_appendArrayHeader _ _ hn) (marshalEntries_parse es eb hes heb x)) rfl))
  | some o =>
    simp only [List.cons_append, List.nil_append, List.append_assoc, Forward.obj]
    exact parse_arr_of_seq (header_93 _)
      (parseSeq_cons (parse_appendString tag _ htag)
      (parseSeq_cons (parse_arr_of_seq (header_appendArrayHeader _ _ hn) (marshalEntries_parse es eb hes heb _))
      (parseSeq_cons (Options.marshal_parse o hopts x) rfl)))

theorem Forward.roundtrip (p : Path) (recv : Forward) {tag es opts e} (htag : lenOK tag)
    (hn : es.length < 4294967296) (hes : entriesWF es) (hopts : optPtrWF opts)
    (he : Forward.marshal tag es opts = some e) (x : Bytes) :
    Forward.unmarshal p recv (e ++ x) = .ok { tag := tag, entries := entriesNorm es, options := opts } x := by
  simp only [Forward.marshal, EntryList.marshal, Option.map_eq_some_iff] at he
  obtain ⟨eb', ⟨eb, heb, rfl⟩, rfl⟩ := he
  cases opts with
  | none =>
    simp only [List.cons_append, List.nil_append, List.append_assoc]
    unfold Forward.unmarshal
    rw [readArrayHeader_of (header_92 _)]
    simp [Res.bind, Res.map, readString_appendString _ _ htag, EntryList.unmarshal,
      readArrayHeader_of (header_appendArrayHeader _ _ hn), marshalEntries_read p es eb hes heb]
  | some o =>
    simp only [List.cons_append, List.nil_append, List.append_assoc]
    unfold Forward.unmarshal
    rw [readArrayHeader_of (header_93 _)]
    have ho := readOptionsOrNil_marshal p (some o) hopts x
    simp only [marshalOptPtr] at ho
    simp [Res.bind, Res.map, readString_appendString _ _ htag, EntryList.unmarshal,
      readArrayHeader_of (header_appendArrayHeader _ _ hn), marshalEntries_read p es eb hes heb, ho]

/-! ### Packed -/

def Packed.obj (tag stream : Bytes) (opts : Option Options) : Obj :=
  .arr (olist [.str tag, .bin stream, optPtrObj opts])

theorem Packed.marshal_parse {tag stream opts} (htag : lenOK tag) (hs : lenOK stream) (hopts : optPtrWF opts) (x : Bytes) :
    parse (Packed.marshal tag stream opts ++ x) = some (Packed.obj tag stream opts, x) := by
  simp only [Packed.marshal, List.cons_append, List.nil_append, List.append_assoc]
  exact parse_arr_of_seq (header_93 _)
    (parseSeq_cons (parse_appendString tag _ htag) (parseSeq_cons (parse_appendBytes stream _ hs)
    (parseSeq_cons (marshalOptPtr_parse opts hopts x) rfl)))

theorem Packed.roundtrip (p : Path) (recv : Packed) {tag stream opts} (htag : lenOK tag) (hs : lenOK stream)
    (hopts : optPtrWF opts) (x : Bytes) :
    Packed.unmarshal p recv (Packed.marshal tag stream opts ++ x) = .ok { tag := tag, stream := stream, options := opts } x := by
  simp only [Packed.marshal, List.cons_append, List.nil_append, List.append_assoc]
  unfold Packed.unmarshal
  rw [readArrayHeader_of (header_93 _)]
  simp [Res.bind, Res.map, readString_appendString _ _ htag, readBytes_appendBytes _ _ hs,
    readOptionsOrNil_marshal p opts hopts]

end FV
