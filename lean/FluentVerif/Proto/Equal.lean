/-! Model of `EntryList.Equal` (fluent/protocol/transport.go).

The Go function copies both lists, then for every entry of the first list scans the second for
an entry that has not been used yet, has the same instant and a deeply equal record; it marks
that entry used, counts one match and stops scanning.  It returns `matches == len`.
Entries are abstracted to a type with decidable equality: the harness renders every entry as
`(instant, record-class)` so that "same rendering" ⇔ "same instant ∧ DeepEqual". -/
namespace FV.Equal
variable {α : Type} [DecidableEq α]

/-- inner loop: the first unused element equal to `a` gets marked -/
def markFirst (a : α) : List (α × Bool) → Option (List (α × Bool))
  | [] => none
  | (b, u) :: r =>
    if !u && a = b then some ((b, true) :: r)
    else (markFirst a r).map ((b, u) :: ·)

/-- outer loop with the match counter -/
def countMatches : List α → List (α × Bool) → Nat
  | [], _ => 0
  | a :: as, s =>
    match markFirst a s with
    | some s' => countMatches as s' + 1
    | none => countMatches as s

/-- `EntryList.Equal` -/
def equal (l1 l2 : List α) : Bool :=
  l1.length == l2.length && countMatches l1 (l2.map (·, false)) == l1.length

end FV.Equal
