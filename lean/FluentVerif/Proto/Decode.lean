import FluentVerif.Proto.Types
/-! Model of the repository's decoders, hand-written (`message.go`, `forward_message.go`,
`packed_forward_message.go`) and msgp-generated (`*_gen.go`), statement by statement.
The receiver is an explicit argument (C18 is about it).  `Path` selects `UnmarshalMsg` (slice)
or `DecodeMsg` (stream). -/
namespace FV

/-! ### generated map decoders: `for zb0001 > 0 { key; switch key {…; default: Skip} }` -/

/-- the generic loop; `h k` is the `case` body for key `k` (`none` = `default: Skip`) -/
def readFields {σ : Type} (p : Path) (h : Bytes → Option (σ → Bytes → Res σ)) : Nat → σ → Bytes → Res σ
  | 0, s, b => .ok s b
  | n+1, s, b =>
    (readMapKey p b).bind fun k b1 =>
      match h k with
      | some f => (f s b1).bind fun s' b2 => readFields p h n s' b2
      | none => (skipP p b1).bind fun _ b2 => readFields p h n s b2

/-- `case "size"`: nil → `Size = nil`, else `ReadInt` -/
def Options.sizeField (o : Options) (b : Bytes) : Res Options :=
  if isNil b then (readNil b).map fun _ => { o with size := none }
  else (readInt64 b).map fun i => { o with size := some i }

def Options.handlers (k : Bytes) : Option (Options → Bytes → Res Options) :=
  if k = kSize then some Options.sizeField
  else if k = kChunk then some fun o b => (readString b).map fun s => { o with chunk := s }
  else if k = kCompressed then some fun o b => (readString b).map fun s => { o with compressed := s }
  else none

/-- `MessageOptions.UnmarshalMsg` / `DecodeMsg` -/
def Options.unmarshal (p : Path) (recv : Options) (b : Bytes) : Res Options :=
  (readMapHeader b).bind fun n b1 => readFields p Options.handlers n recv b1

def Ack.handlers (k : Bytes) : Option (Ack → Bytes → Res Ack) :=
  if k = kAck then some fun _ b => (readString b).map fun s => { ack := s }
  else none

/-- `AckMessage.UnmarshalMsg` / `DecodeMsg` -/
def Ack.unmarshal (p : Path) (recv : Ack) (b : Bytes) : Res Ack :=
  (readMapHeader b).bind fun n b1 => readFields p Ack.handlers n recv b1

def HeloOpts.handlers (k : Bytes) : Option (HeloOpts → Bytes → Res HeloOpts) :=
  if k = kNonce then some fun o b => (readBytes b).map fun s => { o with nonce := s }
  else if k = kAuth then some fun o b => (readBytes b).map fun s => { o with auth := s }
  else if k = kKeepalive then some fun o b => (readBool b).map fun v => { o with keepalive := v }
  else none

/-- `HeloOpts.UnmarshalMsg` / `DecodeMsg` -/
def HeloOpts.unmarshal (p : Path) (recv : HeloOpts) (b : Bytes) : Res HeloOpts :=
  (readMapHeader b).bind fun n b1 => readFields p HeloOpts.handlers n recv b1

/-! ### generated tuple decoders: exact arity, else `ArrayError` -/

/-- `Helo`: `[MessageType, Options|nil]`; an existing `Options` object of the receiver is reused -/
def Helo.unmarshal (p : Path) (recv : Helo) (b : Bytes) : Res Helo :=
  (readArrayHeader b).bind fun sz b1 =>
    if sz ≠ 2 then .err else
    (readString b1).bind fun mt b2 =>
      if isNil b2 then (readNil b2).map fun _ => { mtype := mt, options := none }
      else (HeloOpts.unmarshal p (recv.options.getD {}) b2).map fun o => { mtype := mt, options := some o }

def Ping.unmarshal (_p : Path) (_recv : Ping) (b : Bytes) : Res Ping :=
  (readArrayHeader b).bind fun sz b1 =>
    if sz ≠ 6 then .err else
    (readString b1).bind fun mt b2 =>
    (readString b2).bind fun host b3 =>
    (readBytes b3).bind fun salt b4 =>
    (readString b4).bind fun dig b5 =>
    (readString b5).bind fun user b6 =>
    (readString b6).map fun pw =>
      { mtype := mt, hostname := host, salt := salt, digest := dig, username := user, password := pw }

def Pong.unmarshal (_p : Path) (_recv : Pong) (b : Bytes) : Res Pong :=
  (readArrayHeader b).bind fun sz b1 =>
    if sz ≠ 5 then .err else
    (readString b1).bind fun mt b2 =>
    (readBool b2).bind fun ar b3 =>
    (readString b3).bind fun reason b4 =>
    (readString b4).bind fun host b5 =>
    (readString b5).map fun dig =>
      { mtype := mt, authResult := ar, reason := reason, hostname := host, digest := dig }

def Entry.unmarshal (p : Path) (_recv : Entry) (b : Bytes) : Res Entry :=
  (readArrayHeader b).bind fun sz b1 =>
    if sz ≠ 2 then .err else
    (readInt64 b1).bind fun ts b2 =>
    (readIntf p b2).map fun r => { ts := ts, record := r }

def EntryExt.unmarshal (p : Path) (_recv : EntryExt) (b : Bytes) : Res EntryExt :=
  (readArrayHeader b).bind fun sz b1 =>
    if sz ≠ 2 then .err else
    (readEventTime b1).bind fun ts b2 =>
    (readIntf p b2).map fun r => { ts := ts, record := r }

/-- the element loop of `EntryList.UnmarshalMsg` / `DecodeMsg` -/
def readEntries (p : Path) : Nat → Bytes → Res (List EntryExt)
  | 0, b => .ok [] b
  | n+1, b => (EntryExt.unmarshal p {} b).bind fun e b1 => (readEntries p n b1).map (e :: ·)

/-- `EntryList.UnmarshalMsg` / `DecodeMsg` -/
def EntryList.unmarshal (p : Path) (b : Bytes) : Res (List EntryExt) :=
  (readArrayHeader b).bind fun n b1 => readEntries p n b1

/-! ### the optional trailing options element of the four hand-written decoders -/

/-- `if NextType == Nil { ReadNil } else { Options = &MessageOptions{}; Options.Unmarshal }` -/
def readOptionsOrNil (p : Path) (b : Bytes) : Res (Option Options) :=
  if isNil b then (readNil b).map fun _ => none
  else (Options.unmarshal p {} b).map some

/-! ### hand-written decoders (with the arity check and the cleared `Options` of the `fix:` commits) -/

/-- `Message.UnmarshalMsg` / `DecodeMsg` -/
def Message.unmarshal (p : Path) (recv : Message) (b : Bytes) : Res Message :=
  (readArrayHeader b).bind fun sz b1 =>
    if sz ≠ 3 ∧ sz ≠ 4 then .err else
    let recv := { recv with options := none }
    (readString b1).bind fun tag b2 =>
    (readInt64 b2).bind fun ts b3 =>
    (readIntf p b3).bind fun r b4 =>
      let m := { recv with tag := tag, ts := ts, record := r }
      if sz = 4 then (readOptionsOrNil p b4).map fun o => { m with options := o }
      else .ok m b4

/-- `MessageExt.UnmarshalMsg` / `DecodeMsg` -/
def MessageExt.unmarshal (p : Path) (recv : MessageExt) (b : Bytes) : Res MessageExt :=
  (readArrayHeader b).bind fun sz b1 =>
    if sz ≠ 3 ∧ sz ≠ 4 then .err else
    let recv := { recv with options := none }
    (readString b1).bind fun tag b2 =>
    (readEventTime b2).bind fun ts b3 =>
    (readIntf p b3).bind fun r b4 =>
      let m := { recv with tag := tag, ts := ts, record := r }
      if sz = 4 then (readOptionsOrNil p b4).map fun o => { m with options := o }
      else .ok m b4

/-- `ForwardMessage.UnmarshalMsg` / `DecodeMsg` -/
def Forward.unmarshal (p : Path) (recv : Forward) (b : Bytes) : Res Forward :=
  (readArrayHeader b).bind fun sz b1 =>
    if sz ≠ 2 ∧ sz ≠ 3 then .err else
    let recv := { recv with options := none }
    (readString b1).bind fun tag b2 =>
    (EntryList.unmarshal p b2).bind fun es b3 =>
      let m := { recv with tag := tag, entries := es }
      if sz = 3 then (readOptionsOrNil p b3).map fun o => { m with options := o }
      else .ok m b3

/-- `PackedForwardMessage.UnmarshalMsg` / `DecodeMsg` -/
def Packed.unmarshal (p : Path) (recv : Packed) (b : Bytes) : Res Packed :=
  (readArrayHeader b).bind fun sz b1 =>
    if sz ≠ 2 ∧ sz ≠ 3 then .err else
    let recv := { recv with options := none }
    (readString b1).bind fun tag b2 =>
    (readBytes b2).bind fun s b3 =>
      let m := { recv with tag := tag, stream := s }
      if sz = 3 then (readOptionsOrNil p b3).map fun o => { m with options := o }
      else .ok m b3

/-- `EntryList.UnmarshalPacked`: entries one after another until the input is exhausted; on the
first error the entries read so far are kept and the error is returned -/
def unmarshalPackedF : Nat → Bytes → List EntryExt → List EntryExt × Bool
  | 0, _, acc => (acc.reverse, false)
  | f+1, b, acc =>
    if b.isEmpty then (acc.reverse, true)
    else match EntryExt.unmarshal .bytes {} b with
      | .ok e r => unmarshalPackedF f r (e :: acc)
      | _ => (acc.reverse, false)

def unmarshalPacked (b : Bytes) : List EntryExt × Bool := unmarshalPackedF (b.length + 1) b []

end FV
