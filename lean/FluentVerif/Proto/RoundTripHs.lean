import FluentVerif.Proto.Grammar
/-! helper lemmas: handshake and ack messages — encoder followed by parser / decoder -/
set_option linter.unusedSimpArgs false
namespace FV
open Spec

theorem ka : kAck.length < 4294967296 := by decide
theorem kn : kNonce.length < 4294967296 := by decide
theorem kau : kAuth.length < 4294967296 := by decide
theorem kk : kKeepalive.length < 4294967296 := by decide

/-! ### Ack -/

def Ack.obj (a : Ack) : Obj := .map (olist [.str kAck, .str a.ack])

theorem Ack.marshal_parse (a : Ack) (h : lenOK a.ack) (x : Bytes) : parse (a.marshal ++ x) = some (a.obj, x) := by
  simp only [Ack.marshal, List.cons_append, List.nil_append, List.append_assoc]
  exact parse_map_of_seq (header_81 _)
    (parseSeq_cons (parse_appendString kAck _ ka) (parseSeq_cons (parse_appendString a.ack _ h) rfl))

theorem Ack.roundtrip (p : Path) (recv : Ack) (a : Ack) (h : lenOK a.ack) (x : Bytes) :
    Ack.unmarshal p recv (a.marshal ++ x) = .ok a x := by
  simp only [Ack.marshal, List.cons_append, List.nil_append, List.append_assoc]
  unfold Ack.unmarshal
  rw [readMapHeader_of (header_81 _)]
  simp [Res.bind, Res.map, readFields, readMapKey_appendString p kAck _ ka (by decide), Ack.handlers,
    readString_appendString _ _ h]

theorem isAck_obj (a : Ack) : isAck a.obj = true := by
  simp [Ack.obj, olist, isAck, objsToList, kAck]

/-! ### HeloOpts / Helo -/

structure HeloOpts.WF (o : HeloOpts) : Prop where
  nonce : lenOK o.nonce
  auth : lenOK o.auth

def HeloOpts.obj (o : HeloOpts) : Obj :=
  .map (olist [.str kNonce, .bin o.nonce, .str kAuth, .bin o.auth, .str kKeepalive, .bool o.keepalive])

theorem HeloOpts.marshal_parse (o : HeloOpts) (h : o.WF) (x : Bytes) : parse (o.marshal ++ x) = some (o.obj, x) := by
  simp only [HeloOpts.marshal, List.cons_append, List.nil_append, List.append_assoc]
  exact parse_map_of_seq (header_83 _)
    (parseSeq_cons (parse_appendString kNonce _ kn) (parseSeq_cons (parse_appendBytes o.nonce _ h.nonce)
    (parseSeq_cons (parse_appendString kAuth _ kau) (parseSeq_cons (parse_appendBytes o.auth _ h.auth)
    (parseSeq_cons (parse_appendString kKeepalive _ kk) (parseSeq_cons (parse_appendBool o.keepalive x) rfl))))))

theorem HeloOpts.roundtrip (p : Path) (o : HeloOpts) (h : o.WF) (x : Bytes) :
    HeloOpts.unmarshal p {} (o.marshal ++ x) = .ok o x := by
  have n1 : ¬ kAuth = kNonce := by decide
  have n2 : ¬ kKeepalive = kNonce := by decide
  have n3 : ¬ kKeepalive = kAuth := by decide
  simp only [HeloOpts.marshal, List.cons_append, List.nil_append, List.append_assoc]
  unfold HeloOpts.unmarshal
  rw [readMapHeader_of (header_83 _)]
  simp [Res.bind, Res.map, readFields, readMapKey_appendString p kNonce _ kn (by decide),
    readMapKey_appendString p kAuth _ kau (by decide), readMapKey_appendString p kKeepalive _ kk (by decide),
    HeloOpts.handlers, readBytes_appendBytes _ _ h.nonce, readBytes_appendBytes _ _ h.auth,
    readBool_appendBool, n1, n2, n3]

def heloOptsPtrWF : Option HeloOpts → Prop
  | none => True
  | some o => o.WF

def Helo.obj (hl : Helo) : Obj :=
  .arr (olist [.str hl.mtype, (match hl.options with | none => Obj.nil | some o => o.obj)])

theorem Helo.marshal_parse (hl : Helo) (h1 : lenOK hl.mtype) (h2 : heloOptsPtrWF hl.options) (x : Bytes) :
    parse (hl.marshal ++ x) = some (hl.obj, x) := by
  obtain ⟨mt, opts⟩ := hl
  simp only [Helo.marshal, Helo.obj, List.cons_append, List.nil_append, List.append_assoc]
  cases opts with
  | none =>
    exact parse_arr_of_seq (header_92 _)
      (parseSeq_cons (parse_appendString mt _ h1) (parseSeq_cons (parse_appendNil x) rfl))
  | some o =>
    exact parse_arr_of_seq (header_92 _)
      (parseSeq_cons (parse_appendString mt _ h1) (parseSeq_cons (HeloOpts.marshal_parse o h2 x) rfl))

theorem isNil_heloOpts (o : HeloOpts) (r : Bytes) : isNil (o.marshal ++ r) = false := by
  simp [HeloOpts.marshal, isNil]

/-- decoding into a fresh receiver (the handshake code always uses one) -/
theorem Helo.roundtrip (p : Path) (hl : Helo) (h1 : lenOK hl.mtype) (h2 : heloOptsPtrWF hl.options) (x : Bytes) :
    Helo.unmarshal p {} (hl.marshal ++ x) = .ok hl x := by
  obtain ⟨mt, opts⟩ := hl
  simp only [Helo.marshal, List.cons_append, List.nil_append, List.append_assoc]
  unfold Helo.unmarshal
  rw [readArrayHeader_of (header_92 _)]
  cases opts with
  | none => simp [Res.bind, Res.map, readString_appendString _ _ h1, appendNil, isNil, readNil]
  | some o =>
    simp [Res.bind, Res.map, readString_appendString _ _ h1, isNil_heloOpts, HeloOpts.roundtrip p o h2]

theorem isHelo_obj (o : HeloOpts) :
    isHelo (Helo.obj { mtype := [0x48, 0x45, 0x4c, 0x4f], options := some o }) = true := by
  simp [Helo.obj, HeloOpts.obj, olist, isHelo, objsToList, pairs, kNonce, kAuth, kKeepalive, isBin, isStr, isBoolObj]

/-! ### Ping / Pong -/

structure Ping.WF (q : Ping) : Prop where
  mtype : lenOK q.mtype
  hostname : lenOK q.hostname
  salt : lenOK q.salt
  digest : lenOK q.digest
  username : lenOK q.username
  password : lenOK q.password

def Ping.obj (q : Ping) : Obj :=
  .arr (olist [.str q.mtype, .str q.hostname, .bin q.salt, .str q.digest, .str q.username, .str q.password])

theorem Ping.marshal_parse (q : Ping) (h : q.WF) (x : Bytes) : parse (q.marshal ++ x) = some (q.obj, x) := by
  simp only [Ping.marshal, List.cons_append, List.nil_append, List.append_assoc]
  exact parse_arr_of_seq (header_96 _)
    (parseSeq_cons (parse_appendString _ _ h.mtype) (parseSeq_cons (parse_appendString _ _ h.hostname)
    (parseSeq_cons (parse_appendBytes _ _ h.salt) (parseSeq_cons (parse_appendString _ _ h.digest)
    (parseSeq_cons (parse_appendString _ _ h.username) (parseSeq_cons (parse_appendString _ x h.password) rfl))))))

theorem Ping.roundtrip (p : Path) (recv : Ping) (q : Ping) (h : q.WF) (x : Bytes) :
    Ping.unmarshal p recv (q.marshal ++ x) = .ok q x := by
  simp only [Ping.marshal, List.cons_append, List.nil_append, List.append_assoc]
  unfold Ping.unmarshal
  rw [readArrayHeader_of (header_96 _)]
  simp [Res.bind, Res.map, readString_appendString _ _ h.mtype, readString_appendString _ _ h.hostname,
    readBytes_appendBytes _ _ h.salt, readString_appendString _ _ h.digest,
    readString_appendString _ _ h.username, readString_appendString _ _ h.password]

structure Pong.WF (q : Pong) : Prop where
  mtype : lenOK q.mtype
  reason : lenOK q.reason
  hostname : lenOK q.hostname
  digest : lenOK q.digest

def Pong.obj (q : Pong) : Obj :=
  .arr (olist [.str q.mtype, .bool q.authResult, .str q.reason, .str q.hostname, .str q.digest])

theorem Pong.marshal_parse (q : Pong) (h : q.WF) (x : Bytes) : parse (q.marshal ++ x) = some (q.obj, x) := by
  simp only [Pong.marshal, List.cons_append, List.nil_append, List.append_assoc]
  exact parse_arr_of_seq (header_95 _)
    (parseSeq_cons (parse_appendString _ _ h.mtype) (parseSeq_cons (parse_appendBool _ _)
    (parseSeq_cons (parse_appendString _ _ h.reason) (parseSeq_cons (parse_appendString _ _ h.hostname)
    (parseSeq_cons (parse_appendString _ x h.digest) rfl)))))

theorem Pong.roundtrip (p : Path) (recv : Pong) (q : Pong) (h : q.WF) (x : Bytes) :
    Pong.unmarshal p recv (q.marshal ++ x) = .ok q x := by
  simp only [Pong.marshal, List.cons_append, List.nil_append, List.append_assoc]
  unfold Pong.unmarshal
  rw [readArrayHeader_of (header_95 _)]
  simp [Res.bind, Res.map, readString_appendString _ _ h.mtype, readBool_appendBool,
    readString_appendString _ _ h.reason, readString_appendString _ _ h.hostname,
    readString_appendString _ _ h.digest]

theorem isPing_obj (q : Ping) (h : q.mtype = [0x50, 0x49, 0x4e, 0x47]) : isPing q.obj = true := by
  simp [Ping.obj, olist, isPing, objsToList, h, isStr, isBin]

theorem isPong_obj (q : Pong) (h : q.mtype = [0x50, 0x4f, 0x4e, 0x47]) : isPong q.obj = true := by
  simp [Pong.obj, olist, isPong, objsToList, h, isStr, isBoolObj]

end FV
