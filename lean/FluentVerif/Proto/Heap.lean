import FluentVerif.Bytes
/-! Aliasing model for C07: byte storage with an owner per location.  The constructors, packers
and encoders take recycled objects out of `sync.Pool`s, overwrite their storage, hand the caller a
**copy**, and put the objects back.  Any number of calls may be in flight on any number of
goroutines; a schedule is an arbitrary list of steps. -/
namespace FV.Heap

/-- who may touch a location -/
inductive Owner where
  | pooled                       -- storage of an idle object sitting in a pool
  | inFlight (t : Nat)           -- storage of a pooled object taken out by a call of goroutine `t`
  | returned (snapshot : Bytes)  -- handed to a caller; `snapshot` = its content at that moment (ghost)
  | arg (snapshot : Bytes)       -- caller-supplied argument; `snapshot` = its content at the call (ghost)
  | garbage                      -- unreachable (left behind by a reallocation)
deriving DecidableEq

structure Cell where
  owner : Owner
  content : Bytes

abbrev State := List Cell

inductive Step where
  | get (t : Nat) (l : Option Nat)                 -- `Pool.Get`: an idle object, or a new one (`Pool.New`)
  | write (t l : Nat) (content : Bytes) (grow : Bool) -- `Reset` + writes into the object's storage; `grow`: reallocated
  | ret (t l : Nat)                                -- the caller receives a copy of the storage
  | put (t l : Nat)                                -- `Pool.Put`
  | callerArg (content : Bytes)                    -- the caller allocates an argument and passes it in
  | readArg (t l : Nat)                            -- the library reads an argument

def ownerAt (s : State) (l : Nat) : Option Owner := (s[l]?).map (·.owner)

def step (s : State) : Step → State
  | .get t none => s ++ [{ owner := .inFlight t, content := [] }]
  | .get t (some l) =>
    if ownerAt s l = some .pooled then s.modify l (fun c => { c with owner := .inFlight t }) else s
  | .write t l content grow =>
    if ownerAt s l = some (.inFlight t) then
      if grow then (s.modify l fun c => { c with owner := .garbage }) ++ [{ owner := .inFlight t, content := content }]
      else s.modify l fun c => { c with content := content }
    else s
  | .ret t l =>
    match s[l]? with
    | some c => if c.owner = .inFlight t then s ++ [{ owner := .returned c.content, content := c.content }] else s
    | none => s
  | .put t l =>
    if ownerAt s l = some (.inFlight t) then s.modify l (fun c => { c with owner := .pooled }) else s
  | .callerArg content => s ++ [{ owner := .arg content, content := content }]
  | .readArg _ _ => s

/-- every value handed to a caller, and every argument a caller passed in, still reads as it did -/
def Cell.Stable (c : Cell) : Prop :=
  match c.owner with
  | .returned snap => c.content = snap
  | .arg snap => c.content = snap
  | _ => True

def Inv (s : State) : Prop := ∀ c ∈ s, c.Stable

end FV.Heap
