import FluentVerif.Msgp.Inv
import FluentVerif.Msgp.Ext32
import FluentVerif.Proto.Decode
import FluentVerif.Props.C11Lemmas
/-! Completeness of the repository's decoders with respect to the *specification parser*: whatever
legal msgpack encoding another implementation chooses for a message of a Forward mode (any
integer width for the time and for `size`, any string / array / map header class, any ext format
for the EventTime, options in any order, unknown option keys with values of any shape, repeated
keys), the decoder model returns the value the specification parser finds — on both paths, into
any receiver, leaving exactly the rest the parser leaves. -/
namespace FV

/-- the values an option key admits (`size`: an integer in the int64 range or nil; `chunk`,
`compressed`: a string; any other key: anything) -/
def OptValOK (k : Bytes) (v : Obj) : Prop :=
  if k = kSize then (v = .nil ∨ ∃ i, v = .int i ∧ inInt64 i)
  else if k = kChunk ∨ k = kCompressed then ∃ s, v = .str s
  else True

/-- an option map as the protocol describes it: non-empty string keys, admissible values -/
def OptKVsOK : Objs → Prop
  | .nil => True
  | .cons k (.cons v rest) => (∃ s, k = .str s ∧ s ≠ [] ∧ OptValOK s v) ∧ OptKVsOK rest
  | .cons _ .nil => False

/-- what one entry does to the options read so far -/
def applyOpt (o : Options) (k : Bytes) (v : Obj) : Options :=
  if k = kSize then (match v with | .int i => { o with size := some i } | _ => { o with size := none })
  else if k = kChunk then (match v with | .str s => { o with chunk := s } | _ => o)
  else if k = kCompressed then (match v with | .str s => { o with compressed := s } | _ => o)
  else o

/-- the option map as a fold over its entries in wire order (a later entry for the same key wins) -/
def foldOpts : Objs → Options → Options
  | .cons (.str k) (.cons v rest), o => foldOpts rest (applyOpt o k v)
  | _, o => o

theorem handler_complete (p : Path) (k : Bytes) (v : Obj) (o : Options) (b r : Bytes) (hp : parse b = some (v, r))
    (hv : OptValOK k v) (hxv : p = .stream → hasExt32 b = false) :
    (match Options.handlers k with
     | some f => f o b
     | none => (skipP p b).bind fun _ b2 => .ok o b2) = .ok (applyOpt o k v) r := by
  unfold Options.handlers applyOpt OptValOK at *
  by_cases h1 : k = kSize
  · simp only [h1, if_true] at hv ⊢
    unfold Options.sizeField
    rcases hv with rfl | ⟨i, rfl, hi⟩
    · rw [isNil_of_parse_nil hp, if_pos rfl, readNil_of_parse hp]; rfl
    · rw [isNil_false_of_parse hp (by intro e; cases e)]
      simp only [Bool.false_eq_true, if_false]
      rw [readInt64_of_parse hp hi]; rfl
  · simp only [h1, if_false] at hv ⊢
    by_cases h2 : k = kChunk
    · simp only [h2, true_or, if_true] at hv ⊢
      obtain ⟨s, rfl⟩ := hv
      rw [readString_of_parse hp]; rfl
    · simp only [h2, false_or, if_false] at hv ⊢
      by_cases h3 : k = kCompressed
      · simp only [h3, if_true] at hv ⊢
        obtain ⟨s, rfl⟩ := hv
        rw [readString_of_parse hp]; rfl
      · simp only [h3, if_false]
        rw [skipP_of_parse hp hxv]; rfl

theorem readMapKey_of_parse_str (p : Path) {b s r} (h : parse b = some (.str s, r)) (hne : s ≠ []) :
    readMapKey p b = .ok s r := by
  cases p with
  | bytes => rw [readMapKey_bytes_of_parse h]
  | stream => exact readMapKey_stream_of_parse h hne

/-- the generated field loop of `MessageOptions` on a conforming option map -/
theorem readFields_options_complete (p : Path) : ∀ (n : Nat) (b : Bytes) (kvs : Objs) (r : Bytes) (o : Options),
    parseSeq (2*n) b = some (kvs, r) → OptKVsOK kvs → (p = .stream → ext32Seq (2*n) b = false) →
    readFields p Options.handlers n o b = .ok (foldOpts kvs o) r
  | 0, b, kvs, r, o, h, _, _ => by
    simp only [Nat.mul_zero, parseSeq, Option.some.injEq, Prod.mk.injEq] at h
    obtain ⟨rfl, rfl⟩ := h
    simp [readFields, foldOpts]
  | n+1, b, kvs, r, o, h, hk, hxs => by
    have e : 2 * (n + 1) = (2 * n + 1) + 1 := by omega
    rw [e] at h hxs
    cases kvs with
    | nil => exact absurd (parseSeq_nil_inv h).1 (by omega)
    | cons x xs =>
      obtain ⟨m, b1, hm, hx, h1⟩ := parseSeq_cons_inv h
      have hm' : m = 2 * n + 1 := by omega
      subst hm'
      cases xs with
      | nil => exact absurd (parseSeq_nil_inv h1).1 (by omega)
      | cons v rest =>
        obtain ⟨m2, b2, hm2, hv, h2⟩ := parseSeq_cons_inv h1
        have hm2' : m2 = 2 * n := by omega
        subst hm2'
        simp only [OptKVsOK] at hk
        obtain ⟨⟨s, rfl, hne, hval⟩, hrest⟩ := hk
        unfold readFields
        rw [readMapKey_of_parse_str p hx hne]
        simp only [Res.bind]
        have hxv : p = .stream → hasExt32 b1 = false := fun hp' =>
          (ext32Seq_cons (ext32Seq_cons (hxs hp') hx).2 hv).1
        have hx2 : p = .stream → ext32Seq (2 * n) b2 = false := fun hp' =>
          (ext32Seq_cons (ext32Seq_cons (hxs hp') hx).2 hv).2
        have hc := handler_complete p s v o b1 b2 hv hval hxv
        cases hh : Options.handlers s with
        | some f =>
          rw [hh] at hc; simp only at hc
          simp only [hc, foldOpts]
          exact readFields_options_complete p n b2 rest r _ h2 hrest hx2
        | none =>
          rw [hh] at hc; simp only at hc
          have hskip := skipP_of_parse hv hxv
          rw [hskip] at hc
          simp only [Res.bind, Res.ok.injEq, and_true] at hc
          simp only [hskip, foldOpts, ← hc]
          exact readFields_options_complete p n b2 rest r _ h2 hrest hx2

/-- `MessageOptions` decoding of any conforming option map -/
theorem Options.unmarshal_complete (p : Path) (recv : Options) {b kvs r} (h : parse b = some (.map kvs, r))
    (hk : OptKVsOK kvs) (hx : p = .stream → hasExt32 b = false) :
    Options.unmarshal p recv b = .ok (foldOpts kvs recv) r := by
  obtain ⟨n, r0, hh, hs⟩ := readMapHeader_of_parse h
  have hhd := readMapHeader_sound hh
  unfold Options.unmarshal
  rw [hh]; simp only [Res.bind]
  exact readFields_options_complete p n r0 kvs r recv hs hk (fun hp' => by rw [← hasExt32_map hhd hs]; exact hx hp')

/-- the trailing option element: nil or a conforming map -/
def OptObjOK : Obj → Prop
  | .nil => True
  | .map kvs => OptKVsOK kvs
  | _ => False

def optOfObj : Obj → Option Options
  | .map kvs => some (foldOpts kvs {})
  | _ => none

theorem readOptionsOrNil_complete (p : Path) {b o r} (h : parse b = some (o, r)) (ho : OptObjOK o)
    (hx : p = .stream → hasExt32 b = false) :
    readOptionsOrNil p b = .ok (optOfObj o) r := by
  unfold readOptionsOrNil
  cases o with
  | nil => rw [isNil_of_parse_nil h, if_pos rfl, readNil_of_parse h]; rfl
  | map kvs =>
    rw [isNil_false_of_parse h (by intro e; cases e)]
    simp only [Bool.false_eq_true, if_false]
    rw [Options.unmarshal_complete p {} h ho hx]; rfl
  | _ => simp [OptObjOK] at ho

end FV

namespace FV

/-- the optional fourth / third element -/
def TailOK : Objs → Prop
  | .nil => True
  | .cons opt .nil => OptObjOK opt
  | _ => False

def optOfTail : Objs → Option Options
  | .cons opt _ => optOfObj opt
  | .nil => none

theorem parseSeq_zero_inv {b xs r} (h : parseSeq 0 b = some (xs, r)) : xs = .nil ∧ r = b := by
  simp only [parseSeq, Option.some.injEq, Prod.mk.injEq] at h
  exact ⟨h.1.symm, h.2.symm⟩

/-- the tail of a mode array: nothing (3 / 2 elements) or the option element (4 / 3 elements) -/
theorem tail_complete (p : Path) {m b tail r} (hs : parseSeq m b = some (tail, r)) (ht : TailOK tail)
    (hx : p = .stream → ext32Seq m b = false) :
    (m = 0 ∧ tail = .nil ∧ r = b) ∨ (m = 1 ∧ readOptionsOrNil p b = .ok (optOfTail tail) r) := by
  cases tail with
  | nil => obtain ⟨h1, h2⟩ := parseSeq_nil_inv hs; exact Or.inl ⟨h1, rfl, h2⟩
  | cons opt rest =>
    cases rest with
    | cons _ _ => simp [TailOK] at ht
    | nil =>
      obtain ⟨m', b1, hm, ho, h1⟩ := parseSeq_cons_inv hs
      obtain ⟨hm0, hr⟩ := parseSeq_nil_inv h1
      subst hm0; subst hr
      subst hm
      have hxo : p = .stream → hasExt32 b = false := fun hp' => (ext32Seq_cons (hx hp') ho).1
      exact Or.inr ⟨rfl, by simpa [optOfTail] using readOptionsOrNil_complete p ho ht hxo⟩

/-- **Message mode, any conforming encoding** -/
theorem Message.unmarshal_complete (p : Path) (recv : Message) {b r : Bytes} {tag : Bytes} {i : Int} {rec : Obj}
    {tail : Objs}
    (h : parse b = some (.arr (.cons (.str tag) (.cons (.int i) (.cons rec tail))), r))
    (hi : inInt64 i) (hrec : Obj.Plain rec) (ht : TailOK tail) (hx : p = .stream → hasExt32 b = false) :
    Message.unmarshal p recv b = .ok { tag := tag, ts := i, record := rec, options := optOfTail tail } r := by
  obtain ⟨n, r0, hh, hs⟩ := readArrayHeader_of_parse h
  obtain ⟨n1, b1, e1, p1, s1⟩ := parseSeq_cons_inv hs
  obtain ⟨n2, b2, e2, p2, s2⟩ := parseSeq_cons_inv s1
  obtain ⟨n3, b3, e3, p3, s3⟩ := parseSeq_cons_inv s2
  have hx3 : p = .stream → ext32Seq n3 b3 = false := fun hp' => by
    have h0 : ext32Seq n r0 = false := by rw [← hasExt32_arr (readArrayHeader_sound hh) hs]; exact hx hp'
    subst e1; subst e2; subst e3
    exact (ext32Seq_cons (ext32Seq_cons (ext32Seq_cons h0 p1).2 p2).2 p3).2
  unfold Message.unmarshal
  rw [hh]; simp only [Res.bind]
  rcases tail_complete p s3 ht hx3 with ⟨h0, rfl, rfl⟩ | ⟨h1, hopt⟩
  · have : n = 3 := by omega
    subst this
    simp [readString_of_parse p1, readInt64_of_parse p2 hi, readIntf_complete p p3 hrec, Res.bind, optOfTail]
  · have : n = 4 := by omega
    subst this
    simp [readString_of_parse p1, readInt64_of_parse p2 hi, readIntf_complete p p3 hrec, Res.bind, hopt, Res.map]

/-- **Message mode with EventTime, any conforming encoding** (the EventTime in any ext format) -/
theorem MessageExt.unmarshal_complete (p : Path) (recv : MessageExt) {b r : Bytes} {tag d : Bytes} {rec : Obj}
    {tail : Objs}
    (h : parse b = some (.arr (.cons (.str tag) (.cons (.ext 0 d) (.cons rec tail))), r))
    (hd : d.length = 8) (hrec : Obj.Plain rec) (ht : TailOK tail) (hx : p = .stream → hasExt32 b = false) :
    ∃ ts, decodeET d = some ts ∧
      MessageExt.unmarshal p recv b = .ok { tag := tag, ts := ts, record := rec, options := optOfTail tail } r := by
  obtain ⟨n, r0, hh, hs⟩ := readArrayHeader_of_parse h
  obtain ⟨n1, b1, e1, p1, s1⟩ := parseSeq_cons_inv hs
  obtain ⟨n2, b2, e2, p2, s2⟩ := parseSeq_cons_inv s1
  obtain ⟨n3, b3, e3, p3, s3⟩ := parseSeq_cons_inv s2
  have hx3 : p = .stream → ext32Seq n3 b3 = false := fun hp' => by
    have h0 : ext32Seq n r0 = false := by rw [← hasExt32_arr (readArrayHeader_sound hh) hs]; exact hx hp'
    subst e1; subst e2; subst e3
    exact (ext32Seq_cons (ext32Seq_cons (ext32Seq_cons h0 p1).2 p2).2 p3).2
  obtain ⟨ts, hts, hread⟩ := readEventTime_of_parse p2 hd
  refine ⟨ts, hts, ?_⟩
  unfold MessageExt.unmarshal
  rw [hh]; simp only [Res.bind]
  rcases tail_complete p s3 ht hx3 with ⟨h0, rfl, rfl⟩ | ⟨h1, hopt⟩
  · have : n = 3 := by omega
    subst this
    simp [readString_of_parse p1, hread, readIntf_complete p p3 hrec, Res.bind, optOfTail]
  · have : n = 4 := by omega
    subst this
    simp [readString_of_parse p1, hread, readIntf_complete p p3 hrec, Res.bind, hopt, Res.map]

/-- **PackedForward mode, any conforming encoding** -/
theorem Packed.unmarshal_complete (p : Path) (recv : Packed) {b r : Bytes} {tag s : Bytes} {tail : Objs}
    (h : parse b = some (.arr (.cons (.str tag) (.cons (.bin s) tail)), r)) (ht : TailOK tail)
    (hx : p = .stream → hasExt32 b = false) :
    Packed.unmarshal p recv b = .ok { tag := tag, stream := s, options := optOfTail tail } r := by
  obtain ⟨n, r0, hh, hs⟩ := readArrayHeader_of_parse h
  obtain ⟨n1, b1, e1, p1, s1⟩ := parseSeq_cons_inv hs
  obtain ⟨n2, b2, e2, p2, s2⟩ := parseSeq_cons_inv s1
  have hx2 : p = .stream → ext32Seq n2 b2 = false := fun hp' => by
    have h0 : ext32Seq n r0 = false := by rw [← hasExt32_arr (readArrayHeader_sound hh) hs]; exact hx hp'
    subst e1; subst e2
    exact (ext32Seq_cons (ext32Seq_cons h0 p1).2 p2).2
  unfold Packed.unmarshal
  rw [hh]; simp only [Res.bind]
  rcases tail_complete p s2 ht hx2 with ⟨h0, rfl, rfl⟩ | ⟨h1, hopt⟩
  · have : n = 2 := by omega
    subst this
    simp [readString_of_parse p1, readBytes_of_parse p2, Res.bind, optOfTail]
  · have : n = 3 := by omega
    subst this
    simp [readString_of_parse p1, readBytes_of_parse p2, Res.bind, hopt, Res.map]

/-! ### Forward mode: entries -/

/-- an entry as the protocol describes it: `[EventTime, record]` -/
def EntryObjOK : Obj → Prop
  | .arr (.cons (.ext t d) (.cons rec .nil)) => t = 0 ∧ d.length = 8 ∧ Obj.Plain rec
  | _ => False

def entryOfObj : Obj → EntryExt
  | .arr (.cons (.ext _ d) (.cons rec _)) => { ts := (decodeET d).getD { sec := 0, nsec := 0 }, record := rec }
  | _ => {}

def EntriesOK : Objs → Prop
  | .nil => True
  | .cons e es => EntryObjOK e ∧ EntriesOK es

def entriesOfObjs : Objs → List EntryExt
  | .nil => []
  | .cons e es => entryOfObj e :: entriesOfObjs es

theorem EntryExt.unmarshal_complete (p : Path) (recv : EntryExt) {b r e} (h : parse b = some (e, r)) (he : EntryObjOK e) :
    EntryExt.unmarshal p recv b = .ok (entryOfObj e) r := by
  match e, he with
  | .arr (.cons (.ext t d) (.cons rec .nil)), ⟨ht0, hd, hrec⟩ =>
    subst ht0
    obtain ⟨n, r0, hh, hs⟩ := readArrayHeader_of_parse h
    obtain ⟨n1, b1, e1, p1, s1⟩ := parseSeq_cons_inv hs
    obtain ⟨n2, b2, e2, p2, s2⟩ := parseSeq_cons_inv s1
    obtain ⟨h0, hr⟩ := parseSeq_nil_inv s2
    subst hr
    have : n = 2 := by omega
    subst this
    obtain ⟨ts, hts, hread⟩ := readEventTime_of_parse p1 hd
    unfold EntryExt.unmarshal
    rw [hh]
    simp [Res.bind, hread, readIntf_complete p p2 hrec, Res.map, entryOfObj, hts]

theorem readEntries_complete (p : Path) : ∀ (n : Nat) (b : Bytes) (es : Objs) (r : Bytes),
    parseSeq n b = some (es, r) → EntriesOK es → readEntries p n b = .ok (entriesOfObjs es) r
  | 0, b, es, r, h, _ => by
    obtain ⟨rfl, rfl⟩ := parseSeq_zero_inv h
    simp [readEntries, entriesOfObjs]
  | n+1, b, es, r, h, hk => by
    cases es with
    | nil => exact absurd (parseSeq_nil_inv h).1 (by omega)
    | cons e rest =>
      obtain ⟨m, b1, hm, he, h1⟩ := parseSeq_cons_inv h
      have : m = n := by omega
      subst this
      simp only [EntriesOK] at hk
      unfold readEntries
      rw [EntryExt.unmarshal_complete p {} he hk.1]
      simp only [Res.bind]
      rw [readEntries_complete p m b1 rest r h1 hk.2]
      simp [Res.map, entriesOfObjs]

/-- **Forward mode, any conforming encoding** -/
theorem Forward.unmarshal_complete (p : Path) (recv : Forward) {b r : Bytes} {tag : Bytes} {es tail : Objs}
    (h : parse b = some (.arr (.cons (.str tag) (.cons (.arr es) tail)), r)) (hes : EntriesOK es) (ht : TailOK tail)
    (hx : p = .stream → hasExt32 b = false) :
    Forward.unmarshal p recv b = .ok { tag := tag, entries := entriesOfObjs es, options := optOfTail tail } r := by
  obtain ⟨n, r0, hh, hs⟩ := readArrayHeader_of_parse h
  obtain ⟨n1, b1, e1, p1, s1⟩ := parseSeq_cons_inv hs
  obtain ⟨n2, b2, e2, p2, s2⟩ := parseSeq_cons_inv s1
  have hx2 : p = .stream → ext32Seq n2 b2 = false := fun hp' => by
    have h0 : ext32Seq n r0 = false := by rw [← hasExt32_arr (readArrayHeader_sound hh) hs]; exact hx hp'
    subst e1; subst e2
    exact (ext32Seq_cons (ext32Seq_cons h0 p1).2 p2).2
  obtain ⟨k, r1, hk, hks⟩ := readArrayHeader_of_parse p2
  have hel : EntryList.unmarshal p b1 = .ok (entriesOfObjs es) b2 := by
    unfold EntryList.unmarshal
    rw [hk]; simp only [Res.bind]
    exact readEntries_complete p k r1 es b2 hks hes
  unfold Forward.unmarshal
  rw [hh]; simp only [Res.bind]
  rcases tail_complete p s2 ht hx2 with ⟨h0, rfl, rfl⟩ | ⟨h1, hopt⟩
  · have : n = 2 := by omega
    subst this
    simp [readString_of_parse p1, hel, Res.bind, optOfTail]
  · have : n = 3 := by omega
    subst this
    simp [readString_of_parse p1, hel, Res.bind, hopt, Res.map]

end FV
