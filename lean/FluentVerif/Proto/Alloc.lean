import FluentVerif.Msgp.Alloc
import FluentVerif.Proto.DecodeLemmas2
/-! # Elements requested by the repository's slice decoders (C10, memory clause)

The count-sized requests of the `UnmarshalMsg` family: msgp's `ReadIntfBytes` for every record
(`Msgp/Alloc.lean`) and `make(EntryList, n)` in the generated `EntryList.UnmarshalMsg` (a fresh receiver;
a receiver with enough capacity is re-sliced instead).  Each function follows its decoder of
`Proto/Decode.lean` and stops where the decoder stops.  The option / ack / handshake decoders make
no count-sized request at all (`Gen/Alloc.lean` lists the `make` calls of the package whose size is
not a constant or a `len(…)`; `Tie/Alloc.lean` pins that list). -/
namespace FV

theorem Reads1.lt {b r} (h : Reads1 b r) : r.length < b.length := by
  obtain ⟨o, ho⟩ := h; exact parse_shrinks ho

def Entry.alloc (b : Bytes) : Nat :=
  match readArrayHeader b with
  | .ok sz b1 => if sz ≠ 2 then 0 else
    match readInt64 b1 with
    | .ok _ b2 => allocIntf b2
    | _ => 0
  | _ => 0

def EntryExt.alloc (b : Bytes) : Nat :=
  match readArrayHeader b with
  | .ok sz b1 => if sz ≠ 2 then 0 else
    match readEventTime b1 with
    | .ok _ b2 => allocIntf b2
    | _ => 0
  | _ => 0

/-- the element loop of `EntryList.UnmarshalMsg` -/
def readEntriesAlloc : Nat → Bytes → Nat
  | 0, _ => 0
  | n+1, b => EntryExt.alloc b + (match EntryExt.unmarshal .bytes {} b with
      | .ok _ b1 => readEntriesAlloc n b1
      | _ => 0)

/-- `make(EntryList, n)` first, then the elements -/
def EntryList.alloc (b : Bytes) : Nat :=
  match readArrayHeader b with
  | .ok n b1 => n + readEntriesAlloc n b1
  | _ => 0

def Message.alloc (b : Bytes) : Nat :=
  match readArrayHeader b with
  | .ok sz b1 => if sz ≠ 3 ∧ sz ≠ 4 then 0 else
    match readString b1 with
    | .ok _ b2 =>
      match readInt64 b2 with
      | .ok _ b3 => allocIntf b3
      | _ => 0
    | _ => 0
  | _ => 0

def MessageExt.alloc (b : Bytes) : Nat :=
  match readArrayHeader b with
  | .ok sz b1 => if sz ≠ 3 ∧ sz ≠ 4 then 0 else
    match readString b1 with
    | .ok _ b2 =>
      match readEventTime b2 with
      | .ok _ b3 => allocIntf b3
      | _ => 0
    | _ => 0
  | _ => 0

def Forward.alloc (b : Bytes) : Nat :=
  match readArrayHeader b with
  | .ok sz b1 => if sz ≠ 2 ∧ sz ≠ 3 then 0 else
    match readString b1 with
    | .ok _ b2 => EntryList.alloc b2
    | _ => 0
  | _ => 0

/-- `UnmarshalPacked`: the entries are appended one by one (amortised, no declared count), each record
goes through `ReadIntfBytes` -/
def unmarshalPackedAllocF : Nat → Bytes → Nat
  | 0, _ => 0
  | f+1, b =>
    if b.isEmpty then 0
    else EntryExt.alloc b + (match EntryExt.unmarshal .bytes {} b with
      | .ok _ r => unmarshalPackedAllocF f r
      | _ => 0)

def unmarshalPackedAlloc (b : Bytes) : Nat := unmarshalPackedAllocF (b.length + 1) b

/-! ### accepted input ⇒ fewer elements requested than bytes consumed -/

theorem EntryExt.alloc_le {recv b e r} (h : EntryExt.unmarshal .bytes recv b = .ok e r) :
    EntryExt.alloc b + 1 + r.length ≤ b.length := by
  unfold EntryExt.unmarshal at h
  unfold EntryExt.alloc
  obtain ⟨sz, b1, h1, h⟩ := Res.bind_ok.1 h
  simp only [h1]
  split at h
  · cases h
  · next hsz =>
    simp only [hsz, if_false]
    obtain ⟨ts, b2, h2, h⟩ := Res.bind_ok.1 h
    simp only [h2]
    obtain ⟨o, h3, _⟩ := Res.map_ok.1 h
    have := allocIntf_le h3
    have := header_shrinks (readArrayHeader_sound h1)
    have := (readEventTime_sound h2).lt
    omega

theorem Entry.alloc_le {recv b e r} (h : Entry.unmarshal .bytes recv b = .ok e r) :
    Entry.alloc b + 1 + r.length ≤ b.length := by
  unfold Entry.unmarshal at h
  unfold Entry.alloc
  obtain ⟨sz, b1, h1, h⟩ := Res.bind_ok.1 h
  simp only [h1]
  split at h
  · cases h
  · next hsz =>
    simp only [hsz, if_false]
    obtain ⟨ts, b2, h2, h⟩ := Res.bind_ok.1 h
    simp only [h2]
    obtain ⟨o, h3, _⟩ := Res.map_ok.1 h
    have := allocIntf_le h3
    have := header_shrinks (readArrayHeader_sound h1)
    have := parse_shrinks (readInt64_sound h2)
    omega

theorem readEntriesAlloc_le : ∀ (n : Nat) (b : Bytes) (es r), readEntries .bytes n b = .ok es r →
    readEntriesAlloc n b + n + r.length ≤ b.length
  | 0, b, es, r, h => by
    simp [readEntries] at h; obtain ⟨_, rfl⟩ := h; simp [readEntriesAlloc]
  | n+1, b, es, r, h => by
    unfold readEntries at h
    obtain ⟨e, b1, h1, h2⟩ := Res.bind_ok.1 h
    obtain ⟨es', h3, _⟩ := Res.map_ok.1 h2
    unfold readEntriesAlloc
    simp only [h1]
    have := EntryExt.alloc_le h1
    have := readEntriesAlloc_le n b1 es' r h3
    omega

theorem EntryList.alloc_le {b es r} (h : EntryList.unmarshal .bytes b = .ok es r) :
    EntryList.alloc b + 1 + r.length ≤ b.length := by
  unfold EntryList.unmarshal at h
  unfold EntryList.alloc
  obtain ⟨n, b1, h1, h⟩ := Res.bind_ok.1 h
  simp only [h1]
  have := readEntriesAlloc_le n b1 es r h
  have := header_shrinks (readArrayHeader_sound h1)
  omega

theorem readOptionsOrNil_le {p b o r} (h : readOptionsOrNil p b = .ok o r) : r.length ≤ b.length :=
  Nat.le_of_lt (readOptionsOrNil_sound h).lt

theorem Message.alloc_le {recv b v r} (h : Message.unmarshal .bytes recv b = .ok v r) :
    Message.alloc b + r.length ≤ b.length := by
  unfold Message.unmarshal at h
  unfold Message.alloc
  obtain ⟨sz, b1, h1, h⟩ := Res.bind_ok.1 h
  simp only [h1]
  split at h
  · cases h
  · next hsz =>
    simp only [hsz, if_false]
    obtain ⟨tag, b2, h2, h⟩ := Res.bind_ok.1 h
    obtain ⟨ts, b3, h3, h⟩ := Res.bind_ok.1 h
    obtain ⟨rec, b4, h4, h⟩ := Res.bind_ok.1 h
    simp only [h2, h3]
    have := allocIntf_le h4
    have := header_shrinks (readArrayHeader_sound h1)
    have := parse_shrinks (readString_sound h2)
    have := parse_shrinks (readInt64_sound h3)
    split at h
    · obtain ⟨o, h5, _⟩ := Res.map_ok.1 h
      have := readOptionsOrNil_le h5
      omega
    · cases h; omega

theorem MessageExt.alloc_le {recv b v r} (h : MessageExt.unmarshal .bytes recv b = .ok v r) :
    MessageExt.alloc b + r.length ≤ b.length := by
  unfold MessageExt.unmarshal at h
  unfold MessageExt.alloc
  obtain ⟨sz, b1, h1, h⟩ := Res.bind_ok.1 h
  simp only [h1]
  split at h
  · cases h
  · next hsz =>
    simp only [hsz, if_false]
    obtain ⟨tag, b2, h2, h⟩ := Res.bind_ok.1 h
    obtain ⟨ts, b3, h3, h⟩ := Res.bind_ok.1 h
    obtain ⟨rec, b4, h4, h⟩ := Res.bind_ok.1 h
    simp only [h2, h3]
    have := allocIntf_le h4
    have := header_shrinks (readArrayHeader_sound h1)
    have := parse_shrinks (readString_sound h2)
    have := (readEventTime_sound h3).lt
    split at h
    · obtain ⟨o, h5, _⟩ := Res.map_ok.1 h
      have := readOptionsOrNil_le h5
      omega
    · cases h; omega

theorem Forward.alloc_le {recv b v r} (h : Forward.unmarshal .bytes recv b = .ok v r) :
    Forward.alloc b + r.length ≤ b.length := by
  unfold Forward.unmarshal at h
  unfold Forward.alloc
  obtain ⟨sz, b1, h1, h⟩ := Res.bind_ok.1 h
  simp only [h1]
  split at h
  · cases h
  · next hsz =>
    simp only [hsz, if_false]
    obtain ⟨tag, b2, h2, h⟩ := Res.bind_ok.1 h
    obtain ⟨es, b3, h3, h⟩ := Res.bind_ok.1 h
    simp only [h2]
    have := EntryList.alloc_le h3
    have := header_shrinks (readArrayHeader_sound h1)
    have := parse_shrinks (readString_sound h2)
    split at h
    · obtain ⟨o, h5, _⟩ := Res.map_ok.1 h
      have := readOptionsOrNil_le h5
      omega
    · cases h; omega

/-- `UnmarshalPacked` that reads the whole stream (no error) requested fewer elements than bytes -/
theorem unmarshalPackedAllocF_le : ∀ (f : Nat) (b : Bytes) (acc : List EntryExt) (es),
    unmarshalPackedF f b acc = (es, true) → unmarshalPackedAllocF f b ≤ b.length
  | 0, _, _, _, h => by simp [unmarshalPackedF] at h
  | f+1, b, acc, es, h => by
    unfold unmarshalPackedF at h
    unfold unmarshalPackedAllocF
    split at h
    · next he => simp [he]
    · next he =>
      simp only [he]
      split at h
      · next e r h1 =>
        simp only [h1]
        have := EntryExt.alloc_le h1
        have := unmarshalPackedAllocF_le f r _ es h
        simp; omega
      · simp at h

end FV
