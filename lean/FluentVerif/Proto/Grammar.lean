import FluentVerif.Proto.RoundTrip
/-! helper lemmas: the objects the encoders produce satisfy the Forward Protocol v1 grammar of
`Forward/Spec.lean` -/
set_option linter.unusedSimpArgs false
namespace FV
open Spec

theorem isRecord_kvs : ∀ (kvs : GoKVs), (pairs (objsToList kvs.toObjs)).all (fun (k, _) => isStr k) = true
  | .nil => by simp [GoKVs.toObjs, objsToList, pairs]
  | .cons k v r => by
    simp only [GoKVs.toObjs, objsToList, pairs, List.all_cons, isStr, Bool.true_and]
    exact isRecord_kvs r

theorem isRecord_map (kvs : GoKVs) : isRecord (GoVal.toObj (.map kvs)) = true := by
  simp only [GoVal.toObj, isRecord]; exact isRecord_kvs kvs

theorem isOptionMap_toObj (o : Options) : isOptionMap o.toObj = true := by
  obtain ⟨size, chunk, compressed⟩ := o
  cases size with
  | none =>
    by_cases e2 : chunk = [] <;> by_cases e3 : compressed = [] <;>
      simp [Options.toObj, isOptionMap, objsToList, pairs, e2, e3, kSize, kChunk, kCompressed, sSize, sChunk, sCompressed]
  | some i =>
    by_cases e2 : chunk = [] <;> by_cases e3 : compressed = [] <;>
      simp [Options.toObj, isOptionMap, objsToList, pairs, e2, e3, kSize, kChunk, kCompressed, sSize, sChunk, sCompressed]

theorem isOptionOrNil_ptr (opts : Option Options) : isOptionOrNil (optPtrObj opts) = true := by
  cases opts with
  | none => simp [optPtrObj, isOptionOrNil, isNilObj]
  | some o => simp [optPtrObj, isOptionOrNil, isOptionMap_toObj]

theorem isEventTimeObj_enc (t : Instant) : isEventTimeObj (.ext 0 (encodeET t)) = true := by
  simp [isEventTimeObj, encodeET_length]

theorem isMessage_obj (tag ts kvs opts) : isMessage (Message.obj tag ts (.map kvs) opts) = true := by
  simp [Message.obj, olist, isMessage, objsToList, isStr, isInt, isRecord_map, isOptionOrNil_ptr]

theorem isMessageExt_obj (tag ts kvs opts) : isMessageExt (MessageExt.obj tag ts (.map kvs) opts) = true := by
  simp [MessageExt.obj, olist, isMessageExt, objsToList, isStr, isEventTimeObj_enc, isRecord_map, isOptionOrNil_ptr]

/-- all records of an entry list are maps -/
def recordsAreMaps : List (Instant × GoVal) → Prop
  | [] => True
  | (_, r) :: es => (∃ kvs, r = .map kvs) ∧ recordsAreMaps es

theorem entries_all_isEntry : ∀ (es : List (Instant × GoVal)), recordsAreMaps es →
    (objsToList (entriesObjs es)).all isEntry = true
  | [], _ => by simp [entriesObjs, objsToList]
  | (t, r) :: es, h => by
    obtain ⟨⟨kvs, rfl⟩, h2⟩ := h
    simp only [entriesObjs, objsToList, List.all_cons, Bool.and_eq_true]
    refine ⟨?_, entries_all_isEntry es h2⟩
    simp [EntryExt.obj, olist, isEntry, objsToList, isEventTimeObj_enc, isRecord_map]

theorem isForward_obj (tag es opts) (h : recordsAreMaps es) : isForward (Forward.obj tag es opts) = true := by
  cases opts with
  | none => simp [Forward.obj, olist, isForward, objsToList, isStr, entries_all_isEntry es h]
  | some o =>
    simp [Forward.obj, olist, isForward, objsToList, isStr, entries_all_isEntry es h, isOptionOrNil, isOptionMap_toObj]

theorem isPacked_obj (tag stream opts) : isPacked (Packed.obj tag stream opts) = true := by
  simp [Packed.obj, olist, isPacked, objsToList, isStr, isBin, isOptionOrNil_ptr]

end FV
