import FluentVerif.Proto.Decode
/-! Model of `GetChunk` (fluent/protocol/chunk.go): the positional walker that looks up the
`chunk` option without decoding the message.  It runs on a `*msgp.Reader` over the given bytes. -/
namespace FV

/-- `NextType ∈ {ExtensionType, IntType, UintType}` (stream `NextType` reports msgp's own
extension types 3/4/5 as complex/time, which the walker does not treat as a timestamp) -/
def isTimestampType (b : Bytes) : Bool :=
  match header b with
  | some (.scalar (.int _), _) => true
  | some (.ext _, t :: _) => t != 3 && t != 4 && t != 5
  | _ => false

/-- the key loop: `ReadMapKeyPtr`; on `chunk` the value is read with `ReadMapKey` (str or bin) -/
def getChunkKeys : Nat → Bytes → Res Bytes
  | 0, _ => .err
  | n+1, b =>
    (readMapKey .stream b).bind fun k b1 =>
      if k = kChunk then readMapKey .bytes b1
      else (skipP .stream b1).bind fun _ b2 => getChunkKeys n b2

/-- `GetChunk` -/
def getChunk (b : Bytes) : Res Bytes :=
  (readArrayHeader b).bind fun sz b1 =>
    if sz = 2 then .err else
    (skipP .stream b1).bind fun _ b2 =>
    (if isTimestampType b2 then (if sz = 3 then .err else skipP .stream b2) else .ok () b2).bind fun _ b3 =>
    (skipP .stream b3).bind fun _ b4 =>
    (readMapHeader b4).bind fun n b5 => getChunkKeys n b5

end FV
