import FluentVerif.Proto.Types
/-! Model of `makeChunkID` (base64.StdEncoding of a version-4 UUID, i.e. of a masked 16-byte
random draw) and of the `Chunk()` method shared by the four message types. -/
namespace FV

/-- base64 alphabet -/
def b64char (n : Nat) : UInt8 :=
  if n < 26 then UInt8.ofNat (65 + n)
  else if n < 52 then UInt8.ofNat (97 + (n - 26))
  else if n < 62 then UInt8.ofNat (48 + (n - 52))
  else if n = 62 then 43 else 47

def b64val (c : UInt8) : Option Nat :=
  let v := c.toNat
  if 65 ≤ v ∧ v ≤ 90 then some (v - 65)
  else if 97 ≤ v ∧ v ≤ 122 then some (v - 97 + 26)
  else if 48 ≤ v ∧ v ≤ 57 then some (v - 48 + 52)
  else if v = 43 then some 62
  else if v = 47 then some 63
  else none

/-- `base64.StdEncoding.EncodeToString` -/
def b64enc : Bytes → Bytes
  | a :: b :: c :: r =>
    let n := a.toNat * 65536 + b.toNat * 256 + c.toNat
    b64char (n / 262144) :: b64char (n / 4096 % 64) :: b64char (n / 64 % 64) :: b64char (n % 64) :: b64enc r
  | [a, b] =>
    let n := a.toNat * 1024 + b.toNat * 4
    [b64char (n / 4096), b64char (n / 64 % 64), b64char (n % 64), 61]
  | [a] =>
    let n := a.toNat * 16
    [b64char (n / 64), b64char (n % 64), 61, 61]
  | [] => []

/-- the inverse reading (strict: canonical padding only) -/
def b64dec : Bytes → Option Bytes
  | [] => some []
  | w :: x :: y :: z :: r =>
    if z = 61 then
      if r ≠ [] then none
      else if y = 61 then
        (b64val w).bind fun p => (b64val x).bind fun q =>
          let n := p * 64 + q
          if n % 16 = 0 then some [UInt8.ofNat (n / 16)] else none
      else
        (b64val w).bind fun p => (b64val x).bind fun q => (b64val y).bind fun s =>
          let n := p * 4096 + q * 64 + s
          if n % 4 = 0 then some [UInt8.ofNat (n / 1024), UInt8.ofNat (n / 4 % 256)] else none
    else
      (b64val w).bind fun p => (b64val x).bind fun q => (b64val y).bind fun s => (b64val z).bind fun t =>
        let n := p * 262144 + q * 4096 + s * 64 + t
        (b64dec r).map fun rest =>
          UInt8.ofNat (n / 65536) :: UInt8.ofNat (n / 256 % 256) :: UInt8.ofNat (n % 256) :: rest
  | _ => none

/-- `uuid.NewRandom`: version 4, RFC 4122 variant -/
def uuidMask (d : Bytes) : Bytes :=
  d.mapIdx fun i b =>
    if i = 6 then (b &&& 0x0f) ||| 0x40
    else if i = 8 then (b &&& 0x3f) ||| 0x80
    else b

/-- `makeChunkID` on a 16-byte random draw -/
def makeChunkID (draw : Bytes) : Bytes := b64enc (uuidMask draw)

/-- `Chunk()` of Message / MessageExt / ForwardMessage / PackedForwardMessage: the options after
the call and the id returned; `draw` is consumed only when an id has to be generated -/
def chunkCall (opts : Option Options) (draw : Bytes) : Option Options × Bytes :=
  let o := opts.getD {}
  if o.chunk ≠ [] then (some o, o.chunk)
  else (some { o with chunk := makeChunkID draw }, makeChunkID draw)

end FV
