import FluentVerif.Bytes
/-! Model of `EventTime.MarshalBinaryTo` / `UnmarshalBinary` (fluent/protocol/transport.go). -/
namespace FV

/-- an instant: Unix seconds and nanoseconds (< 10^9); the zone a `time.Time` is expressed in is
a third component that `UTC().Unix()` / `Nanosecond()` do not look at -/
structure Instant where
  sec : Int
  nsec : Nat
  zone : Int := 0
deriving Repr, DecidableEq

/-- `MarshalBinaryTo`: `uint32(utc.Unix())`, `uint32(utc.Nanosecond())`, big endian -/
def encodeET (t : Instant) : Bytes :=
  be 4 (t.sec % 4294967296).toNat ++ be 4 (t.nsec % 4294967296)

/-- `UnmarshalBinary`: length check, then `time.Unix(sec, nsec)` (which normalises nsec ≥ 10^9) -/
def decodeET (p : Bytes) : Option Instant :=
  if p.length ≠ 8 then none
  else
    let s := beVal (p.take 4); let n := beVal (p.drop 4)
    some { sec := (s : Int) + (n / 1000000000 : Nat), nsec := n % 1000000000 }

def Instant.InDomain (t : Instant) : Prop := 0 ≤ t.sec ∧ t.sec < 4294967296 ∧ t.nsec < 1000000000

instance (t : Instant) : Decidable t.InDomain := by unfold Instant.InDomain; infer_instance

end FV
