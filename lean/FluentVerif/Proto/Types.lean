import FluentVerif.Msgp.Read
/-! The repository's protocol types (fluent/protocol/*.go) as plain structures. Strings are byte
strings (Go strings are arbitrary bytes). -/
namespace FV

def kSize : Bytes := [0x73, 0x69, 0x7a, 0x65]
def kChunk : Bytes := [0x63, 0x68, 0x75, 0x6e, 0x6b]
def kCompressed : Bytes := [0x63, 0x6f, 0x6d, 0x70, 0x72, 0x65, 0x73, 0x73, 0x65, 0x64]
def kAck : Bytes := [0x61, 0x63, 0x6b]
def kNonce : Bytes := [0x6e, 0x6f, 0x6e, 0x63, 0x65]
def kAuth : Bytes := [0x61, 0x75, 0x74, 0x68]
def kKeepalive : Bytes := [0x6b, 0x65, 0x65, 0x70, 0x61, 0x6c, 0x69, 0x76, 0x65]
def vGzip : Bytes := [0x67, 0x7a, 0x69, 0x70]

/-- `MessageOptions` -/
structure Options where
  size : Option Int := none
  chunk : Bytes := []
  compressed : Bytes := []
deriving DecidableEq

/-- `Message` -/
structure Message where
  tag : Bytes := []
  ts : Int := 0
  record : Obj := .nil
  options : Option Options := none

/-- `MessageExt` -/
structure MessageExt where
  tag : Bytes := []
  ts : Instant := { sec := 0, nsec := 0 }
  record : Obj := .nil
  options : Option Options := none

/-- `EntryExt` -/
structure EntryExt where
  ts : Instant := { sec := 0, nsec := 0 }
  record : Obj := .nil

/-- `Entry` -/
structure Entry where
  ts : Int := 0
  record : Obj := .nil

/-- `ForwardMessage` -/
structure Forward where
  tag : Bytes := []
  entries : List EntryExt := []
  options : Option Options := none

/-- `PackedForwardMessage` -/
structure Packed where
  tag : Bytes := []
  stream : Bytes := []
  options : Option Options := none

/-- `AckMessage` -/
structure Ack where
  ack : Bytes := []
deriving DecidableEq

/-- `HeloOpts` -/
structure HeloOpts where
  nonce : Bytes := []
  auth : Bytes := []
  keepalive : Bool := false
deriving DecidableEq

/-- `Helo` -/
structure Helo where
  mtype : Bytes := []
  options : Option HeloOpts := none
deriving DecidableEq

/-- `Ping` -/
structure Ping where
  mtype : Bytes := []
  hostname : Bytes := []
  salt : Bytes := []
  digest : Bytes := []
  username : Bytes := []
  password : Bytes := []
deriving DecidableEq

/-- `Pong` -/
structure Pong where
  mtype : Bytes := []
  authResult : Bool := false
  reason : Bytes := []
  hostname : Bytes := []
  digest : Bytes := []
deriving DecidableEq

end FV
