import FluentVerif.Proto.Decode
import FluentVerif.Msgp.Sound
/-! helper lemmas about the decoder models: each successful decode consumed exactly one msgpack
object; none panics -/
namespace FV

theorem Reads1.ofParse {b o r} (h : parse b = some (o, r)) : Reads1 b r := ⟨o, h⟩

/-! ### the generated map loop -/

theorem readFields_sound {σ : Type} (p : Path) (h : Bytes → Option (σ → Bytes → Res σ))
    (hh : ∀ k f s b s' r, h k = some f → f s b = .ok s' r → Reads1 b r) :
    ∀ (n : Nat) (s : σ) (b : Bytes) (s' : σ) (r : Bytes),
      readFields p h n s b = .ok s' r → ReadsN (2*n) b r
  | 0, s, b, s', r, e => by
    simp [readFields] at e; obtain ⟨_, rfl⟩ := e; exact ReadsN.zero _
  | n+1, s, b, s', r, e => by
    unfold readFields at e
    have two : 2 * (n+1) = (2*n + 1) + 1 := by omega
    rw [two]
    obtain ⟨k, b1, hk, e⟩ := Res.bind_ok.1 e
    have pk := readMapKey_sound hk
    split at e
    · next f hf =>
      obtain ⟨s1, b2, h1, e⟩ := Res.bind_ok.1 e
      exact ReadsN.cons pk (ReadsN.cons (hh k f s b1 s1 b2 hf h1) (readFields_sound p h hh n s1 b2 s' r e))
    · obtain ⟨_, b2, h1, e⟩ := Res.bind_ok.1 e
      exact ReadsN.cons pk (ReadsN.cons (skipP_sound h1) (readFields_sound p h hh n s b2 s' r e))

theorem readFields_noPanic {σ : Type} (p : Path) (h : Bytes → Option (σ → Bytes → Res σ))
    (hh : ∀ k f s b, h k = some f → (f s b).NoPanic) :
    ∀ (n : Nat) (s : σ) (b : Bytes), (readFields p h n s b).NoPanic
  | 0, s, b => by unfold readFields; exact Res.noPanic_ok _ _
  | n+1, s, b => by
    unfold readFields
    refine (readMapKey_noPanic p b).bind fun k b1 => ?_
    split
    · next f hf => exact (hh k f s b1 hf).bind fun s1 b2 => readFields_noPanic p h hh n s1 b2
    · exact (skipP_noPanic p b1).bind fun _ b2 => readFields_noPanic p h hh n s b2

/-! ### option / ack / helo maps -/

theorem Options.sizeField_sound {o b o' r} (h : Options.sizeField o b = .ok o' r) : Reads1 b r := by
  unfold Options.sizeField at h
  split at h
  · obtain ⟨_, h, _⟩ := Res.map_ok.1 h; exact ⟨_, readNil_sound h⟩
  · obtain ⟨_, h, _⟩ := Res.map_ok.1 h; exact ⟨_, readInt64_sound h⟩

theorem Options.handlers_sound : ∀ k f (s : Options) b s' r, Options.handlers k = some f →
    f s b = .ok s' r → Reads1 b r := by
  intro k f s b s' r hf e
  unfold Options.handlers at hf
  split at hf
  · cases hf; exact Options.sizeField_sound e
  · split at hf
    · cases hf; obtain ⟨_, e, _⟩ := Res.map_ok.1 e; exact ⟨_, readString_sound e⟩
    · split at hf
      · cases hf; obtain ⟨_, e, _⟩ := Res.map_ok.1 e; exact ⟨_, readString_sound e⟩
      · cases hf

theorem Options.handlers_noPanic : ∀ k f (s : Options) b, Options.handlers k = some f → (f s b).NoPanic := by
  intro k f s b hf
  unfold Options.handlers at hf
  split at hf
  · cases hf; unfold Options.sizeField; split
    · exact (readNil_noPanic b).map
    · exact (readInt64_noPanic b).map
  · split at hf
    · cases hf; exact (readString_noPanic b).map
    · split at hf
      · cases hf; exact (readString_noPanic b).map
      · cases hf

theorem Options.unmarshal_sound {p recv b o r} (h : Options.unmarshal p recv b = .ok o r) : Reads1 b r := by
  unfold Options.unmarshal at h
  obtain ⟨n, b1, hm, h⟩ := Res.bind_ok.1 h
  exact Reads1.ofMap (readMapHeader_sound hm) (readFields_sound p _ Options.handlers_sound n recv b1 o r h)

theorem Options.unmarshal_noPanic (p recv b) : (Options.unmarshal p recv b).NoPanic := by
  unfold Options.unmarshal
  exact (readMapHeader_noPanic b).bind fun n b1 => readFields_noPanic p _ Options.handlers_noPanic n recv b1

theorem Ack.handlers_sound : ∀ k f (s : Ack) b s' r, Ack.handlers k = some f →
    f s b = .ok s' r → Reads1 b r := by
  intro k f s b s' r hf e
  unfold Ack.handlers at hf
  split at hf
  · cases hf; obtain ⟨_, e, _⟩ := Res.map_ok.1 e; exact ⟨_, readString_sound e⟩
  · cases hf

theorem Ack.handlers_noPanic : ∀ k f (s : Ack) b, Ack.handlers k = some f → (f s b).NoPanic := by
  intro k f s b hf
  unfold Ack.handlers at hf
  split at hf
  · cases hf; exact (readString_noPanic b).map
  · cases hf

theorem Ack.unmarshal_sound {p recv b o r} (h : Ack.unmarshal p recv b = .ok o r) : Reads1 b r := by
  unfold Ack.unmarshal at h
  obtain ⟨n, b1, hm, h⟩ := Res.bind_ok.1 h
  exact Reads1.ofMap (readMapHeader_sound hm) (readFields_sound p _ Ack.handlers_sound n recv b1 o r h)

theorem Ack.unmarshal_noPanic (p recv b) : (Ack.unmarshal p recv b).NoPanic := by
  unfold Ack.unmarshal
  exact (readMapHeader_noPanic b).bind fun n b1 => readFields_noPanic p _ Ack.handlers_noPanic n recv b1

theorem HeloOpts.handlers_sound : ∀ k f (s : HeloOpts) b s' r, HeloOpts.handlers k = some f →
    f s b = .ok s' r → Reads1 b r := by
  intro k f s b s' r hf e
  unfold HeloOpts.handlers at hf
  split at hf
  · cases hf; obtain ⟨_, e, _⟩ := Res.map_ok.1 e; exact ⟨_, readBytes_sound e⟩
  · split at hf
    · cases hf; obtain ⟨_, e, _⟩ := Res.map_ok.1 e; exact ⟨_, readBytes_sound e⟩
    · split at hf
      · cases hf; obtain ⟨_, e, _⟩ := Res.map_ok.1 e; exact ⟨_, readBool_sound e⟩
      · cases hf

theorem HeloOpts.handlers_noPanic : ∀ k f (s : HeloOpts) b, HeloOpts.handlers k = some f → (f s b).NoPanic := by
  intro k f s b hf
  unfold HeloOpts.handlers at hf
  split at hf
  · cases hf; exact (readBytes_noPanic b).map
  · split at hf
    · cases hf; exact (readBytes_noPanic b).map
    · split at hf
      · cases hf; exact (readBool_noPanic b).map
      · cases hf

theorem HeloOpts.unmarshal_sound {p recv b o r} (h : HeloOpts.unmarshal p recv b = .ok o r) : Reads1 b r := by
  unfold HeloOpts.unmarshal at h
  obtain ⟨n, b1, hm, h⟩ := Res.bind_ok.1 h
  exact Reads1.ofMap (readMapHeader_sound hm) (readFields_sound p _ HeloOpts.handlers_sound n recv b1 o r h)

theorem HeloOpts.unmarshal_noPanic (p recv b) : (HeloOpts.unmarshal p recv b).NoPanic := by
  unfold HeloOpts.unmarshal
  exact (readMapHeader_noPanic b).bind fun n b1 => readFields_noPanic p _ HeloOpts.handlers_noPanic n recv b1

/-! ### the optional options element -/

theorem readOptionsOrNil_sound {p b o r} (h : readOptionsOrNil p b = .ok o r) : Reads1 b r := by
  unfold readOptionsOrNil at h
  split at h
  · obtain ⟨_, h, _⟩ := Res.map_ok.1 h; exact ⟨_, readNil_sound h⟩
  · obtain ⟨_, h, _⟩ := Res.map_ok.1 h; exact Options.unmarshal_sound h

theorem readOptionsOrNil_noPanic (p b) : (readOptionsOrNil p b).NoPanic := by
  unfold readOptionsOrNil
  split
  · exact (readNil_noPanic b).map
  · exact (Options.unmarshal_noPanic p _ b).map

/-! ### entries -/

theorem EntryExt.unmarshal_sound {p recv b e r} (h : EntryExt.unmarshal p recv b = .ok e r) : Reads1 b r := by
  unfold EntryExt.unmarshal at h
  obtain ⟨sz, b1, ha, h⟩ := Res.bind_ok.1 h
  split at h
  · cases h
  · next hsz =>
    have : sz = 2 := by omega
    subst this
    obtain ⟨ts, b2, h1, h⟩ := Res.bind_ok.1 h
    obtain ⟨rc, h2, _⟩ := Res.map_ok.1 h
    exact Reads1.ofArr (readArrayHeader_sound ha)
      (ReadsN.cons (readEventTime_sound h1) (ReadsN.cons (readIntf_sound h2) (ReadsN.zero _)))

theorem EntryExt.unmarshal_noPanic (p recv b) : (EntryExt.unmarshal p recv b).NoPanic := by
  unfold EntryExt.unmarshal
  refine (readArrayHeader_noPanic b).bind fun sz b1 => ?_
  split
  · exact Res.noPanic_err
  · exact (readEventTime_noPanic b1).bind fun _ b2 => (readIntf_noPanic p b2).map

theorem Entry.unmarshal_sound {p recv b e r} (h : Entry.unmarshal p recv b = .ok e r) : Reads1 b r := by
  unfold Entry.unmarshal at h
  obtain ⟨sz, b1, ha, h⟩ := Res.bind_ok.1 h
  split at h
  · cases h
  · next hsz =>
    have : sz = 2 := by omega
    subst this
    obtain ⟨ts, b2, h1, h⟩ := Res.bind_ok.1 h
    obtain ⟨rc, h2, _⟩ := Res.map_ok.1 h
    exact Reads1.ofArr (readArrayHeader_sound ha)
      (ReadsN.cons ⟨_, readInt64_sound h1⟩ (ReadsN.cons (readIntf_sound h2) (ReadsN.zero _)))

theorem Entry.unmarshal_noPanic (p recv b) : (Entry.unmarshal p recv b).NoPanic := by
  unfold Entry.unmarshal
  refine (readArrayHeader_noPanic b).bind fun sz b1 => ?_
  split
  · exact Res.noPanic_err
  · exact (readInt64_noPanic b1).bind fun _ b2 => (readIntf_noPanic p b2).map

theorem readEntries_sound (p : Path) : ∀ (n : Nat) (b : Bytes) (es r), readEntries p n b = .ok es r → ReadsN n b r
  | 0, b, es, r, h => by simp [readEntries] at h; obtain ⟨_, rfl⟩ := h; exact ReadsN.zero _
  | n+1, b, es, r, h => by
    unfold readEntries at h
    obtain ⟨e, b1, h1, h⟩ := Res.bind_ok.1 h
    obtain ⟨es', h2, _⟩ := Res.map_ok.1 h
    exact ReadsN.cons (EntryExt.unmarshal_sound h1) (readEntries_sound p n b1 es' r h2)

theorem readEntries_noPanic (p : Path) : ∀ (n : Nat) (b : Bytes), (readEntries p n b).NoPanic
  | 0, b => by unfold readEntries; exact Res.noPanic_ok _ _
  | n+1, b => by
    unfold readEntries
    exact (EntryExt.unmarshal_noPanic p _ b).bind fun _ b1 => (readEntries_noPanic p n b1).map

theorem EntryList.unmarshal_sound {p b es r} (h : EntryList.unmarshal p b = .ok es r) : Reads1 b r := by
  unfold EntryList.unmarshal at h
  obtain ⟨n, b1, ha, h⟩ := Res.bind_ok.1 h
  exact Reads1.ofArr (readArrayHeader_sound ha) (readEntries_sound p n b1 es r h)

theorem EntryList.unmarshal_noPanic (p b) : (EntryList.unmarshal p b).NoPanic := by
  unfold EntryList.unmarshal
  exact (readArrayHeader_noPanic b).bind fun n b1 => readEntries_noPanic p n b1

end FV
