import FluentVerif.Proto.RoundTrip
/-! Model of the packed / compressed constructors (packed_forward_message.go) and of the recycled
`GzipCompressor`.  gzip itself is abstract: a `Codec` compresses a payload into one complete
member and `gunzipOne` reads one member back. -/
namespace FV

/-- abstract gzip: `member p` is one complete gzip member for payload `p` -/
structure Codec where
  member : Bytes → Bytes
  gunzipOne : Bytes → Option (Bytes × Bytes)
  sound : ∀ p rest, gunzipOne (member p ++ rest) = some (p, rest)

/-- `GzipCompressor`: its buffer and the state of its `gzip.Writer` (`some pending` = a member is
open and `pending` has been written into it; `none` = closed / never used) -/
structure Compressor where
  buffer : Bytes := []
  openMember : Option Bytes := none

/-- `Reset()`: both branches (first use / reuse) leave an empty buffer and a writer at the start of
a new member -/
def Compressor.reset (_ : Compressor) : Compressor := { buffer := [], openMember := some [] }

/-- `Write(bits)`: `GzipWriter.Write` then `GzipWriter.Close` — the member is completed and flushed
into the buffer; writing to a closed writer is an error -/
def Compressor.write (cd : Codec) (c : Compressor) (bits : Bytes) : Option Compressor :=
  match c.openMember with
  | some pending => some { buffer := c.buffer ++ cd.member (pending ++ bits), openMember := none }
  | none => none

/-- `NewPackedForwardMessage`: stream = `MarshalPacked` of the entries (a copy), size option set -/
def newPacked (tag : Bytes) (es : List (Instant × GoVal)) : Option Packed :=
  (marshalPacked es).map fun s => { tag := tag, stream := s, options := some { size := some es.length } }

/-- `NewCompressedPackedForwardMessageFromBytes` with a recycled compressor in any prior state -/
def newCompressedFromBytes (cd : Codec) (pooled : Compressor) (tag payload : Bytes) : Option Packed :=
  (pooled.reset.write cd payload).map fun c =>
    { tag := tag, stream := c.buffer, options := some { compressed := vGzip } }

/-- `NewCompressedPackedForwardMessage` -/
def newCompressed (cd : Codec) (pooled : Compressor) (tag : Bytes) (es : List (Instant × GoVal)) : Option Packed :=
  (marshalPacked es).bind fun s =>
    (newCompressedFromBytes cd pooled tag s).map fun m =>
      { m with options := some { (m.options.getD {}) with size := some es.length } }

end FV
