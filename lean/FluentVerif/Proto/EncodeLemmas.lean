import FluentVerif.Proto.Encode
import FluentVerif.Proto.DecodeLemmas2
import FluentVerif.Msgp.EncodeSound
import FluentVerif.Forward.Spec
/-! helper lemmas: what the specification parser and the repository's decoders read back from the
repository's encoders -/
set_option linter.unusedSimpArgs false
namespace FV

structure Options.WF (o : Options) : Prop where
  size : ∀ i, o.size = some i → inInt64 i
  chunk : o.chunk.length < 4294967296
  compressed : o.compressed.length < 4294967296

/-- the option map as the specification sees it: only the non-empty fields, in the order written -/
def Options.toObj (o : Options) : Obj :=
  .map (
    (match o.size with | some i => fun r => Objs.cons (.str kSize) (.cons (.int i) r) | none => id) <|
    (if o.chunk != [] then fun r => Objs.cons (.str kChunk) (.cons (.str o.chunk) r) else id) <|
    (if o.compressed != [] then fun r => Objs.cons (.str kCompressed) (.cons (.str o.compressed) r) else id) <|
    .nil)

def optPtrObj : Option Options → Obj
  | none => .nil
  | some o => o.toObj

theorem k1 : kSize.length < 4294967296 := by decide
theorem k2 : kChunk.length < 4294967296 := by decide
theorem k3 : kCompressed.length < 4294967296 := by decide

theorem fixmap_byte (n : Nat) (h : n ≤ 3) (r : Bytes) :
    header (UInt8.ofNat (0x80 + n) :: r) = some (.map n, r) := header_fixmap n (by omega) r

theorem Options.marshal_parse (o : Options) (hw : o.WF) (x : Bytes) :
    parse (o.marshal ++ x) = some (o.toObj, x) := by
  obtain ⟨size, chunk, compressed⟩ := o
  have hs := hw.size; have hc := hw.chunk; have hz := hw.compressed
  simp only at hs hc hz
  unfold Options.marshal Options.toObj
  simp only [List.cons_append, List.nil_append, List.append_assoc]
  cases size with
  | none =>
    by_cases e2 : chunk = [] <;> by_cases e3 : compressed = []
    · subst e2; subst e3
      exact parse_map_of_seq (fixmap_byte 0 (by omega) _) rfl
    · subst e2
      simp only [b2n, Option.isSome_none, bne_self_eq_false, Bool.false_eq_true, ↓reduceIte, e3, bne_iff_ne, ne_eq,
        not_false_eq_true, Nat.add_zero, Nat.zero_add, List.nil_append, id, Function.comp]
      exact parse_map_of_seq (fixmap_byte 1 (by omega) _)
        (parseSeq_cons (parse_appendString kCompressed _ k3) (parseSeq_cons (parse_appendString compressed _ hz) rfl))
    · subst e3
      simp only [b2n, Option.isSome_none, bne_self_eq_false, Bool.false_eq_true, ↓reduceIte, e2, bne_iff_ne, ne_eq,
        not_false_eq_true, Nat.add_zero, Nat.zero_add, List.nil_append, List.append_nil, id, Function.comp]
      exact parse_map_of_seq (fixmap_byte 1 (by omega) _)
        (parseSeq_cons (parse_appendString kChunk _ k2) (parseSeq_cons (parse_appendString chunk _ hc) rfl))
    · simp only [b2n, Option.isSome_none, Bool.false_eq_true, ↓reduceIte, e2, e3, bne_iff_ne, ne_eq,
        not_false_eq_true, Nat.zero_add, List.nil_append, List.append_assoc, id, Function.comp]
      exact parse_map_of_seq (fixmap_byte 2 (by omega) _)
        (parseSeq_cons (parse_appendString kChunk _ k2) (parseSeq_cons (parse_appendString chunk _ hc)
        (parseSeq_cons (parse_appendString kCompressed _ k3) (parseSeq_cons (parse_appendString compressed _ hz) rfl))))
  | some i =>
    have hi := hs i rfl
    by_cases e2 : chunk = [] <;> by_cases e3 : compressed = []
    · subst e2; subst e3
      simp only [b2n, Option.isSome_some, ↓reduceIte, bne_self_eq_false, Bool.false_eq_true, Nat.add_zero,
        List.append_nil, List.append_assoc, id, Function.comp]
      exact parse_map_of_seq (fixmap_byte 1 (by omega) _)
        (parseSeq_cons (parse_appendString kSize _ k1) (parseSeq_cons (parse_appendInt64 i hi _) rfl))
    · subst e2
      simp only [b2n, Option.isSome_some, ↓reduceIte, bne_self_eq_false, Bool.false_eq_true, e3, bne_iff_ne, ne_eq,
        not_false_eq_true, Nat.add_zero, List.nil_append, List.append_assoc, id, Function.comp]
      exact parse_map_of_seq (fixmap_byte 2 (by omega) _)
        (parseSeq_cons (parse_appendString kSize _ k1) (parseSeq_cons (parse_appendInt64 i hi _)
        (parseSeq_cons (parse_appendString kCompressed _ k3) (parseSeq_cons (parse_appendString compressed _ hz) rfl))))
    · subst e3
      simp only [b2n, Option.isSome_some, ↓reduceIte, bne_self_eq_false, Bool.false_eq_true, e2, bne_iff_ne, ne_eq,
        not_false_eq_true, Nat.add_zero, List.append_nil, List.append_assoc, id, Function.comp]
      exact parse_map_of_seq (fixmap_byte 2 (by omega) _)
        (parseSeq_cons (parse_appendString kSize _ k1) (parseSeq_cons (parse_appendInt64 i hi _)
        (parseSeq_cons (parse_appendString kChunk _ k2) (parseSeq_cons (parse_appendString chunk _ hc) rfl))))
    · simp only [b2n, Option.isSome_some, ↓reduceIte, e2, e3, bne_iff_ne, ne_eq,
        not_false_eq_true, List.append_assoc, id, Function.comp]
      exact parse_map_of_seq (fixmap_byte 3 (by omega) _)
        (parseSeq_cons (parse_appendString kSize _ k1) (parseSeq_cons (parse_appendInt64 i hi _)
        (parseSeq_cons (parse_appendString kChunk _ k2) (parseSeq_cons (parse_appendString chunk _ hc)
        (parseSeq_cons (parse_appendString kCompressed _ k3) (parseSeq_cons (parse_appendString compressed _ hz) rfl))))))

/-! ### options through the decoder -/

theorem isNil_appendInt64 (i : Int) (h : inInt64 i) (r : Bytes) : isNil (appendInt64 i ++ r) = false := by
  have hh := header_appendInt64 i h r
  cases hb : appendInt64 i ++ r with
  | nil => rw [hb] at hh; simp [header] at hh
  | cons x t =>
    simp only [isNil]
    cases hx : x == 0xc0 with
    | false => rfl
    | true =>
      have : x = 0xc0 := by simpa using hx
      subst this
      rw [hb] at hh
      simp [header, classify_c0, headerOf] at hh

theorem readMapHeader_fix (n : Nat) (h : n ≤ 15) (r : Bytes) :
    readMapHeader (UInt8.ofNat (0x80 + n) :: r) = .ok n r := by
  unfold readMapHeader; rw [header_fixmap n h r]

theorem ne1 : ¬ kChunk = kSize := by decide
theorem ne2 : ¬ kCompressed = kSize := by decide
theorem ne3 : ¬ kCompressed = kChunk := by decide
theorem kne1 : kSize ≠ [] := by decide
theorem kne2 : kChunk ≠ [] := by decide
theorem kne3 : kCompressed ≠ [] := by decide

theorem Options.roundtrip (p : Path) (o : Options) (hw : o.WF) (x : Bytes) :
    Options.unmarshal p {} (o.marshal ++ x) = .ok o x := by
  obtain ⟨size, chunk, compressed⟩ := o
  have hs := hw.size; have hc := hw.chunk; have hz := hw.compressed
  simp only at hs hc hz
  unfold Options.unmarshal Options.marshal
  simp only [List.cons_append, List.nil_append, List.append_assoc]
  rw [readMapHeader_fix _ (by simp [b2n]; split <;> split <;> split <;> omega)]
  simp only [Res.bind]
  cases size with
  | none =>
    by_cases e2 : chunk = [] <;> by_cases e3 : compressed = [] <;>
      simp [e2, e3, b2n, readFields, readMapKey_appendString, Options.handlers, Res.bind, Res.map,
        readString_appendString, k2, k3, hc, hz, ne1, ne2, ne3, kne2, kne3]
  | some i =>
    have hi := hs i rfl
    by_cases e2 : chunk = [] <;> by_cases e3 : compressed = [] <;>
      simp [e2, e3, b2n, readFields, readMapKey_appendString, Options.handlers, Options.sizeField, Res.bind, Res.map,
        readString_appendString, readInt64_appendInt64, isNil_appendInt64, k1, k2, k3, hc, hz, hi,
        ne1, ne2, ne3, kne1, kne2, kne3]

theorem isNil_options (o : Options) (r : Bytes) : isNil (o.marshal ++ r) = false := by
  unfold Options.marshal
  simp only [List.cons_append, List.nil_append, List.append_assoc, isNil]
  have : ∀ n, n ≤ 3 → (UInt8.ofNat (0x80 + n) == 0xc0) = false := by
    intro n hn
    have : n = 0 ∨ n = 1 ∨ n = 2 ∨ n = 3 := by omega
    rcases this with rfl | rfl | rfl | rfl <;> rfl
  apply this
  simp [b2n]; split <;> split <;> split <;> omega

def optPtrWF : Option Options → Prop
  | none => True
  | some o => o.WF

theorem marshalOptPtr_parse (opts : Option Options) (hw : optPtrWF opts) (x : Bytes) :
    parse (marshalOptPtr opts ++ x) = some (optPtrObj opts, x) := by
  cases opts with
  | none => exact parse_appendNil x
  | some o => exact Options.marshal_parse o hw x

theorem readOptionsOrNil_marshal (p : Path) (opts : Option Options) (hw : optPtrWF opts) (x : Bytes) :
    readOptionsOrNil p (marshalOptPtr opts ++ x) = .ok opts x := by
  cases opts with
  | none => simp [readOptionsOrNil, marshalOptPtr, appendNil, isNil, readNil, Res.map]
  | some o =>
    simp [readOptionsOrNil, marshalOptPtr, isNil_options, Options.roundtrip p o hw, Res.map]

end FV
