import FluentVerif.Proto.Types
import FluentVerif.Msgp.Append
/-! Model of the repository's encoders (`MarshalMsg`; `EncodeMsg` writes the same bytes through
the `Writer` — one definition serves both, the correspondence compares it with both paths).
A record is given as the `GoVal` the caller supplied; `none` = the record cannot be encoded. -/
namespace FV

def b2n (b : Bool) : Nat := if b then 1 else 0

/-- generated `MessageOptions.MarshalMsg` (`omitempty` on all three fields) -/
def Options.marshal (o : Options) : Bytes :=
  [UInt8.ofNat (0x80 + (b2n o.size.isSome + b2n (o.chunk != []) + b2n (o.compressed != [])))] ++
  ((match o.size with | some i => appendString kSize ++ appendInt64 i | none => []) ++
  ((if o.chunk != [] then appendString kChunk ++ appendString o.chunk else []) ++
  (if o.compressed != [] then appendString kCompressed ++ appendString o.compressed else [])))

/-- `nil` pointer → `AppendNil` -/
def marshalOptPtr : Option Options → Bytes
  | none => appendNil
  | some o => o.marshal

/-- generated `Message.MarshalMsg`: always four elements -/
def Message.marshal (tag : Bytes) (ts : Int) (rec : GoVal) (opts : Option Options) : Option Bytes :=
  rec.encode.map fun rb => [0x94] ++ (appendString tag ++ (appendInt64 ts ++ (rb ++ marshalOptPtr opts)))

/-- generated `MessageExt.MarshalMsg` -/
def MessageExt.marshal (tag : Bytes) (ts : Instant) (rec : GoVal) (opts : Option Options) : Option Bytes :=
  rec.encode.map fun rb => [0x94] ++ (appendString tag ++ (appendEventTime ts ++ (rb ++ marshalOptPtr opts)))

/-- generated `EntryExt.MarshalMsg` -/
def EntryExt.marshal (ts : Instant) (rec : GoVal) : Option Bytes :=
  rec.encode.map fun rb => [0x92] ++ (appendEventTime ts ++ rb)

/-- generated `Entry.MarshalMsg` -/
def Entry.marshal (ts : Int) (rec : GoVal) : Option Bytes :=
  rec.encode.map fun rb => [0x92] ++ (appendInt64 ts ++ rb)

/-- the element loop of `EntryList.MarshalMsg` = concatenation of the entries' encodings -/
def marshalEntries : List (Instant × GoVal) → Option Bytes
  | [] => some []
  | (t, r) :: es =>
    match EntryExt.marshal t r, marshalEntries es with
    | some a, some b => some (a ++ b)
    | _, _ => none

/-- generated `EntryList.MarshalMsg` -/
def EntryList.marshal (es : List (Instant × GoVal)) : Option Bytes :=
  (marshalEntries es).map (appendArrayHeader es.length ++ ·)

/-- `EntryList.MarshalPacked`: the entries one after another, no header -/
def marshalPacked (es : List (Instant × GoVal)) : Option Bytes := marshalEntries es

/-- hand-written `ForwardMessage.MarshalMsg`: two elements, three when options are present -/
def Forward.marshal (tag : Bytes) (es : List (Instant × GoVal)) (opts : Option Options) : Option Bytes :=
  (EntryList.marshal es).map fun eb =>
    match opts with
    | none => [0x92] ++ (appendString tag ++ eb)
    | some o => [0x93] ++ (appendString tag ++ (eb ++ o.marshal))

/-- generated `PackedForwardMessage.MarshalMsg`: always three elements -/
def Packed.marshal (tag : Bytes) (stream : Bytes) (opts : Option Options) : Bytes :=
  [0x93] ++ (appendString tag ++ (appendBytes stream ++ marshalOptPtr opts))

def Ack.marshal (a : Ack) : Bytes := [0x81] ++ (appendString kAck ++ appendString a.ack)

def HeloOpts.marshal (o : HeloOpts) : Bytes :=
  [0x83] ++ (appendString kNonce ++ (appendBytes o.nonce ++ (appendString kAuth ++ (appendBytes o.auth ++
    (appendString kKeepalive ++ appendBool o.keepalive)))))

def Helo.marshal (h : Helo) : Bytes :=
  [0x92] ++ (appendString h.mtype ++ (match h.options with | none => appendNil | some o => o.marshal))

def Ping.marshal (p : Ping) : Bytes :=
  [0x96] ++ (appendString p.mtype ++ (appendString p.hostname ++ (appendBytes p.salt ++ (appendString p.digest ++
    (appendString p.username ++ appendString p.password)))))

def Pong.marshal (p : Pong) : Bytes :=
  [0x95] ++ (appendString p.mtype ++ (appendBool p.authResult ++ (appendString p.reason ++
    (appendString p.hostname ++ appendString p.digest))))

end FV
