import FluentVerif.Proto.DecodeComplete
/-! Completeness of the handshake and ack decoders with respect to the specification parser: any
legal msgpack encoding of a HELO, PING, PONG or ack (any string / bin / array / map header class,
map entries in any order, unknown keys with values of any shape, repeated keys) decodes — on both
paths — to the value the specification parser finds. -/
namespace FV

/-! ### the generated field loop, generically -/

/-- a map as the generated decoders accept it: non-empty string keys, values admitted by `ok` -/
def KVsOK (ok : Bytes → Obj → Prop) : Objs → Prop
  | .nil => True
  | .cons k (.cons v rest) => (∃ s, k = .str s ∧ s ≠ [] ∧ ok s v) ∧ KVsOK ok rest
  | .cons _ .nil => False

/-- the entries applied in wire order -/
def foldKVs {σ : Type} (apply : σ → Bytes → Obj → σ) : Objs → σ → σ
  | .cons (.str k) (.cons v rest), s => foldKVs apply rest (apply s k v)
  | _, s => s

theorem readFields_complete {σ : Type} (p : Path) (h : Bytes → Option (σ → Bytes → Res σ))
    (apply : σ → Bytes → Obj → σ) (ok : Bytes → Obj → Prop)
    (hc : ∀ (k : Bytes) (v : Obj) (s : σ) (b r : Bytes), parse b = some (v, r) → ok k v →
      (p = .stream → hasExt32 b = false) →
      (match h k with
       | some f => f s b
       | none => (skipP p b).bind fun _ b2 => .ok s b2) = .ok (apply s k v) r) :
    ∀ (n : Nat) (b : Bytes) (kvs : Objs) (r : Bytes) (s : σ),
      parseSeq (2*n) b = some (kvs, r) → KVsOK ok kvs → (p = .stream → ext32Seq (2*n) b = false) →
      readFields p h n s b = .ok (foldKVs apply kvs s) r
  | 0, b, kvs, r, s, hp, _, _ => by
    obtain ⟨rfl, rfl⟩ := parseSeq_zero_inv (by simpa using hp)
    simp [readFields, foldKVs]
  | n+1, b, kvs, r, s, hp, hk, hxs => by
    have e : 2 * (n + 1) = (2 * n + 1) + 1 := by omega
    rw [e] at hp hxs
    cases kvs with
    | nil => exact absurd (parseSeq_nil_inv hp).1 (by omega)
    | cons x xs =>
      obtain ⟨m, b1, hm, hx, h1⟩ := parseSeq_cons_inv hp
      have hm' : m = 2 * n + 1 := by omega
      subst hm'
      cases xs with
      | nil => exact absurd (parseSeq_nil_inv h1).1 (by omega)
      | cons v rest =>
        obtain ⟨m2, b2, hm2, hv, h2⟩ := parseSeq_cons_inv h1
        have hm2' : m2 = 2 * n := by omega
        subst hm2'
        simp only [KVsOK] at hk
        obtain ⟨⟨k, rfl, hne, hval⟩, hrest⟩ := hk
        unfold readFields
        rw [readMapKey_of_parse_str p hx hne]
        simp only [Res.bind]
        have hxv : p = .stream → hasExt32 b1 = false := fun hp' =>
          (ext32Seq_cons (ext32Seq_cons (hxs hp') hx).2 hv).1
        have hx2 : p = .stream → ext32Seq (2 * n) b2 = false := fun hp' =>
          (ext32Seq_cons (ext32Seq_cons (hxs hp') hx).2 hv).2
        have hcc := hc k v s b1 b2 hv hval hxv
        cases hh : h k with
        | some f =>
          rw [hh] at hcc; simp only at hcc
          simp only [hcc, foldKVs]
          exact readFields_complete p h apply ok hc n b2 rest r _ h2 hrest hx2
        | none =>
          rw [hh] at hcc; simp only at hcc
          have hskip := skipP_of_parse hv hxv
          rw [hskip] at hcc
          simp only [Res.bind, Res.ok.injEq, and_true] at hcc
          simp only [hskip, foldKVs, ← hcc]
          exact readFields_complete p h apply ok hc n b2 rest r _ h2 hrest hx2

/-! ### ack -/

def ackOK (k : Bytes) (v : Obj) : Prop := k = kAck → ∃ s, v = .str s
def ackApply (a : Ack) (k : Bytes) (v : Obj) : Ack :=
  if k = kAck then (match v with | .str s => { ack := s } | _ => a) else a

/-- **ack, any conforming encoding**: a map with string keys whose `ack` entries are strings; further
entries of any shape; the last `ack` entry counts -/
theorem Ack.unmarshal_complete (p : Path) (recv : Ack) {b kvs r} (h : parse b = some (.map kvs, r))
    (hk : KVsOK ackOK kvs) (hx : p = .stream → hasExt32 b = false) :
    Ack.unmarshal p recv b = .ok (foldKVs ackApply kvs recv) r := by
  obtain ⟨n, r0, hh, hs⟩ := readMapHeader_of_parse h
  have hhd := readMapHeader_sound hh
  unfold Ack.unmarshal
  rw [hh]; simp only [Res.bind]
  refine readFields_complete p Ack.handlers ackApply ackOK ?_ n r0 kvs r recv hs hk
    (fun hp' => by rw [← hasExt32_map hhd hs]; exact hx hp')
  intro k v s b r hp hv hxv
  unfold Ack.handlers ackApply
  by_cases h1 : k = kAck
  · obtain ⟨x, rfl⟩ := hv h1
    simp only [h1, if_true]
    rw [readString_of_parse hp]; rfl
  · simp only [h1, if_false]
    rw [skipP_of_parse hp hxv]; rfl

/-! ### HELO options -/

def heloOK (k : Bytes) (v : Obj) : Prop :=
  if k = kNonce ∨ k = kAuth then ∃ s, v = .bin s
  else if k = kKeepalive then ∃ t, v = .bool t
  else True

def heloApply (o : HeloOpts) (k : Bytes) (v : Obj) : HeloOpts :=
  if k = kNonce then (match v with | .bin s => { o with nonce := s } | _ => o)
  else if k = kAuth then (match v with | .bin s => { o with auth := s } | _ => o)
  else if k = kKeepalive then (match v with | .bool t => { o with keepalive := t } | _ => o)
  else o

theorem HeloOpts.unmarshal_complete (p : Path) (recv : HeloOpts) {b kvs r} (h : parse b = some (.map kvs, r))
    (hk : KVsOK heloOK kvs) (hx : p = .stream → hasExt32 b = false) :
    HeloOpts.unmarshal p recv b = .ok (foldKVs heloApply kvs recv) r := by
  obtain ⟨n, r0, hh, hs⟩ := readMapHeader_of_parse h
  have hhd := readMapHeader_sound hh
  unfold HeloOpts.unmarshal
  rw [hh]; simp only [Res.bind]
  refine readFields_complete p HeloOpts.handlers heloApply heloOK ?_ n r0 kvs r recv hs hk
    (fun hp' => by rw [← hasExt32_map hhd hs]; exact hx hp')
  intro k v s b r hp hv hxv
  unfold HeloOpts.handlers heloApply
  unfold heloOK at hv
  by_cases h1 : k = kNonce
  · simp only [h1, true_or, if_true] at hv ⊢
    obtain ⟨x, rfl⟩ := hv
    rw [readBytes_of_parse hp]; rfl
  · simp only [h1, false_or, if_false] at hv ⊢
    by_cases h2 : k = kAuth
    · simp only [h2, if_true] at hv ⊢
      obtain ⟨x, rfl⟩ := hv
      rw [readBytes_of_parse hp]; rfl
    · simp only [h2, if_false] at hv ⊢
      by_cases h3 : k = kKeepalive
      · simp only [h3, if_true] at hv ⊢
        obtain ⟨t, rfl⟩ := hv
        rw [readBool_of_parse hp]; rfl
      · simp only [h3, if_false]
        rw [skipP_of_parse hp hxv]; rfl

/-- **HELO, any conforming encoding**: `[type, nil | options map]` -/
theorem Helo.unmarshal_complete (p : Path) (recv : Helo) {b r : Bytes} {mt : Bytes} {opt : Obj}
    (h : parse b = some (.arr (.cons (.str mt) (.cons opt .nil)), r))
    (ho : opt = .nil ∨ ∃ kvs, opt = .map kvs ∧ KVsOK heloOK kvs) (hx : p = .stream → hasExt32 b = false) :
    Helo.unmarshal p recv b = .ok (Helo.mk mt
      (match opt with
        | .map kvs => some (foldKVs heloApply kvs (recv.options.getD {}))
        | _ => none)) r := by
  obtain ⟨n, r0, hh, hs⟩ := readArrayHeader_of_parse h
  obtain ⟨n1, b1, e1, p1, s1⟩ := parseSeq_cons_inv hs
  obtain ⟨n2, b2, e2, p2, s2⟩ := parseSeq_cons_inv s1
  obtain ⟨e3, rfl⟩ := parseSeq_nil_inv s2
  have hn : n = 2 := by omega
  subst hn
  have hx2 : p = .stream → hasExt32 b1 = false := fun hp' => by
    have h0 : ext32Seq 2 r0 = false := by rw [← hasExt32_arr (readArrayHeader_sound hh) hs]; exact hx hp'
    exact (ext32Seq_cons (ext32Seq_cons h0 p1).2 p2).1
  unfold Helo.unmarshal
  rw [hh]; simp only [Res.bind]
  rw [if_neg (by decide), readString_of_parse p1]; simp only
  rcases ho with rfl | ⟨kvs, rfl, hk⟩
  · rw [isNil_of_parse_nil p2, if_pos rfl, readNil_of_parse p2]; rfl
  · rw [isNil_false_of_parse p2 (by intro e; cases e)]
    simp only [Bool.false_eq_true, if_false]
    rw [HeloOpts.unmarshal_complete p _ p2 hk hx2]; rfl

/-- **PONG, any conforming encoding** -/
theorem Pong.unmarshal_complete (p : Path) (recv : Pong) {b r : Bytes} {mt reason host dig : Bytes} {ar : Bool}
    (h : parse b = some (.arr (.cons (.str mt) (.cons (.bool ar) (.cons (.str reason) (.cons (.str host)
      (.cons (.str dig) .nil))))), r)) :
    Pong.unmarshal p recv b = .ok (Pong.mk mt ar reason host dig) r := by
  obtain ⟨n, r0, hh, hs⟩ := readArrayHeader_of_parse h
  obtain ⟨n1, b1, e1, p1, s1⟩ := parseSeq_cons_inv hs
  obtain ⟨n2, b2, e2, p2, s2⟩ := parseSeq_cons_inv s1
  obtain ⟨n3, b3, e3, p3, s3⟩ := parseSeq_cons_inv s2
  obtain ⟨n4, b4, e4, p4, s4⟩ := parseSeq_cons_inv s3
  obtain ⟨n5, b5, e5, p5, s5⟩ := parseSeq_cons_inv s4
  obtain ⟨e6, rfl⟩ := parseSeq_nil_inv s5
  have hn : n = 5 := by omega
  subst hn
  unfold Pong.unmarshal
  rw [hh]
  simp [Res.bind, Res.map, readString_of_parse p1, readBool_of_parse p2, readString_of_parse p3,
    readString_of_parse p4, readString_of_parse p5]

/-- **PING, any conforming encoding** -/
theorem Ping.unmarshal_complete (p : Path) (recv : Ping) {b r : Bytes} {mt host salt dig user pw : Bytes}
    (h : parse b = some (.arr (.cons (.str mt) (.cons (.str host) (.cons (.bin salt) (.cons (.str dig)
      (.cons (.str user) (.cons (.str pw) .nil)))))), r)) :
    Ping.unmarshal p recv b = .ok (Ping.mk mt host salt dig user pw) r := by
  obtain ⟨n, r0, hh, hs⟩ := readArrayHeader_of_parse h
  obtain ⟨n1, b1, e1, p1, s1⟩ := parseSeq_cons_inv hs
  obtain ⟨n2, b2, e2, p2, s2⟩ := parseSeq_cons_inv s1
  obtain ⟨n3, b3, e3, p3, s3⟩ := parseSeq_cons_inv s2
  obtain ⟨n4, b4, e4, p4, s4⟩ := parseSeq_cons_inv s3
  obtain ⟨n5, b5, e5, p5, s5⟩ := parseSeq_cons_inv s4
  obtain ⟨n6, b6, e6, p6, s6⟩ := parseSeq_cons_inv s5
  obtain ⟨e7, rfl⟩ := parseSeq_nil_inv s6
  have hn : n = 6 := by omega
  subst hn
  unfold Ping.unmarshal
  rw [hh]
  simp [Res.bind, Res.map, readString_of_parse p1, readString_of_parse p2, readBytes_of_parse p3,
    readString_of_parse p4, readString_of_parse p5, readString_of_parse p6]

end FV
