/-! byte strings, big-endian readings -/
namespace FV
abbrev Bytes := List UInt8

def beVal : Bytes → Nat
  | [] => 0
  | b :: bs => b.toNat * 256 ^ bs.length + beVal bs

def be : Nat → Nat → Bytes
  | 0, _ => []
  | k+1, n => UInt8.ofNat (n / 256 ^ k) :: be k (n % 256 ^ k)

@[simp] theorem be_length (k n : Nat) : (be k n).length = k := by
  induction k generalizing n with
  | zero => rfl
  | succ k ih => simp [be, ih]

theorem beVal_be (k n : Nat) (h : n < 256 ^ k) : beVal (be k n) = n := by
  induction k generalizing n with
  | zero => simp [be, beVal]; omega
  | succ k ih =>
    simp only [be, beVal, be_length]
    have hp : 0 < 256 ^ k := Nat.pow_pos (by decide)
    have h1 : n / 256 ^ k < 256 := by
      rw [Nat.div_lt_iff_lt_mul hp]; rw [Nat.pow_succ] at h; omega
    rw [ih _ (Nat.mod_lt _ hp)]
    have : (UInt8.ofNat (n / 256 ^ k)).toNat = n / 256 ^ k := by
      simp [UInt8.toNat_ofNat']; omega
    rw [this]
    exact Nat.div_add_mod' n (256 ^ k)

theorem beVal_lt (b : Bytes) : beVal b < 256 ^ b.length := by
  induction b with
  | nil => simp [beVal]
  | cons x xs ih =>
    simp only [beVal, List.length_cons, Nat.pow_succ]
    have := x.toNat_lt
    have hp : 0 < 256 ^ xs.length := Nat.pow_pos (by decide)
    calc x.toNat * 256 ^ xs.length + beVal xs
        < x.toNat * 256 ^ xs.length + 256 ^ xs.length := by omega
      _ = (x.toNat + 1) * 256 ^ xs.length := by rw [Nat.add_mul]; simp
      _ ≤ 256 * 256 ^ xs.length := Nat.mul_le_mul_right _ (by omega)
      _ = 256 ^ xs.length * 256 := Nat.mul_comm _ _


theorem be_beVal : ∀ (b : Bytes), be b.length (beVal b) = b
  | [] => rfl
  | x :: xs => by
    have hlt := beVal_lt xs
    have hp : 0 < 256 ^ xs.length := Nat.pow_pos (by decide)
    simp only [List.length_cons, be, beVal]
    have h1 : (x.toNat * 256 ^ xs.length + beVal xs) / 256 ^ xs.length = x.toNat := by
      rw [Nat.mul_comm, Nat.mul_add_div hp, Nat.div_eq_of_lt hlt]; simp
    have h2 : (x.toNat * 256 ^ xs.length + beVal xs) % 256 ^ xs.length = beVal xs := by
      rw [Nat.mul_comm, Nat.mul_add_mod, Nat.mod_eq_of_lt hlt]
    rw [h1, h2, be_beVal xs]
    simp

theorem beVal_append (a b : Bytes) : beVal (a ++ b) = beVal a * 256 ^ b.length + beVal b := by
  induction a with
  | nil => simp [beVal]
  | cons c cs ih =>
    simp only [List.cons_append, beVal, List.length_append, ih, Nat.pow_add]
    rw [Nat.add_mul, Nat.mul_assoc, Nat.add_assoc]

end FV
