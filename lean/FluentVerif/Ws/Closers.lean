/-! Interleaving model of the websocket close protocol (`connection.CloseWithMsg` in
fluent/client/ws/connection.go), closers only: any number of goroutines call Close / CloseWithMsg;
the reader loop, the listener, the peer and the network are an environment that may change the bits
it owns (`error`, `listening`, "done is closed") arbitrarily at any time.  One atomic step per
helper call the Go code performs under a lock, per I/O call, per channel operation:
c0 take closeLock · c1 test-and-clear Open, release · c2 test Error · c3 set CloseSent ·
c4 WriteMessage(Close) · c5 wait for done or the timer · c6 set Closed · c7 Conn.Close. -/
namespace FV.WsCl

inductive CPc where
  | c0 | c1 | c2 | c3 | c4 | c5 (wok : Bool) | c6 | c7 | retMultiple | retDone
deriving DecidableEq, Repr

def CPc.past : CPc → Bool
  | .c2 | .c3 | .c4 | .c5 _ | .c6 | .c7 => true
  | _ => false

def CPc.preWrite : CPc → Bool
  | .c2 | .c3 | .c4 => true
  | _ => false

structure St where
  threads : List CPc
  closeLock : Option Nat := none
  opn : Bool := true
  error : Bool := false
  listening : Bool := false
  doneClosed : Bool := false
  closeSent : Bool := false
  closed : Bool := false
  frames : Nat := 0
  connCloses : Nat := 0
  winner : Option Nat := none     -- ghost
deriving Repr

def St.setPc (s : St) (t : Nat) (p : CPc) : St := { s with threads := s.threads.set t p }

/-- one step of thread `t`; `ch` resolves environment choices. `t = threads.length` is the
environment, which may set the three bits it owns arbitrarily. -/
def step (s : St) (t : Nat) (ch : Nat) : St :=
  match s.threads[t]? with
  | none =>
    -- environment: reader loop / peer / network (havoc of error, listening, doneClosed)
    { s with error := ch % 2 == 1, listening := (ch / 2) % 2 == 1,
             doneClosed := s.doneClosed || (ch / 4) % 2 == 1 }
  | some .c0 => if s.closeLock.isNone then { s.setPc t .c1 with closeLock := some t } else s
  | some .c1 =>
    if s.opn then { s.setPc t .c2 with opn := false, closeLock := none, winner := some t }
    else { s.setPc t .retMultiple with closeLock := none }
  | some .c2 => if s.error then s.setPc t .c6 else s.setPc t .c3
  | some .c3 => { s.setPc t .c4 with closeSent := true }
  | some .c4 => { s.setPc t (.c5 (ch % 2 == 0)) with frames := s.frames + 1 }
  | some (.c5 wok) =>
    if wok && s.listening then
      if ch % 2 == 0 then s.setPc t .c6                     -- timer fires: always possible
      else if s.doneClosed then s.setPc t .c6 else s        -- done not closed yet: keep waiting
    else s.setPc t .c6
  | some .c6 => { s.setPc t .c7 with closed := true }
  | some .c7 => { s.setPc t .retDone with connCloses := s.connCloses + 1 }
  | some .retMultiple => s
  | some .retDone => s

def run (s : St) : List (Nat × Nat) → St
  | [] => s
  | (t, c) :: r => run (step s t c) r

def init (n : Nat) : St := { threads := List.replicate n .c0 }

structure Inv (s : St) : Prop where
  lock : ∀ (t : Nat), s.closeLock = some t ↔ s.threads[t]? = some .c1
  win  : ∀ (t : Nat) (p : CPc), s.threads[t]? = some p → (p.past = true ∨ p = .retDone) → s.winner = some t
  opn  : s.opn = true → s.winner = none
  fr   : s.frames ≤ 1 ∧ (s.frames = 1 → s.winner ≠ none ∧ ∀ (t : Nat) (p : CPc), s.threads[t]? = some p → p.preWrite = false)
  cc   : s.connCloses ≤ 1 ∧ (s.connCloses = 1 → s.winner ≠ none ∧ ∀ (t : Nat) (p : CPc), s.threads[t]? = some p → p.past = false)

theorem inv_init (n : Nat) : Inv (init n) := by
  refine ⟨?_, ?_, ?_, ?_, ?_⟩
  · intro t; simp [init, List.getElem?_replicate]
  · intro t p h hp
    simp [init, List.getElem?_replicate] at h
    obtain ⟨_, rfl⟩ := h; simp [CPc.past] at hp
  · intro _; rfl
  · simp [init]
  · simp [init]

theorem get_set {l : List CPc} {t u : Nat} {p q : CPc} (h : (l.set t p)[u]? = some q) :
    (u = t ∧ q = p ∧ t < l.length) ∨ (u ≠ t ∧ l[u]? = some q) := by
  rw [List.getElem?_set] at h
  split at h
  · next e =>
    split at h
    · simp at h; exact Or.inl ⟨e.symm, h.symm, by assumption⟩
    · simp at h
  · next e => exact Or.inr ⟨fun e' => e e'.symm, h⟩


/-- moving thread `t` from `p0` to `p1` while touching no shared field other than `threads` -/
theorem inv_move {s : St} {t : Nat} {p0 p1 : CPc} (h : Inv s) (h0 : s.threads[t]? = some p0)
    (hc1 : p0 ≠ .c1) (hn1 : p1 ≠ .c1)
    (hw : (p1.past = true ∨ p1 = .retDone) → (p0.past = true ∨ p0 = .retDone))
    (hf : p1.preWrite = true → p0.preWrite = true)
    (hp : p1.past = true → p0.past = true) : Inv (s.setPc t p1) := by
  have hlt : t < s.threads.length := by
    rcases Nat.lt_or_ge t s.threads.length with h' | h'
    · exact h'
    · rw [List.getElem?_eq_none h'] at h0; cases h0
  refine ⟨?_, ?_, ?_, ?_, ?_⟩
  · intro u
    simp only [St.setPc]
    rw [List.getElem?_set]
    by_cases e : t = u
    · subst e; simp [hlt]
      constructor
      · intro hl; have := (h.lock t).1 hl; rw [h0] at this; cases this; exact absurd rfl hc1
      · intro e1; exact absurd e1 hn1
    · simp [e]; exact h.lock u
  · intro u q hq hpq
    rcases get_set hq with ⟨rfl, rfl, _⟩ | ⟨_, hq'⟩
    · exact h.win _ p0 h0 (hw hpq)
    · exact h.win u q hq' hpq
  · exact h.opn
  · refine ⟨h.fr.1, ?_⟩
    intro hfr
    refine ⟨(h.fr.2 hfr).1, ?_⟩
    intro u q hq
    rcases get_set hq with ⟨rfl, rfl, _⟩ | ⟨_, hq'⟩
    · cases hq1 : q.preWrite with
      | false => rfl
      | true => have := (h.fr.2 hfr).2 _ p0 h0; rw [hf hq1] at this; cases this
    · exact (h.fr.2 hfr).2 u q hq'
  · refine ⟨h.cc.1, ?_⟩
    intro hcc
    refine ⟨(h.cc.2 hcc).1, ?_⟩
    intro u q hq
    rcases get_set hq with ⟨rfl, rfl, _⟩ | ⟨_, hq'⟩
    · cases hq1 : q.past with
      | false => rfl
      | true => have := (h.cc.2 hcc).2 _ p0 h0; rw [hp hq1] at this; cases this
    · exact (h.cc.2 hcc).2 u q hq'

theorem lt_of_get {l : List CPc} {t : Nat} {p : CPc} (h : l[t]? = some p) : t < l.length := by
  rcases Nat.lt_or_ge t l.length with h' | h'
  · exact h'
  · rw [List.getElem?_eq_none h'] at h; cases h

/-- uniqueness of the thread past the gate -/
theorem past_unique {s : St} (h : Inv s) {t u : Nat} {p q : CPc}
    (ht : s.threads[t]? = some p) (hu : s.threads[u]? = some q)
    (hp : p.past = true ∨ p = .retDone) (hq : q.past = true ∨ q = .retDone) : t = u := by
  have a := h.win t p ht hp
  have b := h.win u q hu hq
  rw [a] at b; cases b; rfl

theorem inv_step (s : St) (t ch : Nat) (h : Inv s) : Inv (step s t ch) := by
  unfold step
  split
  · exact ⟨h.lock, h.win, h.opn, h.fr, h.cc⟩
  · -- c0
    next h0 =>
    split
    · next hfree =>
      have hlt := lt_of_get h0
      have hnone : s.closeLock = none := by
        cases hcl : s.closeLock with
        | none => rfl
        | some x => rw [hcl] at hfree; simp at hfree
      refine ⟨?_, ?_, ?_, ?_, ?_⟩
      · intro u
        simp only [St.setPc]
        rw [List.getElem?_set]
        by_cases e : t = u
        · subst e; simp [hlt]
        · simp [e]
          intro hu; have := (h.lock u).2 hu; rw [hnone] at this; cases this
      · intro u q hq hpq
        rcases get_set hq with ⟨rfl, rfl, _⟩ | ⟨_, hq'⟩
        · simp [CPc.past] at hpq
        · exact h.win u q hq' hpq
      · exact h.opn
      · refine ⟨h.fr.1, fun hfr => ⟨(h.fr.2 hfr).1, ?_⟩⟩
        intro u q hq
        rcases get_set hq with ⟨rfl, rfl, _⟩ | ⟨_, hq'⟩
        · rfl
        · exact (h.fr.2 hfr).2 u q hq'
      · refine ⟨h.cc.1, fun hcc => ⟨(h.cc.2 hcc).1, ?_⟩⟩
        intro u q hq
        rcases get_set hq with ⟨rfl, rfl, _⟩ | ⟨_, hq'⟩
        · rfl
        · exact (h.cc.2 hcc).2 u q hq'
    · exact h
  · -- c1
    next h0 =>
    have hlt := lt_of_get h0
    have hheld : s.closeLock = some t := (h.lock t).2 h0
    have others : ∀ u, u ≠ t → s.threads[u]? ≠ some .c1 := by
      intro u hu hc; have := (h.lock u).2 hc; rw [hheld] at this; cases this; exact hu rfl
    have lockcase : ∀ (p1 : CPc), p1 ≠ .c1 → ∀ (u : Nat),
        (none : Option Nat) = some u ↔ (s.threads.set t p1)[u]? = some .c1 := by
      intro p1 hp1 u
      rw [List.getElem?_set]
      by_cases e : t = u
      · subst e; simp [hlt]; exact fun e' => hp1 e'
      · simp [e]; exact others u (fun e' => e e'.symm)
    split
    · next hopen =>
      have hwn := h.opn hopen
      have nopast : ∀ (u : Nat) (q : CPc), s.threads[u]? = some q → (q.past = true ∨ q = .retDone) → False := by
        intro u q hq hpq; have := h.win u q hq hpq; rw [hwn] at this; cases this
      have hf0 : s.frames ≠ 1 := fun e => (h.fr.2 e).1 hwn
      have hc0 : s.connCloses ≠ 1 := fun e => (h.cc.2 e).1 hwn
      refine ⟨lockcase .c2 (by decide), ?_, ?_, ?_, ?_⟩
      · intro u q hq hpq
        rcases get_set hq with ⟨rfl, rfl, _⟩ | ⟨_, hq'⟩
        · rfl
        · exact absurd (nopast u q hq' hpq) id
      · intro hf; cases hf
      · exact ⟨h.fr.1, fun e => absurd e hf0⟩
      · exact ⟨h.cc.1, fun e => absurd e hc0⟩
    · refine ⟨lockcase .retMultiple (by decide), ?_, h.opn, ?_, ?_⟩
      · intro u q hq hpq
        rcases get_set hq with ⟨rfl, rfl, _⟩ | ⟨_, hq'⟩
        · simp [CPc.past] at hpq
        · exact h.win u q hq' hpq
      · refine ⟨h.fr.1, fun hfr => ⟨(h.fr.2 hfr).1, ?_⟩⟩
        intro u q hq
        rcases get_set hq with ⟨rfl, rfl, _⟩ | ⟨_, hq'⟩
        · rfl
        · exact (h.fr.2 hfr).2 u q hq'
      · refine ⟨h.cc.1, fun hcc => ⟨(h.cc.2 hcc).1, ?_⟩⟩
        intro u q hq
        rcases get_set hq with ⟨rfl, rfl, _⟩ | ⟨_, hq'⟩
        · rfl
        · exact (h.cc.2 hcc).2 u q hq'
  · -- c2
    next h0 =>
    split
    · exact inv_move h h0 (by decide) (by decide) (by simp [CPc.past]) (by simp [CPc.preWrite]) (by simp [CPc.past])
    · exact inv_move h h0 (by decide) (by decide) (by simp [CPc.past]) (by simp [CPc.preWrite]) (by simp [CPc.past])
  · -- c3
    next h0 =>
    have := inv_move (p1 := .c4) h h0 (by decide) (by decide) (by simp [CPc.past]) (by simp [CPc.preWrite]) (by simp [CPc.past])
    exact ⟨this.lock, this.win, this.opn, this.fr, this.cc⟩
  · -- c4: the close frame is written
    next h0 =>
    have hm := inv_move (p1 := .c5 (ch % 2 == 0)) h h0 (by decide) (by simp) (by simp [CPc.past]) (by simp [CPc.preWrite]) (by simp [CPc.past])
    have hw := h.win t .c4 h0 (Or.inl rfl)
    have hf0 : s.frames = 0 := by
      have := h.fr.1
      rcases Nat.lt_or_ge s.frames 1 with h' | h'
      · omega
      · have e : s.frames = 1 := by omega
        have := (h.fr.2 e).2 t .c4 h0; simp [CPc.preWrite] at this
    refine ⟨hm.lock, hm.win, hm.opn, ?_, hm.cc⟩
    refine ⟨by simp [hf0], fun _ => ⟨by simp [St.setPc, hw], ?_⟩⟩
    intro u q hq
    rcases get_set hq with ⟨rfl, rfl, _⟩ | ⟨hne, hq'⟩
    · rfl
    · cases hq1 : q.preWrite with
      | false => rfl
      | true =>
        have hqp : q.past = true := by cases q <;> simp_all [CPc.preWrite, CPc.past]
        exact absurd (past_unique h hq' h0 (Or.inl hqp) (Or.inl rfl)) hne
  · -- c5
    next wok h0 =>
    have mv := inv_move (p1 := .c6) h h0 (by simp) (by decide) (by simp [CPc.past]) (by simp [CPc.preWrite]) (by simp [CPc.past])
    split
    · split
      · exact mv
      · split
        · exact mv
        · exact h
    · exact mv
  · -- c6
    next h0 =>
    have := inv_move (p1 := .c7) h h0 (by decide) (by decide) (by simp [CPc.past]) (by simp [CPc.preWrite]) (by simp [CPc.past])
    exact ⟨this.lock, this.win, this.opn, this.fr, this.cc⟩
  · -- c7: the underlying connection is closed
    next h0 =>
    have hm := inv_move (p1 := .retDone) h h0 (by decide) (by decide) (by simp [CPc.past]) (by simp [CPc.preWrite]) (by simp [CPc.past])
    have hw := h.win t .c7 h0 (Or.inl rfl)
    have hc0 : s.connCloses = 0 := by
      have := h.cc.1
      rcases Nat.lt_or_ge s.connCloses 1 with h' | h'
      · omega
      · have e : s.connCloses = 1 := by omega
        have := (h.cc.2 e).2 t .c7 h0; simp [CPc.past] at this
    refine ⟨hm.lock, hm.win, hm.opn, hm.fr, ?_⟩
    refine ⟨by simp [hc0], fun _ => ⟨by simp [St.setPc, hw], ?_⟩⟩
    intro u q hq
    rcases get_set hq with ⟨rfl, rfl, _⟩ | ⟨hne, hq'⟩
    · rfl
    · cases hq1 : q.past with
      | false => rfl
      | true => exact absurd (past_unique h hq' h0 (Or.inl hq1) (Or.inl rfl)) hne
  · exact h
  · exact h

theorem inv_run (sched : List (Nat × Nat)) : ∀ s, Inv s → Inv (run s sched) := by
  induction sched with
  | nil => intro s h; exact h
  | cons x xs ih => intro s h; exact ih _ (inv_step s x.1 x.2 h)

/-- **C15 (closers)**: for any number of concurrent close calls, any schedule and any behaviour of
reader loop / peer / network: at most one close frame is written, the underlying connection is
closed at most once, at most one call is past the gate, and `Open` never comes back. -/
theorem C15_closers (n : Nat) (sched : List (Nat × Nat)) :
    let s := run (init n) sched
    s.frames ≤ 1 ∧ s.connCloses ≤ 1 ∧
    (∀ (t u : Nat) (p q : CPc), s.threads[t]? = some p → s.threads[u]? = some q →
        p.past = true → q.past = true → t = u) := by
  intro s
  have h := inv_run sched (init n) (inv_init n)
  exact ⟨h.fr.1, h.cc.1, fun t u p q ht hu hp hq => past_unique h ht hu (Or.inl hp) (Or.inl hq)⟩

end FV.WsCl

/-! ### the Closed bit is set no later than the underlying close

What the reader relies on: when its `ReadMessage` fails because *this side* closed the underlying
connection, `hasConnState(Closed)` already holds, so the failure is recognised as a healthy close
and `Listen` returns nil. -/
namespace FV.WsCl

structure Inv2 (s : St) : Prop where
  at7 : ∀ (t : Nat), s.threads[t]? = some .c7 → s.closed = true
  done : ∀ (t : Nat), s.threads[t]? = some .retDone → s.closed = true
  cc : 1 ≤ s.connCloses → s.closed = true

theorem inv2_init (n : Nat) : Inv2 (init n) := by
  refine ⟨?_, ?_, ?_⟩
  · intro t h; simp [init, List.getElem?_replicate] at h
  · intro t h; simp [init, List.getElem?_replicate] at h
  · intro h; simp [init] at h

/-- moving one thread to a program counter other than `c7` / `retDone`, leaving `closed` and
`connCloses` alone -/
theorem inv2_move {s : St} {t : Nat} {p1 : CPc} (h : Inv2 s) (h7 : p1 ≠ .c7) (hd : p1 ≠ .retDone) :
    Inv2 (s.setPc t p1) := by
  refine ⟨?_, ?_, h.cc⟩
  · intro u hu
    rcases get_set hu with ⟨_, e, _⟩ | ⟨_, hu'⟩
    · exact absurd e.symm h7
    · exact h.at7 u hu'
  · intro u hu
    rcases get_set hu with ⟨_, e, _⟩ | ⟨_, hu'⟩
    · exact absurd e.symm hd
    · exact h.done u hu'

theorem inv2_step (s : St) (t ch : Nat) (h : Inv2 s) : Inv2 (step s t ch) := by
  unfold step
  split
  · exact ⟨h.at7, h.done, h.cc⟩
  · split
    · have := inv2_move (t := t) (p1 := .c1) h (by decide) (by decide)
      exact ⟨this.at7, this.done, this.cc⟩
    · exact h
  · split
    · have := inv2_move (t := t) (p1 := .c2) h (by decide) (by decide)
      exact ⟨this.at7, this.done, this.cc⟩
    · have := inv2_move (t := t) (p1 := .retMultiple) h (by decide) (by decide)
      exact ⟨this.at7, this.done, this.cc⟩
  · split
    · exact inv2_move h (by decide) (by decide)
    · exact inv2_move h (by decide) (by decide)
  · have := inv2_move (t := t) (p1 := .c4) h (by decide) (by decide)
    exact ⟨this.at7, this.done, this.cc⟩
  · have := inv2_move (t := t) (p1 := .c5 (ch % 2 == 0)) h (by simp) (by simp)
    exact ⟨this.at7, this.done, this.cc⟩
  · split
    · split
      · exact inv2_move h (by decide) (by decide)
      · split
        · exact inv2_move h (by decide) (by decide)
        · exact h
    · exact inv2_move h (by decide) (by decide)
  · -- c6: the Closed bit is set, then the thread stands before the underlying close
    exact ⟨fun _ _ => rfl, fun _ _ => rfl, fun _ => rfl⟩
  · -- c7: the underlying close; the thread was at c7, so Closed holds already
    next h0 =>
    have hc := h.at7 t h0
    refine ⟨?_, ?_, fun _ => hc⟩
    · intro u hu
      rcases get_set hu with ⟨_, e, _⟩ | ⟨_, hu'⟩
      · cases e
      · exact h.at7 u hu'
    · intro u _; exact hc
  · exact h
  · exact h

theorem inv2_run (s : St) (sched : List (Nat × Nat)) (h : Inv2 s) : Inv2 (run s sched) := by
  induction sched generalizing s with
  | nil => exact h
  | cons x xs ih => exact ih _ (inv2_step s x.1 x.2 h)

end FV.WsCl
