/-! Interleaving model of `Listen` / `runReadLoop` (fluent/client/ws/connection.go): any number of
`Listen` calls on one connection.  A call takes `listenLock`, tests the Listening flag, sets it,
releases the lock and spawns its read loop; the loop reads until an error, then closes its message
channel, clears Listening and closes `done` through a `sync.Once`.  What the peer and the network
deliver is a schedule choice. -/
namespace FV.WsR

inductive Pc where
  | l0            -- Listen called
  | l1            -- holds listenLock
  | already       -- returned "already listening"
  | reading       -- its read loop is inside Conn.ReadMessage
  | got           -- ReadMessage returned an error; the message is being handed to Listen
  | exit1         -- message channel closed
  | exit2         -- Listening cleared
  | fin           -- done closed (once); Listen has returned
deriving DecidableEq, Repr

/-- the read loop owns the connection's read side -/
def Pc.active : Pc → Bool
  | .reading | .got | .exit1 => true
  | _ => false

structure St where
  threads : List Pc
  listenLock : Option Nat := none
  listening : Bool := false
  doneFired : Bool := false       -- the sync.Once
  doneCloses : Nat := 0           -- times `close(done)` was executed (2 = panic)
deriving Repr

def St.setPc (s : St) (t : Nat) (p : Pc) : St := { s with threads := s.threads.set t p }

/-- `once = false` is the pinned code: every read loop closes `done` -/
def step (once : Bool) (s : St) (t : Nat) (ch : Nat) : St :=
  match s.threads[t]? with
  | none => s
  | some .l0 => if s.listenLock.isNone then { s.setPc t .l1 with listenLock := some t } else s
  | some .l1 =>
    if s.listening then { s.setPc t .already with listenLock := none }
    else { s.setPc t .reading with listenLock := none, listening := true }
  | some .reading => if ch % 2 == 0 then s else s.setPc t .got      -- a data message: keep reading; an error: leave
  | some .got => s.setPc t .exit1
  | some .exit1 => { s.setPc t .exit2 with listening := false }
  | some .exit2 =>
    if once && s.doneFired then s.setPc t .fin
    else { s.setPc t .fin with doneFired := true, doneCloses := s.doneCloses + 1 }
  | some .already => s
  | some .fin => s

def run (once : Bool) (s : St) : List (Nat × Nat) → St
  | [] => s
  | (t, c) :: r => run once (step once s t c) r

def init (n : Nat) : St := { threads := List.replicate n .l0 }

def activeCount (l : List Pc) : Nat := (l.filter Pc.active).length

end FV.WsR
