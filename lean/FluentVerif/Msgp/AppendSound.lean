import FluentVerif.Msgp.Append
import FluentVerif.Msgp.Sound
/-! header-level facts about msgp's write primitives: what the specification's `header` reads
back from each of them.  Both the parse-level (`C02`) and the read-level (`C01`) statements are
derived from these. -/
namespace FV

theorem classify_c4 : classify 0xc4 = .blobL .bin 1 := by rfl
theorem classify_c5 : classify 0xc5 = .blobL .bin 2 := by rfl
theorem classify_c6 : classify 0xc6 = .blobL .bin 4 := by rfl
theorem classify_ca : classify 0xca = .f32 := by rfl
theorem classify_cb : classify 0xcb = .f64 := by rfl
theorem classify_cc : classify 0xcc = .uintW 1 := by rfl
theorem classify_cd : classify 0xcd = .uintW 2 := by rfl
theorem classify_ce : classify 0xce = .uintW 4 := by rfl
theorem classify_cf : classify 0xcf = .uintW 8 := by rfl
theorem classify_d7 : classify 0xd7 = .extFix 8 := by rfl
theorem classify_de : classify 0xde = .mapL 2 := by rfl
theorem classify_df : classify 0xdf = .mapL 4 := by rfl

theorem header_appendNil (r : Bytes) : header (appendNil ++ r) = some (.scalar .nil, r) := by
  simp [appendNil, header, classify_c0, headerOf]

theorem header_appendBool (v : Bool) (r : Bytes) : header (appendBool v ++ r) = some (.scalar (.bool v), r) := by
  cases v <;> simp [appendBool, header, classify_c2, classify_c3, headerOf]

theorem header_appendInt64 (i : Int) (h : inInt64 i) (r : Bytes) :
    header (appendInt64 i ++ r) = some (.scalar (.int i), r) := by
  obtain ⟨lo, hi⟩ := h
  unfold appendInt64
  split
  · split
    · have hb : (UInt8.ofNat i.toNat).toNat = i.toNat := by simp [UInt8.toNat_ofNat']; omega
      simp only [List.cons_append, List.nil_append, header]
      rw [classify_posfix _ (by omega)]
      simp [headerOf, hb]; omega
    · split
      · rw [List.cons_append, header_intW 0xd1 2 _ r classify_d1 (by simp; omega)]
        simp [signed]; omega
      · split
        · rw [List.cons_append, header_intW 0xd2 4 _ r classify_d2 (by simp; omega)]
          simp [signed]; omega
        · rw [List.cons_append, header_intW 0xd3 8 _ r classify_d3 (by simp; omega)]
          simp [signed]; omega
  · split
    · have hb : (UInt8.ofNat (256 + i).toNat).toNat = (256 + i).toNat := by simp [UInt8.toNat_ofNat']; omega
      simp only [List.cons_append, List.nil_append, header]
      rw [classify_negfix _ (by omega)]
      simp [headerOf, hb]; omega
    · split
      · rw [List.cons_append, header_intW 0xd0 1 _ r classify_d0 (by simp; omega)]
        simp [signed]; omega
      · split
        · rw [List.cons_append, header_intW 0xd1 2 _ r classify_d1 (by simp; omega)]
          simp [signed]; omega
        · split
          · rw [List.cons_append, header_intW 0xd2 4 _ r classify_d2 (by simp; omega)]
            simp [signed]; omega
          · rw [List.cons_append, header_intW 0xd3 8 _ r classify_d3 (by simp; omega)]
            simp [signed]; omega

theorem header_uintW (lead : UInt8) (w v : Nat) (r : Bytes) (hc : classify lead = .uintW w)
    (hv : v < 256 ^ w) :
    header (lead :: (be w v ++ r)) = some (.scalar (.int v), r) := by
  simp [header, hc, headerOf, needs, beVal_be w v hv]

theorem header_appendUint64 (u : Nat) (h : u < 18446744073709551616) (r : Bytes) :
    header (appendUint64 u ++ r) = some (.scalar (.int u), r) := by
  unfold appendUint64
  split
  · have hb : (UInt8.ofNat u).toNat = u := by simp [UInt8.toNat_ofNat']; omega
    simp only [List.cons_append, List.nil_append, header]
    rw [classify_posfix _ (by omega)]
    simp [headerOf, hb]
  · split
    · rw [List.cons_append, header_uintW 0xcc 1 _ r classify_cc (by simp; omega)]
    · split
      · rw [List.cons_append, header_uintW 0xcd 2 _ r classify_cd (by simp; omega)]
      · split
        · rw [List.cons_append, header_uintW 0xce 4 _ r classify_ce (by simp; omega)]
        · rw [List.cons_append, header_uintW 0xcf 8 _ r classify_cf (by simp; omega)]

theorem header_appendFloat32 (bits : Nat) (h : bits < 4294967296) (r : Bytes) :
    header (appendFloat32 bits ++ r) = some (.scalar (.f32 bits), r) := by
  simp [appendFloat32, header, classify_ca, headerOf, needs, beVal_be 4 bits (by simpa using h)]

theorem header_appendFloat64 (bits : Nat) (h : bits < 18446744073709551616) (r : Bytes) :
    header (appendFloat64 bits ++ r) = some (.scalar (.f64 bits), r) := by
  simp [appendFloat64, header, classify_cb, headerOf, needs, beVal_be 8 bits (by simpa using h)]

theorem header_blobL (lead : UInt8) (k : BlobKind) (lw n : Nat) (r : Bytes)
    (hc : classify lead = .blobL k lw) (hn : n < 256 ^ lw) :
    header (lead :: (be lw n ++ r)) = some (.blob k n, r) := by
  simp [header, hc, headerOf, needs, beVal_be lw n hn]

theorem header_appendString (s r : Bytes) (h : s.length < 4294967296) :
    header (appendString s ++ r) = some (.blob .str s.length, s ++ r) := by
  unfold appendString
  simp only
  split
  · have hb : (UInt8.ofNat (0xa0 + s.length)).toNat = 0xa0 + s.length := by
      simp [UInt8.toNat_ofNat']; omega
    simp only [List.cons_append, header]
    rw [classify_fixstr _ (by omega) (by omega)]
    simp [headerOf]; omega
  · split
    · simp only [List.cons_append, List.append_assoc]
      rw [header_blobL 0xd9 .str 1 _ _ classify_d9 (by simp; omega)]
    · split
      · simp only [List.cons_append, List.append_assoc]
        rw [header_blobL 0xda .str 2 _ _ classify_da (by simp; omega)]
      · simp only [List.cons_append, List.append_assoc]
        rw [header_blobL 0xdb .str 4 _ _ classify_db (by simp; omega)]

theorem header_appendBytes (s r : Bytes) (h : s.length < 4294967296) :
    header (appendBytes s ++ r) = some (.blob .bin s.length, s ++ r) := by
  unfold appendBytes
  simp only
  split
  · simp only [List.cons_append, List.append_assoc]
    rw [header_blobL 0xc4 .bin 1 _ _ classify_c4 (by simp; omega)]
  · split
    · simp only [List.cons_append, List.append_assoc]
      rw [header_blobL 0xc5 .bin 2 _ _ classify_c5 (by simp; omega)]
    · simp only [List.cons_append, List.append_assoc]
      rw [header_blobL 0xc6 .bin 4 _ _ classify_c6 (by simp; omega)]

theorem header_arrL (lead : UInt8) (lw n : Nat) (r : Bytes)
    (hc : classify lead = .arrL lw) (hn : n < 256 ^ lw) :
    header (lead :: (be lw n ++ r)) = some (.arr n, r) := by
  simp [header, hc, headerOf, needs, beVal_be lw n hn]

theorem header_appendArrayHeader (n : Nat) (r : Bytes) (h : n < 4294967296) :
    header (appendArrayHeader n ++ r) = some (.arr n, r) := by
  unfold appendArrayHeader
  split
  · have hb : (UInt8.ofNat (0x90 + n)).toNat = 0x90 + n := by simp [UInt8.toNat_ofNat']; omega
    simp only [List.cons_append, List.nil_append, header]
    rw [classify_fixarr _ (by omega) (by omega)]
    simp [headerOf]; omega
  · split
    · rw [List.cons_append, header_arrL 0xdc 2 _ r classify_dc (by simp; omega)]
    · rw [List.cons_append, header_arrL 0xdd 4 _ r classify_dd (by simp; omega)]

theorem header_mapL (lead : UInt8) (lw n : Nat) (r : Bytes)
    (hc : classify lead = .mapL lw) (hn : n < 256 ^ lw) :
    header (lead :: (be lw n ++ r)) = some (.map n, r) := by
  simp [header, hc, headerOf, needs, beVal_be lw n hn]

theorem header_appendMapHeader (n : Nat) (r : Bytes) (h : n < 4294967296) :
    header (appendMapHeader n ++ r) = some (.map n, r) := by
  unfold appendMapHeader
  split
  · have hb : (UInt8.ofNat (0x80 + n)).toNat = 0x80 + n := by simp [UInt8.toNat_ofNat']; omega
    simp only [List.cons_append, List.nil_append, header]
    rw [classify_fixmap _ (by omega) (by omega)]
    simp [headerOf]; omega
  · split
    · rw [List.cons_append, header_mapL 0xde 2 _ r classify_de (by simp; omega)]
    · rw [List.cons_append, header_mapL 0xdf 4 _ r classify_df (by simp; omega)]

theorem encodeET_length (t : Instant) : (encodeET t).length = 8 := by simp [encodeET]

theorem header_appendEventTime (t : Instant) (r : Bytes) :
    header (appendEventTime t ++ r) = some (.ext 8, 0x00 :: (encodeET t ++ r)) := by
  simp [appendEventTime, header, classify_d7, headerOf]

/-- small fixed-count headers written as literal bytes by the generated code -/
theorem header_fixarr (n : Nat) (h : n ≤ 15) (r : Bytes) :
    header (UInt8.ofNat (0x90 + n) :: r) = some (.arr n, r) := by
  have := header_appendArrayHeader n r (by omega)
  simpa [appendArrayHeader, h] using this

theorem header_fixmap (n : Nat) (h : n ≤ 15) (r : Bytes) :
    header (UInt8.ofNat (0x80 + n) :: r) = some (.map n, r) := by
  have := header_appendMapHeader n r (by omega)
  simpa [appendMapHeader, h] using this

/-! ### parse-level -/

theorem parse_appendNil (r : Bytes) : parse (appendNil ++ r) = some (.nil, r) :=
  parse_of_header_scalar (o := .nil) (header_appendNil r)
theorem parse_appendBool (v : Bool) (r : Bytes) : parse (appendBool v ++ r) = some (.bool v, r) :=
  parse_of_header_scalar (o := .bool v) (header_appendBool v r)
theorem parse_appendInt64 (i : Int) (h : inInt64 i) (r : Bytes) : parse (appendInt64 i ++ r) = some (.int i, r) :=
  parse_of_header_scalar (o := .int i) (header_appendInt64 i h r)
theorem parse_appendUint64 (u : Nat) (h : u < 18446744073709551616) (r : Bytes) :
    parse (appendUint64 u ++ r) = some (.int u, r) :=
  parse_of_header_scalar (o := .int u) (header_appendUint64 u h r)
theorem parse_appendFloat32 (b : Nat) (h : b < 4294967296) (r : Bytes) :
    parse (appendFloat32 b ++ r) = some (.f32 b, r) :=
  parse_of_header_scalar (o := .f32 b) (header_appendFloat32 b h r)
theorem parse_appendFloat64 (b : Nat) (h : b < 18446744073709551616) (r : Bytes) :
    parse (appendFloat64 b ++ r) = some (.f64 b, r) :=
  parse_of_header_scalar (o := .f64 b) (header_appendFloat64 b h r)
theorem parse_appendString (s r : Bytes) (h : s.length < 4294967296) :
    parse (appendString s ++ r) = some (.str s, r) := by
  have := parse_of_header_blob (header_appendString s r h) (by simp)
  simpa [blobObj] using this
theorem parse_appendBytes (s r : Bytes) (h : s.length < 4294967296) :
    parse (appendBytes s ++ r) = some (.bin s, r) := by
  have := parse_of_header_blob (header_appendBytes s r h) (by simp)
  simpa [blobObj] using this
theorem parse_appendEventTime (t : Instant) (r : Bytes) :
    parse (appendEventTime t ++ r) = some (.ext 0 (encodeET t), r) := by
  have := parse_of_header_ext (header_appendEventTime t r) (by simp [encodeET_length])
  simpa [encodeET_length] using this

/-! ### read-level -/

theorem readString_appendString (s r : Bytes) (h : s.length < 4294967296) :
    readString (appendString s ++ r) = .ok s r := by
  simp [readString, header_appendString s r h]
theorem readBytes_appendBytes (s r : Bytes) (h : s.length < 4294967296) :
    readBytes (appendBytes s ++ r) = .ok s r := by
  simp [readBytes, header_appendBytes s r h]
theorem readInt64_appendInt64 (i : Int) (h : inInt64 i) (r : Bytes) :
    readInt64 (appendInt64 i ++ r) = .ok i r := by
  simp [readInt64, header_appendInt64 i h r, h]
theorem readBool_appendBool (v : Bool) (r : Bytes) : readBool (appendBool v ++ r) = .ok v r := by
  simp [readBool, header_appendBool v r]
theorem readMapKey_appendString (p : Path) (s r : Bytes) (h : s.length < 4294967296) (hne : s ≠ []) :
    readMapKey p (appendString s ++ r) = .ok s r := by
  have : s.length ≠ 0 := by intro e; exact hne (List.eq_nil_of_length_eq_zero e)
  simp [readMapKey, header_appendString s r h, this]
theorem readEventTime_append (t i : Instant) (r : Bytes) (h : decodeET (encodeET t) = some i) :
    readEventTime (appendEventTime t ++ r) = .ok i r := by
  simp [readEventTime, header_appendEventTime t r, encodeET_length, h]

end FV
