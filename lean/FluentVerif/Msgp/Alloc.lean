import FluentVerif.Msgp.Sound
/-! # Count-driven allocation of `msgp.ReadIntfBytes` (C10, memory clause)

The slice decoders request memory in two ways.  A *length*-sized request (`string(b[:n])`, a copied
`bin`, an extension payload) is made only after the model's `r.length < n → err` test, so it never
exceeds the input.  A *count*-sized request is made **before** the elements are read:
`make([]interface{}, sz)` for an array and `make(map[string]interface{}, sz)` for a map, with `sz`
the declared count.  `allocIntfF` counts the elements requested that way, following `readIntfF .bytes`
statement by statement (same fuel, same order, it stops where the decoder stops). -/
namespace FV

mutual
/-- elements requested by `ReadIntfBytes` on `b` -/
def allocIntfF : Nat → Bytes → Nat
  | 0, _ => 0
  | f+1, b =>
    match header b with
    | some (.arr n, r) => n + allocIntfN f n r
    | some (.map n, r) => n + allocIntfKV f n r
    | _ => 0
/-- … by the element loop of an array of `n` elements -/
def allocIntfN : Nat → Nat → Bytes → Nat
  | 0, _, _ => 0
  | _+1, 0, _ => 0
  | f+1, n+1, b =>
    allocIntfF f b + (match readIntfF .bytes f b with
      | .ok _ r => allocIntfN f n r
      | _ => 0)
/-- … by the key/value loop of `ReadMapStrIntfBytes` -/
def allocIntfKV : Nat → Nat → Bytes → Nat
  | 0, _, _ => 0
  | _+1, 0, _ => 0
  | f+1, n+1, b =>
    match header b with
    | some (.blob _ m, r) =>
      if r.length < m then 0
      else allocIntfF f (r.drop m) + (match readIntfF .bytes f (r.drop m) with
        | .ok _ r' => allocIntfKV f n r'
        | _ => 0)
    | _ => 0
end

/-- elements requested by `ReadIntfBytes(b)` -/
def allocIntf (b : Bytes) : Nat := allocIntfF (2 * b.length + 2) b

/-! ### accepted input: the request is covered by the bytes consumed

Every element of an accepted array or map occupies at least one byte, so on an input the decoder
accepts the elements requested are fewer than the bytes consumed. -/

mutual
theorem allocIntfF_le : ∀ (f : Nat) (b : Bytes) (o r), readIntfF .bytes f b = .ok o r →
    allocIntfF f b + 1 + r.length ≤ b.length
  | 0, _, _, _, h => by simp [readIntfF] at h
  | f+1, b, o, r, h => by
    have hs := parse_shrinks (readIntfF_sound .bytes (f+1) b o r h)
    unfold readIntfF at h
    unfold allocIntfF
    split at h
    · cases h
    · next lead tl =>
      split at h
      · cases h
      · next o0 r0 hh => simp only [hh]; omega
      · next k n r0 hh => simp only [hh]; omega
      · next n r0 hh => simp only [hh]; omega
      · next n r0 hh =>
        simp only [hh]
        obtain ⟨xs, hx, rfl⟩ := Res.map_ok.1 h
        have := allocIntfN_le f n r0 xs r hx
        have := header_shrinks hh
        omega
      · next n r0 hh =>
        simp only [hh]
        obtain ⟨xs, hx, rfl⟩ := Res.map_ok.1 h
        have := allocIntfKV_le f n r0 xs r hx
        have := header_shrinks hh
        omega
theorem allocIntfN_le : ∀ (f n : Nat) (b : Bytes) (os r), readIntfN .bytes f n b = .ok os r →
    allocIntfN f n b + n + r.length ≤ b.length
  | 0, _, _, _, _, h => by simp [readIntfN] at h
  | f+1, 0, b, os, r, h => by
    simp [readIntfN] at h; obtain ⟨_, rfl⟩ := h; simp [allocIntfN]
  | f+1, n+1, b, os, r, h => by
    unfold readIntfN at h
    obtain ⟨x, r1, h1, h2⟩ := Res.bind_ok.1 h
    obtain ⟨xs, h3, rfl⟩ := Res.map_ok.1 h2
    unfold allocIntfN
    simp only [h1]
    have := allocIntfF_le f b x r1 h1
    have := allocIntfN_le f n r1 xs r h3
    omega
theorem allocIntfKV_le : ∀ (f n : Nat) (b : Bytes) (os r), readIntfKV .bytes f n b = .ok os r →
    allocIntfKV f n b + n + r.length ≤ b.length
  | 0, _, _, _, _, h => by simp [readIntfKV] at h
  | f+1, 0, b, os, r, h => by
    simp [readIntfKV] at h; obtain ⟨_, rfl⟩ := h; simp [allocIntfKV]
  | f+1, n+1, b, os, r, h => by
    unfold readIntfKV at h
    unfold allocIntfKV
    split at h
    · next k m r0 hh =>
      simp only [hh]
      split at h
      · cases h
      · next hl =>
        simp only [hl, if_false]
        split at h
        · cases h
        · obtain ⟨v, r1, h1, h2⟩ := Res.bind_ok.1 h
          obtain ⟨kvs, h3, rfl⟩ := Res.map_ok.1 h2
          simp only [h1]
          have := allocIntfF_le f _ v r1 h1
          have := allocIntfKV_le f n r1 kvs r h3
          have := header_shrinks hh
          simp only [List.length_drop] at *
          omega
    · cases h
end

/-- `ReadIntfBytes` accepts `b` ⇒ the elements it requested are fewer than the bytes it consumed -/
theorem allocIntf_le {b o r} (h : readIntf .bytes b = .ok o r) : allocIntf b + 1 + r.length ≤ b.length :=
  allocIntfF_le _ b o r h

/-! ### rejected input: five bytes request 2³² − 1 elements -/

/-- array32 header declaring `0xffffffff` elements, nothing behind it -/
def allocBomb : Bytes := [0xdd, 0xff, 0xff, 0xff, 0xff]

theorem allocIntf_bomb : allocIntf allocBomb = 4294967295 ∧ allocBomb.length = 5 := by
  constructor
  · decide +kernel
  · rfl

/-- the same with a map32 header (`make(map[string]interface{}, sz)`) -/
theorem allocIntf_bomb_map : allocIntf [0xdf, 0xff, 0xff, 0xff, 0xff] = 4294967295 := by decide +kernel

end FV
