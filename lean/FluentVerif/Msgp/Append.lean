import FluentVerif.Msgpack.Enc
import FluentVerif.Proto.EventTime
/-! Model of the tinylib/msgp v1.1.9 *write* primitives (`Append…` on a slice and the
corresponding `Writer.Write…`, which choose the same formats), and of `AppendIntf`/`WriteIntf` on
the Go values a caller can put into a record. -/
namespace FV

def appendNil : Bytes := [0xc0]
def appendBool (b : Bool) : Bytes := if b then [0xc3] else [0xc2]

/-- `AppendUint64`: shortest unsigned format -/
def appendUint64 (u : Nat) : Bytes :=
  if u ≤ 127 then [UInt8.ofNat u]
  else if u ≤ 255 then 0xcc :: be 1 u
  else if u ≤ 65535 then 0xcd :: be 2 u
  else if u ≤ 4294967295 then 0xce :: be 4 u
  else 0xcf :: be 8 u

def appendFloat32 (bits : Nat) : Bytes := 0xca :: be 4 bits
def appendFloat64 (bits : Nat) : Bytes := 0xcb :: be 8 bits

/-- `AppendBytes`: bin8 / bin16 / bin32 -/
def appendBytes (s : Bytes) : Bytes :=
  let n := s.length
  if n ≤ 255 then 0xc4 :: be 1 n ++ s
  else if n ≤ 65535 then 0xc5 :: be 2 n ++ s
  else 0xc6 :: be 4 n ++ s

def appendMapHeader (n : Nat) : Bytes :=
  if n ≤ 15 then [UInt8.ofNat (0x80 + n)]
  else if n ≤ 65535 then 0xde :: be 2 n
  else 0xdf :: be 4 n

/-- `AppendExtension(b, *EventTime)`: `Len() = 8` → fixext8, type 0, then `MarshalBinaryTo` -/
def appendEventTime (t : Instant) : Bytes := 0xd7 :: 0x00 :: encodeET t

/-! ### record values as a caller builds them -/

mutual
/-- Go values a caller may put into a record (after the harness's abstraction): every signed Go
integer type is `int`, every unsigned one `uint`; a string-keyed map is the ordered list of its
pairs in the order the encoder iterated; `bad` is any value msgp cannot encode (chan, func, …) -/
inductive GoVal where
  | nil : GoVal
  | bool (b : Bool)
  | int (i : Int)
  | uint (u : Nat)
  | f32 (bits : Nat)
  | f64 (bits : Nat)
  | str (s : Bytes)
  | bin (s : Bytes)
  | arr (xs : GoVals)
  | map (kvs : GoKVs)
  | bad
inductive GoVals where
  | nil : GoVals
  | cons : GoVal → GoVals → GoVals
inductive GoKVs where
  | nil : GoKVs
  | cons : Bytes → GoVal → GoKVs → GoKVs
end

mutual
def GoVals.length : GoVals → Nat
  | .nil => 0
  | .cons _ xs => xs.length + 1
end
def GoKVs.length : GoKVs → Nat
  | .nil => 0
  | .cons _ _ r => r.length + 1

mutual
/-- `AppendIntf` / `WriteIntf`; `none` = "type not supported" -/
def GoVal.encode : GoVal → Option Bytes
  | .nil => some appendNil
  | .bool b => some (appendBool b)
  | .int i => some (appendInt64 i)
  | .uint u => some (appendUint64 u)
  | .f32 b => some (appendFloat32 b)
  | .f64 b => some (appendFloat64 b)
  | .str s => some (appendString s)
  | .bin s => some (appendBytes s)
  | .arr xs => (GoVals.encode xs).map (appendArrayHeader xs.length ++ ·)
  | .map kvs => (GoKVs.encode kvs).map (appendMapHeader kvs.length ++ ·)
  | .bad => none
def GoVals.encode : GoVals → Option Bytes
  | .nil => some []
  | .cons x xs =>
    match GoVal.encode x, GoVals.encode xs with
    | some a, some b => some (a ++ b)
    | _, _ => none
def GoKVs.encode : GoKVs → Option Bytes
  | .nil => some []
  | .cons k v r =>
    match GoVal.encode v, GoKVs.encode r with
    | some a, some b => some (appendString k ++ (a ++ b))
    | _, _ => none
end

mutual
/-- the msgpack object a value denotes -/
def GoVal.toObj : GoVal → Obj
  | .nil => .nil
  | .bool b => .bool b
  | .int i => .int i
  | .uint u => .int u
  | .f32 b => .f32 b
  | .f64 b => .f64 b
  | .str s => .str s
  | .bin s => .bin s
  | .arr xs => .arr (GoVals.toObjs xs)
  | .map kvs => .map (GoKVs.toObjs kvs)
  | .bad => .nil
def GoVals.toObjs : GoVals → Objs
  | .nil => .nil
  | .cons x xs => .cons (GoVal.toObj x) (GoVals.toObjs xs)
def GoKVs.toObjs : GoKVs → Objs
  | .nil => .nil
  | .cons k v r => .cons (.str k) (.cons (GoVal.toObj v) (GoKVs.toObjs r))
end

mutual
/-- representable: integers within the Go widths, floats are 32/64-bit patterns, lengths and
counts below 2^32, no unencodable leaf -/
def GoVal.WF : GoVal → Prop
  | .nil => True
  | .bool _ => True
  | .int i => -9223372036854775808 ≤ i ∧ i ≤ 9223372036854775807
  | .uint u => u < 18446744073709551616
  | .f32 b => b < 4294967296
  | .f64 b => b < 18446744073709551616
  | .str s => s.length < 4294967296
  | .bin s => s.length < 4294967296
  | .arr xs => xs.length < 4294967296 ∧ GoVals.WF xs
  | .map kvs => kvs.length < 4294967296 ∧ GoKVs.WF kvs
  | .bad => False
def GoVals.WF : GoVals → Prop
  | .nil => True
  | .cons x xs => GoVal.WF x ∧ GoVals.WF xs
def GoKVs.WF : GoKVs → Prop
  | .nil => True
  | .cons k v r => k.length < 4294967296 ∧ GoVal.WF v ∧ GoKVs.WF r
end

end FV
