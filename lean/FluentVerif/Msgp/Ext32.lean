import FluentVerif.Msgp.Inv
/-! msgp v1.1.9's *stream* `Reader.Skip` fails on every value written in the ext32 format (its fast
path peeks five bytes and then asks `getSize` for the six-byte ext32 header: `ErrShortBytes`).
`hasExt32 b`: the first value of `b` contains a token in the ext32 format (lead byte `0xc9`) at
any depth — exactly the values that `Skip` gives up on when the value is buffered in full, which
is the case for every input of up to 4 KiB read from one chunk.  The definition mirrors
`parseF` / `parseN`; the lemmas make it independent of the fuel and relate a container to its
elements. -/
namespace FV

/-- `n` values read one after another: does any of them hold an ext32 token -/
def ext32Seq : Nat → Bytes → Bool
  | 0, _ => false
  | n+1, b => hasExt32 b || (match parse b with
      | some (_, r) => ext32Seq n r
      | none => false)

mutual
theorem ext32F_fuel : ∀ (f : Nat) (b : Bytes) (o r), parseF f b = some (o, r) →
    ∀ f', Obj.fuel o ≤ f' → ext32F f' b = ext32F f b
  | 0, _, _, _, h, _, _ => by simp [parseF] at h
  | f+1, b, o, r, h, f', hf => by
    cases f' with
    | zero => cases o <;> simp [Obj.fuel] at hf <;> omega
    | succ g =>
      unfold ext32F
      split
      · rfl
      · unfold parseF at h
        split at h
        · cases h
        · next hh => simp [hh]
        · next hh => simp [hh]
        · next hh => simp [hh]
        · next n r0 hh =>
          split at h
          · next xs r' hp =>
            simp only [Option.some.injEq, Prod.mk.injEq] at h; obtain ⟨rfl, rfl⟩ := h
            simp only [Obj.fuel] at hf
            simp only [hh]
            exact ext32N_fuel f n r0 xs r' hp g (by omega)
          · cases h
        · next n r0 hh =>
          split at h
          · next xs r' hp =>
            simp only [Option.some.injEq, Prod.mk.injEq] at h; obtain ⟨rfl, rfl⟩ := h
            simp only [Obj.fuel] at hf
            simp only [hh]
            exact ext32N_fuel f (2*n) r0 xs r' hp g (by omega)
          · cases h
theorem ext32N_fuel : ∀ (f n : Nat) (b : Bytes) (os r), parseN f n b = some (os, r) →
    ∀ f', Objs.fuel os ≤ f' → ext32N f' n b = ext32N f n b
  | 0, _, _, _, _, h, _, _ => by simp [parseN] at h
  | f+1, 0, b, os, r, h, f', hf => by
    simp [parseN] at h; obtain ⟨rfl, rfl⟩ := h
    cases f' with
    | zero => simp [Objs.fuel] at hf
    | succ g => simp [ext32N]
  | f+1, n+1, b, os, r, h, f', hf => by
    unfold parseN at h
    split at h
    · cases h
    · next x r1 hx =>
      split at h
      · cases h
      · next xs r' hxs =>
        simp only [Option.some.injEq, Prod.mk.injEq] at h; obtain ⟨rfl, rfl⟩ := h
        simp only [Objs.fuel] at hf
        cases f' with
        | zero => omega
        | succ g =>
          unfold ext32N
          rw [parseF_fuel f b x r1 hx g (by omega), hx]
          simp only
          rw [ext32F_fuel f b x r1 hx g (by omega), ext32N_fuel f n r1 xs r' hxs g (by omega)]
end

/-- the answer does not depend on the fuel a parse happened to succeed with -/
theorem hasExt32_eq {f b o r} (h : parseF f b = some (o, r)) : hasExt32 b = ext32F f b := by
  have := parseF_need f b o r h
  exact ext32F_fuel f b o r h _ (by omega)

/-- a counted run parsed with any fuel: the elements one after another -/
theorem ext32N_seq : ∀ (f n : Nat) (b : Bytes) (os r), parseN f n b = some (os, r) →
    ext32N f n b = ext32Seq n b
  | 0, _, _, _, _, h => by simp [parseN] at h
  | f+1, 0, b, os, r, h => by simp [ext32N, ext32Seq]
  | f+1, n+1, b, os, r, h => by
    unfold parseN at h
    split at h
    · cases h
    · next x r1 hx =>
      split at h
      · cases h
      · next xs r' hxs =>
        unfold ext32N ext32Seq
        rw [hx, parse_of_parseF hx, hasExt32_eq hx]
        simp only
        rw [ext32N_seq f n r1 xs r' hxs]

theorem head_ne_c9_of_header_arr {b n r0} (hh : header b = some (.arr n, r0)) : b.head? ≠ some 0xc9 := by
  cases b with
  | nil => simp [header] at hh
  | cons x t =>
    intro e
    simp only [List.head?_cons, Option.some.injEq] at e
    subst e
    simp only [header] at hh
    have : classify 0xc9 = .extL 4 := by rfl
    rw [this] at hh
    simp only [headerOf, needs] at hh
    split at hh <;> simp at hh

theorem head_ne_c9_of_header_map {b n r0} (hh : header b = some (.map n, r0)) : b.head? ≠ some 0xc9 := by
  cases b with
  | nil => simp [header] at hh
  | cons x t =>
    intro e
    simp only [List.head?_cons, Option.some.injEq] at e
    subst e
    simp only [header] at hh
    have : classify 0xc9 = .extL 4 := by rfl
    rw [this] at hh
    simp only [headerOf, needs] at hh
    split at hh <;> simp at hh

/-- an array holds an ext32 token iff one of its elements does -/
theorem hasExt32_arr {b n r0 xs r} (hh : header b = some (.arr n, r0)) (hs : parseSeq n r0 = some (xs, r)) :
    hasExt32 b = ext32Seq n r0 := by
  unfold hasExt32
  have e : 2 * b.length + 2 = (2 * b.length + 1) + 1 := by omega
  rw [e]
  unfold ext32F
  rw [if_neg (head_ne_c9_of_header_arr hh)]
  simp only [hh]
  have hl := header_shrinks hh
  exact ext32N_seq _ n r0 xs r (parseN_of_seq n r0 xs r hs _ (by omega))

theorem hasExt32_map {b n r0 xs r} (hh : header b = some (.map n, r0)) (hs : parseSeq (2*n) r0 = some (xs, r)) :
    hasExt32 b = ext32Seq (2*n) r0 := by
  unfold hasExt32
  have e : 2 * b.length + 2 = (2 * b.length + 1) + 1 := by omega
  rw [e]
  unfold ext32F
  rw [if_neg (head_ne_c9_of_header_map hh)]
  simp only [hh]
  have hl := header_shrinks hh
  exact ext32N_seq _ (2*n) r0 xs r (parseN_of_seq (2*n) r0 xs r hs _ (by omega))

/-- no ext32 token in a run: none in its first value, none in the rest -/
theorem ext32Seq_cons {m b x b1} (h : ext32Seq (m+1) b = false) (hp : parse b = some (x, b1)) :
    hasExt32 b = false ∧ ext32Seq m b1 = false := by
  unfold ext32Seq at h
  rw [hp] at h
  simpa using h

/-- strings, binaries, scalars and extensions in the other formats hold none -/
theorem hasExt32_false_of_str {b s r} (h : parse b = some (.str s, r)) : hasExt32 b = false := by
  obtain ⟨m, r0, hh, _, _, _⟩ := parseF_str_inv h
  unfold hasExt32
  have e : 2 * b.length + 2 = (2 * b.length + 1) + 1 := by omega
  rw [e]; unfold ext32F
  have hne : b.head? ≠ some 0xc9 := by
    cases b with
    | nil => simp [header] at hh
    | cons x t =>
      intro e'; simp only [List.head?_cons, Option.some.injEq] at e'; subst e'
      simp only [header] at hh
      have : classify 0xc9 = .extL 4 := by rfl
      rw [this] at hh
      simp only [headerOf, needs] at hh
      split at hh <;> simp at hh
  rw [if_neg hne]; simp [hh]

end FV
