import FluentVerif.Msgpack.Seq
import FluentVerif.Proto.EventTime
/-! Model of the tinylib/msgp v1.1.9 *read* primitives the repository calls, over the shared
`header` classification of `Msgpack/Spec`.  `Path` selects the slice functions (`Read…Bytes`) or
the `*msgp.Reader` methods wherever the two differ; every deviation from the plain reading of the
format table is written out.  (Modelled, not verified: validated through the repository's API by
the correspondence harness.) -/
namespace FV

/-- which of msgp's two decoder families is in use -/
inductive Path | bytes | stream
deriving DecidableEq, Repr

/-- outcome of anything that mirrors Go decoding code.  `panic` is a value, so "never panics" is a
theorem and not an artefact of totality. -/
inductive Res (α : Type) where
  | ok (a : α) (rest : Bytes)
  | err
  | panic (why : String)

namespace Res
def bind {α β} (x : Res α) (f : α → Bytes → Res β) : Res β :=
  match x with
  | .ok a r => f a r
  | .err => .err
  | .panic w => .panic w

def map {α β} (x : Res α) (f : α → β) : Res β :=
  match x with
  | .ok a r => .ok (f a) r
  | .err => .err
  | .panic w => .panic w

def isPanic {α} : Res α → Bool
  | .panic _ => true
  | _ => false

def rest? {α} : Res α → Option Bytes
  | .ok _ r => some r
  | _ => none

theorem bind_ok {α β} {x : Res α} {f : α → Bytes → Res β} {v r} :
    x.bind f = .ok v r ↔ ∃ a b, x = .ok a b ∧ f a b = .ok v r := by
  cases x with
  | ok a b =>
    simp only [bind, ok.injEq]
    constructor
    · intro h; exact ⟨a, b, ⟨rfl, rfl⟩, h⟩
    · rintro ⟨a', b', ⟨h1, h2⟩, h3⟩; subst h1; subst h2; exact h3
  | err => simp [bind]
  | panic w => simp [bind]

theorem bind_panic {α β} {x : Res α} {f : α → Bytes → Res β} {w} :
    x.bind f = .panic w ↔ x = .panic w ∨ ∃ a b, x = .ok a b ∧ f a b = .panic w := by
  cases x with
  | ok a b =>
    simp only [bind, ok.injEq]
    constructor
    · intro h; exact Or.inr ⟨a, b, ⟨rfl, rfl⟩, h⟩
    · rintro (h | ⟨a', b', ⟨h1, h2⟩, h3⟩)
      · cases h
      · subst h1; subst h2; exact h3
  | err => simp [bind]
  | panic w' => simp [bind]

theorem map_ok {α β} {x : Res α} {f : α → β} {v r} :
    x.map f = .ok v r ↔ ∃ a, x = .ok a r ∧ f a = v := by
  cases x with
  | ok a b =>
    simp only [map, ok.injEq]
    constructor
    · rintro ⟨h1, h2⟩; exact ⟨a, ⟨rfl, h2⟩, h1⟩
    · rintro ⟨a', ⟨h1, h2⟩, h3⟩; subst h1; exact ⟨h3, h2⟩
  | err => simp [map]
  | panic w => simp [map]

theorem map_panic {α β} {x : Res α} {f : α → β} {w} : x.map f = .panic w ↔ x = .panic w := by
  cases x <;> simp [map]
end Res

def inInt64 (i : Int) : Prop := -9223372036854775808 ≤ i ∧ i ≤ 9223372036854775807
instance (i : Int) : Decidable (inInt64 i) := by unfold inInt64; infer_instance

/-! ### scalar and header primitives (identical acceptance on both paths) -/

/-- `ReadArrayHeaderBytes` / `Reader.ReadArrayHeader` -/
def readArrayHeader (b : Bytes) : Res Nat :=
  match header b with
  | some (.arr n, r) => .ok n r
  | _ => .err

/-- `ReadMapHeaderBytes` / `Reader.ReadMapHeader` -/
def readMapHeader (b : Bytes) : Res Nat :=
  match header b with
  | some (.map n, r) => .ok n r
  | _ => .err

/-- `ReadStringBytes` / `Reader.ReadString` -/
def readString (b : Bytes) : Res Bytes :=
  match header b with
  | some (.blob .str n, r) => if r.length < n then .err else .ok (r.take n) (r.drop n)
  | _ => .err

/-- `ReadBytesBytes` / `Reader.ReadBytes` (bin only) -/
def readBytes (b : Bytes) : Res Bytes :=
  match header b with
  | some (.blob .bin n, r) => if r.length < n then .err else .ok (r.take n) (r.drop n)
  | _ => .err

/-- `ReadInt64Bytes` / `Reader.ReadInt64`; also `ReadIntBytes` on a 64-bit platform.  Every
integer format is accepted; an unsigned 64-bit value above `MaxInt64` is an overflow error. -/
def readInt64 (b : Bytes) : Res Int :=
  match header b with
  | some (.scalar (.int i), r) => if inInt64 i then .ok i r else .err
  | _ => .err

/-- `ReadBoolBytes` / `Reader.ReadBool` -/
def readBool (b : Bytes) : Res Bool :=
  match header b with
  | some (.scalar (.bool v), r) => .ok v r
  | _ => .err

/-- `IsNil` / `Reader.IsNil`; also `NextType(b) == NilType` -/
def isNil (b : Bytes) : Bool :=
  match b with
  | x :: _ => x == 0xc0
  | [] => false

/-- `ReadNilBytes` / `Reader.ReadNil` -/
def readNil (b : Bytes) : Res Unit :=
  match b with
  | x :: r => if x == 0xc0 then .ok () r else .err
  | [] => .err

/-- map keys in the *generated* decoders: `ReadMapKeyZC` (slice: str or bin, any length) vs
`Reader.ReadMapKeyPtr` (stream: str or bin, but a zero-length key is `ErrShortBytes`) -/
def readMapKey (p : Path) (b : Bytes) : Res Bytes :=
  match header b with
  | some (.blob _ n, r) =>
    if r.length < n then .err
    else if p = .stream ∧ n = 0 then .err
    else .ok (r.take n) (r.drop n)
  | _ => .err

/-- `ReadExtensionBytes(b, *EventTime)` / `Reader.ReadExtension`: any ext format whose type byte is
0 and whose payload is exactly eight bytes (`EventTime.UnmarshalBinary` rejects other lengths) -/
def readEventTime (b : Bytes) : Res Instant :=
  match header b with
  | some (.ext n, t :: d) =>
    if t = 0 ∧ n = 8 ∧ ¬ d.length < 8 then
      match decodeET (d.take 8) with
      | some i => .ok i (d.drop 8)
      | none => .err
    else .err
  | _ => .err

/-- `Skip`: one complete value of any shape (slice path; the stream path is the same on complete
inputs from a non-seekable reader, see DESIGN §4.2 for its quirks on ext32 and seekable readers) -/
def skip (b : Bytes) : Res Unit :=
  match parse b with
  | some (_, r) => .ok () r
  | none => .err

/-! ### the stream `Reader.Skip` and the ext32 format

msgp v1.1.9's stream `Skip` fails on every value written in the ext32 format (lead byte `0xc9`): its
fast path peeks five bytes and then asks `getSize` for the six-byte ext32 header, `ErrShortBytes`.
`hasExt32 b`: the first value of `b` contains an ext32 token at any depth (mirrors `parseF` / `parseN`;
lemmas in `Msgp/Ext32.lean`).  Exact whenever the skipped value is buffered in full, i.e. for inputs up to
the reader's 4 KiB buffer read from one chunk. -/

mutual
def ext32F : Nat → Bytes → Bool
  | 0, _ => false
  | f+1, b =>
    if b.head? = some 0xc9 then true else
    match header b with
    | some (.arr n, r) => ext32N f n r
    | some (.map n, r) => ext32N f (2*n) r
    | _ => false
def ext32N : Nat → Nat → Bytes → Bool
  | 0, _, _ => false
  | _+1, 0, _ => false
  | f+1, n+1, b =>
    ext32F f b || (match parseF f b with
      | some (_, r) => ext32N f n r
      | none => false)
end

/-- the first value of `b` holds an ext32 token -/
def hasExt32 (b : Bytes) : Bool := ext32F (2 * b.length + 2) b

/-- `Skip` on the given path: `msgp.Skip(bytes)` or `(*Reader).Skip()` -/
def skipP (p : Path) (b : Bytes) : Res Unit :=
  if p = .stream ∧ hasExt32 b = true then .err else skip b

/-! ### `ReadIntfBytes` / `Reader.ReadIntf`

The result is kept as the spec object that was read.  Deviations from "any object":
* map keys must be `str` (stream) or `str`/`bin` (slice);
* extension type 5 / 3 / 4 are msgp's time / complex64 / complex128 and are accepted only in
  msgp's own encoding (ext8 of 12 bytes / fixext8 / fixext16) — on the slice path only when at
  least one more byte follows the fixed part that `NextType` inspects (otherwise it is read as a
  raw extension); extension type 0 is the registered `EventTime` and needs an 8-byte payload. -/

def extOk (p : Path) (lead : UInt8) (n : Nat) (t : UInt8) (avail : Nat) : Bool :=
  -- `avail`: number of bytes after the lead byte
  let special : Bool :=
    match p with
    | .stream => true
    | .bytes =>
      -- NextType looks at the type byte only if len(b) > spec.size
      if lead = 0xc7 then decide (avail + 1 > 3)
      else if lead = 0xc8 then decide (avail + 1 > 4)
      else if lead = 0xc9 then decide (avail + 1 > 6)
      else decide (avail + 1 > 2 + n)          -- fixext: spec.size is the whole object
  if t = 5 ∧ special = true then decide (lead = 0xc7 ∧ n = 12)
  else if t = 3 ∧ special = true then decide (lead = 0xd7)
  else if t = 4 ∧ special = true then decide (lead = 0xd8)
  else if t = 0 then decide (n = 8)
  else true

mutual
def readIntfF (p : Path) : Nat → Bytes → Res Obj
  | 0, _ => .err
  | f+1, b =>
    match b with
    | [] => .err
    | lead :: tl =>
    match header b with
    | none => .err
    | some (.scalar o, r) => .ok o.toObj r
    | some (.blob k n, r) =>
      if r.length < n then .err
      else .ok (blobObj k (r.take n)) (r.drop n)
    | some (.ext n, r) =>
      match r with
      | [] => .err
      | t :: d =>
        if d.length < n then .err
        else if extOk p lead n t tl.length then .ok (.ext t (d.take n)) (d.drop n)
        else .err
    | some (.arr n, r) => (readIntfN p f n r).map Obj.arr
    | some (.map n, r) => (readIntfKV p f n r).map Obj.map
def readIntfN (p : Path) : Nat → Nat → Bytes → Res Objs
  | 0, _, _ => .err
  | _+1, 0, b => .ok .nil b
  | f+1, n+1, b =>
    (readIntfF p f b).bind fun x r => (readIntfN p f n r).map (Objs.cons x)
def readIntfKV (p : Path) : Nat → Nat → Bytes → Res Objs
  | 0, _, _ => .err
  | _+1, 0, b => .ok .nil b
  | f+1, n+1, b =>
    match header b with
    | some (.blob k m, r) =>
      if r.length < m then .err
      else if p = .stream ∧ k = .bin then .err
      else
        let key := blobObj k (r.take m)
        (readIntfF p f (r.drop m)).bind fun v r' =>
          (readIntfKV p f n r').map (fun kvs => Objs.cons key (Objs.cons v kvs))
    | _ => .err
end

def readIntf (p : Path) (b : Bytes) : Res Obj := readIntfF p (2 * b.length + 2) b

end FV
