import FluentVerif.Msgp.Complete
import FluentVerif.Msgpack.Fuel
import FluentVerif.Msgpack.Enc
/-! Inversion of the specification parser on its first header, and the resulting *completeness*
lemmas for the msgp read primitives: whenever the specification parser finds an object of the
expected kind at the front of the input, the primitive returns it and leaves the same rest. -/
namespace FV

/-- what a successful `parse b = some (o, r)` says about the first header of `b` -/
inductive ParseInv (b : Bytes) (o : Obj) (r : Bytes) : Prop
  | scalar (s : Scalar) (hh : header b = some (.scalar s, r)) (ho : o = s.toObj)
  | blob (k : BlobKind) (n : Nat) (r0 : Bytes) (hh : header b = some (.blob k n, r0)) (hl : ¬ r0.length < n)
      (ho : o = blobObj k (r0.take n)) (hr : r = r0.drop n)
  | ext (n : Nat) (t : UInt8) (d : Bytes) (hh : header b = some (.ext n, t :: d)) (hl : ¬ d.length < n)
      (ho : o = .ext t (d.take n)) (hr : r = d.drop n)
  | arr (n : Nat) (r0 : Bytes) (xs : Objs) (hh : header b = some (.arr n, r0)) (hs : parseSeq n r0 = some (xs, r))
      (ho : o = .arr xs)
  | map (n : Nat) (r0 : Bytes) (xs : Objs) (hh : header b = some (.map n, r0)) (hs : parseSeq (2*n) r0 = some (xs, r))
      (ho : o = .map xs)

theorem parse_inv {b o r} (h : parse b = some (o, r)) : ParseInv b o r := by
  unfold parse at h
  have e : 2 * b.length + 2 = (2 * b.length + 1) + 1 := by omega
  rw [e] at h
  unfold parseF at h
  split at h
  · cases h
  · next s r0 hh =>
    simp only [Option.some.injEq, Prod.mk.injEq] at h; obtain ⟨rfl, rfl⟩ := h
    exact .scalar s hh rfl
  · next k n r0 hh =>
    split at h
    · cases h
    · next hl =>
      simp only [Option.some.injEq, Prod.mk.injEq] at h; obtain ⟨rfl, rfl⟩ := h
      exact .blob k n r0 hh hl rfl rfl
  · next n r0 hh =>
    split at h
    · cases h
    · next t d =>
      split at h
      · cases h
      · next hl =>
        simp only [Option.some.injEq, Prod.mk.injEq] at h; obtain ⟨rfl, rfl⟩ := h
        exact .ext n t d hh hl rfl rfl
  · next n r0 hh =>
    split at h
    · next ys r' hp =>
      simp only [Option.some.injEq, Prod.mk.injEq] at h; obtain ⟨rfl, rfl⟩ := h
      exact .arr n r0 ys hh (parseSeq_of_parseN _ n r0 ys r' hp) rfl
    · cases h
  · next n r0 hh =>
    split at h
    · next ys r' hp =>
      simp only [Option.some.injEq, Prod.mk.injEq] at h; obtain ⟨rfl, rfl⟩ := h
      exact .map n r0 ys hh (parseSeq_of_parseN _ (2*n) r0 ys r' hp) rfl
    · cases h

/-! ### the primitives return what the specification parser finds -/

theorem readString_of_parse {b s r} (h : parse b = some (.str s, r)) : readString b = .ok s r := by
  cases parse_inv h with
  | scalar s' hh ho => cases s' <;> simp [Scalar.toObj] at ho
  | blob k n r0 hh hl ho hr =>
    cases k with
    | str => simp only [blobObj, Obj.str.injEq] at ho; subst ho; subst hr; simp [readString, hh, hl]
    | bin => simp [blobObj] at ho
  | ext n t d hh hl ho hr => cases ho
  | arr n r0 xs hh hs ho => cases ho
  | map n r0 xs hh hs ho => cases ho

theorem readBytes_of_parse {b s r} (h : parse b = some (.bin s, r)) : readBytes b = .ok s r := by
  cases parse_inv h with
  | scalar s' hh ho => cases s' <;> simp [Scalar.toObj] at ho
  | blob k n r0 hh hl ho hr =>
    cases k with
    | bin => simp only [blobObj, Obj.bin.injEq] at ho; subst ho; subst hr; simp [readBytes, hh, hl]
    | str => simp [blobObj] at ho
  | ext n t d hh hl ho hr => cases ho
  | arr n r0 xs hh hs ho => cases ho
  | map n r0 xs hh hs ho => cases ho

/-- every integer encoding of a value in the int64 range is read as that value -/
theorem readInt64_of_parse {b i r} (h : parse b = some (.int i, r)) (hi : inInt64 i) : readInt64 b = .ok i r := by
  cases parse_inv h with
  | scalar s' hh ho =>
    cases s' <;> simp [Scalar.toObj] at ho
    subst ho; simp [readInt64, hh, hi]
  | blob k n r0 hh hl ho hr => cases k <;> simp [blobObj] at ho
  | ext n t d hh hl ho hr => cases ho
  | arr n r0 xs hh hs ho => cases ho
  | map n r0 xs hh hs ho => cases ho

theorem readBool_of_parse {b v r} (h : parse b = some (.bool v, r)) : readBool b = .ok v r := by
  cases parse_inv h with
  | scalar s' hh ho =>
    cases s' <;> simp [Scalar.toObj] at ho
    subst ho; simp [readBool, hh]
  | blob k n r0 hh hl ho hr => cases k <;> simp [blobObj] at ho
  | ext n t d hh hl ho hr => cases ho
  | arr n r0 xs hh hs ho => cases ho
  | map n r0 xs hh hs ho => cases ho

theorem readArrayHeader_of_parse {b xs r} (h : parse b = some (.arr xs, r)) :
    ∃ n r0, readArrayHeader b = .ok n r0 ∧ parseSeq n r0 = some (xs, r) := by
  obtain ⟨n, r0, hh, hs⟩ := seq_of_parse_arr h
  exact ⟨n, r0, by simp [readArrayHeader, hh], hs⟩

theorem readMapHeader_of_parse {b kvs r} (h : parse b = some (.map kvs, r)) :
    ∃ n r0, readMapHeader b = .ok n r0 ∧ parseSeq (2*n) r0 = some (kvs, r) := by
  obtain ⟨n, r0, hh, hs⟩ := seq_of_parse_map h
  exact ⟨n, r0, by simp [readMapHeader, hh], hs⟩

/-! the lead byte `0xc0` and nil (a finite table: all 256 lead bytes, decided in the kernel) -/

deriving instance DecidableEq for Scalar
deriving instance DecidableEq for Hdr
deriving instance DecidableEq for Lead

theorem classify_imm_nil_all : ∀ n : Fin 256, classify (UInt8.ofNat n.val) = .imm (.scalar .nil) → n.val = 192 := by
  decide +kernel

theorem classify_imm_nil {x : UInt8} (hc : classify x = .imm (.scalar .nil)) : x = 0xc0 := by
  have h := classify_imm_nil_all ⟨x.toNat, x.toNat_lt⟩
  simp only [UInt8.ofNat_toNat] at h
  have := h hc
  exact UInt8.toNat_inj.1 (by simpa using this)

theorem header_nil_lead {x : UInt8} {t r : Bytes} (h : header (x :: t) = some (.scalar .nil, r)) : x = 0xc0 := by
  simp only [header] at h
  generalize hc : classify x = l at h
  cases l with
  | imm h' => simp only [headerOf, Option.some.injEq, Prod.mk.injEq] at h; obtain ⟨rfl, _⟩ := h; exact classify_imm_nil hc
  | invalid => simp [headerOf] at h
  | extFix n => simp [headerOf] at h
  | _ => simp only [headerOf, needs] at h; split at h <;> simp at h

theorem header_c0 (t : Bytes) : header (0xc0 :: t) = some (.scalar .nil, t) := by
  simp [header, classify_c0, headerOf]

/-- an encoded nil is the single byte `0xc0` -/
theorem parse_nil_inv {b r} (h : parse b = some (.nil, r)) : b = 0xc0 :: r := by
  cases parse_inv h with
  | scalar s' hh ho =>
    cases s' <;> simp [Scalar.toObj] at ho
    cases b with
    | nil => simp [header] at hh
    | cons x t =>
      have hx := header_nil_lead hh; subst hx
      rw [header_c0] at hh
      simp only [Option.some.injEq, Prod.mk.injEq, true_and] at hh; subst hh; rfl
  | blob k n r0 hh hl ho hr => cases k <;> simp [blobObj] at ho
  | ext n t d hh hl ho hr => cases ho
  | arr n r0 xs hh hs ho => cases ho
  | map n r0 xs hh hs ho => cases ho

theorem readNil_of_parse {b r} (h : parse b = some (.nil, r)) : readNil b = .ok () r := by
  rw [parse_nil_inv h]; simp [readNil]

theorem isNil_of_parse_nil {b r} (h : parse b = some (.nil, r)) : isNil b = true := by
  rw [parse_nil_inv h]; simp [isNil]

/-- anything whose header is not the nil scalar does not start with `0xc0` -/
theorem isNil_false_of_header {b hd r0} (hh : header b = some (hd, r0)) (hne : hd ≠ .scalar .nil) : isNil b = false := by
  cases b with
  | nil => simp [header] at hh
  | cons x t =>
    by_cases hx : x = 0xc0
    · subst hx; rw [header_c0] at hh
      simp only [Option.some.injEq, Prod.mk.injEq] at hh
      exact absurd hh.1.symm hne
    · simp [isNil, hx]

theorem isNil_false_of_parse {b o r} (h : parse b = some (o, r)) (hne : o ≠ .nil) : isNil b = false := by
  cases parse_inv h with
  | scalar s' hh ho =>
    refine isNil_false_of_header hh ?_
    intro e; cases e; exact hne (by simpa [Scalar.toObj] using ho)
  | blob k n r0 hh hl ho hr => exact isNil_false_of_header hh (by intro e; cases e)
  | ext n t d hh hl ho hr => exact isNil_false_of_header hh (by intro e; cases e)
  | arr n r0 xs hh hs ho => exact isNil_false_of_header hh (by intro e; cases e)
  | map n r0 xs hh hs ho => exact isNil_false_of_header hh (by intro e; cases e)

/-- any extension encoding (fixext8, ext8, ext16, ext32) of type 0 with an 8-byte payload is read
as the EventTime its payload denotes -/
theorem readEventTime_of_parse {b d r} (h : parse b = some (.ext 0 d, r)) (hd : d.length = 8) :
    ∃ i, decodeET d = some i ∧ readEventTime b = .ok i r := by
  cases parse_inv h with
  | scalar s' hh ho => cases s' <;> simp [Scalar.toObj] at ho
  | blob k n r0 hh hl ho hr => cases k <;> simp [blobObj] at ho
  | ext n t d0 hh hl ho hr =>
    simp only [Obj.ext.injEq] at ho
    obtain ⟨rfl, rfl⟩ := ho
    have hn : n = 8 := by
      have : (d0.take n).length = 8 := hd
      simp [List.length_take] at this; omega
    subst hn
    have hde : ∃ i, decodeET (d0.take 8) = some i := by
      unfold decodeET; simp [hd]
    obtain ⟨i, hi⟩ := hde
    refine ⟨i, hi, ?_⟩
    unfold readEventTime
    rw [hh]; simp only
    simp [hl, hi, hr]
  | arr n r0 xs hh hs ho => cases ho
  | map n r0 xs hh hs ho => cases ho

end FV
