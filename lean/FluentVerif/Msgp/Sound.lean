import FluentVerif.Msgp.Read
/-! Refinement of the msgp read primitives to the specification parser: every successful read
consumed exactly one spec object (`*_sound`), and nothing in the model of the library panics. -/
namespace FV

/-- reading from `b` leaves `r` after exactly one complete msgpack object -/
def Reads1 (b r : Bytes) : Prop := ∃ o, parse b = some (o, r)
/-- … after exactly `n` objects, one after another -/
def ReadsN (n : Nat) (b r : Bytes) : Prop := ∃ os, parseSeq n b = some (os, r)

theorem ReadsN.zero (b : Bytes) : ReadsN 0 b b := ⟨.nil, rfl⟩

theorem ReadsN.cons {n b r r'} (h1 : Reads1 b r) (h2 : ReadsN n r r') : ReadsN (n+1) b r' := by
  obtain ⟨o, h1⟩ := h1; obtain ⟨os, h2⟩ := h2
  exact ⟨.cons o os, by simp [parseSeq, h1, h2]⟩

theorem parseSeq_cons {b o r n os r'} (h1 : parse b = some (o, r)) (h2 : parseSeq n r = some (os, r')) :
    parseSeq (n+1) b = some (.cons o os, r') := by
  simp [parseSeq, h1, h2]

/-- bridge for maps -/
theorem parse_map_of_seq {b n r0 os r} (hh : header b = some (.map n, r0)) (hs : parseSeq (2*n) r0 = some (os, r)) :
    parse b = some (.map os, r) := by
  have hlt := header_shrinks hh
  unfold parse
  have : 2 * b.length + 2 = (2 * b.length + 1) + 1 := by omega
  rw [this]
  unfold parseF
  rw [hh]; simp only
  rw [parseN_of_seq (2*n) r0 os r hs (2 * b.length + 1) (by omega)]

theorem Reads1.ofArr {b n r0 r} (hh : header b = some (.arr n, r0)) (hs : ReadsN n r0 r) : Reads1 b r := by
  obtain ⟨os, hs⟩ := hs; exact ⟨_, parse_arr_of_seq hh hs⟩

theorem Reads1.ofMap {b n r0 r} (hh : header b = some (.map n, r0)) (hs : ReadsN (2*n) r0 r) : Reads1 b r := by
  obtain ⟨os, hs⟩ := hs; exact ⟨_, parse_map_of_seq hh hs⟩

theorem parse_of_header_blob {b k n r} (h : header b = some (.blob k n, r)) (hl : ¬ r.length < n) :
    parse b = some (blobObj k (r.take n), r.drop n) := by
  simp [parse, parseF, h, hl]

theorem parse_of_header_ext {b n t d} (h : header b = some (.ext n, t :: d)) (hl : ¬ d.length < n) :
    parse b = some (.ext t (d.take n), d.drop n) := by
  simp [parse, parseF, h, hl]

/-! ### primitives -/

theorem readArrayHeader_sound {b n r} (h : readArrayHeader b = .ok n r) : header b = some (.arr n, r) := by
  unfold readArrayHeader at h; split at h
  · next n' r' hh => cases h; exact hh
  · cases h

theorem readMapHeader_sound {b n r} (h : readMapHeader b = .ok n r) : header b = some (.map n, r) := by
  unfold readMapHeader at h; split at h
  · next n' r' hh => cases h; exact hh
  · cases h

theorem readString_sound {b s r} (h : readString b = .ok s r) : parse b = some (.str s, r) := by
  unfold readString at h
  split at h
  · next n r0 hh =>
    split at h
    · cases h
    · next hl => cases h; exact parse_of_header_blob hh hl
  · cases h

theorem readBytes_sound {b s r} (h : readBytes b = .ok s r) : parse b = some (.bin s, r) := by
  unfold readBytes at h
  split at h
  · next n r0 hh =>
    split at h
    · cases h
    · next hl => cases h; exact parse_of_header_blob hh hl
  · cases h

theorem readInt64_sound {b i r} (h : readInt64 b = .ok i r) : parse b = some (.int i, r) := by
  unfold readInt64 at h
  split at h
  · next j r0 hh =>
    split at h
    · cases h; exact parse_of_header_scalar (o := .int _) hh
    · cases h
  · cases h

theorem readBool_sound {b v r} (h : readBool b = .ok v r) : parse b = some (.bool v, r) := by
  unfold readBool at h
  split at h
  · next j r0 hh => cases h; exact parse_of_header_scalar (o := .bool _) hh
  · cases h

theorem readNil_sound {b r} (h : readNil b = .ok () r) : parse b = some (.nil, r) := by
  unfold readNil at h
  split at h
  · next x r0 =>
    split at h
    · next hx =>
      cases h
      have : x = 0xc0 := by simpa using hx
      subst this
      exact parse_of_header_scalar (o := .nil) (by simp [header, classify_c0, headerOf])
    · cases h
  · cases h

theorem readMapKey_sound {p b k r} (h : readMapKey p b = .ok k r) : Reads1 b r := by
  unfold readMapKey at h
  split at h
  · next kind n r0 hh =>
    split at h
    · cases h
    · next hl =>
      split at h
      · cases h
      · cases h; exact ⟨_, parse_of_header_blob hh hl⟩
  · cases h

theorem readEventTime_sound {b i r} (h : readEventTime b = .ok i r) : Reads1 b r := by
  unfold readEventTime at h
  split at h
  · next n t d hh =>
    split at h
    · next hc =>
      obtain ⟨_, hn, hl⟩ := hc
      subst hn
      split at h
      · cases h; exact ⟨_, parse_of_header_ext hh hl⟩
      · cases h
    · cases h
  · cases h

theorem skip_sound {b r} (h : skip b = .ok () r) : Reads1 b r := by
  unfold skip at h; split at h
  · next o' r' hp => cases h; exact ⟨o', hp⟩
  · cases h

/-! ### `ReadIntf` -/

theorem skipP_sound {p b r} (h : skipP p b = .ok () r) : Reads1 b r := by
  unfold skipP at h
  split at h
  · cases h
  · exact skip_sound h

theorem skipP_eq_skip {p b} (h : p = .stream → hasExt32 b = false) : skipP p b = skip b := by
  unfold skipP
  split
  · next hc => have := h hc.1; rw [this] at hc; exact absurd hc.2 (by decide)
  · rfl

mutual
theorem readIntfF_sound (p : Path) : ∀ (f : Nat) (b : Bytes) (o r), readIntfF p f b = .ok o r →
    parse b = some (o, r)
  | 0, _, _, _, h => by simp [readIntfF] at h
  | f+1, b, o, r, h => by
    unfold readIntfF at h
    split at h
    · cases h
    · next lead tl =>
      split at h
      · cases h
      · next o0 r0 hh => cases h; exact parse_of_header_scalar hh
      · next k n r0 hh =>
        split at h
        · cases h
        · next hl => cases h; exact parse_of_header_blob hh hl
      · next n r0 hh =>
        split at h
        · cases h
        · next t d =>
          split at h
          · cases h
          · next hl =>
            split at h
            · cases h; exact parse_of_header_ext hh hl
            · cases h
      · next n r0 hh =>
        obtain ⟨xs, hx, rfl⟩ := Res.map_ok.1 h
        exact parse_arr_of_seq hh (readIntfN_sound p f n r0 xs r hx)
      · next n r0 hh =>
        obtain ⟨xs, hx, rfl⟩ := Res.map_ok.1 h
        exact parse_map_of_seq hh (readIntfKV_sound p f n r0 xs r hx)
theorem readIntfN_sound (p : Path) : ∀ (f n : Nat) (b : Bytes) (os r), readIntfN p f n b = .ok os r →
    parseSeq n b = some (os, r)
  | 0, _, _, _, _, h => by simp [readIntfN] at h
  | f+1, 0, b, os, r, h => by simp [readIntfN] at h; obtain ⟨rfl, rfl⟩ := h; rfl
  | f+1, n+1, b, os, r, h => by
    unfold readIntfN at h
    obtain ⟨x, r1, h1, h2⟩ := Res.bind_ok.1 h
    obtain ⟨xs, h3, rfl⟩ := Res.map_ok.1 h2
    exact parseSeq_cons (readIntfF_sound p f b x r1 h1) (readIntfN_sound p f n r1 xs r h3)
theorem readIntfKV_sound (p : Path) : ∀ (f n : Nat) (b : Bytes) (os r), readIntfKV p f n b = .ok os r →
    parseSeq (2*n) b = some (os, r)
  | 0, _, _, _, _, h => by simp [readIntfKV] at h
  | f+1, 0, b, os, r, h => by simp [readIntfKV] at h; obtain ⟨rfl, rfl⟩ := h; rfl
  | f+1, n+1, b, os, r, h => by
    unfold readIntfKV at h
    have two : 2 * (n+1) = (2*n + 1) + 1 := by omega
    rw [two]
    split at h
    · next k m r0 hh =>
      split at h
      · cases h
      · next hl =>
        split at h
        · cases h
        · obtain ⟨v, r1, h1, h2⟩ := Res.bind_ok.1 h
          obtain ⟨kvs, h3, rfl⟩ := Res.map_ok.1 h2
          exact parseSeq_cons (parse_of_header_blob hh hl)
            (parseSeq_cons (readIntfF_sound p f _ v r1 h1) (readIntfKV_sound p f n r1 kvs r h3))
    · cases h
end

theorem readIntf_sound {p b o r} (h : readIntf p b = .ok o r) : Reads1 b r :=
  ⟨o, readIntfF_sound p _ b o r h⟩

/-! ### nothing in the library model panics -/

def Res.NoPanic {α} (x : Res α) : Prop := ∀ w, x ≠ .panic w

theorem Res.NoPanic.bind {α β} {x : Res α} {f : α → Bytes → Res β} (hx : x.NoPanic)
    (hf : ∀ a b, (f a b).NoPanic) : (x.bind f).NoPanic := by
  intro w h
  rcases Res.bind_panic.1 h with h | ⟨a, b, _, h⟩
  · exact hx w h
  · exact hf a b w h

theorem Res.NoPanic.map {α β} {x : Res α} {f : α → β} (hx : x.NoPanic) : (x.map f).NoPanic := by
  intro w h; exact hx w (Res.map_panic.1 h)

theorem Res.noPanic_ok {α} (a : α) (r : Bytes) : (Res.ok a r).NoPanic := by intro w h; cases h
theorem Res.noPanic_err {α} : (Res.err : Res α).NoPanic := by intro w h; cases h

/-- closes goals `(… primitive …).NoPanic` by unfolding and case analysis -/
macro "no_panic_prim" : tactic =>
  `(tactic| (intro w h; repeat' (first | (cases h; done) | split at h)))

theorem readArrayHeader_noPanic (b) : (readArrayHeader b).NoPanic := by unfold readArrayHeader; no_panic_prim
theorem readMapHeader_noPanic (b) : (readMapHeader b).NoPanic := by unfold readMapHeader; no_panic_prim
theorem readString_noPanic (b) : (readString b).NoPanic := by unfold readString; no_panic_prim
theorem readBytes_noPanic (b) : (readBytes b).NoPanic := by unfold readBytes; no_panic_prim
theorem readInt64_noPanic (b) : (readInt64 b).NoPanic := by unfold readInt64; no_panic_prim
theorem readBool_noPanic (b) : (readBool b).NoPanic := by unfold readBool; no_panic_prim
theorem readNil_noPanic (b) : (readNil b).NoPanic := by unfold readNil; no_panic_prim
theorem readMapKey_noPanic (p b) : (readMapKey p b).NoPanic := by unfold readMapKey; no_panic_prim
theorem readEventTime_noPanic (b) : (readEventTime b).NoPanic := by unfold readEventTime; no_panic_prim
theorem skip_noPanic (b) : (skip b).NoPanic := by unfold skip; no_panic_prim
theorem skipP_noPanic (p b) : (skipP p b).NoPanic := by
  unfold skipP; split
  · exact Res.noPanic_err
  · exact skip_noPanic b

mutual
theorem readIntfF_noPanic (p : Path) : ∀ (f : Nat) (b : Bytes), (readIntfF p f b).NoPanic
  | 0, _ => by unfold readIntfF; exact Res.noPanic_err
  | f+1, b => by
    unfold readIntfF
    split
    · exact Res.noPanic_err
    · split
      · exact Res.noPanic_err
      · exact Res.noPanic_ok _ _
      · split
        · exact Res.noPanic_err
        · exact Res.noPanic_ok _ _
      · split
        · exact Res.noPanic_err
        · split
          · exact Res.noPanic_err
          · split
            · exact Res.noPanic_ok _ _
            · exact Res.noPanic_err
      · exact (readIntfN_noPanic p f _ _).map
      · exact (readIntfKV_noPanic p f _ _).map
theorem readIntfN_noPanic (p : Path) : ∀ (f n : Nat) (b : Bytes), (readIntfN p f n b).NoPanic
  | 0, _, _ => by unfold readIntfN; exact Res.noPanic_err
  | f+1, 0, b => by unfold readIntfN; exact Res.noPanic_ok _ _
  | f+1, n+1, b => by
    unfold readIntfN
    exact (readIntfF_noPanic p f b).bind fun _ r => (readIntfN_noPanic p f n r).map
theorem readIntfKV_noPanic (p : Path) : ∀ (f n : Nat) (b : Bytes), (readIntfKV p f n b).NoPanic
  | 0, _, _ => by unfold readIntfKV; exact Res.noPanic_err
  | f+1, 0, b => by unfold readIntfKV; exact Res.noPanic_ok _ _
  | f+1, n+1, b => by
    unfold readIntfKV
    split
    · split
      · exact Res.noPanic_err
      · split
        · exact Res.noPanic_err
        · exact (readIntfF_noPanic p f _).bind fun _ r => (readIntfKV_noPanic p f n r).map
    · exact Res.noPanic_err
end

theorem readIntf_noPanic (p b) : (readIntf p b).NoPanic := readIntfF_noPanic p _ b

end FV
