import FluentVerif.Msgp.Complete
/-! `AppendIntf`/`WriteIntf` on a representable value produce an encoding of exactly the object
the value denotes (judged by the specification parser), and `ReadIntf` returns that object. -/
namespace FV

mutual
theorem GoVal.encode_sound : ∀ (v : GoVal) (e : Bytes), v.WF → v.encode = some e →
    ∀ x, parse (e ++ x) = some (v.toObj, x)
  | .nil, e, _, he, x => by simp [GoVal.encode] at he; subst he; exact parse_appendNil x
  | .bool b, e, _, he, x => by simp [GoVal.encode] at he; subst he; exact parse_appendBool b x
  | .int i, e, hw, he, x => by
    simp [GoVal.encode] at he; subst he
    exact parse_appendInt64 i (by simpa [GoVal.WF, inInt64] using hw) x
  | .uint u, e, hw, he, x => by
    simp [GoVal.encode] at he; subst he
    exact parse_appendUint64 u (by simpa [GoVal.WF] using hw) x
  | .f32 b, e, hw, he, x => by
    simp [GoVal.encode] at he; subst he
    exact parse_appendFloat32 b (by simpa [GoVal.WF] using hw) x
  | .f64 b, e, hw, he, x => by
    simp [GoVal.encode] at he; subst he
    exact parse_appendFloat64 b (by simpa [GoVal.WF] using hw) x
  | .str s, e, hw, he, x => by
    simp [GoVal.encode] at he; subst he
    exact parse_appendString s x (by simpa [GoVal.WF] using hw)
  | .bin s, e, hw, he, x => by
    simp [GoVal.encode] at he; subst he
    exact parse_appendBytes s x (by simpa [GoVal.WF] using hw)
  | .arr xs, e, hw, he, x => by
    simp only [GoVal.encode, Option.map_eq_some_iff] at he
    obtain ⟨eb, heb, rfl⟩ := he
    simp only [GoVal.WF] at hw
    rw [List.append_assoc]
    exact parse_arr_of_seq (header_appendArrayHeader _ _ hw.1) (GoVals.encode_sound xs eb hw.2 heb x)
  | .map kvs, e, hw, he, x => by
    simp only [GoVal.encode, Option.map_eq_some_iff] at he
    obtain ⟨eb, heb, rfl⟩ := he
    simp only [GoVal.WF] at hw
    rw [List.append_assoc]
    exact parse_map_of_seq (header_appendMapHeader _ _ hw.1) (GoKVs.encode_sound kvs eb hw.2 heb x)
  | .bad, _, hw, _, _ => by simp [GoVal.WF] at hw
theorem GoVals.encode_sound : ∀ (xs : GoVals) (e : Bytes), xs.WF → xs.encode = some e →
    ∀ x, parseSeq xs.length (e ++ x) = some (xs.toObjs, x)
  | .nil, e, _, he, x => by simp [GoVals.encode] at he; subst he; rfl
  | .cons v vs, e, hw, he, x => by
    simp only [GoVals.WF] at hw
    unfold GoVals.encode at he
    split at he
    · next a b ha hb =>
      simp only [Option.some.injEq] at he; subst he
      rw [List.append_assoc]
      exact parseSeq_cons (GoVal.encode_sound v a hw.1 ha _) (GoVals.encode_sound vs b hw.2 hb x)
    · cases he
theorem GoKVs.encode_sound : ∀ (kvs : GoKVs) (e : Bytes), kvs.WF → kvs.encode = some e →
    ∀ x, parseSeq (2 * kvs.length) (e ++ x) = some (kvs.toObjs, x)
  | .nil, e, _, he, x => by simp [GoKVs.encode] at he; subst he; rfl
  | .cons k v r, e, hw, he, x => by
    simp only [GoKVs.WF] at hw
    unfold GoKVs.encode at he
    split at he
    · next a b ha hb =>
      simp only [Option.some.injEq] at he; subst he
      have two : 2 * (GoKVs.cons k v r).length = (2 * r.length + 1) + 1 := by simp [GoKVs.length]; omega
      rw [two, List.append_assoc, List.append_assoc]
      exact parseSeq_cons (parse_appendString k _ hw.1)
        (parseSeq_cons (GoVal.encode_sound v a hw.2.1 ha _) (GoKVs.encode_sound r b hw.2.2 hb x))
    · cases he
end

mutual
theorem GoVal.toObj_plain : ∀ (v : GoVal), Obj.Plain v.toObj
  | .nil => by simp [GoVal.toObj, Obj.Plain]
  | .bool _ => by simp [GoVal.toObj, Obj.Plain]
  | .int _ => by simp [GoVal.toObj, Obj.Plain]
  | .uint _ => by simp [GoVal.toObj, Obj.Plain]
  | .f32 _ => by simp [GoVal.toObj, Obj.Plain]
  | .f64 _ => by simp [GoVal.toObj, Obj.Plain]
  | .str _ => by simp [GoVal.toObj, Obj.Plain]
  | .bin _ => by simp [GoVal.toObj, Obj.Plain]
  | .arr xs => by simp only [GoVal.toObj, Obj.Plain]; exact GoVals.toObjs_plain xs
  | .map kvs => by simp only [GoVal.toObj, Obj.Plain]; exact GoKVs.toObjs_plain kvs
  | .bad => by simp [GoVal.toObj, Obj.Plain]
theorem GoVals.toObjs_plain : ∀ (xs : GoVals), Objs.Plain xs.toObjs
  | .nil => by simp [GoVals.toObjs, Objs.Plain]
  | .cons v vs => by simp only [GoVals.toObjs, Objs.Plain]; exact ⟨GoVal.toObj_plain v, GoVals.toObjs_plain vs⟩
theorem GoKVs.toObjs_plain : ∀ (kvs : GoKVs), Objs.PlainKV kvs.toObjs
  | .nil => by simp [GoKVs.toObjs, Objs.PlainKV]
  | .cons k v r => by
    simp only [GoKVs.toObjs, Objs.PlainKV]
    exact ⟨⟨k, rfl⟩, GoVal.toObj_plain v, GoKVs.toObjs_plain r⟩
end

/-- what `ReadIntf` (either path) returns for the encoding of a representable value, whatever follows -/
theorem readIntf_encode (p : Path) (v : GoVal) (e : Bytes) (hw : v.WF) (he : v.encode = some e) (x : Bytes) :
    readIntf p (e ++ x) = .ok v.toObj x :=
  readIntf_complete p (GoVal.encode_sound v e hw he x) (GoVal.toObj_plain v)

end FV
