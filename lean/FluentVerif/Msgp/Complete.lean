import FluentVerif.Msgp.AppendSound
/-! `ReadIntf` accepts every legal encoding of a *plain* object (no extension objects, string map
keys) and returns exactly the object the specification parser finds — on both paths. -/
namespace FV

mutual
def Obj.Plain : Obj → Prop
  | .ext _ _ => False
  | .arr xs => Objs.Plain xs
  | .map kvs => Objs.PlainKV kvs
  | _ => True
def Objs.Plain : Objs → Prop
  | .nil => True
  | .cons x xs => Obj.Plain x ∧ Objs.Plain xs
def Objs.PlainKV : Objs → Prop
  | .nil => True
  | .cons k (.cons v r) => (∃ s, k = .str s) ∧ Obj.Plain v ∧ Objs.PlainKV r
  | .cons _ .nil => False
end

/-! ### more fuel changes nothing -/

mutual
theorem readIntfF_mono (p : Path) : ∀ (f : Nat) (b : Bytes) (o r), readIntfF p f b = .ok o r →
    readIntfF p (f+1) b = .ok o r
  | 0, _, _, _, h => by simp [readIntfF] at h
  | f+1, b, o, r, h => by
    unfold readIntfF at h ⊢
    split at h
    · cases h
    · next lead tl =>
      try simp only
      split at h
      · cases h
      · next hh => (try rw [hh]); exact h
      · next hh => (try rw [hh]); exact h
      · next hh => (try rw [hh]); exact h
      · next n r0 hh =>
        (try rw [hh]); try simp only
        obtain ⟨xs, hx, rfl⟩ := Res.map_ok.1 h
        rw [readIntfN_mono p f n r0 xs r hx]; rfl
      · next n r0 hh =>
        (try rw [hh]); try simp only
        obtain ⟨xs, hx, rfl⟩ := Res.map_ok.1 h
        rw [readIntfKV_mono p f n r0 xs r hx]; rfl
theorem readIntfN_mono (p : Path) : ∀ (f n : Nat) (b : Bytes) (os r), readIntfN p f n b = .ok os r →
    readIntfN p (f+1) n b = .ok os r
  | 0, _, _, _, _, h => by simp [readIntfN] at h
  | f+1, 0, b, os, r, h => by simpa [readIntfN] using h
  | f+1, n+1, b, os, r, h => by
    unfold readIntfN at h ⊢
    obtain ⟨x, r1, h1, h2⟩ := Res.bind_ok.1 h
    obtain ⟨xs, h3, rfl⟩ := Res.map_ok.1 h2
    rw [readIntfF_mono p f b x r1 h1]
    simp only [Res.bind]
    rw [readIntfN_mono p f n r1 xs r h3]; rfl
theorem readIntfKV_mono (p : Path) : ∀ (f n : Nat) (b : Bytes) (os r), readIntfKV p f n b = .ok os r →
    readIntfKV p (f+1) n b = .ok os r
  | 0, _, _, _, _, h => by simp [readIntfKV] at h
  | f+1, 0, b, os, r, h => by simpa [readIntfKV] using h
  | f+1, n+1, b, os, r, h => by
    unfold readIntfKV at h ⊢
    split at h
    · next k m r0 hh =>
      (try rw [hh]); try simp only
      split at h
      · cases h
      · next hl =>
        rw [if_neg hl]
        split at h
        · cases h
        · next hk =>
          rw [if_neg hk]
          obtain ⟨v, r1, h1, h2⟩ := Res.bind_ok.1 h
          obtain ⟨kvs, h3, rfl⟩ := Res.map_ok.1 h2
          rw [readIntfF_mono p f _ v r1 h1]
          simp only [Res.bind]
          rw [readIntfKV_mono p f n r1 kvs r h3]; rfl
    · cases h
end

/-! ### inversion of the parser on a string object -/

theorem parseF_str_inv {f b s r} (h : parseF f b = some (.str s, r)) :
    ∃ m r0, header b = some (.blob .str m, r0) ∧ ¬ r0.length < m ∧ s = r0.take m ∧ r = r0.drop m := by
  cases f with
  | zero => simp [parseF] at h
  | succ f =>
    unfold parseF at h
    split at h
    · cases h
    · next o r0 hh => simp only [Option.some.injEq, Prod.mk.injEq] at h; cases o <;> simp [Scalar.toObj] at h
    · next k n r0 hh =>
      split at h
      · cases h
      · next hl =>
        simp only [Option.some.injEq, Prod.mk.injEq] at h
        obtain ⟨h1, h2⟩ := h
        cases k with
        | str => simp [blobObj] at h1; exact ⟨n, r0, hh, hl, h1.symm, h2.symm⟩
        | bin => simp [blobObj] at h1
    · next n r0 hh =>
      split at h
      · cases h
      · split at h
        · cases h
        · simp at h
    · split at h
      · simp at h
      · cases h
    · split at h
      · simp at h
      · cases h

/-! ### completeness -/

mutual
theorem readIntfF_complete (p : Path) : ∀ (f : Nat) (b : Bytes) (o r), parseF f b = some (o, r) →
    Obj.Plain o → readIntfF p f b = .ok o r
  | 0, _, _, _, h, _ => by simp [parseF] at h
  | f+1, b, o, r, h, hp => by
    unfold parseF at h
    unfold readIntfF
    cases b with
    | nil => simp [header] at h
    | cons lead tl =>
      simp only
      split at h
      · cases h
      · next o0 r0 hh => rw [hh]; simp only [Option.some.injEq, Prod.mk.injEq] at h; obtain ⟨rfl, rfl⟩ := h; rfl
      · next k n r0 hh =>
        rw [hh]; simp only
        split at h
        · cases h
        · next hl => rw [if_neg hl]; simp only [Option.some.injEq, Prod.mk.injEq] at h; obtain ⟨rfl, rfl⟩ := h; rfl
      · next n r0 hh =>
        split at h
        · cases h
        · split at h
          · cases h
          · simp only [Option.some.injEq, Prod.mk.injEq] at h; obtain ⟨rfl, _⟩ := h; simp [Obj.Plain] at hp
      · next n r0 hh =>
        rw [hh]; simp only
        split at h
        · next xs r' hx =>
          simp only [Option.some.injEq, Prod.mk.injEq] at h; obtain ⟨rfl, rfl⟩ := h
          simp only [Obj.Plain] at hp
          rw [readIntfN_complete p f n r0 xs r' hx hp]; rfl
        · cases h
      · next n r0 hh =>
        rw [hh]; simp only
        split at h
        · next xs r' hx =>
          simp only [Option.some.injEq, Prod.mk.injEq] at h; obtain ⟨rfl, rfl⟩ := h
          simp only [Obj.Plain] at hp
          rw [readIntfKV_complete p f n r0 xs r' hx hp]; rfl
        · cases h
theorem readIntfN_complete (p : Path) : ∀ (f n : Nat) (b : Bytes) (os r), parseN f n b = some (os, r) →
    Objs.Plain os → readIntfN p f n b = .ok os r
  | 0, _, _, _, _, h, _ => by simp [parseN] at h
  | f+1, 0, b, os, r, h, _ => by
    simp [parseN] at h; obtain ⟨rfl, rfl⟩ := h; simp [readIntfN]
  | f+1, n+1, b, os, r, h, hp => by
    unfold parseN at h
    unfold readIntfN
    split at h
    · cases h
    · next x r1 hx =>
      split at h
      · cases h
      · next xs r' hxs =>
        simp only [Option.some.injEq, Prod.mk.injEq] at h; obtain ⟨rfl, rfl⟩ := h
        simp only [Objs.Plain] at hp
        rw [readIntfF_complete p f b x r1 hx hp.1]
        simp only [Res.bind]
        rw [readIntfN_complete p f n r1 xs r' hxs hp.2]; rfl
theorem readIntfKV_complete (p : Path) : ∀ (f n : Nat) (b : Bytes) (os r), parseN f (2*n) b = some (os, r) →
    Objs.PlainKV os → readIntfKV p f n b = .ok os r
  | 0, _, _, _, _, h, _ => by simp [parseN] at h
  | f+1, 0, b, os, r, h, _ => by
    simp [parseN] at h; obtain ⟨rfl, rfl⟩ := h; simp [readIntfKV]
  | 0+1, n+1, b, os, r, h, _ => by
    have two : 2 * (n+1) = (2*n + 1) + 1 := by omega
    rw [two] at h
    simp [parseN, parseF] at h
  | f+1+1, n+1, b, os, r, h, hp => by
    have two : 2 * (n+1) = (2*n + 1) + 1 := by omega
    rw [two] at h
    unfold parseN at h
    split at h
    · cases h
    · next k r1 hk =>
      split at h
      · cases h
      · next xs r' hxs =>
        simp only [Option.some.injEq, Prod.mk.injEq] at h; obtain ⟨rfl, rfl⟩ := h
        unfold parseN at hxs
        split at hxs
        · cases hxs
        · next v r2 hv =>
          split at hxs
          · cases hxs
          · next ys r'' hys =>
            simp only [Option.some.injEq, Prod.mk.injEq] at hxs; obtain ⟨rfl, rfl⟩ := hxs
            simp only [Objs.PlainKV] at hp
            obtain ⟨⟨s, rfl⟩, hpv, hpr⟩ := hp
            obtain ⟨m, r0, hh, hl, rfl, rfl⟩ := parseF_str_inv hk
            unfold readIntfKV
            rw [hh]; simp only
            rw [if_neg hl, if_neg (by simp)]
            have e1 := readIntfF_mono p f _ v r2 (readIntfF_complete p f _ v r2 hv hpv)
            have e2 := readIntfKV_mono p f n r2 ys r'' (readIntfKV_complete p f n r2 ys r'' hys hpr)
            rw [e1]; simp only [Res.bind]
            rw [e2]; simp [Res.map, blobObj]
end

theorem readIntf_complete (p : Path) {b o r} (h : parse b = some (o, r)) (hp : Obj.Plain o) :
    readIntf p b = .ok o r :=
  readIntfF_complete p _ b o r h hp

end FV
