package main

import (
	"math"
	"time"

	"github.com/IBM/fluent-forward-go/fluent/protocol"
)

// ---------------------------------------------------------------------------------------------
// abstract values (Node trees) -> Go values and -> alternative encodings

var lenClasses = []int{0, 1, 2, 5, 31, 32, 33, 255, 256, 257}
var bigLenClasses = []int{65535, 65536, 65537}

func genLen(r *Rng, tier string) int {
	switch r.Intn(20) {
	case 0:
		if tier == "thorough" || r.Chance(10) {
			return bigLenClasses[r.Intn(len(bigLenClasses))]
		}
		return 300 + r.Intn(3000)
	case 1, 2, 3, 4, 5:
		return lenClasses[r.Intn(len(lenClasses))]
	default:
		return r.Intn(12)
	}
}

var intEdges = []int64{0, 1, -1, 127, 128, -32, -33, -128, -129, 255, 256, 32767, 32768, -32768, -32769, 65535, 65536,
	2147483647, 2147483648, -2147483648, -2147483649, 4294967295, 4294967296, math.MaxInt64, math.MinInt64, math.MaxInt64 - 1}

func genInt(r *Rng) int64 {
	switch r.Intn(4) {
	case 0:
		return intEdges[r.Intn(len(intEdges))]
	case 1:
		return int64(r.Intn(256)) - 128
	case 2:
		return int64(r.Next() >> uint(r.Intn(64)))
	default:
		return -int64(r.Next() >> uint(1+r.Intn(63)))
	}
}

func genUint(r *Rng) uint64 {
	switch r.Intn(4) {
	case 0:
		e := intEdges[r.Intn(len(intEdges))]
		if e < 0 {
			return math.MaxUint64
		}
		return uint64(e)
	case 1:
		return uint64(r.Intn(300))
	default:
		return r.Next() >> uint(r.Intn(64))
	}
}

var f64Specials = []uint64{0, 0x8000000000000000, 0x7ff0000000000000, 0xfff0000000000000, 0x7ff8000000000001, 0x3ff0000000000000, 0x0000000000000001, 0x7fefffffffffffff}
var f32Specials = []uint64{0, 0x80000000, 0x7f800000, 0xff800000, 0x7fc00001, 0x3f800000, 0x00000001, 0x7f7fffff}

// genNode: a msgpack-representable value; ext controls whether extension objects may appear
func genNode(r *Rng, depth int, tier string, ext bool) *Node {
	k := r.Intn(14)
	if depth <= 0 && k >= 10 {
		k = r.Intn(10)
	}
	switch k {
	case 0:
		return nNil()
	case 1:
		return nBool(r.Bool())
	case 2, 3:
		return nInt(genInt(r))
	case 4:
		return nUint(genUint(r))
	case 5:
		if r.Bool() {
			return &Node{K: KF32, Bits: f32Specials[r.Intn(len(f32Specials))]}
		}
		return &Node{K: KF32, Bits: r.Next() & 0xffffffff}
	case 6:
		if r.Bool() {
			return &Node{K: KF64, Bits: f64Specials[r.Intn(len(f64Specials))]}
		}
		return &Node{K: KF64, Bits: r.Next()}
	case 7, 8:
		return nStr(r.Bytes(genLen(r, tier)))
	case 9:
		if ext && r.Chance(40) {
			return genExt(r)
		}
		return nBin(r.Bytes(genLen(r, tier)))
	case 10, 11:
		n := r.Intn(5)
		if r.Chance(8) {
			n = 14 + r.Intn(5)
		}
		a := make([]*Node, n)
		for i := range a {
			a[i] = genNode(r, depth-1, tier, ext)
		}
		return nArr(a...)
	default:
		return genMapNode(r, depth-1, tier, ext)
	}
}

func genExt(r *Rng) *Node {
	switch r.Intn(9) {
	case 6, 7, 8: // EventTime values inside records: the registered extension, handed out by msgp's registry
		return nExt(0, etPayload(r))
	case 0: // msgp time
		return nExt(5, r.Bytes(12))
	case 1: // complex64 / complex128
		if r.Bool() {
			return nExt(3, r.Bytes(8))
		}
		return nExt(4, r.Bytes(16))
	case 2: // EventTime
		return nExt(0, etPayload(r))
	case 3: // special types in the wrong size
		return nExt(int8([]int{0, 3, 4, 5}[r.Intn(4)]), r.Bytes([]int{0, 1, 2, 4, 8, 12, 16, 3}[r.Intn(8)]))
	default:
		return nExt(int8(r.Intn(256)), r.Bytes([]int{0, 1, 2, 4, 8, 16, 3, 20}[r.Intn(8)]))
	}
}

func etPayload(r *Rng) []byte {
	p := make([]byte, 8)
	s := uint32(r.Next())
	if r.Chance(30) {
		s = uint32(etSecs[r.Intn(len(etSecs))])
	}
	ns := uint32(r.Intn(1000000000))
	if r.Chance(20) {
		ns = uint32(etNsecs[r.Intn(len(etNsecs))])
	}
	copy(p, be32(uint64(s)))
	copy(p[4:], be32(uint64(ns)))
	return p
}

var commonKeys = []string{"message", "level", "k", "chunk", "size", "compressed", "ack", "a", "b", ""}

func genKey(r *Rng, tier string) []byte {
	if r.Chance(60) {
		return []byte(commonKeys[r.Intn(len(commonKeys))])
	}
	return r.Bytes(1 + genLen(r, tier)%40)
}

func genMapNode(r *Rng, depth int, tier string, ext bool) *Node {
	n := r.Intn(5)
	if r.Chance(6) {
		n = 14 + r.Intn(5)
	}
	var kv []*Node
	seen := map[string]bool{}
	for i := 0; i < n; i++ {
		k := genKey(r, tier)
		if seen[string(k)] {
			continue
		}
		seen[string(k)] = true
		kv = append(kv, nStr(k), genNode(r, depth, tier, ext))
	}
	return nMap(kv...)
}

// randomise the encoding hints of a tree (alternative legal encodings)
func altHints(r *Rng, n *Node, p int) {
	if r.Chance(p) {
		n.W = 1 + r.Intn(3)
	}
	if n.K == KInt && n.I >= 0 && r.Chance(p) {
		n.Unsigned = true
	}
	for _, c := range n.A {
		altHints(r, c, p)
	}
}

// toGo: the Go value a caller would put in a record for this tree (maps must have str keys)
func toGo(n *Node, r *Rng) interface{} {
	switch n.K {
	case KNil:
		return nil
	case KBool:
		return n.B
	case KInt:
		if r != nil {
			switch {
			case n.I >= -128 && n.I <= 127 && r.Chance(25):
				return int8(n.I)
			case n.I >= -32768 && n.I <= 32767 && r.Chance(25):
				return int16(n.I)
			case n.I >= -2147483648 && n.I <= 2147483647 && r.Chance(25):
				return int32(n.I)
			case r.Chance(30):
				return int(n.I)
			}
		}
		return n.I
	case KUint:
		if r != nil {
			switch {
			case n.U <= 255 && r.Chance(25):
				return uint8(n.U)
			case n.U <= 65535 && r.Chance(25):
				return uint16(n.U)
			case n.U <= 4294967295 && r.Chance(25):
				return uint32(n.U)
			case r.Chance(30):
				return uint(n.U)
			}
		}
		return n.U
	case KF32:
		return math.Float32frombits(uint32(n.Bits))
	case KF64:
		return math.Float64frombits(n.Bits)
	case KStr:
		return string(n.S)
	case KBin:
		return append([]byte{}, n.S...)
	case KArr:
		a := make([]interface{}, len(n.A))
		for i, c := range n.A {
			a[i] = toGo(c, r)
		}
		return a
	case KMap:
		m := make(map[string]interface{}, len(n.A)/2)
		for i := 0; i+1 < len(n.A); i += 2 {
			m[string(n.A[i].S)] = toGo(n.A[i+1], r)
		}
		return m
	}
	panic("toGo: unsupported node")
}

// ---------------------------------------------------------------------------------------------
// protocol messages as Node trees (alternative encodings, written from the specification)

func genTag(r *Rng, tier string) []byte {
	if r.Chance(50) {
		return []byte([]string{"app.log", "t", "", "kube.var.log.containers.x", "a.b"}[r.Intn(5)])
	}
	return r.Bytes(genLen(r, tier))
}

func genChunkID(r *Rng) []byte {
	if r.Chance(60) {
		return []byte("p8n9gmxTQVC8/nh2wlKKeQ==")
	}
	if r.Chance(30) {
		// caller-chosen ids at the string-header boundaries (fixstr 31 / str8 32..255 / str16 256)
		n := []int{31, 32, 33, 36, 64, 255, 256, 257}[r.Intn(8)]
		b := make([]byte, n)
		for i := range b {
			b[i] = "0123456789abcdef"[r.Intn(16)]
		}
		return b
	}
	return r.Bytes(1 + r.Intn(30))
}

// option map: known keys in any order, unknown keys of any value type anywhere, duplicates rarely
func genOptionsNode(r *Rng, tier string, ext bool) *Node {
	var kv []*Node
	add := func(k string, v *Node) { kv = append(kv, nStr([]byte(k)), v) }
	if r.Chance(50) {
		if r.Chance(10) {
			add("size", nNil())
		} else {
			add("size", nInt(int64(r.Intn(100000))))
		}
	}
	if r.Chance(50) {
		add("chunk", nStr(genChunkID(r)))
	}
	if r.Chance(40) {
		add("compressed", nStr([]byte([]string{"gzip", "text", ""}[r.Intn(3)])))
	}
	nu := 0
	if r.Chance(35) {
		nu = 1 + r.Intn(3)
	}
	for i := 0; i < nu; i++ {
		k := []string{"x", "unknown", "chunks", "Size", "fluent_signal", "k"}[r.Intn(6)]
		add(k, genNode(r, 2, tier, ext))
	}
	if r.Chance(5) && len(kv) > 0 { // duplicate a known key with another value
		add("chunk", nStr(genChunkID(r)))
	}
	// shuffle pairs
	np := len(kv) / 2
	for i := np - 1; i > 0; i-- {
		j := r.Intn(i + 1)
		kv[2*i], kv[2*j] = kv[2*j], kv[2*i]
		kv[2*i+1], kv[2*j+1] = kv[2*j+1], kv[2*i+1]
	}
	return nMap(kv...)
}

func genTimeNode(r *Rng) *Node {
	switch r.Intn(3) {
	case 0:
		return nInt(genInt(r))
	case 1:
		return nInt(int64(1600000000 + r.Intn(100000000)))
	default:
		return nUint(genUint(r))
	}
}

func genEntryNode(r *Rng, tier string, ext bool) *Node {
	return nArr(nExt(0, etPayload(r)), genMapNode(r, 2, tier, ext))
}

func genEntriesNode(r *Rng, tier string, ext bool) *Node {
	n := r.Intn(4)
	switch r.Intn(12) {
	case 0:
		n = 0
	case 1:
		n = 15 + r.Intn(3)
	}
	a := make([]*Node, n)
	for i := range a {
		a[i] = genEntryNode(r, tier, ext)
	}
	return nArr(a...)
}

// optTail: nothing | nil | option map
func optTail(r *Rng, tier string, ext bool) []*Node {
	switch r.Intn(4) {
	case 0:
		return nil
	case 1:
		return []*Node{nNil()}
	default:
		return []*Node{genOptionsNode(r, tier, ext)}
	}
}

func genMsgNode(r *Rng, ty string, tier string, ext bool) *Node {
	switch ty {
	case "Message":
		return nArr(append([]*Node{nStr(genTag(r, tier)), genTimeNode(r), genMapNode(r, 3, tier, ext)}, optTail(r, tier, ext)...)...)
	case "MessageExt":
		return nArr(append([]*Node{nStr(genTag(r, tier)), nExt(0, etPayload(r)), genMapNode(r, 3, tier, ext)}, optTail(r, tier, ext)...)...)
	case "Forward":
		return nArr(append([]*Node{nStr(genTag(r, tier)), genEntriesNode(r, tier, ext)}, optTail(r, tier, ext)...)...)
	case "Packed":
		var s []byte
		for i, n := 0, r.Intn(4); i < n; i++ {
			e := genEntryNode(r, tier, ext)
			altHints(r, e, 10)
			s = append(s, e.Enc()...)
		}
		if r.Chance(10) {
			s = r.Bytes(genLen(r, tier))
		}
		return nArr(append([]*Node{nStr(genTag(r, tier)), nBin(s)}, optTail(r, tier, ext)...)...)
	case "Entry":
		return nArr(genTimeNode(r), genMapNode(r, 3, tier, ext))
	case "EntryExt":
		return genEntryNode(r, tier, ext)
	case "EntryList":
		return genEntriesNode(r, tier, ext)
	case "Options":
		return genOptionsNode(r, tier, ext)
	case "Ack":
		var kv []*Node
		if r.Chance(85) {
			kv = append(kv, nStr([]byte("ack")), nStr(genChunkID(r)))
		}
		if r.Chance(20) {
			kv = append(kv, nStr([]byte("x")), genNode(r, 2, tier, ext))
		}
		if r.Chance(10) {
			kv = append([]*Node{nStr([]byte("y")), genNode(r, 1, tier, ext)}, kv...)
		}
		return nMap(kv...)
	case "HeloOpts":
		var kv []*Node
		if r.Chance(85) {
			kv = append(kv, nStr([]byte("nonce")), nBin(r.Bytes(r.Intn(20))))
		}
		if r.Chance(70) {
			kv = append(kv, nStr([]byte("auth")), nBin(r.Bytes(r.Intn(8))))
		}
		if r.Chance(70) {
			kv = append(kv, nStr([]byte("keepalive")), nBool(r.Bool()))
		}
		if r.Chance(15) {
			kv = append(kv, nStr([]byte("zz")), genNode(r, 2, tier, ext))
		}
		return nMap(kv...)
	case "Helo":
		o := genMsgNode(r, "HeloOpts", tier, ext)
		if r.Chance(15) {
			o = nNil()
		}
		return nArr(nStr([]byte("HELO")), o)
	case "Ping":
		return nArr(nStr([]byte("PING")), nStr(genTag(r, tier)), nBin(r.Bytes(16)), nStr([]byte(hexRaw(r.Bytes(8)))), nStr(genTag(r, "quick")), nStr(genTag(r, "quick")))
	case "Pong":
		return nArr(nStr([]byte("PONG")), nBool(r.Bool()), nStr(genTag(r, "quick")), nStr(genTag(r, tier)), nStr([]byte(hexRaw(r.Bytes(8)))))
	}
	panic("genMsgNode " + ty)
}

// ---------------------------------------------------------------------------------------------
// the library's own encodings of caller-built values (class v)

func genGoOptions(r *Rng) *protocol.MessageOptions {
	switch r.Intn(5) {
	case 0:
		return nil
	case 1:
		return &protocol.MessageOptions{}
	}
	o := &protocol.MessageOptions{}
	if r.Bool() {
		n := r.Intn(70000)
		o.Size = &n
	}
	if r.Bool() {
		o.Chunk = string(genChunkID(r))
	}
	if r.Chance(30) {
		o.Compressed = "gzip"
	}
	return o
}

func genGoTime(r *Rng) time.Time {
	if r.Chance(4) {
		// the epoch itself: seconds and nanoseconds both zero, the value an "unset" test would confuse it with
		return time.Unix(0, 0).UTC()
	}
	s := int64(uint32(r.Next()))
	if r.Chance(30) {
		s = etSecs[r.Intn(len(etSecs))]
	}
	ns := int64(r.Intn(1000000000))
	if r.Chance(20) {
		ns = etNsecs[r.Intn(len(etNsecs))]
	}
	t := time.Unix(s, ns)
	if r.Bool() {
		t = t.In(time.FixedZone("z", int(etZones[r.Intn(len(etZones))])))
	} else {
		t = t.UTC()
	}
	return t
}

func genGoEntries(r *Rng, tier string) protocol.EntryList {
	n := r.Intn(4)
	switch r.Intn(12) {
	case 0:
		n = 0
	case 1:
		n = 15 + r.Intn(3)
	}
	el := make(protocol.EntryList, n)
	for i := range el {
		el[i] = protocol.EntryExt{Timestamp: protocol.EventTime{Time: genGoTime(r)}, Record: toGo(genMapNode(r, 2, tier, false), r)}
	}
	return el
}

type marshaler interface {
	MarshalMsg([]byte) ([]byte, error)
}

// genGoMsg builds a message value of the given type the way a caller would
func genGoMsg(r *Rng, ty string, tier string) marshaler {
	rec := func() interface{} { return toGo(genMapNode(r, 3, tier, false), r) }
	switch ty {
	case "Message":
		return &protocol.Message{Tag: string(genTag(r, tier)), Timestamp: genInt(r), Record: rec(), Options: genGoOptions(r)}
	case "MessageExt":
		return &protocol.MessageExt{Tag: string(genTag(r, tier)), Timestamp: protocol.EventTime{Time: genGoTime(r)}, Record: rec(), Options: genGoOptions(r)}
	case "Forward":
		return &protocol.ForwardMessage{Tag: string(genTag(r, tier)), Entries: genGoEntries(r, tier), Options: genGoOptions(r)}
	case "Packed":
		el := genGoEntries(r, tier)
		var s []byte
		for _, e := range el {
			s, _ = e.MarshalMsg(s)
		}
		return &protocol.PackedForwardMessage{Tag: string(genTag(r, tier)), EventStream: s, Options: genGoOptions(r)}
	case "Entry":
		return &protocol.Entry{Timestamp: genInt(r), Record: rec()}
	case "EntryExt":
		return &protocol.EntryExt{Timestamp: protocol.EventTime{Time: genGoTime(r)}, Record: rec()}
	case "EntryList":
		el := genGoEntries(r, tier)
		return &el
	case "Options":
		o := genGoOptions(r)
		if o == nil {
			o = &protocol.MessageOptions{}
		}
		return o
	case "Ack":
		return &protocol.AckMessage{Ack: string(genChunkID(r))}
	case "HeloOpts":
		return &protocol.HeloOpts{Nonce: r.Bytes(r.Intn(20)), Auth: r.Bytes(r.Intn(4)), Keepalive: r.Bool()}
	case "Helo":
		if r.Chance(15) {
			return &protocol.Helo{MessageType: "HELO"}
		}
		return &protocol.Helo{MessageType: "HELO", Options: &protocol.HeloOpts{Nonce: r.Bytes(r.Intn(20)), Auth: r.Bytes(r.Intn(4)), Keepalive: r.Bool()}}
	case "Ping":
		return &protocol.Ping{MessageType: "PING", ClientHostname: string(genTag(r, "quick")), SharedKeySalt: r.Bytes(16), SharedKeyHexDigest: hexRaw(r.Bytes(64)), Username: string(genTag(r, "quick")), Password: string(genTag(r, "quick"))}
	case "Pong":
		return &protocol.Pong{MessageType: "PONG", AuthResult: r.Bool(), Reason: string(genTag(r, "quick")), ServerHostname: string(genTag(r, "quick")), SharedKeyHexDigest: hexRaw(r.Bytes(64))}
	}
	panic("genGoMsg " + ty)
}

// ---------------------------------------------------------------------------------------------
// malformed inputs

func mutate(r *Rng, b []byte) []byte {
	b = append([]byte{}, b...)
	if len(b) == 0 {
		return r.Bytes(1 + r.Intn(8))
	}
	switch r.Intn(10) {
	case 9:
		return widen(r, b, false)
	case 0: // truncate
		return b[:r.Intn(len(b))]
	case 1: // bit flip
		i := r.Intn(len(b))
		b[i] ^= 1 << uint(r.Intn(8))
		return b
	case 2: // byte replace (biased to the first bytes: headers)
		i := r.Intn(1 + r.Intn(len(b)))
		b[i] = byte(r.Next())
		return b
	case 3: // insert
		i := r.Intn(len(b) + 1)
		return append(b[:i], append([]byte{byte(r.Next())}, b[i:]...)...)
	case 4: // delete
		i := r.Intn(len(b))
		return append(b[:i], b[i+1:]...)
	case 5: // arity tamper on the leading array/map header
		if b[0]&0xf0 == 0x90 {
			b[0] = 0x90 | byte(r.Intn(8))
		} else if b[0]&0xf0 == 0x80 {
			b[0] = 0x80 | byte(r.Intn(8))
		}
		return b
	case 6: // retag one byte as an interesting lead byte
		leads := []byte{0xc0, 0xc1, 0xc2, 0xc4, 0xc7, 0xc9, 0xca, 0xcf, 0xd3, 0xd4, 0xd7, 0xd8, 0xd9, 0xdb, 0xdc, 0xdd, 0xde, 0xdf, 0x80, 0x90, 0xa0, 0xff}
		b[r.Intn(len(b))] = leads[r.Intn(len(leads))]
		return b
	case 7: // over-declared 16/32-bit count at a random position (bounded: real allocation stays small)
		i := r.Intn(len(b))
		hdr := []byte{0xdc, 0x00, byte(r.Intn(256))}
		if r.Bool() {
			hdr = []byte{0xdd, 0x00, 0x00, byte(r.Intn(8)), byte(r.Intn(256))}
		}
		if r.Chance(30) {
			hdr[0] += 2 // map16 / map32
		}
		return append(b[:i], append(hdr, b[i:]...)...)
	default: // splice two halves of different inputs is done by the caller; here: duplicate a region
		i := r.Intn(len(b))
		j := i + r.Intn(len(b)-i)
		return append(b[:j], b[i:]...)
	}
}

// widen: a container header at a token boundary (the leading one included) re-declared in the 16/32-bit
// format with a tampered count; big: a count far beyond the input (the decode runs in a child process)
func widen(r *Rng, b []byte, big bool) []byte {
	offs := containerOffsets(b)
	if len(offs) == 0 {
		return b[:r.Intn(len(b))]
	}
	i := offs[r.Intn(len(offs))]
	if r.Chance(30) {
		i = offs[0] // the leading header: the first thing every decoder reads
	}
	isMap, n, w := containerAt(b, i)
	counts := []uint32{n, n + 1, n + 2, 15, 16, 255, 65535, 65536, 100000, 1 << 20, 1 << 22, 1 << 24, 1 << 27, 0x7fffffff, 0x80000000, 0xffffffff}
	c := counts[r.Intn(len(counts))]
	if !big && r.Chance(60) {
		c = counts[r.Intn(8)] // mostly modest: the huge ones cost a child process each
	}
	if big {
		c = counts[8+r.Intn(4)]
		if r.Chance(10) {
			c = counts[12+r.Intn(4)]
		}
	}
	lead := byte(0xdd)
	if isMap {
		lead = 0xdf
	}
	hdr := []byte{lead, byte(c >> 24), byte(c >> 16), byte(c >> 8), byte(c)}
	if c < 65536 && r.Bool() {
		hdr = []byte{lead - 1, byte(c >> 8), byte(c)}
	}
	out := append([]byte{}, b[:i]...)
	out = append(out, hdr...)
	out = append(out, b[i+w:]...)
	if r.Chance(40) {
		out = out[:i+len(hdr)+r.Intn(len(out)-i-len(hdr)+1)] // … and nothing (or not enough) behind it
	}
	return out
}

// tokenSize: header width and payload length of the msgpack token at b[i:] (ok=false: cut short / 0xc1)
func tokenSize(b []byte, i int) (hdr int, pay uint64, ok bool) {
	be := func(i, w int) uint64 {
		var v uint64
		for j := 0; j < w; j++ {
			v = v<<8 | uint64(b[i+j])
		}
		return v
	}
	c := b[i]
	hdr = 1
	lenw := 0
	switch {
	case c < 0x80, c >= 0xe0, c >= 0x80 && c < 0xa0:
	case c >= 0xa0 && c < 0xc0:
		pay = uint64(c & 0x1f)
	default:
		switch c {
		case 0xc0, 0xc2, 0xc3:
		case 0xc1:
			return 0, 0, false
		case 0xc4, 0xd9:
			hdr, lenw = 2, 1
		case 0xc5, 0xda:
			hdr, lenw = 3, 2
		case 0xc6, 0xdb:
			hdr, lenw = 5, 4
		case 0xc7:
			hdr, lenw = 3, 1
		case 0xc8:
			hdr, lenw = 4, 2
		case 0xc9:
			hdr, lenw = 6, 4
		case 0xca, 0xce, 0xd2:
			hdr = 5
		case 0xcb, 0xcf, 0xd3:
			hdr = 9
		case 0xcc, 0xd0:
			hdr = 2
		case 0xcd, 0xd1:
			hdr = 3
		case 0xd4:
			hdr = 3
		case 0xd5:
			hdr = 4
		case 0xd6:
			hdr = 6
		case 0xd7:
			hdr = 10
		case 0xd8:
			hdr = 18
		case 0xdc, 0xde:
			hdr = 3
		case 0xdd, 0xdf:
			hdr = 5
		}
	}
	if i+hdr > len(b) {
		return 0, 0, false
	}
	if lenw > 0 {
		pay = be(i+1, lenw)
	}
	if uint64(i)+uint64(hdr)+pay > uint64(len(b)) {
		return 0, 0, false
	}
	return hdr, pay, true
}

// containerOffsets: offsets of the array / map headers among the tokens of b (flat walk from offset 0)
func containerOffsets(b []byte) []int {
	var offs []int
	for i := 0; i < len(b); {
		hdr, pay, ok := tokenSize(b, i)
		if !ok {
			break
		}
		c := b[i]
		if c&0xf0 == 0x80 || c&0xf0 == 0x90 || (c >= 0xdc && c <= 0xdf) {
			offs = append(offs, i)
		}
		i += hdr + int(pay)
	}
	return offs
}

// containerAt: kind, declared count and header width of the array / map header at b[i]
func containerAt(b []byte, i int) (isMap bool, n uint32, w int) {
	c := b[i]
	switch {
	case c&0xf0 == 0x80:
		return true, uint32(c & 0x0f), 1
	case c&0xf0 == 0x90:
		return false, uint32(c & 0x0f), 1
	case c == 0xdc || c == 0xde:
		return c == 0xde, uint32(b[i+1])<<8 | uint32(b[i+2]), 3
	default:
		return c == 0xdf, uint32(b[i+1])<<24 | uint32(b[i+2])<<16 | uint32(b[i+3])<<8 | uint32(b[i+4]), 5
	}
}

// ---------------------------------------------------------------------------------------------
// the suite

func init() { suites["codec"] = genCodec }

func emitDec(o *Out, r *Rng, prop, ty, cls string, b []byte, prev []byte) {
	for _, path := range []string{"B", "S"} {
		o.emit(prop, "DEC", ty, path, cls, "F", hx(b))
		if prev != nil {
			o.emit("C18", "DEC", ty, path, cls, "U"+hx(prev), hx(b))
		}
	}
}

func genCodec(o *Out, r *Rng, n int, tier string) {
	// seed-independent block: integer timestamps at every boundary of the integer formats, in every legal width of the signed and
	// the unsigned family (other implementations write non-negative times as uint32 / uint64), in Message and Entry
	for _, e := range append(append([]int64{}, intEdges...), 2147483649, 4294967294, 1<<62, 1700000000, 2200000000, 4102444800) {
		for w := 0; w < 4; w++ {
			for _, uns := range []bool{false, true} {
				if uns && e < 0 {
					continue
				}
				mk := func() *Node {
					t := nInt(e)
					t.W, t.Unsigned = w, uns
					return t
				}
				emitDec(o, r, "C13", "Message", "a", nArr(nStr([]byte("t")), mk(), nMap(), nNil()).Enc(), nil)
				emitDec(o, r, "C13", "Entry", "a", nArr(mk(), nMap()).Enc(), nil)
			}
		}
	}
	// seed-independent block: a well-formed message of each mode with its first byte replaced by every other value, followed by another
	// message: whatever a decoder makes of the lead byte, a success must consume exactly the first value
	for _, ty := range []string{"Message", "MessageExt", "Forward", "Packed"} {
		var base *Node
		switch ty {
		case "Message":
			base = nArr(nStr([]byte("tag")), nInt(1700000000), nMap(nStr([]byte("k")), nStr([]byte("v"))), nNil())
		case "MessageExt":
			base = nArr(nStr([]byte("tag")), nExt(0, []byte{0x65, 0, 0, 1, 0, 0, 0, 2}), nMap(), nMap(nStr([]byte("chunk")), nStr([]byte("id"))))
		case "Forward":
			base = nArr(nStr([]byte("tag")), nArr(nArr(nExt(0, []byte{0x65, 0, 0, 1, 0, 0, 0, 2}), nMap())), nNil())
		default:
			base = nArr(nStr([]byte("tag")), nBin(nArr(nExt(0, []byte{0x65, 0, 0, 1, 0, 0, 0, 2}), nMap()).Enc()), nNil())
		}
		enc := base.Enc()
		for lead := 0; lead < 256; lead++ {
			b := append([]byte{byte(lead)}, enc[1:]...)
			b = append(b, enc...)
			emitDec(o, r, "C13", ty, "m", b, nil)
		}
	}
	// seed-independent block: every prefix of small packed streams (entries with fixext8 / ext8 / ext16 times, empty and small
	// records) through UnmarshalPacked: an entry cut at any byte must be an error, never a panic and never a success
	for _, st := range [][]*Node{
		{nArr(nExt(0, []byte{0, 0, 0, 1, 0, 0, 0, 2}), nMap())},
		{nArr(nExt(0, []byte{0, 0, 0, 1, 0, 0, 0, 2}), nMap()), nArr(nExt(0, []byte{0x65, 0, 0, 1, 0, 0, 0, 2}), nMap(nStr([]byte("k")), nInt(7)))},
		{nArr(nExt(0, []byte{0, 0, 0, 1, 0, 0, 0, 2}), nMap(nStr([]byte("key")), nStr([]byte("value")))), nArr(nExt(0, []byte{0, 0, 0, 3, 0, 0, 0, 4}), nMap()),
			nArr(nExt(0, []byte{0, 0, 0, 5, 0, 0, 0, 6}), nMap(nStr([]byte("a")), nArr(nInt(1), nNil())))},
	} {
		for wide := 0; wide < 3; wide++ {
			var s []byte
			for _, e := range st {
				e.A[0].W = wide // fixext8, ext8, ext16 headers of the time
				s = append(s, e.Enc()...)
			}
			for cut := 0; cut <= len(s); cut++ {
				o.emit("C10", "UP", hx(s[:cut]))
			}
		}
	}
	for i := 0; i < n; i++ {
		ty := codecTypes[r.Intn(len(codecTypes))]
		if r.Chance(50) {
			ty = codecTypes[r.Intn(4)] // the four Forward modes carry most properties
		}
		// (v) the library's own encoding of a caller-built value
		v, err := genGoMsg(r, ty, tier).MarshalMsg(nil)
		if err != nil {
			continue
		}
		// (a) an alternative legal encoding of a message built from the specification
		an := genMsgNode(r, ty, tier, r.Chance(45))
		altHints(r, an, 25)
		a := an.Enc()
		var prev []byte
		if r.Chance(50) {
			if r.Bool() {
				prev, _ = genGoMsg(r, ty, tier).MarshalMsg(nil)
			} else {
				pn := genMsgNode(r, ty, tier, false)
				prev = pn.Enc()
			}
		}
		if r.Chance(12) {
			// arity sweep: the elements of a well-formed mode message, cut or extended to 0..7 (and 15..17) elements,
			// always followed by another complete message so that reading short or past the end shows
			mty := codecTypes[r.Intn(4)]
			mn := genMsgNode(r, mty, tier, false)
			extras := []*Node{nNil(), nMap(), nInt(1), nStr([]byte("x")), nArr(nNil()), nNil()}
			k := r.Intn(8)
			if r.Chance(10) {
				k = 15 + r.Intn(3)
			}
			el := append([]*Node{}, mn.A...)
			for len(el) < k {
				el = append(el, extras[r.Intn(len(extras))])
			}
			if r.Chance(50) && len(el) >= 4 {
				el[len(mn.A)-1] = nNil() // the options position holds nil
				if len(mn.A) < 4 && (mty == "Message" || mty == "MessageExt") && len(el) >= 4 {
					el[3] = nNil()
				}
			}
			el = el[:k]
			follow, _ := genGoMsg(r, mty, tier).MarshalMsg(nil)
			if r.Chance(40) {
				// … or by a lone value that a decoder peeking for "nil options" or "one more element" would swallow
				follow = [][]byte{{0xc0}, {0x80}, {0x90}, {0x00}, {0xc0, 0xc0}, {0xc2}, {0xa0}, {0xc4, 0x00}}[r.Intn(8)]
			}
			emitDec(o, r, "C13", mty, "m", append(nArr(el...).Enc(), follow...), prev)
			continue
		}
		switch r.Intn(4) {
		case 0:
			emitDec(o, r, "C13", ty, "v", v, prev)
		case 1:
			emitDec(o, r, "C13", ty, "a", a, prev)
		case 2: // concatenation: the decoder must stop at the boundary of the first value
			if r.Chance(35) {
				// … whatever single value or stray bytes follow (a nil, an empty map, an empty array, small ints)
				tails := [][]byte{{0xc0}, {0x80}, {0x90}, {0x00}, {0xff}, {0xc0, 0xc0}, {0xc2}, {0xa0}}
				tl := tails[r.Intn(len(tails))]
				emitDec(o, r, "C13", ty, "v", append(append([]byte{}, v...), tl...), prev)
				emitDec(o, r, "C13", ty, "a", append(append([]byte{}, a...), tl...), nil)
				continue
			}
			w, _ := genGoMsg(r, ty, tier).MarshalMsg(nil)
			emitDec(o, r, "C13", ty, "v", append(append([]byte{}, v...), w...), prev)
			emitDec(o, r, "C13", ty, "a", append(append([]byte{}, a...), v...), nil)
		default: // malformed
			if r.Chance(8) {
				// an EventTime whose payload has the wrong length (0..16 bytes, not 8), in whatever ext format fits
				k := r.Intn(17)
				if k == 8 {
					k = 7
				}
				bad := nExt(0, r.Bytes(k))
				bad.W = r.Intn(3)
				// … half of the time followed by another complete message: a decoder that reads over the bad element
				// runs into it
				var follow []byte
				if r.Bool() {
					follow = v
				}
				switch r.Intn(3) {
				case 0:
					emitDec(o, r, "C10", "MessageExt", "m", append(nArr(nStr([]byte("t")), bad, nMap()).Enc(), follow...), prev)
				case 1:
					emitDec(o, r, "C10", "EntryExt", "m", append(nArr(bad, nMap()).Enc(), follow...), nil)
				default:
					emitDec(o, r, "C10", "Forward", "m", append(nArr(nStr([]byte("t")), nArr(nArr(bad, nMap()))).Enc(), follow...), nil)
				}
				continue
			}
			src := v
			if r.Bool() {
				src = a
			}
			m := mutate(r, src)
			if r.Chance(25) {
				m = mutate(r, m)
			}
			if r.Chance(12) { // a declared count far beyond the input, at any container of the message
				m = widen(r, src, true)
			}
			if r.Chance(5) {
				m = r.Bytes(r.Intn(40))
			}
			if r.Chance(40) { // followed by another message: reading past the end shows
				m = append(m, v...)
			}
			dty := ty
			if r.Chance(10) {
				dty = codecTypes[r.Intn(len(codecTypes))]
			}
			emitDec(o, r, "C10", dty, "m", m, prev)
		}
	}
}

var _ = protocol.OptSize
