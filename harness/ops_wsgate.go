package main

import (
	"runtime"
	"fmt"
	"os"
	"os/exec"
	"strings"
	"sync"
	"sync/atomic"
	"time"

	"github.com/IBM/fluent-forward-go/fluent/client"
	"github.com/IBM/fluent-forward-go/fluent/client/ws"
	"github.com/IBM/fluent-forward-go/fluent/protocol"
)

// WSG <scenario> => <outcome>
//   schedule-controlled scenarios on WSClient, using the verifAt points to hold a goroutine at a chosen
//   place while another operation runs.  Executed in a child process: a nil dereference inside the
//   library's own goroutine cannot be recovered and would take the harness down.
//   senddis     Send is held between its session check and its write while Disconnect runs
//   sendrawdis  the same for SendRaw
//   listendis   the background goroutine is held between its session check and Listen while Disconnect runs
//   listenrec   … while Reconnect runs (the old goroutine must not listen on / report into the new session)

func wsgChild(scen string) string {
	f := &wsFactory{next: "ok;ok"}
	c := client.NewWS(client.WSConnectionOptions{Factory: f, ConnectionOptions: ws.ConnectionOptions{CloseDeadline: 100 * time.Millisecond}})
	hold := make(chan struct{})
	reached := make(chan struct{}, 4)
	point := map[string]string{"senddis": "send.checked", "sendrawdis": "sendraw.checked", "listendis": "listen.start", "listenrec": "listen.start"}[scen]
	first := true
	client.VerifAt = func(label string, arg interface{}) {
		if label == point && first {
			first = false
			reached <- struct{}{}
			<-hold
		}
	}
	res := make(chan string, 1)
	switch scen {
	case "senddis", "sendrawdis":
		if err := c.Connect(); err != nil {
			return "setup-failed"
		}
		go func() {
			defer func() {
				if p := recover(); p != nil {
					res <- "panic"
				}
			}()
			var err error
			if scen == "senddis" {
				err = c.Send(&protocol.Message{Tag: "t", Timestamp: 1, Record: map[string]interface{}{}})
			} else {
				err = c.SendRaw([]byte{0xc0})
			}
			res <- resOf(err)
		}()
		select {
		case <-reached:
		case <-time.After(2 * time.Second):
			return "gate-not-reached"
		}
		_ = c.Disconnect()
		close(hold)
		select {
		case r := <-res:
			return "send=" + r
		case <-time.After(3 * time.Second):
			return "hang"
		}
	case "listendis", "listenrec":
		if err := c.Connect(); err != nil {
			return "setup-failed"
		}
		select {
		case <-reached:
		case <-time.After(2 * time.Second):
			return "gate-not-reached"
		}
		if scen == "listendis" {
			_ = c.Disconnect()
		} else {
			_ = c.Reconnect()
		}
		close(hold)
		time.Sleep(150 * time.Millisecond) // let the held goroutine run on
		// the client must still work
		err := c.SendRaw([]byte{0xc0})
		f.mu.Lock()
		nconn := len(f.conns)
		// no connection may have two readers, the new session must be usable
		readers := 0
		for _, cn := range f.conns {
			cn.mu.Lock()
			if cn.maxInRead > readers {
				readers = cn.maxInRead
			}
			cn.mu.Unlock()
		}
		f.mu.Unlock()
		return fmt.Sprintf("after=%s conns=%d maxreaders=%d", resOf(err), nconn, readers)
	}
	return "bad-scenario"
}

func init() {
	ops["WSG"] = func(a []string) string {
		if os.Getenv("FV_CHILD") != "" {
			return wsgChild(a[0])
		}
		// The gate fixes the schedule, so a deadlock the library has under it shows on every attempt.  A child that does not
		// finish once (seen once in some thousand runs on a loaded machine, never reproduced) is tried again; only a scenario
		// that hangs three times in a row is reported as a hang.
		if os.Getenv("FV_WSG_ATTEMPT") == "" {
			res := ""
			for attempt := 1; attempt <= 3; attempt++ {
				os.Setenv("FV_WSG_ATTEMPT", fmt.Sprint(attempt))
				res = ops["WSG"](a)
				os.Unsetenv("FV_WSG_ATTEMPT")
				if res != "hang" && res != "gate-not-reached" {
					break
				}
			}
			return res
		}
		cmd := exec.Command(os.Args[0], "replay")
		cmd.Env = append(os.Environ(), "FV_CHILD=1")
		cmd.Stdin = strings.NewReader("1 - WSG " + a[0] + "\n")
		done := make(chan struct{})
		var out []byte
		go func() { out, _ = cmd.CombinedOutput(); close(done) }()
		select {
		case <-done:
		case <-time.After(20 * time.Second):
			_ = cmd.Process.Kill()
			return "hang"
		}
		s := string(out)
		if i := strings.Index(s, " => "); i >= 0 {
			return strings.TrimSpace(strings.Split(s[i+4:], "\n")[0])
		}
		if strings.Contains(s, "nil pointer dereference") {
			return "crash nil-pointer-dereference-in-library-goroutine"
		}
		return "crash"
	}
	suites["wsgate"] = func(o *Out, r *Rng, n int, tier string) {
		for _, s := range []string{"senddis", "sendrawdis", "listendis", "listenrec"} {
			o.emit("C17", "WSG", s)
		}
	}
}

// WSCONC <seed> => bad=<n> …   goroutines calling Connect / Disconnect / Reconnect / Send / SendRaw on one WSClient at random
func init() {
	ops["WSCONC"] = func(a []string) string {
		if os.Getenv("FV_CHILD") == "" {
			cmd := exec.Command(os.Args[0], "replay")
			cmd.Env = append(os.Environ(), "FV_CHILD=1")
			cmd.Stdin = strings.NewReader("1 - WSCONC " + a[0] + "\n")
			done := make(chan struct{})
			var out, errb strings.Builder
			cmd.Stdout, cmd.Stderr = &out, &errb
			go func() { _ = cmd.Run(); close(done) }()
			select {
			case <-done:
			case <-time.After(90 * time.Second):
				_ = cmd.Process.Kill()
				return "bad=1 deadlock-or-hang"
			}
			if strings.Contains(errb.String(), "DATA RACE") {
				fmt.Fprint(os.Stderr, errb.String()) // hand race reports up to bin/check
			}
			s := out.String()
			if i := strings.Index(s, " => "); i >= 0 {
				return strings.TrimSpace(strings.Split(s[i+4:], "\n")[0])
			}
			if strings.Contains(errb.String(), "nil pointer dereference") {
				return "bad=1 crash-nil-pointer-dereference"
			}
			return "bad=1 crash"
		}
		seed := uint64(atoi64(a[0]))
		f := &wsFactory{next: "ok;ok"}
		c := client.NewWS(client.WSConnectionOptions{Factory: f, ConnectionOptions: ws.ConnectionOptions{CloseDeadline: 50 * time.Millisecond}})
		client.VerifAt = nil
		var wg sync.WaitGroup
		var panics, recErrs int32
		for g := 0; g < 5; g++ {
			wg.Add(1)
			go func(g int) {
				defer wg.Done()
				defer func() {
					if p := recover(); p != nil {
						atomic.AddInt32(&panics, 1)
					}
				}()
				r := &Rng{s: seed + uint64(g)*7919}
				for j := 0; j < 60; j++ {
					switch r.Intn(6) {
					case 0:
						_ = c.Connect()
					case 1:
						_ = c.Disconnect()
					case 2:
						// the factory never fails here: a Reconnect has nothing to fail on, whatever runs beside it
						if err := c.Reconnect(); err != nil {
							atomic.AddInt32(&recErrs, 1)
						}
					case 3:
						_ = c.SendRaw([]byte{0xc0})
					default:
						_ = c.Send(&protocol.Message{Tag: "t", Timestamp: 1, Record: map[string]interface{}{"k": "v"}})
					}
				}
			}(g)
		}
		wg.Wait()
		// second phase: nothing but lifecycle calls, all at once — Reconnect is one atomic step (close the old session,
		// open the new one), so with a factory that never fails it never has a reason to fail
		for g := 0; g < 5; g++ {
			wg.Add(1)
			go func(g int) {
				defer wg.Done()
				defer func() {
					if p := recover(); p != nil {
						atomic.AddInt32(&panics, 1)
					}
				}()
				for j := 0; j < 25; j++ {
					if g == 4 {
						_ = c.Connect()
						runtime.Gosched()
						continue
					}
					if err := c.Reconnect(); err != nil {
						atomic.AddInt32(&recErrs, 1)
					}
				}
			}(g)
		}
		wg.Wait()
		_ = c.Disconnect()
		time.Sleep(100 * time.Millisecond)
		bad := 0
		detail := ""
		if panics > 0 {
			bad++
			detail += " panic"
		}
		if recErrs > 0 {
			bad++
			detail += fmt.Sprintf(" reconnect-failed-%d-times-although-dial-and-setup-succeed(not-atomic:a-session-was-left-behind)", recErrs)
		}
		f.mu.Lock()
		for _, cn := range f.conns {
			cn.mu.Lock()
			if cn.maxInRead > 1 {
				bad++
				detail += " two-readers-on-one-connection"
			}
			if cn.maxInWrite > 1 {
				bad++
				detail += " two-writers-on-one-connection"
			}
			if cn.closes > 1 {
				bad++
				detail += fmt.Sprintf(" conn%d-closed-%d-times", cn.id, cn.closes)
			}
			nclose := 0
			for _, fr := range cn.frames {
				if strings.HasPrefix(fr, "8:") {
					nclose++
				}
			}
			if nclose > 1 {
				bad++
				detail += " two-close-frames"
			}
			cn.mu.Unlock()
		}
		n := len(f.conns)
		f.mu.Unlock()
		return fmt.Sprintf("bad=%d conns=%d%s", bad, n, detail)
	}
	suites["wsconc"] = func(o *Out, r *Rng, n int, tier string) {
		for i := 0; i < n; i++ {
			o.emit("C17", "WSCONC", itoa(int64(r.Intn(1000000))))
		}
	}
}
