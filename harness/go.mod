module fvharness

go 1.18

require (
	github.com/IBM/fluent-forward-go v0.0.0
	github.com/google/uuid v1.3.0
	github.com/gorilla/websocket v1.4.2
	github.com/tinylib/msgp v1.1.9
)

require github.com/philhofer/fwd v1.1.2 // indirect

replace github.com/IBM/fluent-forward-go => /repo
