package main

import (
	"errors"
	"fmt"
	"net"
	"os"
	"os/exec"
	"runtime"
	"sort"
	"strings"
	"sync"
	"sync/atomic"
	"time"

	"github.com/IBM/fluent-forward-go/fluent/client/ws"
	"github.com/gorilla/websocket"
)

// WC <scenario> <n> <listen> <peer> <seed> => <observation>
//   the websocket connection (ws.NewConnection over the fake ext.Conn) under concurrent Close calls.
//   scenario closers: n goroutines call Close()/CloseWithMsg concurrently
//            relisten: Listen is called again before / during / after closure (n = 0,1,2 selects when)
//            writers: n goroutines Write while one closes
//   listen   t|f  whether a Listen is running
//   peer     echo (answers the close frame with a close frame) | silent | first1000 | first1001 (peer closes first) |
//            sever (transport error) | writefail (the close frame cannot be written)
//   observation: res=<sorted results of the Close calls> frames=<close frames written> closes=<underlying closes>
//                closed=<Closed() at the end> reverted=<Closed() ever went back to false> listen=<result of Listen|-> maxms=<slowest Close>
//   run in a child process: a panic in the library's reader goroutine cannot be recovered.

// gateLogger: a caller-supplied logger that, at the log line containing `at`, lets another goroutine run `then` to
// completion (or for at most 400 ms) before it returns: a Close that happens exactly while Listen is announcing itself
type gateLogger struct {
	at    string
	then  func()
	fired int32
}

func (g *gateLogger) hit(s string) {
	time.Sleep(200 * time.Microsecond)
	if g.then != nil && strings.Contains(s, g.at) && atomic.CompareAndSwapInt32(&g.fired, 0, 1) {
		done := make(chan struct{})
		go func() { g.then(); close(done) }()
		select {
		case <-done:
		case <-time.After(400 * time.Millisecond):
		}
	}
}
func (g *gateLogger) Println(a ...interface{})            { g.hit(fmt.Sprint(a...)) }
func (g *gateLogger) Printf(f string, a ...interface{}) { g.hit(fmt.Sprintf(f, a...)) }

type yieldLogger struct{}

func (yieldLogger) Println(...interface{})          { time.Sleep(200 * time.Microsecond) }
func (yieldLogger) Printf(string, ...interface{}) { time.Sleep(200 * time.Microsecond) }

func classifyErr(err error) string {
	switch {
	case err == nil:
		return "nil"
	case strings.Contains(err.Error(), "multiple close"):
		return "multiple"
	case strings.Contains(err.Error(), "deadline expired"):
		return "deadline"
	case websocket.IsCloseError(err, websocket.CloseNormalClosure):
		return "close1000"
	case strings.Contains(err.Error(), "already listening"):
		return "already"
	default:
		var ce *websocket.CloseError
		if errors.As(err, &ce) {
			return fmt.Sprintf("close%d", ce.Code)
		}
		var ne net.Error
		if errors.As(err, &ne) || errors.Is(err, net.ErrClosed) {
			return "neterr"
		}
		return "other"
	}
}

func wcChild(a []string) string {
	scen, n, listen, peer := a[0], int(atoi64(a[1])), a[2] == "t", a[3]
	f := newFakeWS(0)
	f.echoClose = peer == "echo"
	if peer == "silentslow" {
		// the underlying Close fails pending reads at once but takes a while to return
		f.slowClose = 30 * time.Millisecond
	}
	if peer == "writefail" {
		f.writeErr = true
	}
	// the caller's logger is a scheduling point inside the library: every log call yields, which widens
	// whatever window the library leaves open around it
	copts := ws.ConnectionOptions{CloseDeadline: 150 * time.Millisecond, Logger: yieldLogger{}}
	var handled int32
	var gl *gateLogger
	if scen == "logclose" {
		gl = &gateLogger{at: "listening"}
		copts.Logger = gl
	}
	if scen == "handlerpanic" {
		// a ReadHandler of the caller's that panics on the first data message (the caller of Listen recovers)
		copts.ReadHandler = func(c ws.Connection, _ int, _ []byte, err error) error {
			if err == nil && atomic.AddInt32(&handled, 1) == 1 {
				panic("handler panicked")
			}
			return err
		}
	}
	if scen == "errwriters" || scen == "listen3" {
		// a ReadHandler that reports read errors to the caller of Listen but leaves the connection open
		copts.ReadHandler = func(c ws.Connection, _ int, _ []byte, err error) error { return err }
	}
	if scen == "handler" {
		// a ReadHandler of the caller's: fails on the first data message, accepts the others, closes on a read error
		copts.ReadHandler = func(c ws.Connection, _ int, _ []byte, err error) error {
			if err != nil {
				_ = c.Close()
				return err
			}
			if atomic.AddInt32(&handled, 1) == 1 {
				return errors.New("handler failed")
			}
			return nil
		}
	}
	conn, err := ws.NewConnection(f, copts)
	if err != nil {
		return "setup-failed"
	}
	listenRes := make(chan string, 4)
	startListen := func() {
		go func() { listenRes <- classifyErr(conn.Listen()) }()
	}
	// wait until a read loop is blocked inside ReadMessage (a fixed sleep is not enough on a loaded machine)
	waitReading := func() {
		for i := 0; i < 4000; i++ {
			f.mu.Lock()
			in := f.inRead
			f.mu.Unlock()
			if in >= 1 {
				return
			}
			time.Sleep(500 * time.Microsecond)
		}
	}
	reverted := false
	stopWatch := make(chan struct{})
	var watchWG sync.WaitGroup
	watchWG.Add(1)
	go func() {
		defer watchWG.Done()
		seenClosed := false
		for {
			select {
			case <-stopWatch:
				return
			default:
			}
			c := conn.Closed()
			if seenClosed && !c {
				reverted = true
			}
			if c {
				seenClosed = true
			}
			time.Sleep(200 * time.Microsecond)
		}
	}()
	if listen {
		startListen()
		waitReading()
	}
	switch peer {
	case "first1000":
		f.reads <- readRes{err: &websocket.CloseError{Code: 1000, Text: "bye"}}
	case "first1001":
		f.reads <- readRes{err: &websocket.CloseError{Code: 1001, Text: "away"}}
	case "sever":
		f.reads <- readRes{err: &net.OpError{Op: "read", Err: errors.New("connection reset")}}
	case "severtmo":
		// the transport failure is an expired read deadline (a net.Error with Timeout() true): gorilla/websocket
		// makes every read error permanent, so for the connection it is a failure like any other
		f.reads <- readRes{err: &net.OpError{Op: "read", Err: os.ErrDeadlineExceeded}}
	}
	if peer == "severtmo" {
		peer = "sever"
	}
	if (strings.HasPrefix(peer, "first") || peer == "sever") && listen && scen != "errwriters" {
		// with the default ReadHandler the library closes the connection itself: let it finish, so that what the
		// callers then see does not depend on the machine's load
		for i := 0; i < 4000 && !conn.Closed(); i++ {
			time.Sleep(500 * time.Microsecond)
		}
	}
	var results []string
	var mu sync.Mutex
	var wg sync.WaitGroup
	maxms := int64(0)
	extraListen := ""
	switch scen {
	case "closers", "writers":
		if scen == "writers" {
			if listen {
				// the peer pings while the writers write: whatever answers a ping writes a frame too
				wg.Add(1)
				go func() {
					defer wg.Done()
					for j := 0; j < 12; j++ {
						select {
						case f.reads <- readRes{ping: true}:
						default:
						}
						time.Sleep(100 * time.Microsecond)
					}
				}()
			}
			for i := 0; i < n; i++ {
				wg.Add(1)
				i := i // (module go version 1.18: the loop variable is shared between iterations)
				go func() {
					defer wg.Done()
					for j := 0; j < 20; j++ {
						switch (i + j) % 5 {
						case 3: // control frames through WriteMessage (what a ping handler answering with a pong does)
							_ = conn.WriteMessage(websocket.PongMessage, []byte{byte(j)})
						case 4:
							_ = conn.WriteMessage(websocket.PingMessage, []byte{byte(j)})
						default:
							_, _ = conn.Write([]byte{byte(j)})
						}
					}
				}()
			}
			n = 2
		}
		// the closers start together: all wait at a barrier that is opened once every one of them is running
		barrier := make(chan struct{})
		var ready sync.WaitGroup
		ready.Add(n)
		go func() { ready.Wait(); close(barrier) }()
		for i := 0; i < n; i++ {
			wg.Add(1)
			go func(i int) {
				defer wg.Done()
				ready.Done()
				<-barrier
				t0 := time.Now()
				var err error
				if i%2 == 0 {
					err = conn.Close()
				} else {
					err = conn.CloseWithMsg(websocket.CloseGoingAway, "bye")
				}
				d := time.Since(t0).Milliseconds()
				mu.Lock()
				results = append(results, classifyErr(err))
				if d > maxms {
					maxms = d
				}
				mu.Unlock()
			}(i)
		}
		wg.Wait()
	case "listeners":
		// n goroutines call Listen at the same moment on a fresh connection: one is admitted
		start := make(chan struct{})
		lres := make(chan string, n)
		for i := 0; i < n; i++ {
			go func() { <-start; lres <- classifyErr(conn.Listen()) }()
		}
		time.Sleep(2 * time.Millisecond)
		close(start)
		// one call is admitted and blocks in the read loop; the other n-1 must come back before anything is closed
		var ls []string
		for len(ls) < n-1 {
			select {
			case r := <-lres:
				ls = append(ls, r)
			case <-time.After(2 * time.Second):
				ls = append(ls, "late")
			}
		}
		waitReading()
		t0 := time.Now()
		results = append(results, classifyErr(conn.Close()))
		maxms = time.Since(t0).Milliseconds()
		for len(ls) < n {
			select {
			case r := <-lres:
				ls = append(ls, r)
			case <-time.After(2 * time.Second):
				ls = append(ls, "hang")
			}
		}
		sort.Strings(ls)
		extraListen = strings.Join(ls, "+")
	case "listen3":
		// Listen #1 has ended with a read error on a connection that stays open; Listen #2 is reading; Listen #3 arrives
		startListen()
		waitReading()
		f.reads <- readRes{err: &net.OpError{Op: "read", Err: errors.New("connection reset")}}
		select {
		case <-listenRes:
		case <-time.After(2 * time.Second):
		}
		l2 := make(chan string, 1)
		go func() { l2 <- classifyErr(conn.Listen()) }()
		waitReading()
		l3 := make(chan string, 1)
		go func() { l3 <- classifyErr(conn.Listen()) }()
		select {
		case r := <-l3:
			extraListen = r
		case <-time.After(100 * time.Millisecond):
			extraListen = "admitted" // it is sitting in a read loop of its own
		}
		results = append(results, classifyErr(conn.Close()))
		select {
		case <-l2:
		case <-time.After(2 * time.Second):
		}
		listenRes <- "nil"
		listen = true
	case "handlerpanic":
		// the caller's ReadHandler panics on the first message and the caller of Listen recovers: the read loop is
		// still there, reading; a second Listen must not be admitted beside it
		go func() {
			defer func() {
				if p := recover(); p != nil {
					listenRes <- "panic"
				}
			}()
			listenRes <- classifyErr(conn.Listen())
		}()
		waitReading()
		f.reads <- readRes{mt: websocket.BinaryMessage, p: []byte{1}}
		select {
		case r := <-listenRes:
			listenRes <- r
		case <-time.After(2 * time.Second):
			listenRes <- "hang"
		}
		waitReading()
		l2 := make(chan string, 1)
		go func() { l2 <- classifyErr(conn.Listen()) }()
		select {
		case r := <-l2:
			extraListen = r
		case <-time.After(100 * time.Millisecond):
			extraListen = "admitted"
		}
		results = append(results, classifyErr(conn.Close()))
		listen = true
	case "logclose":
		// one Close runs from start to end while Listen is at its "listening" log line (between whatever it tested
		// and whatever it is about to set); then Listen goes on
		cres := make(chan string, 1)
		t0 := time.Now()
		gl.then = func() { cres <- classifyErr(conn.Close()) }
		startListen()
		listen = true
		select {
		case r := <-cres:
			results = append(results, r)
		case <-time.After(3 * time.Second):
			results = append(results, "hang")
		}
		maxms = time.Since(t0).Milliseconds()
	case "listenclose":
		// a Listen call arrives while a Close is waiting for the silent peer's reply: the first reader is still there
		if !listen {
			startListen()
			waitReading()
			listen = true
		}
		cres := make(chan string, 1)
		t0 := time.Now()
		go func() { cres <- classifyErr(conn.Close()) }()
		// wait until the close frame is out (the closer is then waiting for the reader or the deadline)
		for i := 0; i < 4000; i++ {
			f.mu.Lock()
			nf := len(f.frames)
			f.mu.Unlock()
			if nf > 0 {
				break
			}
			time.Sleep(200 * time.Microsecond)
		}
		l2 := make(chan string, 1)
		go func() { l2 <- classifyErr(conn.Listen()) }()
		select {
		case r := <-l2:
			extraListen = r
		case <-time.After(100 * time.Millisecond):
			extraListen = "admitted" // it is sitting in a read loop of its own
		}
		results = append(results, <-cres)
		maxms = time.Since(t0).Milliseconds()
		if extraListen == "admitted" {
			select {
			case <-l2:
			case <-time.After(2 * time.Second):
			}
		}
	case "errwriters":
		// the reader ends with a transport error (peer = sever) or keeps running; the connection stays open and
		// n goroutines write data frames at once; then one Close
		if !listen {
			startListen()
			waitReading()
			listen = true
		}
		if peer == "sever" {
			select {
			case lr0 := <-listenRes:
				listenRes <- lr0
			case <-time.After(time.Second):
			}
		}
		for i := 0; i < n; i++ {
			wg.Add(1)
			go func(i int) {
				defer wg.Done()
				for j := 0; j < 30; j++ {
					_, _ = conn.Write([]byte{byte(i), byte(j)})
				}
			}(i)
		}
		wg.Wait()
		t0 := time.Now()
		results = append(results, classifyErr(conn.Close()))
		maxms = time.Since(t0).Milliseconds()
	case "handler":
		// the peer sends n data messages, the caller's handler fails on the first; then one Close
		if !listen {
			startListen()
			waitReading()
			listen = true
		}
		for i := 0; i < n; i++ {
			f.reads <- readRes{mt: websocket.BinaryMessage, p: []byte{byte(i)}}
			time.Sleep(time.Millisecond)
		}
		for i := 0; i < 4000 && int(atomic.LoadInt32(&handled)) < n; i++ {
			time.Sleep(500 * time.Microsecond)
		}
		t0 := time.Now()
		results = append(results, classifyErr(conn.Close()))
		maxms = time.Since(t0).Milliseconds()
		extraListen = fmt.Sprintf("handled%d", atomic.LoadInt32(&handled))
	case "relisten":
		// n = 0: second Listen while the first is running; 1: after the first returned (connection closed);
		// 2: Listen, Close, Listen, Listen again
		switch n {
		case 0:
			if !listen {
				startListen()
				waitReading()
				listen = true
			}
			extraListen = classifyErr(conn.Listen())
			results = append(results, classifyErr(conn.Close()))
		default:
			if !listen {
				startListen()
				waitReading()
				listen = true
			}
			results = append(results, classifyErr(conn.Close()))
			first := <-listenRes
			listen = false
			var more []string
			for k := 0; k < n; k++ {
				done := make(chan string, 1)
				go func() { done <- classifyErr(conn.Listen()) }()
				select {
				case r := <-done:
					more = append(more, r)
				case <-time.After(2 * time.Second):
					more = append(more, "hang")
				}
			}
			extraListen = first + "+" + strings.Join(more, "+")
		}
	}
	lr := "-"
	if listen {
		select {
		case lr = <-listenRes:
		case <-time.After(2 * time.Second):
			lr = "hang"
		}
	}
	close(stopWatch)
	watchWG.Wait()
	time.Sleep(10 * time.Millisecond)
	f.mu.Lock()
	nclose := 0
	for _, fr := range f.frames {
		if strings.HasPrefix(fr, "8:") {
			nclose++
		}
	}
	closes := f.closes
	maxw, maxr := f.maxInWrite, f.maxInRead
	f.mu.Unlock()
	sort.Strings(results)
	// reader goroutines of the library still alive after everything returned
	leak := 0
	for try := 0; try < 400; try++ {
		buf := make([]byte, 1<<20)
		buf = buf[:runtime.Stack(buf, true)]
		leak = strings.Count(string(buf), ").runReadLoop(")
		if leak == 0 {
			break
		}
		time.Sleep(5 * time.Millisecond)
	}
	return fmt.Sprintf("res=%s frames=%d closes=%d closed=%v reverted=%v listen=%s extra=%s maxw=%d maxr=%d maxms=%d leak=%d",
		strings.Join(results, ","), nclose, closes, conn.Closed(), reverted, lr, extraListen, maxw, maxr, maxms, leak)
}

func init() {
	ops["WC"] = func(a []string) string {
		if os.Getenv("FV_CHILD") != "" {
			return wcChild(a)
		}
		cmd := exec.Command(os.Args[0], "replay")
		cmd.Env = append(os.Environ(), "FV_CHILD=1")
		cmd.Stdin = strings.NewReader("1 - WC " + strings.Join(a, " ") + "\n")
		var out, errb strings.Builder
		cmd.Stdout, cmd.Stderr = &out, &errb
		done := make(chan struct{})
		go func() { _ = cmd.Run(); close(done) }()
		select {
		case <-done:
		case <-time.After(30 * time.Second):
			_ = cmd.Process.Kill()
			return "hang"
		}
		if strings.Contains(errb.String(), "DATA RACE") {
			fmt.Fprint(os.Stderr, errb.String())
		}
		s := out.String()
		if i := strings.Index(s, " => "); i >= 0 {
			return strings.TrimSpace(strings.Split(s[i+4:], "\n")[0])
		}
		e := errb.String()
		switch {
		case strings.Contains(e, "close of closed channel"):
			return "crash close-of-closed-channel"
		case strings.Contains(e, "send on closed channel"):
			return "crash send-on-closed-channel"
		case strings.Contains(e, "panic"):
			return "crash panic"
		}
		return "crash"
	}
	suites["wsconn"] = func(o *Out, r *Rng, n int, tier string) {
		peers := []string{"echo", "silent", "first1000", "first1001", "sever", "writefail", "silentslow", "severtmo"}
		// seed-independent: many closers released together on a fresh connection, with and without a listener, again and again
		// (the admission gate of Close is a window of a few instructions: only numbers find it without a hook inside it)
		for k := 0; k < 120 && !raceEnabled; k++ { // (the race-detector build keeps to the seeded scenarios: it is there to report races, not to win them)
			o.emit("C15", "WC", "closers", itoa(int64(4+k%5)), renderBool(k%3 == 0), "echo", itoa(int64(100000+k)))
		}
		for i := 0; i < n; i++ {
			switch r.Intn(9) {
			case 5:
				o.emit("C16", "WC", "listeners", itoa(int64(2+r.Intn(7))), "f", peers[r.Intn(2)], itoa(int64(i)))
			case 7:
				if r.Chance(30) {
					o.emit("C16", "WC", []string{"listen3", "handlerpanic"}[r.Intn(2)], "1", "f", "echo", itoa(int64(i)))
				} else if r.Bool() {
					o.emit("C15", "WC", "logclose", "1", "f", []string{"echo", "silent"}[r.Intn(2)], itoa(int64(i)))
				} else {
					o.emit("C16", "WC", "listenclose", "1", "t", "silent", itoa(int64(i)))
				}
			case 4:
				o.emit("C16", "WC", "errwriters", itoa(int64(2+r.Intn(6))), "t", []string{"sever", "sever", "echo", "silent"}[r.Intn(4)], itoa(int64(i)))
			case 6:
				o.emit("C15", "WC", "handler", itoa(int64(r.Intn(5))), "t", peers[r.Intn(2)], itoa(int64(i)))
			case 0:
				o.emit("C15", "WC", "relisten", itoa(int64(r.Intn(3))), renderBool(r.Bool()), peers[r.Intn(2)], itoa(int64(i)))
			case 1:
				o.emit("C16", "WC", "writers", itoa(int64(2+r.Intn(3))), renderBool(r.Bool()), peers[r.Intn(2)], itoa(int64(i)))
			default:
				o.emit("C15", "WC", "closers", itoa(int64(1+r.Intn(4))), renderBool(r.Bool()), peers[r.Intn(len(peers))], itoa(int64(i)))
			}
		}
	}
}
