package main

import (
	"encoding/json"
	"net"
	"bytes"
	"fmt"
	"strings"
	"time"

	"github.com/IBM/fluent-forward-go/fluent/protocol"
	"github.com/tinylib/msgp/msgp"
)

// RT <encpath> <decpath> <token> => <hex> <decode obs> | err
//   encode a caller-built value with MarshalMsg (B) or msgp.Encode through a Writer (S), then decode the
//   bytes with UnmarshalMsg (B) or DecodeMsg (S) into a fresh receiver.  The token describes the value
//   (string-keyed maps in the order the encoder iterated, recovered from the bytes by the independent parser).

type absEntry struct {
	t   time.Time
	rec *Node
}

type absMsg struct {
	kind    string
	tag     []byte
	ts      int64
	t       time.Time
	rec     *Node
	entries []absEntry
	stream  []byte
	opts    *protocol.MessageOptions
	bs      [][]byte // handshake byte/string fields
	flag    bool
	helo    *protocol.HeloOpts
}

type encodable interface {
	msgp.Marshaler
	msgp.Encodable
}

// nodes of kind -1 are values msgp cannot encode
const KBad Kind = -1

func toGoU(n *Node, r *Rng) interface{} {
	switch n.X {
	case "p":
		return net.IP(append([]byte{}, n.S...))
	case "j":
		return json.RawMessage(append([]byte{}, n.S...))
	case "d":
		return time.Duration(n.I)
	case "m":
		return map[string]int{"a": int(n.I)}
	}
	if n.K == KBad {
		switch n.W % 3 {
		case 0:
			return make(chan int)
		case 1:
			return func() {}
		default:
			return struct{ X int }{1}
		}
	}
	switch n.K {
	case KArr:
		a := make([]interface{}, len(n.A))
		for i, c := range n.A {
			a[i] = toGoU(c, r)
		}
		return a
	case KMap:
		m := make(map[string]interface{}, len(n.A)/2)
		for i := 0; i+1 < len(n.A); i += 2 {
			m[string(n.A[i].S)] = toGoU(n.A[i+1], r)
		}
		return m
	}
	return toGo(n, r)
}

func (a *absMsg) build(r *Rng) encodable {
	el := func() protocol.EntryList {
		l := make(protocol.EntryList, len(a.entries))
		for i, e := range a.entries {
			l[i] = protocol.EntryExt{Timestamp: protocol.EventTime{Time: e.t}, Record: toGoU(e.rec, r)}
		}
		return l
	}
	switch a.kind {
	case "MSG":
		return &protocol.Message{Tag: string(a.tag), Timestamp: a.ts, Record: toGoU(a.rec, r), Options: a.opts}
	case "EXT":
		return &protocol.MessageExt{Tag: string(a.tag), Timestamp: protocol.EventTime{Time: a.t}, Record: toGoU(a.rec, r), Options: a.opts}
	case "FWD":
		return &protocol.ForwardMessage{Tag: string(a.tag), Entries: el(), Options: a.opts}
	case "PFM":
		return &protocol.PackedForwardMessage{Tag: string(a.tag), EventStream: a.stream, Options: a.opts}
	case "ENT":
		return &protocol.Entry{Timestamp: a.ts, Record: toGoU(a.rec, r)}
	case "EEX":
		return &protocol.EntryExt{Timestamp: protocol.EventTime{Time: a.t}, Record: toGoU(a.rec, r)}
	case "ELS":
		l := el()
		return &l
	case "OPT":
		return a.opts
	case "ACK":
		return &protocol.AckMessage{Ack: string(a.bs[0])}
	case "HOP":
		return a.helo
	case "HELO":
		return &protocol.Helo{MessageType: string(a.bs[0]), Options: a.helo}
	case "PING":
		return &protocol.Ping{MessageType: string(a.bs[0]), ClientHostname: string(a.bs[1]), SharedKeySalt: a.bs[2], SharedKeyHexDigest: string(a.bs[3]), Username: string(a.bs[4]), Password: string(a.bs[5])}
	case "PONG":
		return &protocol.Pong{MessageType: string(a.bs[0]), AuthResult: a.flag, Reason: string(a.bs[1]), ServerHostname: string(a.bs[2]), SharedKeyHexDigest: string(a.bs[3])}
	}
	panic("build " + a.kind)
}

// orderNode: `in` with the pairs of every map reordered as they appear in `out`
func orderNode(in, out *Node) *Node {
	if in == nil || out == nil {
		return in
	}
	switch in.K {
	case KArr:
		if out.K != KArr || len(out.A) != len(in.A) {
			return in
		}
		c := *in
		c.A = make([]*Node, len(in.A))
		for i := range in.A {
			c.A[i] = orderNode(in.A[i], out.A[i])
		}
		return &c
	case KMap:
		if out.K != KMap || len(out.A) != len(in.A) {
			return in
		}
		idx := map[string]int{}
		for i := 0; i+1 < len(in.A); i += 2 {
			idx[string(in.A[i].S)] = i
		}
		c := *in
		c.A = nil
		for i := 0; i+1 < len(out.A); i += 2 {
			j, ok := idx[string(out.A[i].S)]
			if !ok || (out.A[i].K != KStr) {
				return in
			}
			c.A = append(c.A, in.A[j], orderNode(in.A[j+1], out.A[i+1]))
		}
		return &c
	}
	return in
}

func tokVal(n *Node) string {
	switch n.X {
	case "p", "j":
		return n.X + hexRaw(n.S)
	case "d", "m":
		return fmt.Sprintf("%s%d", n.X, n.I)
	}
	switch n.K {
	case KBad:
		return "U"
	case KNil:
		return "n"
	case KBool:
		if n.B {
			return "t"
		}
		return "f"
	case KInt:
		return fmt.Sprintf("i%d", n.I)
	case KUint:
		return fmt.Sprintf("u%d", n.U)
	case KF32:
		return fmt.Sprintf("F%08x", n.Bits)
	case KF64:
		return fmt.Sprintf("D%016x", n.Bits)
	case KStr:
		return "s" + hexRaw(n.S)
	case KBin:
		return "b" + hexRaw(n.S)
	case KArr:
		p := make([]string, len(n.A))
		for i, c := range n.A {
			p[i] = tokVal(c)
		}
		return "A(" + strings.Join(p, ";") + ")"
	case KMap:
		p := make([]string, len(n.A))
		for i, c := range n.A {
			if i%2 == 0 {
				p[i] = hexRaw(c.S)
			} else {
				p[i] = tokVal(c)
			}
		}
		return "M(" + strings.Join(p, ";") + ")"
	}
	panic("tokVal")
}

func tokOpts(o *protocol.MessageOptions) string {
	if o == nil {
		return "N"
	}
	sz := "-"
	if o.Size != nil {
		sz = fmt.Sprint(*o.Size)
	}
	return fmt.Sprintf("O(%s;%s;%s)", sz, hx([]byte(o.Chunk)), hx([]byte(o.Compressed)))
}

func tokInstant(t time.Time) string {
	_, off := t.Zone()
	return fmt.Sprintf("%d.%d.%d", t.Unix(), t.Nanosecond(), off)
}

func tokHeloOpts(h *protocol.HeloOpts, name string) string {
	if h == nil {
		return "N"
	}
	return fmt.Sprintf("%s(%s;%s;%s)", name, hx(h.Nonce), hx(h.Auth), renderBool(h.Keepalive))
}

// token renders the value; out is the parsed encoding (nil if unavailable) used to order the maps
func (a *absMsg) token(out *Node) string {
	sub := func(path ...int) *Node {
		n := out
		for _, i := range path {
			if n == nil || i >= len(n.A) {
				return nil
			}
			n = n.A[i]
		}
		return n
	}
	ents := func(base ...int) string {
		p := make([]string, len(a.entries))
		for i, e := range a.entries {
			o := sub(append(append([]int{}, base...), i, 1)...)
			p[i] = fmt.Sprintf("E(%s;%s)", tokInstant(e.t), tokVal(orderNode(e.rec, o)))
		}
		return "L(" + strings.Join(p, ";") + ")"
	}
	switch a.kind {
	case "MSG":
		return fmt.Sprintf("MSG(%s;%d;%s;%s)", hx(a.tag), a.ts, tokVal(orderNode(a.rec, sub(2))), tokOpts(a.opts))
	case "EXT":
		return fmt.Sprintf("EXT(%s;%s;%s;%s)", hx(a.tag), tokInstant(a.t), tokVal(orderNode(a.rec, sub(2))), tokOpts(a.opts))
	case "FWD":
		return fmt.Sprintf("FWD(%s;%s;%s)", hx(a.tag), ents(1), tokOpts(a.opts))
	case "PFM":
		return fmt.Sprintf("PFM(%s;%s;%s)", hx(a.tag), hx(a.stream), tokOpts(a.opts))
	case "ENT":
		return fmt.Sprintf("ENT(%d;%s)", a.ts, tokVal(orderNode(a.rec, sub(1))))
	case "EEX":
		return fmt.Sprintf("EEX(%s;%s)", tokInstant(a.t), tokVal(orderNode(a.rec, sub(1))))
	case "ELS":
		return fmt.Sprintf("ELS(%s)", ents())
	case "OPT":
		return fmt.Sprintf("OPT(%s)", tokOpts(a.opts))
	case "ACK":
		return fmt.Sprintf("ACK(%s)", hx(a.bs[0]))
	case "HOP":
		return tokHeloOpts(a.helo, "HOP")
	case "HELO":
		return fmt.Sprintf("HELO(%s;%s)", hx(a.bs[0]), tokHeloOpts(a.helo, "H"))
	case "PING":
		return fmt.Sprintf("PING(%s;%s;%s;%s;%s;%s)", hx(a.bs[0]), hx(a.bs[1]), hx(a.bs[2]), hx(a.bs[3]), hx(a.bs[4]), hx(a.bs[5]))
	case "PONG":
		return fmt.Sprintf("PONG(%s;%s;%s;%s;%s)", hx(a.bs[0]), renderBool(a.flag), hx(a.bs[1]), hx(a.bs[2]), hx(a.bs[3]))
	}
	panic("token " + a.kind)
}

var rtKinds = []string{"MSG", "EXT", "FWD", "PFM", "ENT", "EEX", "ELS", "OPT", "ACK", "HOP", "HELO", "PING", "PONG"}

func kindType(k string) string {
	return map[string]string{"MSG": "Message", "EXT": "MessageExt", "FWD": "Forward", "PFM": "Packed", "ENT": "Entry", "EEX": "EntryExt",
		"ELS": "EntryList", "OPT": "Options", "ACK": "Ack", "HOP": "HeloOpts", "HELO": "Helo", "PING": "Ping", "PONG": "Pong"}[k]
}

// sprinkle an unencodable leaf somewhere into a record tree
func poison(r *Rng, n *Node) {
	if (n.K == KArr || n.K == KMap) && len(n.A) > 0 && r.Chance(70) {
		i := r.Intn(len(n.A))
		if n.K == KMap {
			i |= 1
			if i >= len(n.A) {
				i = len(n.A) - 1
			}
		}
		if n.A[i].K == KArr || n.A[i].K == KMap {
			poison(r, n.A[i])
			return
		}
		n.A[i] = &Node{K: KBad, W: r.Intn(3)}
		return
	}
	if n.K == KMap {
		n.A = append(n.A, nStr([]byte("bad")), &Node{K: KBad, W: r.Intn(3)})
	} else if n.K == KArr {
		n.A = append(n.A, &Node{K: KBad, W: r.Intn(3)})
	}
}

func genAbs(r *Rng, kind string, tier string) *absMsg {
	a := &absMsg{kind: kind}
	rec := func() *Node {
		n := genMapNode(r, 3, tier, false)
		if r.Chance(4) {
			poison(r, n)
		}
		return n
	}
	ents := func() []absEntry {
		n := r.Intn(4)
		switch r.Intn(14) {
		case 0:
			n = 0
		case 1:
			n = 15 + r.Intn(3)
		}
		es := make([]absEntry, n)
		for i := range es {
			es[i] = absEntry{t: genGoTime(r), rec: rec()}
		}
		return es
	}
	a.tag = genTag(r, tier)
	a.ts = genInt(r)
	a.t = genGoTime(r)
	a.opts = genGoOptions(r)
	switch kind {
	case "MSG", "EXT", "ENT", "EEX":
		a.rec = rec()
	case "FWD", "ELS":
		a.entries = ents()
	case "PFM":
		for _, e := range genGoEntries(r, tier) {
			a.stream, _ = e.MarshalMsg(a.stream)
		}
		if r.Chance(10) {
			a.stream = r.Bytes(genLen(r, tier))
		}
		if r.Chance(5) {
			a.stream = nil
		}
	case "OPT":
		if a.opts == nil {
			a.opts = &protocol.MessageOptions{}
		}
	case "ACK":
		a.bs = [][]byte{genChunkID(r)}
		if r.Chance(10) {
			a.bs[0] = nil
		}
	case "HOP", "HELO":
		a.bs = [][]byte{[]byte("HELO")}
		a.helo = &protocol.HeloOpts{Nonce: r.Bytes(r.Intn(20)), Auth: r.Bytes(r.Intn(4)), Keepalive: r.Bool()}
		if kind == "HELO" && r.Chance(15) {
			a.helo = nil
		}
	case "PING":
		a.bs = [][]byte{[]byte("PING"), genTag(r, "quick"), r.Bytes(16), []byte(hexRaw(r.Bytes(64))), genTag(r, "quick"), genTag(r, "quick")}
	case "PONG":
		a.flag = r.Bool()
		a.bs = [][]byte{[]byte("PONG"), genTag(r, "quick"), genTag(r, "quick"), []byte(hexRaw(r.Bytes(64)))}
	}
	return a
}

// everything a caller can observe of a message value, incl. the zone its timestamps are expressed in
func deepSnapshot(v interface{}) string {
	switch m := v.(type) {
	case *protocol.Message:
		return fmt.Sprintf("%q|%d|%s|%s", m.Tag, m.Timestamp, renderVal(m.Record), renderOpts(m.Options))
	case *protocol.MessageExt:
		return fmt.Sprintf("%q|%s|%s|%s", m.Tag, m.Timestamp.Time.String(), renderVal(m.Record), renderOpts(m.Options))
	case *protocol.ForwardMessage:
		return fmt.Sprintf("%q|%s|%s", m.Tag, deepEntries(m.Entries), renderOpts(m.Options))
	case *protocol.PackedForwardMessage:
		return fmt.Sprintf("%q|%x|%s", m.Tag, m.EventStream, renderOpts(m.Options))
	case *protocol.EntryExt:
		return m.Timestamp.Time.String() + "|" + renderVal(m.Record)
	case *protocol.EntryList:
		return deepEntries(*m)
	}
	return ""
}

// rtLine: "<enc> <dec> <token>" + obs
func rtExec(a *absMsg, r *Rng, ep, dp string) (args []string, obs string) {
	v := a.build(r)
	before := deepSnapshot(v)
	var out []byte
	var err error
	prefix := []byte{0xde, 0xad, 0xbe}
	obs = withWatchdog(func() string {
		if ep == "B" {
			// the caller's buffer: a prefix that must stay, and spare capacity holding old bytes (a scratch buffer
			// that is reused for every message), which the encoder must overwrite, not rely on
			scratch := bytes.Repeat([]byte{0xa5}, len(prefix)+8192)
			copy(scratch, prefix)
			out, err = v.MarshalMsg(scratch[:len(prefix)])
			if err == nil {
				if !bytes.HasPrefix(out, prefix) {
					return "prefix-modified"
				}
				out = out[len(prefix):]
			}
		} else {
			var buf bytes.Buffer
			err = msgp.Encode(&buf, v)
			out = buf.Bytes()
		}
		if err != nil {
			return "err"
		}
		return ""
	})
	var tree *Node
	if obs == "" {
		if a.kind == "PCK" {
			tree = nil
		} else if t, n, e := mpParse(out, 0); e == nil && n == len(out) {
			tree = t
		}
	}
	args = []string{ep, dp, a.token(tree)}
	if obs != "" {
		return args, obs
	}
	if deepSnapshot(v) != before {
		return args, "encoder-modified-its-input"
	}
	return args, hx(out) + " " + decObs(kindType(a.kind), dp, nil, false, out)
}

func init() {
	suites["rt"] = func(o *Out, r *Rng, n int, tier string) {
		emit := func(a *absMsg) {
			for _, ep := range []string{"B", "S"} {
				for _, dp := range []string{"B", "S"} {
					args, obs := rtExec(a, r, ep, dp)
					o.id++
					fmt.Fprintf(o.w, "%d C01 RT %s => %s\n", o.id, strings.Join(args, " "), obs)
				}
			}
			o.w.Flush()
		}
		// seed-independent block 1: the size option at every width boundary of the integer formats, alone and next to a chunk id,
		// in every kind that carries options (an encoder that special-cases "small" sizes has to get each class right)
		for _, kind := range []string{"MSG", "EXT", "FWD", "PFM", "OPT"} {
			for _, sz := range []int{0, 1, 31, 32, 127, 128, 129, 200, 255, 256, 257, 32767, 32768, 65535, 65536, 1 << 31, -1, -31, -32, -33, -128, -129, -32768, -32769} {
				for _, withChunk := range []bool{false, true} {
					a := genAbs(r, kind, tier)
					v := sz
					a.opts = &protocol.MessageOptions{Size: &v}
					if withChunk {
						a.opts.Chunk = string(genChunkID(r))
					}
					emit(a)
				}
			}
		}
		// seed-independent block 2: Forward messages of 0 … 257 tiny entries with the size option the constructor gives them
		for _, cnt := range []int{0, 1, 15, 16, 17, 127, 128, 129, 255, 256, 257} {
			a := genAbs(r, "FWD", tier)
			a.entries = make([]absEntry, cnt)
			for i := range a.entries {
				a.entries[i] = absEntry{t: time.Unix(int64(1700000000+i), int64(i)).UTC(), rec: &Node{K: KMap}}
			}
			v := cnt
			a.opts = &protocol.MessageOptions{Size: &v}
			emit(a)
		}
		for i := 0; i < n; i++ {
			kind := rtKinds[r.Intn(len(rtKinds))]
			if r.Chance(50) {
				kind = rtKinds[r.Intn(4)]
			}
			a := genAbs(r, kind, tier)
			for _, ep := range []string{"B", "S"} {
				for _, dp := range []string{"B", "S"} {
					args, obs := rtExec(a, r, ep, dp)
					o.id++
					fmt.Fprintf(o.w, "%d C01 RT %s => %s\n", o.id, strings.Join(args, " "), obs)
					_ = obs
				}
			}
			o.w.Flush()
		}
	}
}
