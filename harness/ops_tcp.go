package main

import (
	"bytes"
	"crypto/sha512"
	"encoding/hex"
	"errors"
	"fmt"
	"io"
	"net"
	"os"
	"strings"
	"sync"
	"time"

	"github.com/IBM/fluent-forward-go/fluent/client"
	"github.com/IBM/fluent-forward-go/fluent/protocol"
)

// SEQ <cfg> <op>… => <O(res;E(events);X(k;v;…))>…
//   operation sequences on client.Client over a scripted factory and scripted connections.
//   cfg  CFG(key|-;ack;timeout;hostname)
//   ops  CON(ok|fail;closeErr) DIS REC(ok|fail;closeErr) HS(heloMode;pongMode;fault) SND(msg;respMode;fault)
//        RAW(hex;fault) TP HLP(name;tag;arg)
//   fault  - | f<n> (the Write fails after accepting n bytes) | s<n> (accepts n bytes, no error)
//   events d<id> df w<id>:<hex>:<ok|err|short> c<id> dl<id> hang<id> wac<id> rac<id>

type tcpWorld struct {
	mu     sync.Mutex
	events []string
	conns  []*mockConn
	dial   []string // script for the next dials: "ok;t" …
	opN    int      // operations executed so far (which operation armed a deadline)
}

func (w *tcpWorld) ev(s string) {
	w.mu.Lock()
	w.events = append(w.events, s)
	w.mu.Unlock()
}

func (w *tcpWorld) take() []string {
	w.mu.Lock()
	e := w.events
	w.events = nil
	w.mu.Unlock()
	return e
}

type timeoutErr struct{}

func (timeoutErr) Error() string   { return "i/o timeout" }
func (timeoutErr) Timeout() bool   { return true }
func (timeoutErr) Temporary() bool { return true }

// like the net package's own timeout error: errors.Is(err, os.ErrDeadlineExceeded) holds
func (timeoutErr) Is(target error) bool { return target == os.ErrDeadlineExceeded }

type mockConn struct {
	w        *tcpWorld
	id       int
	closeErr bool
	closed   bool
	readQ    [][]byte
	readEnd  string // eof | sil
	late     [][]byte // delivered only after a read has run into the deadline once (a peer that answers too late)
	deadline bool
	fault    string // fault for the next Write call ("-" none)
	written  []byte // bytes accepted during the current op
	attempt  []byte // bytes offered to Write during the current op (accepted or not)
	react    func(c *mockConn)
	dlRemain int64 // ms left of the timeout when the last read deadline was armed (-1: none)
	wdl      time.Time // write deadline (zero: none), honoured like a socket does
	wdlOp    int       // the operation during which it was armed
}

func (c *mockConn) Read(p []byte) (int, error) {
	if c.closed {
		c.w.ev(fmt.Sprintf("rac%d", c.id))
		return 0, net.ErrClosed
	}
	if len(c.readQ) == 0 {
		if c.readEnd == "sil" {
			if !c.deadline {
				c.w.ev(fmt.Sprintf("hang%d", c.id)) // would block for ever
			}
			if c.late != nil {
				c.readQ, c.late = c.late, nil // what the peer sends after the deadline is there for whoever reads next
			}
			return 0, timeoutErr{}
		}
		return 0, io.EOF
	}
	n := copy(p, c.readQ[0])
	if n < len(c.readQ[0]) {
		c.readQ[0] = c.readQ[0][n:]
	} else {
		c.readQ = c.readQ[1:]
	}
	return n, nil
}

func (c *mockConn) Write(b []byte) (int, error) {
	if c.closed {
		c.w.ev(fmt.Sprintf("wac%d", c.id))
		return 0, net.ErrClosed
	}
	if !c.wdl.IsZero() && time.Now().After(c.wdl) {
		// a write deadline that has passed: the socket refuses the write.  Reported as a stale deadline only when an
		// earlier operation armed it (one armed for this very write and missed on a loaded machine is not the library's slip)
		if c.wdlOp < c.w.opN {
			c.w.ev(fmt.Sprintf("zto%d", c.id))
		}
		return 0, timeoutErr{}
	}
	f := c.fault
	if strings.HasPrefix(f, "D") {
		// a slow connection: the write takes this many milliseconds, then accepts everything
		time.Sleep(time.Duration(atoi64(f[1:])) * time.Millisecond)
		f = "-"
		c.fault = "-"
	}
	if !strings.HasPrefix(f, "S") {
		c.fault = "-" // one-shot faults; "S<k>" stays: a connection that takes at most k bytes per call, without error
	}
	c.attempt = append(c.attempt, b...)
	n, st := len(b), "ok"
	var err error
	if f != "" && f != "-" {
		k := int(atoi64(f[1:]))
		if f[0] == 'f' {
			if k > len(b) {
				k = len(b)
			}
			n, st, err = k, "err", errors.New("write: connection reset")
		} else if k < len(b) {
			n, st = k, "short"
		}
	}
	c.written = append(c.written, b[:n]...)
	c.w.ev(fmt.Sprintf("w%d:%s:%s", c.id, hx(b[:n]), st))
	if st == "ok" && c.react != nil {
		c.react(c)
	}
	return n, err
}

func (c *mockConn) Close() error {
	c.w.ev(fmt.Sprintf("c%d", c.id))
	c.closed = true
	if c.closeErr {
		return errors.New("close failed")
	}
	return nil
}
func (c *mockConn) LocalAddr() net.Addr                { return &net.TCPAddr{} }
func (c *mockConn) RemoteAddr() net.Addr               { return &net.TCPAddr{} }
func (c *mockConn) SetDeadline(t time.Time) error {
	// both halves, as net.Conn says
	c.wdl, c.wdlOp = t, c.w.opN
	return c.SetReadDeadline(t)
}
func (c *mockConn) SetWriteDeadline(t time.Time) error { c.wdl, c.wdlOp = t, c.w.opN; return nil }
func (c *mockConn) SetReadDeadline(t time.Time) error {
	c.w.ev(fmt.Sprintf("dl%d", c.id))
	c.deadline = !t.IsZero()
	if !t.IsZero() {
		// how much of the configured timeout is left at the moment the deadline is armed
		c.dlRemain = int64(time.Until(t) / time.Millisecond)
	}
	return nil
}

type mockFactory struct{ w *tcpWorld }

func (f *mockFactory) New() (net.Conn, error) {
	w := f.w
	spec := "ok;f"
	if len(w.dial) > 0 {
		spec, w.dial = w.dial[0], w.dial[1:]
	}
	p := strings.Split(spec, ";")
	if p[0] != "ok" {
		w.ev("df")
		return nil, errors.New("dial failed")
	}
	c := &mockConn{w: w, id: len(w.conns), closeErr: len(p) > 1 && p[1] == "t", readEnd: "eof", fault: "-"}
	w.conns = append(w.conns, c)
	w.ev(fmt.Sprintf("d%d", c.id))
	return c, nil
}

func hexDigest(parts ...[]byte) []byte {
	h := sha512.New()
	for _, p := range parts {
		h.Write(p)
	}
	return []byte(hex.EncodeToString(h.Sum(nil)))
}

func splitAt(b []byte, k int) [][]byte {
	if k <= 0 || k >= len(b) {
		return [][]byte{b}
	}
	return [][]byte{b[:k], b[k:]}
}

type tcpRun struct {
	w       *tcpWorld
	c       *client.Client
	key     []byte
	host    string
	lastPong []byte // a PONG seen in an earlier handshake (for replay)
	lastPing *protocol.Ping
}

func (t *tcpRun) cur() *mockConn {
	if len(t.w.conns) == 0 {
		return nil
	}
	return t.w.conns[len(t.w.conns)-1]
}

func outTok(res string, ev []string, x []string) string {
	return fmt.Sprintf("O(%s;E(%s);X(%s))", res, strings.Join(ev, ";"), strings.Join(x, ";"))
}

func resOf(err error) string {
	if err != nil {
		return "err"
	}
	return "ok"
}

func (t *tcpRun) exec(op *ttree) (out string) {
	t.w.opN++
	x := []string{}
	defer func() {
		if r := recover(); r != nil {
			out = outTok("panic", t.w.take(), append(x, "why", sanitize(strings.ReplaceAll(fmt.Sprint(r), ";", ","))))
		}
	}()
	arg := func(i int) string {
		if i < len(op.kids) {
			return op.kids[i].atom
		}
		return ""
	}
	name := op.name
	if !op.node {
		name = op.atom
	}
	switch name {
	case "CON":
		t.w.dial = []string{arg(0) + ";" + arg(1)}
		err := t.c.Connect()
		t.w.dial = nil
		return outTok(resOf(err), t.w.take(), x)
	case "DIS":
		return outTok(resOf(t.c.Disconnect()), t.w.take(), x)
	case "REC":
		t.w.dial = []string{arg(0) + ";" + arg(1)}
		err := t.c.Reconnect()
		t.w.dial = nil
		return outTok(resOf(err), t.w.take(), x)
	case "TP", "TPS":
		if name == "TPS" {
			time.Sleep(70 * time.Millisecond) // longer than the configured timeout (50 ms): stale deadlines have passed
		}
		if t.c.TransportPhase() {
			return outTok("t", t.w.take(), x)
		}
		return outTok("f", t.w.take(), x)
	case "HS":
		heloMode, pongMode, fault := arg(0), arg(1), arg(2)
		nonce := []byte("nonce-" + heloMode)
		if strings.HasPrefix(heloMode, "n=") {
			nonce = unhx(heloMode[2:])
		}
		var helo []byte
		switch {
		case heloMode == "nilopts":
			helo, _ = (&protocol.Helo{MessageType: "HELO"}).MarshalMsg(nil)
		case heloMode == "garbage":
			helo = []byte{0x92, 0xa4, 'H', 'E', 'L', 'O', 0x01}
		case heloMode == "trunc":
			helo, _ = protocol.NewHelo(&protocol.HeloOpts{Nonce: nonce, Keepalive: true}).MarshalMsg(nil)
			helo = helo[:len(helo)-3]
		case heloMode == "none":
			helo = nil
		case heloMode == "arity3":
			helo = append([]byte{0x93, 0xa4, 'H', 'E', 'L', 'O'}, 0x80, 0xc0)
		default:
			helo, _ = protocol.NewHelo(&protocol.HeloOpts{Nonce: nonce, Auth: []byte{}, Keepalive: true}).MarshalMsg(nil)
		}
		var pong []byte
		cn := t.cur()
		armed := false // this operation ran against an open connection: a PING seen below is this handshake's own
		if cn != nil && !cn.closed {
			armed = true
			cn.readQ = nil
			if helo != nil {
				cn.readQ = splitAt(helo, len(helo)/2)
				if heloMode == "extra" && len(helo) > 6 { // three fragments
					cn.readQ = [][]byte{helo[:1], helo[1:5], helo[5:]}
				}
			}
			cn.readEnd = "eof"
			if pongMode == "sil" {
				cn.readEnd = "sil"
			}
			cn.fault = fault
			cn.written = nil
			cn.attempt = nil
			t.lastPing = nil
			cn.react = func(c *mockConn) {
				c.react = nil
				var ping protocol.Ping
				if _, err := ping.UnmarshalMsg(c.written); err != nil {
					return
				}
				t.lastPing = &ping
				salt := ping.SharedKeySalt
				shost := "server.example"
				mk := func(auth bool, host string, dig []byte) []byte {
					b, _ := (&protocol.Pong{MessageType: "PONG", AuthResult: auth, Reason: "", ServerHostname: host, SharedKeyHexDigest: string(dig)}).MarshalMsg(nil)
					return b
				}
				good := hexDigest(salt, []byte(shost), nonce, t.key)
				switch pongMode {
				case "honest":
					pong = mk(true, shost, good)
				case "authfalse":
					pong = mk(false, shost, good)
				case "wrongkey":
					pong = mk(true, shost, hexDigest(salt, []byte(shost), nonce, append([]byte("x"), t.key...)))
				case "wrongsalt":
					pong = mk(true, shost, hexDigest([]byte("0123456789abcdef"), []byte(shost), nonce, t.key))
				case "wrongnonce":
					pong = mk(true, shost, hexDigest(salt, []byte(shost), []byte("other"), t.key))
				case "wronghost":
					pong = mk(true, "evil.example", good)
				case "reflect":
					pong = mk(true, ping.ClientHostname, []byte(ping.SharedKeyHexDigest))
				case "replay":
					pong = t.lastPong
					if old, ok := pongsBySalt[string(salt)+"|"+string(nonce)]; ok {
						pong = old // a PONG recorded from an earlier handshake that used this very salt and nonce
					}
					if pong == nil {
						pong = mk(true, shost, hexDigest([]byte("an-earlier-salt!"), []byte(shost), nonce, t.key))
					}
				case "emptydigest":
					pong = mk(true, shost, nil)
				case "truncdigest":
					pong = mk(true, shost, good[:64])
				case "trunc":
					pong = mk(true, shost, good)
					pong = pong[:len(pong)-5]
				case "garbage":
					pong = []byte{0x95, 0x01, 0x02}
				case "upper":
					pong = mk(true, shost, bytes.ToUpper(good))
				case "none", "sil":
					pong = nil
				}
				if pongMode == "honest" {
					t.lastPong = pong
					pongsBySalt[string(salt)+"|"+string(nonce)] = pong
				}
				if pong != nil {
					c.readQ = append(c.readQ, splitAt(pong, len(pong)/3)...)
				}
			}
		}
		x = append(x, "helo", hx(helo))
		err := t.c.Handshake()
		if cn != nil {
			cn.react = nil
		}
		// does this peer behaviour use the shared key at all?
		knows := "t"
		switch pongMode {
		case "wrongkey", "reflect", "replay", "garbage", "none", "sil":
			knows = "f"
		}
		x = append(x, "pong", hx(pong), "peerknows", knows, "mode", pongMode)
		if t.lastPing == nil && cn != nil && len(cn.attempt) > 0 {
			// the write was cut short: the salt is read from what the client offered to the connection
			var ping protocol.Ping
			if _, err := ping.UnmarshalMsg(cn.attempt); err == nil {
				t.lastPing = &ping
			}
		}
		if t.lastPing != nil && cn != nil && len(cn.attempt) > 0 {
			p := t.lastPing
			x = append(x, "salt", hx(p.SharedKeySalt))
			// salts are 128 random bits: one that was seen before in this process means a recorded PONG can be replayed
			if armed {
				if saltsSeen[string(p.SharedKeySalt)] {
					x = append(x, "saltrepeat", "t")
				}
				saltsSeen[string(p.SharedKeySalt)] = true
			}
			// digest table: the instantiation of H the model is to use
			addH := func(host string, n []byte) {
				in := append(append(append(append([]byte{}, p.SharedKeySalt...), host...), n...), t.key...)
				x = append(x, "h", hx(in)+"="+hx(hexDigest(in)))
			}
			addH(t.host, nonce)
			var pg protocol.Pong
			if _, e := pg.UnmarshalMsg(pong); e == nil {
				addH(pg.ServerHostname, nonce)
			}
		}
		return outTok(resOf(err), t.w.take(), x)
	case "SND", "RAW", "HLP":
		return t.execSend(op, name)
	}
	return outTok("bad-op", nil, nil)
}

// chunk option of the bytes written so far, via the independent parser
func wireChunk(b []byte) ([]byte, bool) {
	tr, n, err := mpParse(b, 0)
	if err != nil || n != len(b) {
		return nil, false
	}
	if tr.K != KArr || len(tr.A) < 3 {
		return nil, true
	}
	opt := tr.A[len(tr.A)-1]
	if opt.K == KMap {
		for i := 0; i+1 < len(opt.A); i += 2 {
			if string(opt.A[i].S) == "chunk" {
				return opt.A[i+1].S, true
			}
		}
	}
	return nil, true
}

func (t *tcpRun) execSend(op *ttree, name string) string {
	x := []string{}
	cn := t.cur()
	var respMode, fault string
	splitK := 0
	var call func() error
	var chunkOf func() string
	switch name {
	case "RAW":
		b := unhx(op.kids[0].atom)
		fault = op.kids[1].atom
		call = func() error { return t.c.SendRaw(b) }
	case "SND":
		respMode, fault = op.kids[1].atom, op.kids[2].atom
		if i := strings.IndexByte(respMode, '@'); i >= 0 {
			splitK = int(atoi64(respMode[i+1:]))
			respMode = respMode[:i]
		}
		if op.kids[0].node && op.kids[0].name == "RAWM" {
			rm := protocol.RawMessage(unhx(op.kids[0].kids[0].atom))
			call = func() error { return t.c.Send(rm) }
			chunkOf = func() string { c, _ := rm.Chunk(); return c }
		} else {
			a := parseAbsTree(op.kids[0])
			m := a.build(nil).(protocol.ChunkEncoder)
			call = func() error { return t.c.Send(m) }
			chunkOf = func() string {
				switch v := m.(type) {
				case *protocol.Message:
					if v.Options != nil {
						return v.Options.Chunk
					}
				case *protocol.MessageExt:
					if v.Options != nil {
						return v.Options.Chunk
					}
				case *protocol.ForwardMessage:
					if v.Options != nil {
						return v.Options.Chunk
					}
				case *protocol.PackedForwardMessage:
					if v.Options != nil {
						return v.Options.Chunk
					}
				}
				return ""
			}
		}
	case "HLP":
		h, tag := op.kids[0].atom, string(unhx(op.kids[1].atom))
		respMode, fault = "match", "-"
		switch h {
		case "SendMessage", "SendMessageExt":
			rec := toGoU(ttNode(op.kids[2]), nil)
			if h == "SendMessage" {
				call = func() error { return t.c.SendMessage(tag, rec) }
			} else {
				call = func() error { return t.c.SendMessageExt(tag, rec) }
			}
		case "SendForward", "SendPacked", "SendCompressed":
			es := ttEntries(op.kids[2])
			el := make(protocol.EntryList, len(es))
			for i, e := range es {
				el[i] = protocol.EntryExt{Timestamp: protocol.EventTime{Time: e.t}, Record: toGoU(e.rec, nil)}
			}
			switch h {
			case "SendForward":
				call = func() error { return t.c.SendForward(tag, el) }
			case "SendPacked":
				call = func() error { return t.c.SendPacked(tag, el) }
			default:
				call = func() error { return t.c.SendCompressed(tag, el) }
			}
		case "SendPackedFromBytes":
			b := unhx(op.kids[2].atom)
			call = func() error { return t.c.SendPackedFromBytes(tag, b) }
		case "SendCompressedFromBytes":
			b := unhx(op.kids[2].atom)
			call = func() error { return t.c.SendCompressedFromBytes(tag, b) }
		}
	}
	var resp, pre []byte
	if cn != nil && !cn.closed {
		// bytes the client left unread stay in the connection, in front of whatever the peer sends next
		for _, f := range cn.readQ {
			pre = append(pre, f...)
		}
		cn.readEnd, cn.fault, cn.written, cn.deadline = "eof", fault, nil, false
		cn.dlRemain = -1
		if respMode == "sil" || respMode == "late" {
			cn.readEnd = "sil"
		}
		cn.late = nil
		cn.react = func(c *mockConn) {
			ch, complete := wireChunk(c.written)
			if !complete {
				return // the peer answers once it has the whole message
			}
			c.react = nil
			ack := func(id []byte) []byte {
				b, _ := (&protocol.AckMessage{Ack: string(id)}).MarshalMsg(nil)
				return b
			}
			k := 0
			if strings.HasPrefix(respMode, "split") {
				k = int(atoi64(respMode[5:]))
			}
			if splitK > 0 {
				k = splitK
			}
			switch {
			case respMode == "late": // the matching ack, but only after the client's read deadline has expired once
				if c.late == nil && len(ch) > 0 {
					c.late = [][]byte{ack(ch)}
				}
			case respMode == "match":
				resp = ack(ch)
			case strings.HasPrefix(respMode, "split"):
				resp = ack(ch)
			case respMode == "other":
				resp = ack([]byte("another-chunk-id"))
			case respMode == "caseflip": // the right id with the case of its letters flipped
				id := append([]byte{}, ch...)
				for i, c := range id {
					if c >= 'a' && c <= 'z' {
						id[i] = c - 32
					} else if c >= 'A' && c <= 'Z' {
						id[i] = c + 32
					}
				}
				resp = ack(id)
			case respMode == "caseflip1": // one letter only
				id := append([]byte{}, ch...)
				for i, c := range id {
					if c >= 'a' && c <= 'z' {
						id[i] = c - 32
						break
					}
				}
				resp = ack(id)
			case respMode == "padless": // the id without its base64 padding
				resp = ack(bytes.TrimRight(ch, "="))
			case respMode == "spaced": // the id with a trailing space
				resp = ack(append(append([]byte{}, ch...), ' '))
			case respMode == "prefix": // an id that merely starts with the right one
				resp = ack(append(append([]byte{}, ch...), 'x'))
			case respMode == "emptymap":
				resp = []byte{0x80}
			case respMode == "emptyack":
				resp = ack(nil)
			case respMode == "extrabefore":
				resp = append([]byte{0x82, 0xa1, 'x', 0x01}, ack(ch)[1:]...)
			case respMode == "extraafter":
				resp = append(append([]byte{0x82}, ack(ch)[1:]...), 0xa1, 'x', 0x92, 0x01, 0x02)
			case respMode == "garbage":
				resp = []byte{0xc1, 0xff, 0x00}
			case respMode == "nonmap":
				resp = append([]byte{0x91}, ack(ch)...)
			case respMode == "binack":
				resp = append([]byte{0x81, 0xa3, 'a', 'c', 'k', 0xc4, byte(len(ch))}, ch...)
			case respMode == "trunc":
				resp = ack(ch)
				resp = resp[:len(resp)-2]
			case respMode == "trailing":
				resp = append(ack(ch), 0xc0, 0x01)
			case respMode == "dupack": // the matching id first, another one after it: the last entry of a map counts
				resp = append(append([]byte{0x82}, ack(ch)[1:]...), ack([]byte("another-chunk-id"))[1:]...)
			case respMode == "dupack2": // the other id first, the matching one last
				resp = append(append([]byte{0x82}, ack([]byte("another-chunk-id"))[1:]...), ack(ch)[1:]...)
			case strings.HasPrefix(respMode, "extracut"): // the same, cut off inside one of the further entries
				full := append(append([]byte{0x83}, ack(ch)[1:]...), 0xa1, 'x', 0x92, 0x01, 0x02, 0xa4, 'n', 'o', 't', 'e', 0xa5, 'h', 'e', 'l', 'l', 'o')
				cut := int(atoi64(respMode[8:]))
				if cut < 1 || cut > 15 {
					cut = 3
				}
				resp = full[:len(full)-cut]
			case respMode == "extralong": // a conforming ack with further entries, longer than one fragment
				resp = append(append([]byte{0x83}, ack(ch)[1:]...), 0xa1, 'x', 0x92, 0x01, 0x02, 0xa4, 'n', 'o', 't', 'e', 0xa5, 'h', 'e', 'l', 'l', 'o')
			}
			if resp != nil {
				c.readQ = append(c.readQ, splitAt(resp, k)...)
			}
		}
	}
	t0 := time.Now()
	err := call()
	t1 := time.Now()
	if cn != nil {
		cn.react = nil
	}
	if chunkOf != nil {
		x = append(x, "chunk", hx([]byte(chunkOf())))
	}
	if cn != nil && cn.dlRemain >= 0 {
		x = append(x, "dlms", fmt.Sprint(cn.dlRemain))
	}
	x = append(x, "resp", hx(resp), "pre", hx(pre), "t0", fmt.Sprint(t0.Unix()), "t0n", fmt.Sprint(t0.UnixNano()), "t1n", fmt.Sprint(t1.UnixNano()))
	if name == "HLP" && cn != nil && strings.Contains(op.kids[0].atom, "Compressed") {
		// decompress what went out so that the driver can judge the payload
		if tr, n, e := mpParse(cn.written, 0); e == nil && n == len(cn.written) && tr.K == KArr && len(tr.A) >= 2 {
			p, rest, ok := gunzipOne(tr.A[1].S)
			x = append(x, "gunzip", hx(p), "gzok", fmt.Sprintf("%v%d", ok, rest))
		}
	}
	return outTok(resOf(err), t.w.take(), x)
}

func parseAbsTree(t *ttree) *absMsg { return parseAbs(renderTTree(t)) }

func renderTTree(t *ttree) string {
	if !t.node {
		return t.atom
	}
	p := make([]string, len(t.kids))
	for i, k := range t.kids {
		p[i] = renderTTree(k)
	}
	return t.name + "(" + strings.Join(p, ";") + ")"
}

func runSeq(args []string) ([]string, string) {
	cfgT, _ := parseTTree(args[0], 0)
	w := &tcpWorld{}
	opts := client.ConnectionOptions{Factory: &mockFactory{w}}
	var key []byte
	if cfgT.kids[0].atom == "e" {
		// a configured key of length zero: not nil, so the handshake is required like with any other key
		key = []byte{}
		opts.AuthInfo = client.AuthInfo{SharedKey: key}
	} else if cfgT.kids[0].atom != "-" {
		key = unhx(cfgT.kids[0].atom)
		if key == nil {
			key = []byte{}
		}
		opts.AuthInfo = client.AuthInfo{SharedKey: key}
	}
	opts.RequireAck = cfgT.kids[1].atom == "t"
	opts.ConnectionTimeout = 50 * time.Millisecond
	c := client.New(opts)
	if cfgT.kids[2].atom != "t" {
		c.Timeout = 0
	}
	c.Hostname = string(unhx(cfgT.kids[3].atom))
	run := &tcpRun{w: w, c: c, key: key, host: c.Hostname}
	var outs []string
	for _, a := range args[1:] {
		op, _ := parseTTree(a, 0)
		done := make(chan string, 1)
		go func() { done <- run.exec(op) }()
		select {
		case s := <-done:
			outs = append(outs, s)
		case <-time.After(10 * time.Second):
			outs = append(outs, outTok("hang", w.take(), nil))
			return args, strings.Join(outs, " ")
		}
	}
	return args, strings.Join(outs, " ")
}

var saltsSeen = map[string]bool{}
var pongsBySalt = map[string][]byte{}

func init() {
	opsArgs["SEQ"] = runSeq
	suites["tcp"] = genTcp
}

var _ = os.Getenv
