package main

import (
	"strings"
	"time"

	"github.com/IBM/fluent-forward-go/fluent/protocol"
)

// EQ <list> <list> => t|f        EntryList.Equal
// a list is "-" or comma-separated entry keys sec.nsec.rec; rec indexes a table of records that
// are pairwise not deeply equal, built afresh for every use (so equal keys are deeply equal but
// never share memory); the zone an instant is expressed in varies with the position.

// records that are windows of one backing array: different values at the same address
var eqShared = []interface{}{int64(1), int64(2), int64(3), int64(4)}
var eqSharedMap = map[string]interface{}{"k": "shared"}

func eqRecord(rec string) interface{} {
	switch rec {
	case "t":
		return eqShared[:1]
	case "u":
		return eqShared[:3]
	case "v":
		return eqShared[1:3]
	case "w": // the very same map object on both sides (equal, and identical)
		return eqSharedMap
	case "x": // nil maps / slices of different static types
		return map[string]interface{}(nil)
	case "y":
		return []interface{}(nil)
	case "a":
		return map[string]interface{}{"k": "v"}
	case "b":
		return map[string]interface{}{"k": "w"}
	case "c":
		return map[string]interface{}{"k": int64(1), "l": []interface{}{int64(1), "x"}}
	case "d":
		return nil
	case "e":
		return map[string]interface{}{"k": map[string]interface{}{"n": []byte{1, 2}}}
	case "f":
		return map[string]interface{}{}
	// pairs that differ only in ways a hand-written comparison tends to overlook
	case "g": // a nil-valued key ...
		return map[string]interface{}{"msg": "x", "user": nil}
	case "h": // ... a different nil-valued key ...
		return map[string]interface{}{"msg": "x", "host": nil}
	case "i": // ... and no such key at all
		return map[string]interface{}{"msg": "x"}
	case "j":
		return map[string]interface{}{"a": map[string]interface{}{"b": map[string]interface{}{"c": int64(1)}}}
	case "m":
		return map[string]interface{}{"a": map[string]interface{}{"b": map[string]interface{}{"c": int64(2)}}}
	case "n":
		return map[string]interface{}{"l": []interface{}{int64(1), int64(2)}}
	case "o":
		return map[string]interface{}{"l": []interface{}{int64(2), int64(1)}}
	case "p":
		return map[string]interface{}{"l": []interface{}{int64(1), int64(2), int64(3)}}
	case "q":
		return map[string]interface{}{"k": "1"}
	case "r":
		return map[string]interface{}{"k": int64(1)}
	case "s":
		return map[string]interface{}{"k": "v", "": nil}
	default:
		return map[string]interface{}{"other": rec}
	}
}

var eqZones = []*time.Location{time.UTC, time.FixedZone("p", 3600), time.FixedZone("m", -7*3600-1800)}

func eqList(s string) protocol.EntryList {
	el := protocol.EntryList{}
	if s == "-" {
		return el
	}
	for i, k := range strings.Split(s, ",") {
		p := strings.Split(k, ".")
		t := time.Unix(atoi64(p[0]), atoi64(p[1])).In(eqZones[i%len(eqZones)])
		el = append(el, protocol.EntryExt{Timestamp: protocol.EventTime{Time: t}, Record: eqRecord(p[2])})
	}
	return el
}

func init() {
	ops["EQ"] = func(a []string) string {
		if eqList(a[0]).Equal(eqList(a[1])) {
			return "t"
		}
		return "f"
	}
	suites["eq"] = genEQ
}

func joinKeys(k []string) string {
	if len(k) == 0 {
		return "-"
	}
	return strings.Join(k, ",")
}

func genEQ(o *Out, r *Rng, n int, tier string) {
	// exhaustive: all pairs of lists of length 0..L over 3 distinct entries
	alpha := []string{"1.0.a", "1.0.b", "2.5.a"}
	if tier == "thorough" || true {
		// the same exhaustive sweep over entries that differ only subtly (nil-valued vs absent keys)
		defer func() {
			sub := []string{"1.0.g", "1.0.h", "1.0.i"}
			var ls [][]string
			var rec2 func(cur []string, l int)
			rec2 = func(cur []string, l int) {
				ls = append(ls, append([]string{}, cur...))
				if l == 3 {
					return
				}
				for _, a := range sub {
					rec2(append(cur, a), l+1)
				}
			}
			rec2(nil, 0)
			for _, x := range ls {
				for _, y := range ls {
					o.emit("C20", "EQ", joinKeys(x), joinKeys(y))
				}
			}
		}()
	}
	L := 4
	var lists [][]string
	var rec func(cur []string, l int)
	rec = func(cur []string, l int) {
		lists = append(lists, append([]string{}, cur...))
		if l == L {
			return
		}
		for _, a := range alpha {
			rec(append(cur, a), l+1)
		}
	}
	rec(nil, 0)
	for _, x := range lists {
		for _, y := range lists {
			o.emit("C20", "EQ", joinKeys(x), joinKeys(y))
		}
	}
	// random longer lists over a wider alphabet, with shuffles and perturbations
	recs := []string{"a", "b", "c", "d", "e", "f", "g", "h", "i", "j", "m", "n", "o", "p", "q", "r", "s", "t", "u", "v", "w", "x", "y"}
	for i := 0; i < n; i++ {
		ln := r.Intn(12)
		if r.Chance(25) {
			// long lists: around the word sizes a bookkeeping bitset would use, and well beyond
			ln = []int{31, 32, 33, 34, 40, 63, 64, 65, 66, 70, 127, 128, 129, 130, 200, 300}[r.Intn(16)]
		}
		k := 1 + r.Intn(5)
		if ln > 12 && r.Bool() {
			k = ln // mostly distinct entries, so that a duplicated one matters
		}
		var x []string
		for j := 0; j < ln; j++ {
			x = append(x, itoa(int64(r.Intn(k)))+"."+itoa(int64(r.Intn(2))*999999999)+"."+recs[r.Intn(1+r.Intn(len(recs)))])
		}
		y := append([]string{}, x...)
		for j := len(y) - 1; j > 0; j-- {
			q := r.Intn(j + 1)
			y[j], y[q] = y[q], y[j]
		}
		switch r.Intn(6) {
		case 5: // one record swapped for a near relative (same instant): equal-looking but not deeply equal
			if len(y) > 0 {
				i := r.Intn(len(y))
				p := strings.Split(y[i], ".")
				sib := map[string][]string{"t": {"u", "v"}, "u": {"t", "v"}, "v": {"t", "u"}, "g": {"h", "i"}, "h": {"g", "i"}, "i": {"g", "h"},
					"x": {"y", "d", "f"}, "y": {"x", "d"}, "d": {"x", "y"}, "f": {"x"}, "a": {"b"}, "b": {"a"}, "n": {"o", "p"}, "o": {"n"}, "q": {"r"}, "r": {"q"}}
				alts := sib[p[2]]
				if len(alts) == 0 {
					alts = []string{"t", "u", "x", "y"}
					// make the counterpart in x one of the shared-memory records too
					for j := range x {
						if x[j] == y[i] {
							x[j] = p[0] + "." + p[1] + ".t"
							break
						}
					}
					p[2] = "t"
					alts = []string{"u", "v"}
				}
				y[i] = p[0] + "." + p[1] + "." + alts[r.Intn(len(alts))]
			}
		case 4: // one instant moved by a distance that a truncating comparison does not see
			if len(y) > 0 {
				i := r.Intn(len(y))
				p := strings.Split(y[i], ".")
				sec := atoi64(p[0])
				switch r.Intn(6) {
				case 0:
					sec += 1 << 32
				case 1:
					sec -= 1 << 32
				case 2:
					sec += 1 << 31
				case 3:
					sec += 3 << 32
				case 4: // nanoseconds: same second, one nanosecond apart / a full second apart in nanoseconds
					p[1] = itoa(atoi64(p[1]) ^ 1)
				default:
					sec = -sec - 1
				}
				y[i] = itoa(sec) + "." + p[1] + "." + p[2]
			}
		case 0: // pure shuffle
		case 1: // replace one element by another element of the list (multiplicity change)
			if len(y) > 1 {
				y[r.Intn(len(y))] = x[r.Intn(len(x))]
			}
		case 2: // replace one element by a fresh one
			if len(y) > 0 {
				y[r.Intn(len(y))] = "9.9." + recs[r.Intn(len(recs))]
			}
		case 3: // drop or add
			if len(y) > 0 && r.Bool() {
				y = y[1:]
			} else {
				y = append(y, "1.0.a")
			}
		}
		o.emit("C20", "EQ", joinKeys(x), joinKeys(y))
	}
}
