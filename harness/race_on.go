//go:build race

package main

const raceEnabled = true
