package main

import (
	"time"

	"github.com/IBM/fluent-forward-go/fluent/protocol"
)

// ET sec nsec zoneOffset => hex      EventTime.MarshalBinaryTo of time.Unix(sec,nsec) expressed in a fixed zone
// ETD hex => ok sec nsec | err       EventTime.UnmarshalBinary

func init() {
	ops["ET"] = func(a []string) string {
		t := time.Unix(atoi64(a[0]), atoi64(a[1])).In(time.FixedZone("z", int(atoi64(a[2]))))
		et := protocol.EventTime{Time: t}
		// the destination is whatever memory the caller has: not necessarily zeroed
		b := make([]byte, et.Len())
		for i := range b {
			b[i] = 0xa5
		}
		if err := et.MarshalBinaryTo(b); err != nil {
			return "err"
		}
		return hx(b)
	}
	ops["ETD"] = func(a []string) string {
		var et protocol.EventTime
		if err := et.UnmarshalBinary(unhx(a[0])); err != nil {
			return "err"
		}
		return "ok " + itoa(et.Unix()) + " " + itoa(int64(et.Nanosecond()))
	}
	suites["et"] = genET
}

var etSecs = []int64{0, 1, 2, 255, 256, 65535, 65536, 1 << 24, 1<<31 - 1, 1 << 31, 1<<32 - 2, 1<<32 - 1, 1600000000}
var etNsecs = []int64{0, 1, 255, 256, 999, 1000, 999999, 1000000, 123456789, 999999998, 999999999}
var etZones = []int64{0, 3600, -3600, 19800, -34200, 50400, -43200, 1}

func genET(o *Out, r *Rng, n int, tier string) {
	for _, s := range etSecs {
		for _, ns := range etNsecs {
			o.emit("C19", "ET", itoa(s), itoa(ns), itoa(etZones[r.Intn(len(etZones))]))
		}
	}
	for i := 0; i < n; i++ {
		var s int64
		switch r.Intn(8) {
		case 0:
			s = etSecs[r.Intn(len(etSecs))]
		case 1: // outside the 32-bit domain (encoder wraps; not judged by the property)
			s = int64(r.Next()>>20) - (1 << 42)
		default:
			s = int64(r.Next() >> 32)
		}
		ns := int64(r.Intn(1000000000))
		if r.Chance(20) {
			ns = etNsecs[r.Intn(len(etNsecs))]
		}
		o.emit("C19", "ET", itoa(s), itoa(ns), itoa(etZones[r.Intn(len(etZones))]))
		// decode side: valid payloads, payloads with nsec >= 1e9, wrong lengths
		var p []byte
		switch r.Intn(6) {
		case 0:
			p = r.Bytes(r.Intn(20))
		case 1:
			p = r.Bytes(8)
		default:
			p = make([]byte, 8)
			v := uint32(r.Next())
			if r.Chance(30) {
				v = uint32(etSecs[r.Intn(len(etSecs))])
			}
			p[0], p[1], p[2], p[3] = byte(v>>24), byte(v>>16), byte(v>>8), byte(v)
			w := uint32(r.Intn(1000000000))
			if r.Chance(20) {
				w = uint32(etNsecs[r.Intn(len(etNsecs))])
			}
			p[4], p[5], p[6], p[7] = byte(w>>24), byte(w>>16), byte(w>>8), byte(w)
		}
		o.emit("C19", "ETD", hx(p))
	}
}
