package main

import (
	"strconv"
	"time"

	"github.com/IBM/fluent-forward-go/fluent/protocol"
)

// ET sec nsec zoneOffset => hex      EventTime.MarshalBinaryTo of time.Unix(sec,nsec) expressed in a fixed zone
// ETD hex => ok sec nsec | err       EventTime.UnmarshalBinary

func init() {
	ops["ET"] = func(a []string) string {
		t := time.Unix(atoi64(a[0]), atoi64(a[1])).In(time.FixedZone("z", int(atoi64(a[2]))))
		et := protocol.EventTime{Time: t}
		// the destination is whatever memory the caller has: not necessarily zeroed
		b := make([]byte, et.Len())
		for i := range b {
			b[i] = 0xa5
		}
		if err := et.MarshalBinaryTo(b); err != nil {
			return "err"
		}
		return hx(b)
	}
	ops["ETD"] = func(a []string) string {
		var et protocol.EventTime
		if err := et.UnmarshalBinary(unhx(a[0])); err != nil {
			return "err"
		}
		return "ok " + itoa(et.Unix()) + " " + itoa(int64(et.Nanosecond()))
	}
	// ETC sec nsec zone => f=<hex8> p=<hex8> c=<hex8> src=<same|changed>
	// the instant expressed in a named (DST-observing) or fixed zone, handed to the constructors: what do the Forward,
	// PackedForward and CompressedPackedForward messages carry as the entry's EventTime payload?
	ops["ETC"] = func(a []string) string {
		var loc *time.Location
		if z, err := strconv.ParseInt(a[2], 10, 64); err == nil {
			loc = time.FixedZone("z", int(z))
		} else if l, err := time.LoadLocation(a[2]); err == nil {
			loc = l
		} else {
			return "nozone"
		}
		t := time.Unix(atoi64(a[0]), atoi64(a[1])).In(loc)
		mk := func() protocol.EntryList {
			return protocol.EntryList{{Timestamp: protocol.EventTime{Time: t}, Record: map[string]interface{}{}}}
		}
		payload := func(b []byte, at int) string {
			if len(b) < at+10 || b[at] != 0xd7 || b[at+1] != 0x00 {
				return "shape"
			}
			return hx(b[at+2 : at+10])
		}
		src := mk()
		fm := protocol.NewForwardMessage("t", src)
		fb, err := fm.MarshalMsg(nil)
		if err != nil {
			return "err"
		}
		f := "shape"
		// [tag, [[ext, record]], options?]: 9x a1 74 91 92 d7 00 …
		if len(fb) > 5 {
			f = payload(fb, 5)
		}
		pm, err := protocol.NewPackedForwardMessage("t", mk())
		if err != nil {
			return "err"
		}
		cm, err := protocol.NewCompressedPackedForwardMessage("t", mk())
		if err != nil {
			return "err"
		}
		cs, _, _ := gunzipOne(cm.EventStream)
		same := "same"
		if !src[0].Timestamp.Time.Equal(t) || src[0].Timestamp.Time.Location() != loc {
			same = "changed"
		}
		return "f=" + f + " p=" + payload(pm.EventStream, 1) + " c=" + payload(cs, 1) + " src=" + same
	}
	suites["et"] = genET
}

// named zones with daylight saving time (one of them by half an hour), and instants at which their clocks are set back or forward
var etNamedZones = []string{"America/New_York", "Europe/Berlin", "Australia/Lord_Howe", "America/St_Johns", "Asia/Kolkata", "UTC"}
var etTransitions = []int64{1636264800, 1615705200, 1635642000, 1616893200, 1617463800, 1633188600, 1636263000, 1615699800, 0, 1600000000}

var etSecs = []int64{0, 1, 2, 255, 256, 65535, 65536, 1 << 24, 1<<31 - 1, 1 << 31, 1<<32 - 2, 1<<32 - 1, 1600000000}
var etNsecs = []int64{0, 1, 255, 256, 999, 1000, 999999, 1000000, 123456789, 999999998, 999999999}
var etZones = []int64{0, 3600, -3600, 19800, -34200, 50400, -43200, 1}

func genET(o *Out, r *Rng, n int, tier string) {
	for _, s := range etSecs {
		for _, ns := range etNsecs {
			o.emit("C19", "ET", itoa(s), itoa(ns), itoa(etZones[r.Intn(len(etZones))]))
		}
	}
	// decode side, systematically: every pair of the edge seconds and nanoseconds (the all-zero payload included)
	for _, sc := range etSecs {
		for _, ns := range etNsecs {
			p := []byte{byte(sc >> 24), byte(sc >> 16), byte(sc >> 8), byte(sc), byte(ns >> 24), byte(ns >> 16), byte(ns >> 8), byte(ns)}
			o.emit("C19", "ETD", hx(p))
		}
	}
	// through the constructors, in zones that set their clocks back and forward: around each transition
	for _, z := range etNamedZones {
		for _, tr := range etTransitions {
			for _, d := range []int64{-7200, -3601, -3600, -1800, -1, 0, 1, 1799, 1800, 3599, 3600, 5400, 7200} {
				if tr+d >= 0 {
					o.emit("C19", "ETC", itoa(tr+d), itoa(etNsecs[r.Intn(len(etNsecs))]), z)
				}
			}
		}
	}
	for i := 0; i < n; i++ {
		if r.Chance(10) {
			z := etNamedZones[r.Intn(len(etNamedZones))]
			if r.Bool() {
				z = itoa(etZones[r.Intn(len(etZones))])
			}
			o.emit("C19", "ETC", itoa(int64(r.Next()>>32)), itoa(int64(r.Intn(1000000000))), z)
		}
		var s int64
		switch r.Intn(8) {
		case 0:
			s = etSecs[r.Intn(len(etSecs))]
		case 1: // outside the 32-bit domain (encoder wraps; not judged by the property)
			s = int64(r.Next()>>20) - (1 << 42)
		default:
			s = int64(r.Next() >> 32)
		}
		ns := int64(r.Intn(1000000000))
		if r.Chance(20) {
			ns = etNsecs[r.Intn(len(etNsecs))]
		}
		o.emit("C19", "ET", itoa(s), itoa(ns), itoa(etZones[r.Intn(len(etZones))]))
		// decode side: valid payloads, payloads with nsec >= 1e9, wrong lengths
		var p []byte
		switch r.Intn(6) {
		case 0:
			p = r.Bytes(r.Intn(20))
		case 1:
			p = r.Bytes(8)
		default:
			p = make([]byte, 8)
			v := uint32(r.Next())
			if r.Chance(30) {
				v = uint32(etSecs[r.Intn(len(etSecs))])
			}
			p[0], p[1], p[2], p[3] = byte(v>>24), byte(v>>16), byte(v>>8), byte(v)
			w := uint32(r.Intn(1000000000))
			if r.Chance(20) {
				w = uint32(etNsecs[r.Intn(len(etNsecs))])
			}
			p[4], p[5], p[6], p[7] = byte(w>>24), byte(w>>16), byte(w>>8), byte(w)
		}
		o.emit("C19", "ETD", hx(p))
	}
}
