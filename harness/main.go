// fvharness: runs the real fluent-forward-go code on generated inputs and prints one line per
// case: the input and what the code did, canonicalised.  The Lean driver (fvdriver) evaluates the
// model on the same line.  Every random choice derives from one SplitMix64 state (-seed).
package main

import (
	"bufio"
	"flag"
	"fmt"
	"os"
	"strings"
)

// ---- PRNG ----------------------------------------------------------------------------------

type Rng struct{ s uint64 }

func (r *Rng) Next() uint64 {
	r.s += 0x9e3779b97f4a7c15
	z := r.s
	z = (z ^ (z >> 30)) * 0xbf58476d1ce4e5b9
	z = (z ^ (z >> 27)) * 0x94d049bb133111eb
	return z ^ (z >> 31)
}
func (r *Rng) Intn(n int) int {
	if n <= 0 {
		return 0
	}
	return int(r.Next() % uint64(n))
}
func (r *Rng) Bool() bool       { return r.Next()&1 == 1 }
func (r *Rng) Chance(p int) bool { return r.Intn(100) < p }
func (r *Rng) Bytes(n int) []byte {
	b := make([]byte, n)
	for i := range b {
		b[i] = byte(r.Next())
	}
	return b
}

// ---- output --------------------------------------------------------------------------------

type Out struct {
	w  *bufio.Writer
	id int
	// cases that ended in a hang or a crash of the child process cost tens of seconds each: after a few of them the
	// generation stops (what was printed so far carries the failing observations)
	stuck int
	ooms  int
}

// emit executes op on the real code and prints the line
func (o *Out) emit(prop string, op string, args ...string) {
	args, obs := execOp(op, args)
	o.id++
	fmt.Fprintf(o.w, "%d %s %s %s => %s\n", o.id, prop, op, strings.Join(args, " "), obs)
	o.w.Flush()
	if strings.HasPrefix(obs, "crash alloc=oom") {
		// a child that ran into its address-space limit dies at once: cheap, and expected of inputs that declare
		// huge counts (open finding C10-count-driven-allocation); only a flood of them stops the generation
		o.ooms++
		if o.ooms >= 400 {
			os.Exit(0)
		}
	} else if strings.HasPrefix(obs, "hang") || strings.HasPrefix(obs, "crash") || strings.Contains(obs, "deadlock-or-hang") {
		o.stuck++
		if o.stuck >= 4 {
			os.Exit(0)
		}
	}
}

// execOp dispatches an operation line to the code under test
func execOp(op string, args []string) (nargs []string, obs string) {
	nargs = args
	defer func() {
		if r := recover(); r != nil {
			obs = "panic " + sanitize(fmt.Sprint(r))
		}
	}()
	if g, ok := opsArgs[op]; ok { // ops whose canonical arguments depend on the run (map order)
		return g(args)
	}
	f, ok := ops[op]
	if !ok {
		return args, "bad-op"
	}
	return args, f(args)
}

func sanitize(s string) string {
	s = strings.Map(func(r rune) rune {
		if r == ' ' || r == '\n' || r == '\t' {
			return '_'
		}
		return r
	}, s)
	if len(s) > 80 {
		s = s[:80]
	}
	return s
}

var ops = map[string]func([]string) string{}
var opsArgs = map[string]func([]string) ([]string, string){}
var suites = map[string]func(o *Out, r *Rng, n int, tier string){}

func main() {
	if len(os.Args) < 2 {
		fmt.Fprintln(os.Stderr, "usage: fvharness gen <suite> [-seed S] [-n N] [-tier quick|thorough] | replay")
		os.Exit(2)
	}
	out := &Out{w: bufio.NewWriterSize(os.Stdout, 1<<16)}
	defer out.w.Flush()
	switch os.Args[1] {
	case "gen":
		fs := flag.NewFlagSet("gen", flag.ExitOnError)
		seed := fs.Uint64("seed", 1, "PRNG seed")
		n := fs.Int("n", 1000, "number of generated cases")
		tier := fs.String("tier", "quick", "quick|thorough")
		suite := os.Args[2]
		_ = fs.Parse(os.Args[3:])
		f, ok := suites[suite]
		if !ok {
			fmt.Fprintln(os.Stderr, "unknown suite", suite)
			os.Exit(2)
		}
		f(out, &Rng{s: *seed}, *n, *tier)
	case "replay":
		// re-execute operation lines (anything after "=>" is ignored) against the current code
		sc := bufio.NewScanner(os.Stdin)
		sc.Buffer(make([]byte, 1<<20), 1<<28)
		for sc.Scan() {
			line := strings.TrimSpace(sc.Text())
			if line == "" || strings.HasPrefix(line, "#") {
				continue
			}
			if i := strings.Index(line, " => "); i >= 0 {
				line = line[:i]
			}
			t := strings.Fields(line)
			if len(t) < 3 {
				continue
			}
			nargs, obs := execOp(t[2], t[3:])
			fmt.Fprintf(out.w, "%s %s %s %s => %s\n", t[0], t[1], t[2], strings.Join(nargs, " "), obs)
		}
	default:
		fmt.Fprintln(os.Stderr, "unknown command")
		os.Exit(2)
	}
}
