package main

import (
	"encoding/hex"
	"strconv"
)

func hx(b []byte) string {
	if len(b) == 0 {
		return "-"
	}
	return hex.EncodeToString(b)
}

func unhx(s string) []byte {
	if s == "-" {
		return []byte{}
	}
	b, err := hex.DecodeString(s)
	if err != nil {
		panic("bad hex " + s)
	}
	return b
}

func atoi64(s string) int64 {
	v, err := strconv.ParseInt(s, 10, 64)
	if err != nil {
		panic("bad int " + s)
	}
	return v
}

func itoa(i int64) string { return strconv.FormatInt(i, 10) }
