package main

import (
	"bytes"
	"compress/gzip"
	"fmt"
	"io"
	"runtime"
	"runtime/debug"
	"strings"
	"time"

	"github.com/IBM/fluent-forward-go/fluent/protocol"
)

// Histories of constructor / packer calls inside one process, so that recycled buffers and
// compressors really are reused (GOMAXPROCS(1), GC off, pools primed through the verif hooks).
// Every value returned to the "caller" and every argument passed in is snapshotted; after every
// later call all snapshots are compared with the live values.
//
//   HRESET                               start a history: forget tracked values
//   PRIME buf <hex> | comp <state>       put a dirty object into a pool (state: zero|closed|open|junk)
//   PK <tag> <L(entries)>   => str=<hex> opt=<opts> | err         NewPackedForwardMessage
//   PB <tag> <hex>          => str=<hex> opt=<opts>               NewPackedForwardMessageFromBytes
//   CP <tag> <L(entries)>   => gunzip=<hex> rest=<n> opt=<opts>   NewCompressedPackedForwardMessage
//   CB <tag> <hex>          => gunzip=<hex> rest=<n> opt=<opts>   NewCompressedPackedForwardMessageFromBytes
//   MP <L(entries)>         => <hex> | err                        EntryList.MarshalPacked
//   UP <hex>                => <entries> left=<n> ok|err          EntryList.UnmarshalPacked
//   MM <idx>                => <hex>                              MarshalMsg of the idx-th tracked message
//   GCH <hex>               => ok <hex> | err                     GetChunk
// every observation ends with " chg=<n> inchg=<n> reuse=<n>": returned values / arguments whose content
// changed since they were snapshotted, and how often a primed pool object was seen to be taken.

type tracked struct {
	input bool
	desc  string
	live  func() string
	snap  string
}

var reg []tracked
var regMsgs []*protocol.PackedForwardMessage
var reuseCount int

func track(input bool, desc string, live func() string) {
	reg = append(reg, tracked{input: input, desc: desc, live: live, snap: live()})
}

func checkTracked() string {
	chg, inchg := 0, 0
	first := ""
	for i := range reg {
		if reg[i].live() != reg[i].snap {
			if reg[i].input {
				inchg++
			} else {
				chg++
			}
			if first == "" {
				first = reg[i].desc
			}
			reg[i].snap = reg[i].live() // report each change once
		}
	}
	s := fmt.Sprintf(" chg=%d inchg=%d reuse=%d", chg, inchg, reuseCount)
	if first != "" {
		s += " first=" + first
	}
	return s
}

// arguments are snapshotted with everything a caller can observe, incl. the zone a timestamp is expressed in
func deepEntries(el protocol.EntryList) string {
	var sb strings.Builder
	for _, e := range el {
		sb.WriteString(e.Timestamp.Time.String())
		sb.WriteString("|")
		sb.WriteString(renderVal(e.Record))
		sb.WriteString(";")
	}
	return sb.String()
}

func trackEntries(es []absEntry, el protocol.EntryList) {
	track(true, "entries-arg", func() string { return deepEntries(el) })
	_ = es
}

// bytesCompressingTo: incompressible bytes whose gzip stream (default level, as the library writes it) is exactly
// target bytes long; falls back to the nearest it found
func bytesCompressingTo(r *Rng, target int) []byte {
	pool := r.Bytes(target + 8)
	zlen := func(n int) int {
		var b bytes.Buffer
		w := gzip.NewWriter(&b)
		_, _ = w.Write(pool[:n])
		_ = w.Close()
		return b.Len()
	}
	n := target - 23
	if n < 0 {
		n = 0
	}
	for try := 0; try < 80 && n >= 0 && n <= len(pool); try++ {
		z := zlen(n)
		if z == target {
			break
		}
		if z < target {
			n++
		} else {
			n--
		}
	}
	if n < 0 {
		n = 0
	}
	if n > len(pool) {
		n = len(pool)
	}
	return pool[:n]
}

func gunzipOne(z []byte) (payload []byte, rest int, ok bool) {
	br := bytes.NewReader(z)
	zr, err := gzip.NewReader(br)
	if err != nil {
		return nil, len(z), false
	}
	zr.Multistream(false)
	p, err := io.ReadAll(zr)
	if err != nil {
		return p, br.Len(), false
	}
	return p, br.Len(), true
}

func entriesFromTok(tok string) ([]absEntry, protocol.EntryList) {
	t, _ := parseTTree(tok, 0)
	es := ttEntries(t)
	el := make(protocol.EntryList, len(es))
	for i, e := range es {
		el[i] = protocol.EntryExt{Timestamp: protocol.EventTime{Time: e.t}, Record: toGoU(e.rec, nil)}
	}
	return es, el
}

// entries token with every record's maps ordered as in the packed stream
func orderedEntriesTok(es []absEntry, stream []byte) string {
	p := make([]string, len(es))
	off := 0
	for i, e := range es {
		var o *Node
		if off < len(stream) {
			if t, n, err := mpParse(stream[off:], 0); err == nil && t.K == KArr && len(t.A) == 2 {
				o = t.A[1]
				off += n
			} else {
				off = len(stream)
			}
		}
		p[i] = fmt.Sprintf("E(%s;%s)", tokInstant(e.t), tokVal(orderNode(e.rec, o)))
	}
	return "L(" + strings.Join(p, ";") + ")"
}

func primeComp(state string) {
	c := &protocol.GzipCompressor{}
	switch state {
	case "zero":
	case "closed":
		c.Reset()
		_ = c.Write([]byte("earlier payload earlier payload"))
	case "open":
		c.Reset()
		_, _ = c.GzipWriter.Write([]byte("half written member"))
		_ = c.GzipWriter.Flush()
	case "junk":
		c.Reset()
		_ = c.Write([]byte("x"))
		c.Buffer.Write(bytes.Repeat([]byte{0xee}, 300))
	}
	for i := 0; i < 64; i++ {
		_ = protocol.VerifCompressorPoolGet() // see PRIME buf: the primed compressor must be the next one handed out
	}
	protocol.VerifCompressorPoolPut(c)
}

var histSetup bool

func histMode() {
	if !histSetup {
		histSetup = true
		runtime.GOMAXPROCS(1)
		debug.SetGCPercent(-1)
	}
}

func init() {
	opsArgs["HRESET"] = func(a []string) ([]string, string) {
		histMode()
		reg, regMsgs, reuseCount = nil, nil, 0
		return a, "ok"
	}
	opsArgs["PRIME"] = func(a []string) ([]string, string) {
		histMode()
		if a[0] == "buf" {
			// sync.Pool hands out its per-P private slot first: empty the pool, so that the primed object is what the
			// next Get returns (a primed object parked behind a clean one would never be seen)
			for i := 0; i < 64; i++ {
				_ = protocol.VerifBufferPoolGet()
			}
			protocol.VerifBufferPoolPut(bytes.NewBuffer(unhx(a[1])))
		} else {
			primeComp(a[1])
		}
		return a, "ok"
	}
	pkLike := func(compressed bool) func(a []string) ([]string, string) {
		return func(a []string) ([]string, string) {
			histMode()
			es, el := entriesFromTok(a[1])
			trackEntries(es, el)
			var m *protocol.PackedForwardMessage
			var err error
			if compressed {
				m, err = protocol.NewCompressedPackedForwardMessage(string(unhx(a[0])), el)
			} else {
				m, err = protocol.NewPackedForwardMessage(string(unhx(a[0])), el)
			}
			if err != nil {
				return a, "err" + checkTracked()
			}
			regMsgs = append(regMsgs, m)
			idx := len(regMsgs) - 1
			track(false, fmt.Sprintf("msg%d", idx), func() string { return renderMsg(m) })
			if compressed {
				p, rest, ok := gunzipOne(m.EventStream)
				na := []string{a[0], orderedEntriesTok(es, p)}
				return na, fmt.Sprintf("gunzip=%s rest=%d complete=%v opt=%s%s", hx(p), rest, ok, renderOpts(m.Options), checkTracked())
			}
			na := []string{a[0], orderedEntriesTok(es, m.EventStream)}
			return na, fmt.Sprintf("str=%s opt=%s%s", hx(m.EventStream), renderOpts(m.Options), checkTracked())
		}
	}
	opsArgs["PK"] = pkLike(false)
	opsArgs["CP"] = pkLike(true)
	opsArgs["PB"] = func(a []string) ([]string, string) {
		histMode()
		in := unhx(a[1])
		track(true, "bytes-arg", func() string { return hx(in) })
		m := protocol.NewPackedForwardMessageFromBytes(string(unhx(a[0])), in)
		regMsgs = append(regMsgs, m)
		track(false, fmt.Sprintf("msg%d", len(regMsgs)-1), func() string { return renderMsg(m) })
		return a, fmt.Sprintf("str=%s opt=%s%s", hx(m.EventStream), renderOpts(m.Options), checkTracked())
	}
	opsArgs["CB"] = func(a []string) ([]string, string) {
		histMode()
		in := unhx(a[1])
		track(true, "bytes-arg", func() string { return hx(in) })
		m, err := protocol.NewCompressedPackedForwardMessageFromBytes(string(unhx(a[0])), in)
		if err != nil {
			return a, "err" + checkTracked()
		}
		regMsgs = append(regMsgs, m)
		track(false, fmt.Sprintf("msg%d", len(regMsgs)-1), func() string { return renderMsg(m) })
		p, rest, ok := gunzipOne(m.EventStream)
		return a, fmt.Sprintf("gunzip=%s rest=%d complete=%v opt=%s%s", hx(p), rest, ok, renderOpts(m.Options), checkTracked())
	}
	opsArgs["MP"] = func(a []string) ([]string, string) {
		histMode()
		es, el := entriesFromTok(a[0])
		trackEntries(es, el)
		b, err := el.MarshalPacked()
		if err != nil {
			return a, "err" + checkTracked()
		}
		track(false, "packed-bytes", func() string { return hx(b) })
		return []string{orderedEntriesTok(es, b)}, hx(b) + checkTracked()
	}
	opsArgs["UP"] = func(a []string) ([]string, string) {
		histMode()
		in := unhx(a[0])
		track(true, "bytes-arg", func() string { return hx(in) })
		var el protocol.EntryList
		left, err := el.UnmarshalPacked(in)
		st := "ok"
		if err != nil {
			st = "err"
		}
		track(false, "unpacked-entries", func() string { return renderEntries(el) })
		return a, fmt.Sprintf("%s left=%d %s%s", renderEntries(el), len(left), st, checkTracked())
	}
	// SCRIB n: a caller builds messages of n entries with each constructor and then overwrites everything it was handed (the value the
	// size option points to, the option strings, the stream bytes).  It owns those values; nothing built later may be affected.
	opsArgs["SCRIB"] = func(a []string) ([]string, string) {
		histMode()
		n := int(atoi64(a[0]))
		el := make(protocol.EntryList, n)
		for i := range el {
			el[i] = protocol.EntryExt{Timestamp: protocol.EventTime{Time: time.Unix(int64(1+i), 0)}, Record: map[string]interface{}{}}
		}
		scrib := func(o *protocol.MessageOptions, stream []byte) {
			if o != nil {
				if o.Size != nil {
					*o.Size = 987654321
				}
				o.Chunk, o.Compressed = "scribbled", "scribbled"
			}
			for i := range stream {
				stream[i] = 0xee
			}
		}
		if m := protocol.NewForwardMessage("t", el); m != nil {
			scrib(m.Options, nil)
		}
		if m, err := protocol.NewPackedForwardMessage("t", el); err == nil && m != nil {
			scrib(m.Options, m.EventStream)
		}
		if m, err := protocol.NewCompressedPackedForwardMessage("t", el); err == nil && m != nil {
			scrib(m.Options, m.EventStream)
		}
		return a, "done" + checkTracked()
	}
	opsArgs["MM"] = func(a []string) ([]string, string) {
		histMode()
		i := int(atoi64(a[0]))
		if i >= len(regMsgs) {
			return a, "none" + checkTracked()
		}
		b, err := regMsgs[i].MarshalMsg(nil)
		if err != nil {
			return a, "err" + checkTracked()
		}
		track(false, "marshalled-bytes", func() string { return hx(b) })
		return a, hx(b) + " " + renderMsg(regMsgs[i]) + checkTracked()
	}
	opsArgs["GCH"] = func(a []string) ([]string, string) {
		histMode()
		in := unhx(a[0])
		track(true, "bytes-arg", func() string { return hx(in) })
		c, err := protocol.GetChunk(in)
		if err != nil {
			return a, "err" + checkTracked()
		}
		track(false, "chunk-string", func() string { return hx([]byte(c)) })
		return a, "ok " + hx([]byte(c)) + checkTracked()
	}
	suites["packed"] = genPacked
}

func genEntriesTok(r *Rng, tier string) string {
	n := r.Intn(4)
	switch r.Intn(10) {
	case 0:
		n = 0
	case 1:
		n = 15 + r.Intn(20)
	}
	if r.Chance(5) {
		// entries of exactly 16 bytes each: streams that end exactly on a 2 KiB writer-buffer edge (128, 256, 1024
		// entries) or exactly at / just beyond 64 KiB (4096, 4097, 4100 entries) or at 128 KiB
		n = []int{127, 128, 129, 256, 1024, 4095, 4096, 4097, 4100, 8192}[r.Intn(10)]
		p := make([]string, n)
		for i := range p {
			p[i] = fmt.Sprintf("E(%d.%d.0;M(6b6b;i%d))", 1+i%7, i, i%100)
		}
		return "L(" + strings.Join(p, ";") + ")"
	}
	if r.Chance(4) {
		// a stream of tens of KiB built from many tiny entries: the pooled buffer grows by doubling through
		// 32 KiB, 64 KiB, 128 KiB
		n = 400 + r.Intn(4000)
		p := make([]string, n)
		for i := range p {
			p[i] = fmt.Sprintf("E(%d.%d.0;M(6b;i%d))", 1+i%7, i, i%100)
		}
		return "L(" + strings.Join(p, ";") + ")"
	}
	p := make([]string, n)
	// a call that fails half way: an unencodable record after at least one good entry
	bad := -1
	if n >= 2 && r.Chance(12) {
		bad = 1 + r.Intn(n-1)
	}
	for i := range p {
		rec := genMapNode(r, 2, tier, false)
		if r.Chance(5) && rec.K == KMap {
			// a value of an unusual Go type that the stream writer encodes (named byte slices as bin, a typed map, a Duration)
			var xv *Node
			switch r.Intn(4) {
			case 0:
				xv = nBin(r.Bytes(4))
				xv.X = "p"
			case 1:
				xv = nBin(r.Bytes(r.Intn(9)))
				xv.X = "j"
			case 2:
				xv = nInt(int64(r.Intn(1000000)))
				xv.X = "d"
			default:
				xv = nInt(int64(r.Intn(100)))
				xv.X = "m"
			}
			rec.A = append(rec.A, nStr([]byte("xtype")), xv)
		}
		if r.Chance(2) || i == bad {
			poison(r, rec)
		}
		p[i] = fmt.Sprintf("E(%s;%s)", tokInstant(genGoTime(r)), tokVal(rec))
	}
	return "L(" + strings.Join(p, ";") + ")"
}

func genPacked(o *Out, r *Rng, n int, tier string) {
	// systematic part: compressed-from-bytes messages whose gzip stream has exactly a round length or one byte either
	// side, each followed by further compression calls (thresholds on the output size: pooling limits, buffer sizes)
	for _, t := range []int{512, 1024, 2048, 4096, 8192, 16384, 32768, 65536} {
		for d := -1; d <= 1; d++ {
			o.emit("C07", "HRESET")
			o.emit("C03", "CB", "74", hx(bytesCompressingTo(r, t+d)))
			o.emit("C03", "CB", "74", hx(r.Bytes(40)))
			o.emit("C03", "CP", "74", genEntriesTok(r, tier))
			o.emit("C03", "CB", "74", hx(bytesCompressingTo(r, t+d)))
			o.emit("C03", "CB", "74", hx(r.Bytes(5000)))
		}
	}
	// compressible batches of every magnitude (many tiny entries: the compressor's buffer grows by doubling through
	// 4 … 128 KiB while deflate feeds it small writes), each followed by further compression calls
	tiny := func(n int) string {
		p := make([]string, n)
		for i := range p {
			p[i] = fmt.Sprintf("E(%d.%d.0;M(6b;i%d))", 1+i%7, i, i%100)
		}
		return "L(" + strings.Join(p, ";") + ")"
	}
	// a caller that overwrites what an earlier constructor call handed it (SCRIB), then builds messages of the same entry count
	for _, k := range []int{0, 1, 2, 3, 15, 16, 100, 255, 256, 300} {
		o.emit("C07", "HRESET")
		o.emit("C03", "SCRIB", itoa(int64(k)))
		o.emit("C03", "PK", "74", tiny(k))
		o.emit("C03", "CP", "74", tiny(k))
		o.emit("C03", "SCRIB", itoa(int64(k)))
		o.emit("C03", "PK", "74", tiny(k))
	}
	for _, k := range []int{300, 700, 1500, 3000, 4500, 6000, 9000, 14000} {
		o.emit("C07", "HRESET")
		o.emit("C03", "CP", "74", tiny(k))
		o.emit("C03", "CB", "74", hx(r.Bytes(40)))
		o.emit("C03", "CP", "74", tiny(20))
		o.emit("C03", "CP", "74", tiny(k+1))
		o.emit("C03", "PK", "74", tiny(30))
	}
	// half-compressible payloads (16 symbols: about 4 bits per byte) of every magnitude: gzip outputs from a few KiB to
	// beyond 100 KiB, written by deflate in small pieces (the buffer's capacity is then a power of two)
	semi := func(n int) []byte {
		b := make([]byte, n)
		for i := range b {
			b[i] = "0123456789abcdef"[r.Intn(16)]
		}
		return b
	}
	for _, k := range []int{3000, 10000, 30000, 50000, 70000, 90000, 110000, 140000, 200000} {
		o.emit("C07", "HRESET")
		o.emit("C03", "CB", "74", hx(semi(k)))
		o.emit("C03", "CB", "74", hx(r.Bytes(40)))
		o.emit("C03", "CP", "74", tiny(20))
		o.emit("C03", "CB", "74", hx(semi(k/2)))
	}
	// streams of tiny entries (12 and 15 bytes each: below any "average entry" guess), 1 … 40 of them
	o.emit("C07", "HRESET")
	for k := 1; k <= 40; k++ {
		var s1, s2 []byte
		for i := 0; i < k; i++ {
			s1 = append(s1, nArr(nExt(0, []byte{0, 0, 0, byte(i), 0, 0, 0, 1}), nMap()).Enc()...)
			s2 = append(s2, nArr(nExt(0, []byte{0, 0, 1, byte(i), 0, 0, 0, 2}), nMap(nStr([]byte("a")), nInt(int64(i%100)))).Enc()...)
		}
		o.emit("C03", "UP", hx(s1))
		o.emit("C03", "UP", hx(s2))
	}
	for h := 0; h < n; h++ {
		o.emit("C07", "HRESET")
		steps := 3 + r.Intn(8)
		for s := 0; s < steps; s++ {
			tag := hx(genTag(r, "quick"))
			switch r.Intn(12) {
			case 0:
				o.emit("C07", "PRIME", "buf", hx(r.Bytes(r.Intn(600))))
			case 1:
				o.emit("C03", "PRIME", "comp", []string{"zero", "closed", "open", "junk"}[r.Intn(4)])
			case 2, 3:
				o.emit("C03", "PK", tag, genEntriesTok(r, tier))
			case 4, 5:
				o.emit("C03", "CP", tag, genEntriesTok(r, tier))
			case 6:
				sz := r.Intn(200)
				if r.Chance(10) {
					sz = 5000 + r.Intn(60000)
				}
				if r.Chance(10) {
					sz = 0
				}
				in := r.Bytes(sz)
				if r.Chance(30) {
					// a payload whose gzip stream has exactly a round length (or one byte either side): thresholds on
					// the size of the *output* (pooling limits, buffer sizes) sit there
					targets := []int{512, 1024, 2048, 4096, 8192, 16384, 32768, 65536}
					in = bytesCompressingTo(r, targets[r.Intn(len(targets))]+r.Intn(3)-1)
				}
				o.emit("C03", "CB", tag, hx(in))
			case 7:
				o.emit("C03", "MP", genEntriesTok(r, tier))
			case 8:
				var s []byte
				for _, e := range genGoEntries(r, tier) {
					s, _ = e.MarshalMsg(s)
				}
				if r.Chance(20) {
					// (inputs that declare huge counts or lengths are the business of the codec suite, which runs them
					// in a child process under an address-space limit: known finding C10-count-driven-allocation)
					for try := 0; try < 8; try++ {
						ms := mutate(r, append([]byte{}, s...))
						if c, l := suspect(ms); !c && !l {
							s = ms
							break
						}
					}
				}
				o.emit("C03", "UP", hx(s))
			case 9:
				o.emit("C07", "PB", tag, hx(r.Bytes(r.Intn(100))))
			case 10:
				if r.Bool() {
					o.emit("C03", "SCRIB", itoa(int64(r.Intn(6))))
				} else {
					o.emit("C07", "MM", itoa(int64(r.Intn(4))))
				}
			default:
				m, _ := genGoMsg(r, codecTypes[r.Intn(4)], tier).MarshalMsg(nil)
				o.emit("C07", "GCH", hx(m))
			}
		}
	}
}
