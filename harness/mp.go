package main

// An independent msgpack implementation written from the format specification (no msgp):
// object trees, an encoder that can choose any legal width for every header, and a parser.

import (
	"encoding/binary"
	"errors"
	"math"
)

type Kind int

const (
	KNil Kind = iota
	KBool
	KInt  // signed value in I (encoded in an int or, if non-negative, possibly a uint family format)
	KUint // unsigned value in U
	KF32
	KF64
	KStr
	KBin
	KArr
	KMap
	KExt
)

type Node struct {
	K    Kind
	B    bool
	I    int64
	U    uint64
	Bits uint64
	S    []byte  // str/bin/ext payload
	T    int8    // ext type
	A    []*Node // array elements; map: k0 v0 k1 v1 …
	// encoding hints: 0 = shortest; higher = next wider legal format
	W int
	// for ints: prefer the unsigned family when the value is non-negative
	Unsigned bool
	// X: the value is handed to the library as an unusual Go type (records in the packed suite only):
	// "p" net.IP, "j" json.RawMessage (named byte slices), "d" time.Duration, "m" map[string]int{"a": I}
	X string
}

func nNil() *Node            { return &Node{K: KNil} }
func nBool(b bool) *Node     { return &Node{K: KBool, B: b} }
func nInt(i int64) *Node     { return &Node{K: KInt, I: i} }
func nUint(u uint64) *Node   { return &Node{K: KUint, U: u} }
func nStr(s []byte) *Node    { return &Node{K: KStr, S: s} }
func nBin(s []byte) *Node    { return &Node{K: KBin, S: s} }
func nArr(a ...*Node) *Node  { return &Node{K: KArr, A: a} }
func nMap(kv ...*Node) *Node { return &Node{K: KMap, A: kv} }
func nExt(t int8, d []byte) *Node {
	return &Node{K: KExt, T: t, S: d}
}

func be16(v uint64) []byte { b := make([]byte, 2); binary.BigEndian.PutUint16(b, uint16(v)); return b }
func be32(v uint64) []byte { b := make([]byte, 4); binary.BigEndian.PutUint32(b, uint32(v)); return b }
func be64(v uint64) []byte { b := make([]byte, 8); binary.BigEndian.PutUint64(b, v); return b }

// encInt: all legal encodings of a signed value, shortest first
func intForms(i int64) [][]byte {
	var f [][]byte
	if i >= 0 && i <= 127 {
		f = append(f, []byte{byte(i)})
	}
	if i < 0 && i >= -32 {
		f = append(f, []byte{byte(i)})
	}
	if i >= -128 && i <= 127 {
		f = append(f, []byte{0xd0, byte(i)})
	}
	if i >= -32768 && i <= 32767 {
		f = append(f, append([]byte{0xd1}, be16(uint64(i))...))
	}
	if i >= -2147483648 && i <= 2147483647 {
		f = append(f, append([]byte{0xd2}, be32(uint64(i))...))
	}
	f = append(f, append([]byte{0xd3}, be64(uint64(i))...))
	return f
}

func uintForms(u uint64) [][]byte {
	var f [][]byte
	if u <= 127 {
		f = append(f, []byte{byte(u)})
	}
	if u <= 255 {
		f = append(f, []byte{0xcc, byte(u)})
	}
	if u <= 65535 {
		f = append(f, append([]byte{0xcd}, be16(u)...))
	}
	if u <= 4294967295 {
		f = append(f, append([]byte{0xce}, be32(u)...))
	}
	f = append(f, append([]byte{0xcf}, be64(u)...))
	return f
}

func pick(f [][]byte, w int) []byte {
	if w >= len(f) {
		w = len(f) - 1
	}
	return f[w]
}

func lenForms(n int, fix func(int) []byte, fixMax int, l8, l16, l32 byte) [][]byte {
	var f [][]byte
	if fix != nil && n <= fixMax {
		f = append(f, fix(n))
	}
	if l8 != 0 && n <= 255 {
		f = append(f, []byte{l8, byte(n)})
	}
	if n <= 65535 {
		f = append(f, append([]byte{l16}, be16(uint64(n))...))
	}
	f = append(f, append([]byte{l32}, be32(uint64(n))...))
	return f
}

func (n *Node) Enc() []byte {
	switch n.K {
	case KNil:
		return []byte{0xc0}
	case KBool:
		if n.B {
			return []byte{0xc3}
		}
		return []byte{0xc2}
	case KInt:
		if n.Unsigned && n.I >= 0 {
			return pick(uintForms(uint64(n.I)), n.W)
		}
		return pick(intForms(n.I), n.W)
	case KUint:
		return pick(uintForms(n.U), n.W)
	case KF32:
		return append([]byte{0xca}, be32(n.Bits)...)
	case KF64:
		return append([]byte{0xcb}, be64(n.Bits)...)
	case KStr:
		h := pick(lenForms(len(n.S), func(k int) []byte { return []byte{0xa0 | byte(k)} }, 31, 0xd9, 0xda, 0xdb), n.W)
		return append(append([]byte{}, h...), n.S...)
	case KBin:
		h := pick(lenForms(len(n.S), nil, 0, 0xc4, 0xc5, 0xc6), n.W)
		return append(append([]byte{}, h...), n.S...)
	case KArr:
		h := pick(lenForms(len(n.A), func(k int) []byte { return []byte{0x90 | byte(k)} }, 15, 0, 0xdc, 0xdd), n.W)
		out := append([]byte{}, h...)
		for _, c := range n.A {
			out = append(out, c.Enc()...)
		}
		return out
	case KMap:
		h := pick(lenForms(len(n.A)/2, func(k int) []byte { return []byte{0x80 | byte(k)} }, 15, 0, 0xde, 0xdf), n.W)
		out := append([]byte{}, h...)
		for _, c := range n.A {
			out = append(out, c.Enc()...)
		}
		return out
	case KExt:
		var f [][]byte
		switch len(n.S) {
		case 1:
			f = append(f, []byte{0xd4, byte(n.T)})
		case 2:
			f = append(f, []byte{0xd5, byte(n.T)})
		case 4:
			f = append(f, []byte{0xd6, byte(n.T)})
		case 8:
			f = append(f, []byte{0xd7, byte(n.T)})
		case 16:
			f = append(f, []byte{0xd8, byte(n.T)})
		}
		if len(n.S) <= 255 {
			f = append(f, []byte{0xc7, byte(len(n.S)), byte(n.T)})
		}
		if len(n.S) <= 65535 {
			f = append(f, append(append([]byte{0xc8}, be16(uint64(len(n.S)))...), byte(n.T)))
		}
		f = append(f, append(append([]byte{0xc9}, be32(uint64(len(n.S)))...), byte(n.T)))
		return append(append([]byte{}, pick(f, n.W)...), n.S...)
	}
	panic("bad node")
}

var errShort = errors.New("short")
var errBad = errors.New("bad")

// mpParse parses one object; returns the tree and the number of bytes consumed
func mpParse(b []byte, depth int) (*Node, int, error) {
	if depth > 10000 {
		return nil, 0, errBad
	}
	if len(b) == 0 {
		return nil, 0, errShort
	}
	c := b[0]
	need := func(n int) bool { return len(b) >= n }
	blob := func(k Kind, hdr int, n int) (*Node, int, error) {
		if len(b)-hdr < n {
			return nil, 0, errShort
		}
		return &Node{K: k, S: b[hdr : hdr+n]}, hdr + n, nil
	}
	seq := func(k Kind, hdr int, n int) (*Node, int, error) {
		nd := &Node{K: k}
		off := hdr
		for i := 0; i < n; i++ {
			ch, m, err := mpParse(b[off:], depth+1)
			if err != nil {
				return nil, 0, err
			}
			nd.A = append(nd.A, ch)
			off += m
		}
		return nd, off, nil
	}
	ext := func(hdr int, n int) (*Node, int, error) {
		if len(b) < hdr+1+n {
			return nil, 0, errShort
		}
		return &Node{K: KExt, T: int8(b[hdr]), S: b[hdr+1 : hdr+1+n]}, hdr + 1 + n, nil
	}
	switch {
	case c < 0x80:
		return nInt(int64(c)), 1, nil
	case c < 0x90:
		return seq(KMap, 1, 2*int(c&0x0f))
	case c < 0xa0:
		return seq(KArr, 1, int(c&0x0f))
	case c < 0xc0:
		return blob(KStr, 1, int(c&0x1f))
	case c >= 0xe0:
		return nInt(int64(int8(c))), 1, nil
	}
	switch c {
	case 0xc0:
		return nNil(), 1, nil
	case 0xc2:
		return nBool(false), 1, nil
	case 0xc3:
		return nBool(true), 1, nil
	case 0xc4, 0xd9:
		if !need(2) {
			return nil, 0, errShort
		}
		k := KBin
		if c == 0xd9 {
			k = KStr
		}
		return blob(k, 2, int(b[1]))
	case 0xc5, 0xda:
		if !need(3) {
			return nil, 0, errShort
		}
		k := KBin
		if c == 0xda {
			k = KStr
		}
		return blob(k, 3, int(binary.BigEndian.Uint16(b[1:])))
	case 0xc6, 0xdb:
		if !need(5) {
			return nil, 0, errShort
		}
		k := KBin
		if c == 0xdb {
			k = KStr
		}
		return blob(k, 5, int(binary.BigEndian.Uint32(b[1:])))
	case 0xc7:
		if !need(2) {
			return nil, 0, errShort
		}
		return ext(2, int(b[1]))
	case 0xc8:
		if !need(3) {
			return nil, 0, errShort
		}
		return ext(3, int(binary.BigEndian.Uint16(b[1:])))
	case 0xc9:
		if !need(5) {
			return nil, 0, errShort
		}
		return ext(5, int(binary.BigEndian.Uint32(b[1:])))
	case 0xca:
		if !need(5) {
			return nil, 0, errShort
		}
		return &Node{K: KF32, Bits: uint64(binary.BigEndian.Uint32(b[1:]))}, 5, nil
	case 0xcb:
		if !need(9) {
			return nil, 0, errShort
		}
		return &Node{K: KF64, Bits: binary.BigEndian.Uint64(b[1:])}, 9, nil
	case 0xcc:
		if !need(2) {
			return nil, 0, errShort
		}
		return nUint(uint64(b[1])), 2, nil
	case 0xcd:
		if !need(3) {
			return nil, 0, errShort
		}
		return nUint(uint64(binary.BigEndian.Uint16(b[1:]))), 3, nil
	case 0xce:
		if !need(5) {
			return nil, 0, errShort
		}
		return nUint(uint64(binary.BigEndian.Uint32(b[1:]))), 5, nil
	case 0xcf:
		if !need(9) {
			return nil, 0, errShort
		}
		return nUint(binary.BigEndian.Uint64(b[1:])), 9, nil
	case 0xd0:
		if !need(2) {
			return nil, 0, errShort
		}
		return nInt(int64(int8(b[1]))), 2, nil
	case 0xd1:
		if !need(3) {
			return nil, 0, errShort
		}
		return nInt(int64(int16(binary.BigEndian.Uint16(b[1:])))), 3, nil
	case 0xd2:
		if !need(5) {
			return nil, 0, errShort
		}
		return nInt(int64(int32(binary.BigEndian.Uint32(b[1:])))), 5, nil
	case 0xd3:
		if !need(9) {
			return nil, 0, errShort
		}
		return nInt(int64(binary.BigEndian.Uint64(b[1:]))), 9, nil
	case 0xd4:
		return ext(1, 1)
	case 0xd5:
		return ext(1, 2)
	case 0xd6:
		return ext(1, 4)
	case 0xd7:
		return ext(1, 8)
	case 0xd8:
		return ext(1, 16)
	case 0xdc:
		if !need(3) {
			return nil, 0, errShort
		}
		return seq(KArr, 3, int(binary.BigEndian.Uint16(b[1:])))
	case 0xdd:
		if !need(5) {
			return nil, 0, errShort
		}
		n := binary.BigEndian.Uint32(b[1:])
		if uint64(n) > uint64(len(b)) {
			return nil, 0, errShort
		}
		return seq(KArr, 5, int(n))
	case 0xde:
		if !need(3) {
			return nil, 0, errShort
		}
		return seq(KMap, 3, 2*int(binary.BigEndian.Uint16(b[1:])))
	case 0xdf:
		if !need(5) {
			return nil, 0, errShort
		}
		n := binary.BigEndian.Uint32(b[1:])
		if uint64(n) > uint64(len(b)) {
			return nil, 0, errShort
		}
		return seq(KMap, 5, 2*int(n))
	}
	return nil, 0, errBad
}

var _ = math.MaxInt64
