package main

import (
	"strconv"
	"strings"
	"time"

	"github.com/IBM/fluent-forward-go/fluent/protocol"
)

// parser for the structured tokens of the line protocol (the inverse of absMsg.token), so that RT
// lines can be re-executed from a replay file

type ttree struct {
	atom string
	name string
	kids []*ttree
	node bool
}

func parseTTree(s string, i int) (*ttree, int) {
	j := i
	for j < len(s) && s[j] != '(' && s[j] != ')' && s[j] != ';' {
		j++
	}
	if j < len(s) && s[j] == '(' {
		t := &ttree{name: s[i:j], node: true}
		j++
		if j < len(s) && s[j] == ')' {
			return t, j + 1
		}
		for {
			k, nj := parseTTree(s, j)
			t.kids = append(t.kids, k)
			j = nj
			if j >= len(s) {
				panic("bad token")
			}
			if s[j] == ';' {
				j++
				continue
			}
			if s[j] == ')' {
				return t, j + 1
			}
			panic("bad token")
		}
	}
	return &ttree{atom: s[i:j]}, j
}

func unhxRaw(s string) []byte {
	if s == "" {
		return []byte{}
	}
	return unhx(s)
}

func ttNode(t *ttree) *Node {
	if t.node {
		switch t.name {
		case "A":
			n := &Node{K: KArr}
			for _, k := range t.kids {
				n.A = append(n.A, ttNode(k))
			}
			return n
		case "M":
			n := &Node{K: KMap}
			for i, k := range t.kids {
				if i%2 == 0 {
					n.A = append(n.A, nStr(unhxRaw(k.atom)))
				} else {
					n.A = append(n.A, ttNode(k))
				}
			}
			return n
		}
		panic("bad value node " + t.name)
	}
	a := t.atom
	switch a {
	case "n":
		return nNil()
	case "t":
		return nBool(true)
	case "f":
		return nBool(false)
	case "U":
		return &Node{K: KBad}
	}
	body := a[1:]
	switch a[0] {
	case 'i':
		return nInt(atoi64(body))
	case 'u':
		u, _ := strconv.ParseUint(body, 10, 64)
		return nUint(u)
	case 'F':
		u, _ := strconv.ParseUint(body, 16, 64)
		return &Node{K: KF32, Bits: u}
	case 'D':
		u, _ := strconv.ParseUint(body, 16, 64)
		return &Node{K: KF64, Bits: u}
	case 's':
		return nStr(unhxRaw(body))
	case 'b':
		return nBin(unhxRaw(body))
	case 'p', 'j':
		n := nBin(unhxRaw(body))
		n.X = string(a[0])
		return n
	case 'd', 'm':
		n := nInt(atoi64(body))
		n.X = string(a[0])
		return n
	}
	panic("bad value atom " + a)
}

func ttOpts(t *ttree) *protocol.MessageOptions {
	if !t.node {
		return nil
	}
	o := &protocol.MessageOptions{}
	if t.kids[0].atom != "-" {
		n := int(atoi64(t.kids[0].atom))
		o.Size = &n
	}
	o.Chunk = string(unhx(t.kids[1].atom))
	o.Compressed = string(unhx(t.kids[2].atom))
	return o
}

func ttInstant(t *ttree) time.Time {
	p := strings.Split(t.atom, ".")
	return time.Unix(atoi64(p[0]), atoi64(p[1])).In(time.FixedZone("z", int(atoi64(p[2]))))
}

func ttEntries(t *ttree) []absEntry {
	var es []absEntry
	for _, k := range t.kids {
		es = append(es, absEntry{t: ttInstant(k.kids[0]), rec: ttNode(k.kids[1])})
	}
	return es
}

func ttHelo(t *ttree) *protocol.HeloOpts {
	if !t.node {
		return nil
	}
	return &protocol.HeloOpts{Nonce: unhx(t.kids[0].atom), Auth: unhx(t.kids[1].atom), Keepalive: t.kids[2].atom == "t"}
}

func parseAbs(tok string) *absMsg {
	t, _ := parseTTree(tok, 0)
	a := &absMsg{kind: t.name}
	k := t.kids
	switch t.name {
	case "MSG":
		a.tag, a.ts, a.rec, a.opts = unhx(k[0].atom), atoi64(k[1].atom), ttNode(k[2]), ttOpts(k[3])
	case "EXT":
		a.tag, a.t, a.rec, a.opts = unhx(k[0].atom), ttInstant(k[1]), ttNode(k[2]), ttOpts(k[3])
	case "FWD":
		a.tag, a.entries, a.opts = unhx(k[0].atom), ttEntries(k[1]), ttOpts(k[2])
	case "PFM":
		a.tag, a.stream, a.opts = unhx(k[0].atom), unhx(k[1].atom), ttOpts(k[2])
	case "ENT":
		a.ts, a.rec = atoi64(k[0].atom), ttNode(k[1])
	case "EEX":
		a.t, a.rec = ttInstant(k[0]), ttNode(k[1])
	case "ELS", "PCK":
		a.entries = ttEntries(k[0])
	case "OPT":
		a.opts = ttOpts(k[0])
	case "ACK":
		a.bs = [][]byte{unhx(k[0].atom)}
	case "HOP":
		a.helo = ttHelo(t)
	case "HELO":
		a.bs = [][]byte{unhx(k[0].atom)}
		a.helo = ttHelo(k[1])
	case "PING":
		for _, x := range k {
			a.bs = append(a.bs, unhx(x.atom))
		}
	case "PONG":
		a.bs = [][]byte{unhx(k[0].atom), unhx(k[2].atom), unhx(k[3].atom), unhx(k[4].atom)}
		a.flag = k[1].atom == "t"
	default:
		panic("parseAbs " + t.name)
	}
	return a
}

func init() {
	opsArgs["RT"] = func(a []string) ([]string, string) {
		return rtExec(parseAbs(a[2]), nil, a[0], a[1])
	}
}
