package main

import (
	"runtime/metrics"
	"bytes"
	"fmt"
	"io"
	"os"
	"os/exec"
	"runtime"
	"strings"
	"time"

	"github.com/IBM/fluent-forward-go/fluent/protocol"
	"github.com/tinylib/msgp/msgp"
)

// DEC <type> <B|S> <cls> <F|Uhex> <hex> => ok <consumed> <rendered> | err | panic <why> | hang  [~ <same for a fresh receiver>]
//   B = UnmarshalMsg (slice), S = DecodeMsg from a non-seekable stream.
//   a used receiver is one into which <Uhex> was decoded first (a fresh one if that failed).

type codec interface {
	msgp.Unmarshaler
	msgp.Decodable
}

func newRecv(ty string) codec {
	switch ty {
	case "Message":
		return &protocol.Message{}
	case "MessageExt":
		return &protocol.MessageExt{}
	case "Forward":
		return &protocol.ForwardMessage{}
	case "Packed":
		return &protocol.PackedForwardMessage{}
	case "Entry":
		return &protocol.Entry{}
	case "EntryExt":
		return &protocol.EntryExt{}
	case "EntryList":
		return &protocol.EntryList{}
	case "Options":
		return &protocol.MessageOptions{}
	case "Ack":
		return &protocol.AckMessage{}
	case "HeloOpts":
		return &protocol.HeloOpts{}
	case "Helo":
		return &protocol.Helo{}
	case "Ping":
		return &protocol.Ping{}
	case "Pong":
		return &protocol.Pong{}
	}
	panic("unknown type " + ty)
}

var codecTypes = []string{"Message", "MessageExt", "Forward", "Packed", "Entry", "EntryExt", "EntryList", "Options", "Ack", "HeloOpts", "Helo", "Ping", "Pong"}

// plainReader hides Seek/WriteTo so that msgp sees a network-like stream
type plainReader struct{ r *bytes.Reader }

func (p plainReader) Read(b []byte) (int, error) { return p.r.Read(b) }

// decodeInto runs one decode; returns consumed (valid when err == nil)
func decodeInto(rv codec, path string, b []byte) (consumed int, err error) {
	n, _, e := decodeIntoS(rv, path, b)
	return n, e
}

// decodeIntoS also returns what the caller does next with its memory: overwrite the input slice it decoded from
// (slice path) / let the reader take in the next 8 KiB from the connection (stream path)
func decodeIntoS(rv codec, path string, b []byte) (consumed int, reuse func(), err error) {
	if path == "B" {
		in := append([]byte{}, b...)
		a0 := heapAllocs()
		left, e := rv.UnmarshalMsg(in)
		lastDecAlloc = heapAllocs() - a0
		if e != nil {
			return 0, nil, e
		}
		return len(b) - len(left), func() {
			for i := range in {
				in[i] = 0x5a
			}
		}, nil
	}
	br := bytes.NewReader(b)
	rd := msgp.NewReader(plainReader{br})
	if e := rv.DecodeMsg(rd); e != nil {
		return 0, nil, e
	}
	return len(b) - br.Len() - rd.Buffered(), func() {
		rd.Reset(bytes.NewReader(bytes.Repeat([]byte{0x5a}, 16384)))
		for i := 0; i < 4; i++ {
			if _, e := rd.R.Peek(2048); e != nil {
				break
			}
			_, _ = rd.R.Skip(2048)
		}
	}, nil
}

// bytes requested from the heap so far (runtime/metrics: no stop-the-world; large objects are
// counted at once, small ones when their span is handed back, which is precise enough for a
// bound with megabytes of slack)
var allocSample = []metrics.Sample{{Name: "/gc/heap/allocs:bytes"}}

func heapAllocs() uint64 {
	metrics.Read(allocSample)
	if allocSample[0].Value.Kind() != metrics.KindUint64 {
		return 0
	}
	return allocSample[0].Value.Uint64()
}

// heap bytes requested by the latest slice-path decode (UnmarshalMsg call alone)
var lastDecAlloc uint64

// withWatchdog runs f in its own goroutine; a panic or a timeout becomes an observation
func withWatchdog(f func() string) string {
	ch := make(chan string, 1)
	go func() {
		defer func() {
			if r := recover(); r != nil {
				ch <- "panic " + sanitize(fmt.Sprint(r))
			}
		}()
		ch <- f()
	}()
	select {
	case s := <-ch:
		return s
	case <-time.After(20 * time.Second):
		return "hang"
	}
}

// ["other", 9, {"e": ext0(8 bytes), "l": [ext0(8 bytes), ext5-time], "r": ext(77)}]
var decOther = nArr(nStr([]byte("other")), nInt(9), nMap(
	nStr([]byte("e")), nExt(0, []byte{0x11, 0x22, 0x33, 0x44, 0x05, 0x06, 0x07, 0x08}),
	nStr([]byte("l")), nArr(nExt(0, []byte{0x51, 0x52, 0x53, 0x54, 0x01, 0x02, 0x03, 0x04}), nExt(5, []byte{0, 0, 0, 0, 0x5f, 0x5e, 0x10, 0x00, 0, 0, 0, 9})),
	nStr([]byte("r")), nExt(77, []byte{9, 9, 9}))).Enc()

func decObs(ty, path string, prev []byte, havePrev bool, b []byte) string {
	return withWatchdog(func() string {
		rv := newRecv(ty)
		if havePrev {
			if _, err := decodeInto(rv, path, prev); err != nil {
				rv = newRecv(ty)
			}
		}
		n, reuse, err := decodeIntoS(rv, path, b)
		if err != nil {
			return "err"
		}
		first := renderMsg(rv)
		reuse()
		// … and the library goes on to decode something else: a message whose record holds extension values of
		// every registered kind, through both paths (objects handed out by a registry must not be shared)
		var o1, o2 protocol.Message
		_, _ = o1.UnmarshalMsg(append([]byte{}, decOther...))
		_ = o2.DecodeMsg(msgp.NewReader(bytes.NewReader(decOther)))
		if again := renderMsg(rv); again != first {
			// the decoded value looks into memory that belongs to the caller / the reader
			return fmt.Sprintf("ok %d %s aliased", n, first)
		}
		return fmt.Sprintf("ok %d %s", n, first)
	})
}

// Declared 32-bit counts / lengths far beyond the input size make msgp allocate before it reads
// (count-driven allocation).  Such inputs can kill the process with a fatal out-of-memory error,
// which no recover() catches, so they are executed in a child process under an address-space
// limit (slice path, where C10 demands proportionate memory) or skipped (stream path).
func suspect(b []byte) (count bool, length bool) {
	// every decoder examines lead bytes only at token boundaries of the flattened object stream,
	// and the length of a token depends on the token alone: walk the tokens from offset 0
	i := 0
	be := func(i, w int) uint64 {
		var v uint64
		for j := 0; j < w; j++ {
			v = v<<8 | uint64(b[i+j])
		}
		return v
	}
	for i < len(b) {
		c := b[i]
		hdr, pay := 1, uint64(0)
		switch {
		case c < 0x80, c >= 0xe0, c >= 0x80 && c < 0xa0:
		case c >= 0xa0 && c < 0xc0:
			pay = uint64(c & 0x1f)
		default:
			switch c {
			case 0xc0, 0xc2, 0xc3:
			case 0xc4, 0xd9:
				hdr = 2
				if i+hdr > len(b) {
					return
				}
				pay = be(i+1, 1)
			case 0xc5, 0xda:
				hdr = 3
				if i+hdr > len(b) {
					return
				}
				pay = be(i+1, 2)
			case 0xc6, 0xdb:
				hdr = 5
				if i+hdr > len(b) {
					return
				}
				pay = be(i+1, 4)
				if pay > uint64(len(b)-i) && pay > 1<<20 {
					length = true
				}
			case 0xc7:
				hdr = 3
				if i+hdr > len(b) {
					return
				}
				pay = be(i+1, 1)
			case 0xc8:
				hdr = 4
				if i+hdr > len(b) {
					return
				}
				pay = be(i+1, 2)
			case 0xc9:
				hdr = 6
				if i+hdr > len(b) {
					return
				}
				pay = be(i+1, 4)
				if pay > uint64(len(b)-i) && pay > 1<<20 {
					length = true
				}
			case 0xca, 0xce, 0xd2:
				hdr = 5
			case 0xcb, 0xcf, 0xd3:
				hdr = 9
			case 0xcc, 0xd0:
				hdr = 2
			case 0xcd, 0xd1:
				hdr = 3
			case 0xd4:
				hdr = 3
			case 0xd5:
				hdr = 4
			case 0xd6:
				hdr = 6
			case 0xd7:
				hdr = 10
			case 0xd8:
				hdr = 18
			case 0xdc, 0xde:
				hdr = 3
			case 0xdd, 0xdf:
				hdr = 5
				if i+hdr > len(b) {
					return
				}
				if n := be(i+1, 4); n > uint64(len(b)) && n > 50000 {
					count = true
				}
			default: // 0xc1
				return
			}
		}
		if uint64(i)+uint64(hdr)+pay > uint64(len(b)) {
			return
		}
		i += hdr + int(pay)
	}
	return
}

// runChild re-executes one op line in a child process under `ulimit -v`; the child appends
// alloc=<TotalAlloc delta>
func runChild(op string, a []string) string {
	line := "1 - " + op + " " + strings.Join(a, " ") + "\n"
	cmd := exec.Command("sh", "-c", "ulimit -v 3000000; exec \"$0\" replay", os.Args[0])
	cmd.Env = append(os.Environ(), "FV_CHILD=1", "GOMEMLIMIT=2GiB")
	cmd.Stdin = strings.NewReader(line)
	out, err := cmd.Output()
	if i := strings.Index(string(out), " => "); i >= 0 {
		return strings.TrimSpace(string(out)[i+4:])
	}
	_ = err
	return "crash alloc=oom"
}

func init() {
	ops["DEC"] = func(a []string) string {
		ty, path, rvs, b := a[0], a[1], a[3], unhx(a[4])
		if cnt, ln := suspect(b); cnt || ln {
			if path == "S" {
				return "skip"
			}
			if os.Getenv("FV_CHILD") == "" {
				// declared counts *and* declared lengths far beyond the input: under the limit of a child
				return runChild("DEC", a)
			}
		}
		if os.Getenv("FV_CHILD") != "" {
			var m0, m1 runtime.MemStats
			runtime.ReadMemStats(&m0)
			obs := decObs(ty, path, nil, false, b)
			runtime.ReadMemStats(&m1)
			if rvs != "F" {
				// a used receiver: as in the parent, the used result first, then the fresh one
				used := decObs(ty, path, unhx(rvs[1:]), true, b)
				return fmt.Sprintf("%s alloc=%d ~ %s", used, m1.TotalAlloc-m0.TotalAlloc, obs)
			}
			return fmt.Sprintf("%s alloc=%d", obs, m1.TotalAlloc-m0.TotalAlloc)
		}
		// slice path: what the decode requested from the heap goes with the observation (C10, memory clause)
		allocTok := func() string {
			if path != "B" {
				return ""
			}
			return fmt.Sprintf(" alloc=%d", lastDecAlloc)
		}
		if rvs == "F" {
			lastDecAlloc = 0
			return decObs(ty, path, nil, false, b) + allocTok()
		}
		prev := unhx(rvs[1:])
		used := decObs(ty, path, prev, true, b)
		lastDecAlloc = 0
		fresh := decObs(ty, path, nil, false, b)
		return used + allocTok() + " ~ " + fresh
	}
}

var _ = io.EOF
var _ = strings.Join
