package main

import (
	"bytes"
	"fmt"
	"time"

	"github.com/IBM/fluent-forward-go/fluent/protocol"
	"github.com/tinylib/msgp/msgp"
)

// IND <ctor> <how> <hex of another encoded value of the same type> => <second before> <second after> <fresh third>
//   two values are built by the same constructor with the same arguments; the first is then changed through
//   its public API (how = um: UnmarshalMsg of the given bytes into it, dm: DecodeMsg, ch: Chunk() / field writes);
//   the second must not notice, and a third built afterwards must look like the second did at birth.
type indVal interface {
	msgp.Unmarshaler
	msgp.Decodable
}

func indMake(ctor string) (indVal, func(indVal) string) {
	rec := map[string]interface{}{"k": "v"}
	el := func() protocol.EntryList {
		return protocol.EntryList{{Timestamp: protocol.EventTime{Time: time.Unix(5, 6).UTC()}, Record: map[string]interface{}{"k": "v"}}}
	}
	switch ctor {
	case "HELO0":
		return protocol.NewHelo(nil), func(v indVal) string {
			h := v.(*protocol.Helo)
			if h.Options == nil {
				return "helo:nil"
			}
			return fmt.Sprintf("helo:%s,%s,%v", hx(h.Options.Nonce), hx(h.Options.Auth), h.Options.Keepalive)
		}
	case "PING":
		p, _ := protocol.NewPing("host", []byte("key"), []byte("salt0123456789ab"), []byte("nonce"))
		return p, func(v indVal) string {
			q := v.(*protocol.Ping)
			return fmt.Sprintf("ping:%s,%s,%s", hx([]byte(q.ClientHostname)), hx(q.SharedKeySalt), hx([]byte(q.SharedKeyHexDigest)))
		}
	case "PONG":
		p, _ := protocol.NewPong(true, "", "srv", []byte("key"), &protocol.Helo{Options: &protocol.HeloOpts{Nonce: []byte("n")}},
			&protocol.Ping{SharedKeySalt: []byte("salt0123456789ab")})
		return p, func(v indVal) string {
			q := v.(*protocol.Pong)
			return fmt.Sprintf("pong:%v,%s,%s", q.AuthResult, hx([]byte(q.ServerHostname)), hx([]byte(q.SharedKeyHexDigest)))
		}
	case "NPK":
		m, _ := protocol.NewPackedForwardMessage("t", el())
		return m, func(v indVal) string { return renderMsg(v.(*protocol.PackedForwardMessage)) }
	case "NCP":
		m, _ := protocol.NewCompressedPackedForwardMessage("t", el())
		return m, func(v indVal) string {
			q := v.(*protocol.PackedForwardMessage)
			p, _, _ := gunzipOne(q.EventStream)
			return fmt.Sprintf("%s|%s|%s", hx([]byte(q.Tag)), hx(p), renderOpts(q.Options))
		}
	case "NFW":
		return protocol.NewForwardMessage("t", el()), func(v indVal) string {
			q := v.(*protocol.ForwardMessage)
			return fmt.Sprintf("%s|%s|%s", hx([]byte(q.Tag)), renderEntries(q.Entries), renderOpts(q.Options))
		}
	default: // NMS
		m := protocol.NewMessage("t", rec)
		m.Timestamp = 7
		return m, func(v indVal) string {
			q := v.(*protocol.Message)
			return fmt.Sprintf("%s|%d|%s|%s", hx([]byte(q.Tag)), q.Timestamp, renderVal(q.Record), renderOpts(q.Options))
		}
	}
}

// an encoded value of the same type with different content
func indOther(ctor string, r *Rng) []byte {
	var b []byte
	switch ctor {
	case "HELO0":
		b, _ = (&protocol.Helo{MessageType: "HELO", Options: &protocol.HeloOpts{Nonce: r.Bytes(1 + r.Intn(8)), Auth: r.Bytes(r.Intn(4)), Keepalive: false}}).MarshalMsg(nil)
	case "PING":
		b, _ = (&protocol.Ping{MessageType: "PING", ClientHostname: "other", SharedKeySalt: r.Bytes(16), SharedKeyHexDigest: "dd"}).MarshalMsg(nil)
	case "PONG":
		b, _ = (&protocol.Pong{MessageType: "PONG", AuthResult: false, Reason: "no", ServerHostname: "other", SharedKeyHexDigest: "ee"}).MarshalMsg(nil)
	case "NPK", "NCP":
		n := 9
		b, _ = (&protocol.PackedForwardMessage{Tag: "other", EventStream: r.Bytes(1 + r.Intn(20)),
			Options: &protocol.MessageOptions{Size: &n, Chunk: "cc", Compressed: "x"}}).MarshalMsg(nil)
	case "NFW":
		n := 9
		b, _ = (&protocol.ForwardMessage{Tag: "other", Entries: protocol.EntryList{}, Options: &protocol.MessageOptions{Size: &n, Chunk: "cc"}}).MarshalMsg(nil)
	default:
		n := 9
		b, _ = (&protocol.Message{Tag: "other", Timestamp: 1, Record: map[string]interface{}{"z": int64(1)}, Options: &protocol.MessageOptions{Size: &n}}).MarshalMsg(nil)
	}
	return b
}

func init() {
	ops["IND"] = func(a []string) string {
		ctor, how, other := a[0], a[1], unhx(a[2])
		first, _ := indMake(ctor)
		second, render := indMake(ctor)
		before := render(second)
		switch how {
		case "um":
			_, _ = first.UnmarshalMsg(other)
		case "dm":
			_ = msgp.Decode(bytes.NewReader(other), first)
		case "ch":
			if ce, ok := first.(protocol.ChunkEncoder); ok {
				_, _ = ce.Chunk()
			}
			_, _ = first.UnmarshalMsg(other)
		}
		after := render(second)
		third, _ := indMake(ctor)
		return fmt.Sprintf("%s %s %s", before, after, render(third))
	}
	suites["indep"] = func(o *Out, r *Rng, n int, tier string) {
		ctors := []string{"HELO0", "PING", "PONG", "NPK", "NCP", "NFW", "NMS"}
		for i := 0; i < n; i++ {
			c := ctors[r.Intn(len(ctors))]
			o.emit("C07", "IND", c, []string{"um", "dm", "ch"}[r.Intn(3)], hx(indOther(c, r)))
		}
	}
}
