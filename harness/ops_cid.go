package main

import (
	"bytes"
	"encoding/base64"
	"errors"
	"fmt"
	"strings"
	"sync"

	"github.com/IBM/fluent-forward-go/fluent/protocol"
	"github.com/google/uuid"
	"github.com/tinylib/msgp/msgp"
)

// CID <kind> <optstate> => id1 id2 optsAfter chunkInMarshalMsg chunkInEncodeMsg getChunk
//   optstate: N nil options | E empty options | S options with size only | P<hex> caller-supplied chunk
// CID stress <goroutines> <n> => dups=<k> bad=<k>

func cidMsg(kind, st string) (protocol.ChunkEncoder, func() *protocol.MessageOptions) {
	var o *protocol.MessageOptions
	switch st[0] {
	case 'E':
		o = &protocol.MessageOptions{}
	case 'S':
		n := 3
		o = &protocol.MessageOptions{Size: &n}
	case 'P':
		o = &protocol.MessageOptions{Chunk: string(unhx(st[1:]))}
	}
	rec := map[string]interface{}{"chunk": "decoy", "k": int64(1)}
	switch kind {
	case "MSG":
		m := &protocol.Message{Tag: "t", Timestamp: 5, Record: rec, Options: o}
		return m, func() *protocol.MessageOptions { return m.Options }
	case "EXT":
		m := &protocol.MessageExt{Tag: "t", Timestamp: protocol.EventTimeNow(), Record: rec, Options: o}
		return m, func() *protocol.MessageOptions { return m.Options }
	case "FWD":
		m := &protocol.ForwardMessage{Tag: "t", Entries: protocol.EntryList{{Timestamp: protocol.EventTimeNow(), Record: rec}}, Options: o}
		return m, func() *protocol.MessageOptions { return m.Options }
	default:
		m := &protocol.PackedForwardMessage{Tag: "t", EventStream: []byte{0x92, 0xd7, 0, 0, 0, 0, 1, 0, 0, 0, 2, 0x80}, Options: o}
		return m, func() *protocol.MessageOptions { return m.Options }
	}
}

// chunk option of an encoded mode message, found by the independent parser
func chunkInEncoding(b []byte) []byte {
	t, n, err := mpParse(b, 0)
	if err != nil || n != len(b) || t.K != KArr || len(t.A) < 3 {
		return nil
	}
	opt := t.A[len(t.A)-1]
	if opt.K != KMap {
		return nil
	}
	for i := 0; i+1 < len(opt.A); i += 2 {
		if string(opt.A[i].S) == "chunk" {
			return opt.A[i+1].S
		}
	}
	return nil
}

func init() {
	ops["CID"] = func(a []string) string {
		if a[0] == "stress" {
			g, n := int(atoi64(a[1])), int(atoi64(a[2]))
			var mu sync.Mutex
			seen := make(map[string]bool, g*n)
			dups, bad, panics := 0, 0, 0
			var wg sync.WaitGroup
			for i := 0; i < g; i++ {
				wg.Add(1)
				go func(i int) {
					defer wg.Done()
					defer func() {
						if r := recover(); r != nil {
							mu.Lock()
							panics++
							mu.Unlock()
						}
					}()
					local := make([]string, 0, n)
					for j := 0; j < n; j++ {
						m, _ := cidMsg([]string{"MSG", "EXT", "FWD", "PFM"}[(i+j)%4], "N")
						id, err := m.Chunk()
						if err != nil {
							id = ""
						}
						local = append(local, id)
					}
					mu.Lock()
					for _, id := range local {
						raw, err := base64.StdEncoding.DecodeString(id)
						if err != nil || len(raw) != 16 || raw[6]>>4 != 4 || raw[8]>>6 != 2 {
							bad++
						}
						if seen[id] {
							dups++
						}
						seen[id] = true
					}
					mu.Unlock()
				}(i)
			}
			wg.Wait()
			return fmt.Sprintf("dups=%d bad=%d panics=%d", dups, bad, panics)
		}
		st := a[1]
		preEncode := strings.HasPrefix(st, "e")
		st = strings.TrimPrefix(st, "e")
		m, opts := cidMsg(a[0], st)
		if preEncode {
			// the message is encoded (both paths) before it gets its id: the later encodings must still carry the id
			_, _ = m.(msgp.Marshaler).MarshalMsg(nil)
			var pre bytes.Buffer
			_ = msgp.Encode(&pre, m)
		}
		id1, err := m.Chunk()
		if err != nil {
			return "err"
		}
		id2, _ := m.Chunk()
		after := renderOpts(opts())
		mb, err := m.(msgp.Marshaler).MarshalMsg(nil)
		if err != nil {
			return "err"
		}
		var buf bytes.Buffer
		if err := msgp.Encode(&buf, m); err != nil {
			return "err"
		}
		g, _ := protocol.GetChunk(mb)
		return fmt.Sprintf("%s %s %s %s %s %s", hx([]byte(id1)), hx([]byte(id2)), after, hx(chunkInEncoding(mb)), hx(chunkInEncoding(buf.Bytes())), hx([]byte(g)))
	}
	suites["cid"] = func(o *Out, r *Rng, n int, tier string) {
		kinds := []string{"MSG", "EXT", "FWD", "PFM"}
		for i := 0; i < n; i++ {
			st := []string{"N", "E", "S", "P"}[r.Intn(4)]
			if st == "P" {
				st = "P" + hx(genChunkID(r))
			}
			if r.Bool() {
				st = "e" + st
			}
			o.emit("C12", "CID", kinds[r.Intn(4)], st)
		}
		// seed-independent: every kind x every option state, encoded before the id is asked for
		for _, k := range kinds {
			for _, st := range []string{"eN", "eE", "eS", "eP" + hx([]byte("AAAAAAAAAAAAAAAAAAAAAA=="))} {
				o.emit("C12", "CID", k, st)
			}
		}
		g, per := 16, 2000
		if tier == "thorough" {
			per = 40000
		}
		o.emit("C12", "CID", "stress", itoa(int64(g)), itoa(int64(per)))
	}
}

// CIDS <ctor>:<action> … => per message "<optsBefore>|<id>|<optsAfter>" … final=<id,id,…>
//   ctor: NM NewMessage | NX NewMessageExt | NF NewForwardMessage | NP NewPackedForwardMessage | NB …FromBytes |
//         NC NewCompressedPackedForwardMessage | ND NewCompressed…FromBytes
//   action: c = Chunk() | p<hex> = the caller puts this id into the options first, then Chunk() | n = nothing
// all messages of one line live in the same process at the same time
type failingReader struct{}

func (failingReader) Read([]byte) (int, error) { return 0, errors.New("entropy source unavailable") }

func cidsCtor(k string, i int) (protocol.ChunkEncoder, func() **protocol.MessageOptions, error) {
	rec := map[string]interface{}{"k": int64(i)}
	el := protocol.EntryList{{Timestamp: protocol.EventTimeNow(), Record: rec}, {Timestamp: protocol.EventTimeNow(), Record: rec}}
	switch k {
	case "NM":
		m := protocol.NewMessage("t", rec)
		return m, func() **protocol.MessageOptions { return &m.Options }, nil
	case "NX":
		m := protocol.NewMessageExt("t", rec)
		return m, func() **protocol.MessageOptions { return &m.Options }, nil
	case "NF":
		m := protocol.NewForwardMessage("t", el)
		return m, func() **protocol.MessageOptions { return &m.Options }, nil
	case "NP":
		m, err := protocol.NewPackedForwardMessage("t", el)
		if err != nil {
			return nil, nil, err
		}
		return m, func() **protocol.MessageOptions { return &m.Options }, nil
	case "NB":
		m := protocol.NewPackedForwardMessageFromBytes("t", []byte{0x92, 0xd7, 0, 0, 0, 0, 1, 0, 0, 0, 2, 0x80})
		return m, func() **protocol.MessageOptions { return &m.Options }, nil
	case "NC":
		m, err := protocol.NewCompressedPackedForwardMessage("t", el)
		if err != nil {
			return nil, nil, err
		}
		return m, func() **protocol.MessageOptions { return &m.Options }, nil
	default:
		m, err := protocol.NewCompressedPackedForwardMessageFromBytes("t", []byte{0x92, 0xd7, 0, 0, 0, 0, 1, 0, 0, 0, 2, 0x80})
		if err != nil {
			return nil, nil, err
		}
		return m, func() **protocol.MessageOptions { return &m.Options }, nil
	}
}

func init() {
	ops["CIDS"] = func(a []string) string {
		type ent struct {
			m    protocol.ChunkEncoder
			opts func() **protocol.MessageOptions
		}
		var ms []ent
		var out []string
		for i, spec := range a {
			k, act := spec[:2], spec[3:]
			m, opts, err := cidsCtor(k, i)
			if err != nil {
				return "err"
			}
			ms = append(ms, ent{m, opts})
			before := renderOpts(*opts())
			id := ""
			switch act[0] {
			case 'p':
				if *opts() == nil {
					*opts() = &protocol.MessageOptions{}
				}
				(*opts()).Chunk = string(unhx(act[1:]))
				id, _ = m.Chunk()
			case 'c':
				id, _ = m.Chunk()
			case 'x':
				// the random source fails while the id is drawn (the call may report an error or panic); once the
				// source works again the message gets a proper id like any other
				uuid.SetRand(failingReader{})
				func() {
					defer func() { _ = recover() }()
					_, _ = m.Chunk()
				}()
				uuid.SetRand(nil)
				id, _ = m.Chunk()
			}
			out = append(out, fmt.Sprintf("%s|%s|%s", before, hx([]byte(id)), renderOpts(*opts())))
		}
		fin := make([]string, len(ms))
		for i, e := range ms {
			if o := *e.opts(); o != nil {
				fin[i] = hx([]byte(o.Chunk))
			} else {
				fin[i] = "-"
			}
		}
		return strings.Join(out, " ") + " final=" + strings.Join(fin, ",")
	}
	old := suites["cid"]
	suites["cid"] = func(o *Out, r *Rng, n int, tier string) {
		old(o, r, n*3/4, tier)
		ctors := []string{"NM", "NX", "NF", "NP", "NB", "NC", "ND"}
		for i := 0; i < n/4; i++ {
			k := 2 + r.Intn(5)
			args := make([]string, k)
			for j := range args {
				c := ctors[r.Intn(len(ctors))]
				if j > 0 && r.Chance(40) {
					c = args[j-1][:2] // the same constructor twice in a row
				}
				act := "c"
				switch r.Intn(7) {
				case 2:
					act = "x"
				case 0:
					act = "p" + hx(genChunkID(r))
				case 1:
					act = "n"
				}
				args[j] = c + ":" + act
			}
			o.emit("C12", "CIDS", args...)
		}
	}
}
