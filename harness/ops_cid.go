package main

import (
	"bytes"
	"encoding/base64"
	"fmt"
	"sync"

	"github.com/IBM/fluent-forward-go/fluent/protocol"
	"github.com/tinylib/msgp/msgp"
)

// CID <kind> <optstate> => id1 id2 optsAfter chunkInMarshalMsg chunkInEncodeMsg getChunk
//   optstate: N nil options | E empty options | S options with size only | P<hex> caller-supplied chunk
// CID stress <goroutines> <n> => dups=<k> bad=<k>

func cidMsg(kind, st string) (protocol.ChunkEncoder, func() *protocol.MessageOptions) {
	var o *protocol.MessageOptions
	switch st[0] {
	case 'E':
		o = &protocol.MessageOptions{}
	case 'S':
		n := 3
		o = &protocol.MessageOptions{Size: &n}
	case 'P':
		o = &protocol.MessageOptions{Chunk: string(unhx(st[1:]))}
	}
	rec := map[string]interface{}{"chunk": "decoy", "k": int64(1)}
	switch kind {
	case "MSG":
		m := &protocol.Message{Tag: "t", Timestamp: 5, Record: rec, Options: o}
		return m, func() *protocol.MessageOptions { return m.Options }
	case "EXT":
		m := &protocol.MessageExt{Tag: "t", Timestamp: protocol.EventTimeNow(), Record: rec, Options: o}
		return m, func() *protocol.MessageOptions { return m.Options }
	case "FWD":
		m := &protocol.ForwardMessage{Tag: "t", Entries: protocol.EntryList{{Timestamp: protocol.EventTimeNow(), Record: rec}}, Options: o}
		return m, func() *protocol.MessageOptions { return m.Options }
	default:
		m := &protocol.PackedForwardMessage{Tag: "t", EventStream: []byte{0x92, 0xd7, 0, 0, 0, 0, 1, 0, 0, 0, 2, 0x80}, Options: o}
		return m, func() *protocol.MessageOptions { return m.Options }
	}
}

// chunk option of an encoded mode message, found by the independent parser
func chunkInEncoding(b []byte) []byte {
	t, n, err := mpParse(b, 0)
	if err != nil || n != len(b) || t.K != KArr || len(t.A) < 3 {
		return nil
	}
	opt := t.A[len(t.A)-1]
	if opt.K != KMap {
		return nil
	}
	for i := 0; i+1 < len(opt.A); i += 2 {
		if string(opt.A[i].S) == "chunk" {
			return opt.A[i+1].S
		}
	}
	return nil
}

func init() {
	ops["CID"] = func(a []string) string {
		if a[0] == "stress" {
			g, n := int(atoi64(a[1])), int(atoi64(a[2]))
			var mu sync.Mutex
			seen := make(map[string]bool, g*n)
			dups, bad := 0, 0
			var wg sync.WaitGroup
			for i := 0; i < g; i++ {
				wg.Add(1)
				go func(i int) {
					defer wg.Done()
					local := make([]string, 0, n)
					for j := 0; j < n; j++ {
						m, _ := cidMsg([]string{"MSG", "EXT", "FWD", "PFM"}[(i+j)%4], "N")
						id, err := m.Chunk()
						if err != nil {
							id = ""
						}
						local = append(local, id)
					}
					mu.Lock()
					for _, id := range local {
						raw, err := base64.StdEncoding.DecodeString(id)
						if err != nil || len(raw) != 16 || raw[6]>>4 != 4 || raw[8]>>6 != 2 {
							bad++
						}
						if seen[id] {
							dups++
						}
						seen[id] = true
					}
					mu.Unlock()
				}(i)
			}
			wg.Wait()
			return fmt.Sprintf("dups=%d bad=%d", dups, bad)
		}
		m, opts := cidMsg(a[0], a[1])
		id1, err := m.Chunk()
		if err != nil {
			return "err"
		}
		id2, _ := m.Chunk()
		after := renderOpts(opts())
		mb, err := m.(msgp.Marshaler).MarshalMsg(nil)
		if err != nil {
			return "err"
		}
		var buf bytes.Buffer
		if err := msgp.Encode(&buf, m); err != nil {
			return "err"
		}
		g, _ := protocol.GetChunk(mb)
		return fmt.Sprintf("%s %s %s %s %s %s", hx([]byte(id1)), hx([]byte(id2)), after, hx(chunkInEncoding(mb)), hx(chunkInEncoding(buf.Bytes())), hx([]byte(g)))
	}
	suites["cid"] = func(o *Out, r *Rng, n int, tier string) {
		kinds := []string{"MSG", "EXT", "FWD", "PFM"}
		for i := 0; i < n; i++ {
			st := []string{"N", "E", "S", "P"}[r.Intn(4)]
			if st == "P" {
				st = "P" + hx(genChunkID(r))
			}
			o.emit("C12", "CID", kinds[r.Intn(4)], st)
		}
		g, per := 16, 2000
		if tier == "thorough" {
			per = 40000
		}
		o.emit("C12", "CID", "stress", itoa(int64(g)), itoa(int64(per)))
	}
}
