package main

import (
	"bytes"
	"fmt"
	"sync"
	"time"

	"github.com/IBM/fluent-forward-go/fluent/protocol"
)

// PKCONC <goroutines> <n> <seed> => bad=<k> built=<k>
//   g goroutines build packed and compressed messages concurrently (pools shared), keep them, and
//   verify at the end that every message still carries exactly its own entries.

func init() {
	ops["PKCONC"] = func(a []string) string {
		g, n, seed := int(atoi64(a[0])), int(atoi64(a[1])), uint64(atoi64(a[2]))
		type kept struct {
			m    *protocol.PackedForwardMessage
			want []byte
			gz   bool
		}
		var wg sync.WaitGroup
		bad := make([]int, g)
		built := make([]int, g)
		for i := 0; i < g; i++ {
			wg.Add(1)
			go func(i int) {
				defer wg.Done()
				r := &Rng{s: seed + uint64(i)*7919}
				var ks []kept
				for j := 0; j < n; j++ {
					if r.Chance(10) {
						// a call that fails half way (unencodable record after a good entry): whatever it does to
						// the pooled objects on its error path must not disturb anybody else's message
						fl := protocol.EntryList{
							{Timestamp: protocol.EventTime{Time: time.Unix(1, 1)}, Record: map[string]interface{}{"p": "good"}},
							{Timestamp: protocol.EventTime{Time: time.Unix(1, 2)}, Record: map[string]interface{}{"p": make(chan int)}},
						}
						var ferr error
						if r.Bool() {
							_, ferr = protocol.NewPackedForwardMessage("t", fl)
						} else {
							_, ferr = protocol.NewCompressedPackedForwardMessage("t", fl)
						}
						if ferr == nil {
							bad[i]++
						}
					}
					ne := 1 + r.Intn(6)
					el := make(protocol.EntryList, ne)
					var want []byte
					for k := range el {
						el[k] = protocol.EntryExt{Timestamp: protocol.EventTime{Time: time.Unix(int64(i), int64(j*10+k))},
							// one key: the encoding does not depend on map iteration order
							Record: map[string]interface{}{"p": string(bytes.Repeat([]byte{byte('a' + i)}, 20+r.Intn(200)))}}
						want, _ = el[k].MarshalMsg(want)
					}
					var m *protocol.PackedForwardMessage
					var err error
					gz := r.Bool()
					if gz {
						m, err = protocol.NewCompressedPackedForwardMessage("t", el)
					} else {
						m, err = protocol.NewPackedForwardMessage("t", el)
					}
					if err != nil {
						bad[i]++
						continue
					}
					ks = append(ks, kept{m, want, gz})
					built[i]++
				}
				for _, k := range ks {
					got := k.m.EventStream
					if k.gz {
						p, rest, ok := gunzipOne(got)
						if !ok || rest != 0 {
							bad[i]++
							continue
						}
						got = p
					}
					if !bytes.Equal(got, k.want) {
						bad[i]++
					}
				}
			}(i)
		}
		wg.Wait()
		tb, tn := 0, 0
		for i := range bad {
			tb += bad[i]
			tn += built[i]
		}
		return fmt.Sprintf("bad=%d built=%d", tb, tn)
	}
	suites["packedconc"] = func(o *Out, r *Rng, n int, tier string) {
		for i := 0; i < n; i++ {
			o.emit("C07", "PKCONC", "8", "200", itoa(int64(r.Intn(1000000))))
		}
	}
}
