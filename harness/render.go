package main

import (
	"bytes"
	"encoding/hex"
	"fmt"
	"math"
	"sort"
	"strings"
	"time"

	"github.com/IBM/fluent-forward-go/fluent/protocol"
	"github.com/tinylib/msgp/msgp"
)

// canonical rendering of values the real decoders produced (same notation as lean/Driver/Render.lean)

func hexRaw(b []byte) string { return hex.EncodeToString(b) }

func renderVal(v interface{}) string {
	switch x := v.(type) {
	case nil:
		return "n"
	case bool:
		if x {
			return "t"
		}
		return "f"
	case int64:
		return fmt.Sprintf("i%d", x)
	case uint64:
		return fmt.Sprintf("i%d", x)
	case int:
		return fmt.Sprintf("i%d", x)
	case float32:
		return fmt.Sprintf("F%08x", math.Float32bits(x))
	case float64:
		return fmt.Sprintf("D%016x", math.Float64bits(x))
	case string:
		return "s" + hexRaw([]byte(x))
	case []byte:
		return "b" + hexRaw(x)
	case []interface{}:
		p := make([]string, len(x))
		for i, e := range x {
			p[i] = renderVal(e)
		}
		return fmt.Sprintf("A%d[%s]", len(x), strings.Join(p, ","))
	case map[string]interface{}:
		keys := make([]string, 0, len(x))
		for k := range x {
			keys = append(keys, k)
		}
		sort.Slice(keys, func(i, j int) bool { return bytes.Compare([]byte(keys[i]), []byte(keys[j])) < 0 })
		p := make([]string, len(keys))
		for i, k := range keys {
			p[i] = hexRaw([]byte(k)) + ":" + renderVal(x[k])
		}
		return fmt.Sprintf("M%d{%s}", len(keys), strings.Join(p, ","))
	case *protocol.EventTime:
		return fmt.Sprintf("E%d.%d", x.Unix(), x.Nanosecond())
	case protocol.EventTime:
		return fmt.Sprintf("E%d.%d", x.Unix(), x.Nanosecond())
	case time.Time:
		return "T"
	case complex64:
		return "C64"
	case complex128:
		return "C128"
	case *msgp.RawExtension:
		switch x.Type {
		case 5:
			return "T"
		case 3:
			return "C64"
		case 4:
			return "C128"
		}
		return fmt.Sprintf("X%d:%s", uint8(x.Type), hexRaw(x.Data))
	}
	return fmt.Sprintf("?%T", v)
}

func renderOpts(o *protocol.MessageOptions) string {
	if o == nil {
		return "N"
	}
	sz := "-"
	if o.Size != nil {
		sz = fmt.Sprint(*o.Size)
	}
	return fmt.Sprintf("O(%s,%s,%s)", sz, hx([]byte(o.Chunk)), hx([]byte(o.Compressed)))
}

func renderInstant(t time.Time) string { return fmt.Sprintf("%d.%d", t.Unix(), t.Nanosecond()) }

func renderEntries(el protocol.EntryList) string {
	p := make([]string, len(el))
	for i, e := range el {
		p[i] = fmt.Sprintf("(%s,%s)", renderInstant(e.Timestamp.Time), renderVal(e.Record))
	}
	return fmt.Sprintf("%d[%s]", len(el), strings.Join(p, ","))
}

func renderBool(b bool) string {
	if b {
		return "t"
	}
	return "f"
}

func renderMsg(v interface{}) string {
	switch m := v.(type) {
	case *protocol.Message:
		return fmt.Sprintf("tag=%s;ts=%d;rec=%s;opt=%s", hx([]byte(m.Tag)), m.Timestamp, renderVal(m.Record), renderOpts(m.Options))
	case *protocol.MessageExt:
		return fmt.Sprintf("tag=%s;ts=%s;rec=%s;opt=%s", hx([]byte(m.Tag)), renderInstant(m.Timestamp.Time), renderVal(m.Record), renderOpts(m.Options))
	case *protocol.ForwardMessage:
		return fmt.Sprintf("tag=%s;ent=%s;opt=%s", hx([]byte(m.Tag)), renderEntries(m.Entries), renderOpts(m.Options))
	case *protocol.PackedForwardMessage:
		return fmt.Sprintf("tag=%s;str=%s;opt=%s", hx([]byte(m.Tag)), hx(m.EventStream), renderOpts(m.Options))
	case *protocol.Entry:
		return fmt.Sprintf("(%d,%s)", m.Timestamp, renderVal(m.Record))
	case *protocol.EntryExt:
		return fmt.Sprintf("(%s,%s)", renderInstant(m.Timestamp.Time), renderVal(m.Record))
	case *protocol.EntryList:
		return renderEntries(*m)
	case *protocol.MessageOptions:
		return renderOpts(m)
	case *protocol.AckMessage:
		return "ack=" + hx([]byte(m.Ack))
	case *protocol.HeloOpts:
		return fmt.Sprintf("H(%s,%s,%s)", hx(m.Nonce), hx(m.Auth), renderBool(m.Keepalive))
	case *protocol.Helo:
		o := "N"
		if m.Options != nil {
			o = fmt.Sprintf("H(%s,%s,%s)", hx(m.Options.Nonce), hx(m.Options.Auth), renderBool(m.Options.Keepalive))
		}
		return fmt.Sprintf("mt=%s;opt=%s", hx([]byte(m.MessageType)), o)
	case *protocol.Ping:
		return fmt.Sprintf("mt=%s;host=%s;salt=%s;dig=%s;user=%s;pw=%s", hx([]byte(m.MessageType)), hx([]byte(m.ClientHostname)),
			hx(m.SharedKeySalt), hx([]byte(m.SharedKeyHexDigest)), hx([]byte(m.Username)), hx([]byte(m.Password)))
	case *protocol.Pong:
		return fmt.Sprintf("mt=%s;auth=%s;reason=%s;host=%s;dig=%s", hx([]byte(m.MessageType)), renderBool(m.AuthResult),
			hx([]byte(m.Reason)), hx([]byte(m.ServerHostname)), hx([]byte(m.SharedKeyHexDigest)))
	}
	return fmt.Sprintf("?%T", v)
}
