package main

import (
	"bytes"
	"crypto/sha512"
	"encoding/hex"
	"fmt"
	"strings"

	"github.com/IBM/fluent-forward-go/fluent/protocol"
)

// HSH <key> <salt> <nonce> <clientHost> <serverHost> <user> <pw> <tamper> =>
//     ping=<host>,<salt>,<digest>,<user>,<pw> vping=<ok|err> pong=<auth>,<host>,<digest> vpong=<ok|err> h=<pre>:<digest> …
//   the server-side helpers of handshake.go, directly: NewPing / NewPingWithAuth, ValidatePingDigest, NewPong,
//   ValidatePongDigest.  tamper says what the validating side holds differently from the building side:
//   none | key | nonce | salt | host | trunc | upper | empty | extend
//   h= entries: hex SHA-512 of every preimage either side would hash (the instantiation of H in the driver)
func shaHex(parts ...[]byte) (pre []byte, dig string) {
	for _, p := range parts {
		pre = append(pre, p...)
	}
	s := sha512.Sum512(pre)
	return pre, hex.EncodeToString(s[:])
}

func init() {
	ops["HSH"] = func(a []string) string {
		key, salt0, nonce := unhx(a[0]), unhx(a[1]), unhx(a[2])
		// the caller's salt, nonce and key are windows into larger buffers of the caller's (spare capacity behind them)
		window := func(b []byte) ([]byte, []byte) {
			buf := make([]byte, len(b)+96)
			for i := range buf {
				buf[i] = 0xee
			}
			copy(buf, b)
			return buf[:len(b)], buf
		}
		salt, saltBuf := window(salt0)
		nonce, nonceBuf := window(nonce)
		key, keyBuf := window(key)
		untouched := func(w, buf []byte) bool {
			for _, c := range buf[len(w):] {
				if c != 0xee {
					return false
				}
			}
			return true
		}
		chost, shost, user, pw, tamper := string(unhx(a[3])), string(unhx(a[4])), string(unhx(a[5])), string(unhx(a[6])), a[7]
		var ping *protocol.Ping
		var err error
		if user == "" && pw == "" {
			ping, err = protocol.NewPing(chost, key, salt, nonce)
		} else {
			ping, err = protocol.NewPingWithAuth(chost, key, salt, nonce, user, pw)
		}
		if err != nil {
			return "err-newping"
		}
		pong, err := protocol.NewPong(true, "r", shost, key, &protocol.Helo{Options: &protocol.HeloOpts{Nonce: nonce}}, ping)
		if err != nil {
			return "err-newpong"
		}
		out := []string{
			fmt.Sprintf("ping=%s,%s,%s,%s,%s", hx([]byte(ping.ClientHostname)), hx(ping.SharedKeySalt), hx([]byte(ping.SharedKeyHexDigest)), hx([]byte(ping.Username)), hx([]byte(ping.Password))),
		}
		// what the validating side holds
		key2, nonce2, salt2 := key, nonce, salt
		vp := *ping
		vq := *pong
		switch tamper {
		case "key":
			key2 = append(append([]byte{}, key...), 'x')
		case "nonce":
			nonce2 = append(append([]byte{}, nonce...), 0)
		case "salt":
			salt2 = append([]byte{0x55}, salt...)
			vp.SharedKeySalt = salt2
		case "host":
			vp.ClientHostname += "x"
			vq.ServerHostname += "x"
		case "trunc":
			vp.SharedKeyHexDigest = vp.SharedKeyHexDigest[:len(vp.SharedKeyHexDigest)-1]
			vq.SharedKeyHexDigest = vq.SharedKeyHexDigest[:len(vq.SharedKeyHexDigest)/2]
		case "upper":
			vp.SharedKeyHexDigest = strings.ToUpper(vp.SharedKeyHexDigest)
			vq.SharedKeyHexDigest = strings.ToUpper(vq.SharedKeyHexDigest)
		case "empty":
			vp.SharedKeyHexDigest = ""
			vq.SharedKeyHexDigest = ""
		case "extend":
			vp.SharedKeyHexDigest += "0"
			vq.SharedKeyHexDigest += "0"
		}
		res := func(e error) string {
			if e == nil {
				return "ok"
			}
			return "err"
		}
		out = append(out, fmt.Sprintf("vping=%s,%s,%s,%s", hx([]byte(vp.ClientHostname)), hx(vp.SharedKeySalt), hx([]byte(vp.SharedKeyHexDigest)), res(protocol.ValidatePingDigest(&vp, key2, nonce2))))
		out = append(out, fmt.Sprintf("pong=%v,%s,%s", pong.AuthResult, hx([]byte(pong.ServerHostname)), hx([]byte(pong.SharedKeyHexDigest))))
		out = append(out, fmt.Sprintf("vpong=%s,%s,%s", hx([]byte(vq.ServerHostname)), hx([]byte(vq.SharedKeyHexDigest)), res(protocol.ValidatePongDigest(&vq, key2, nonce2, salt2))))
		out = append(out, fmt.Sprintf("held=%s,%s,%s", hx(key2), hx(nonce2), hx(salt2)))
		caller := "intact"
		if !untouched(salt, saltBuf) || !untouched(nonce, nonceBuf) || !untouched(key, keyBuf) ||
			!bytes.Equal(salt, salt0) {
			caller = "modified"
		}
		out = append(out, "callermem="+caller)
		for _, pre := range [][][]byte{
			{salt, []byte(chost), nonce, key}, {salt, []byte(shost), nonce, key},
			{vp.SharedKeySalt, []byte(vp.ClientHostname), nonce2, key2}, {salt2, []byte(vq.ServerHostname), nonce2, key2},
		} {
			p, d := shaHex(pre...)
			out = append(out, "h="+hx(p)+":"+hx([]byte(d)))
		}
		return strings.Join(out, " ")
	}
	suites["hsh"] = func(o *Out, r *Rng, n int, tier string) {
		tampers := []string{"none", "none", "key", "nonce", "salt", "host", "trunc", "upper", "empty", "extend"}
		lens := []int{0, 1, 5, 16, 100, 111, 112, 128, 300, 496, 512, 600}
		bs := func() []byte { return r.Bytes(lens[r.Intn(len(lens))]) }
		for i := 0; i < n; i++ {
			key, salt, nonce := r.Bytes(1+r.Intn(20)), r.Bytes(16), r.Bytes(r.Intn(20))
			chost, shost := []byte("client.example"), []byte("server.example")
			switch r.Intn(8) {
			case 0:
				key = bs()
			case 1:
				nonce = bs()
			case 2:
				chost, shost = bs(), bs()
			case 3:
				salt = bs()
			case 4:
				shost = chost // the two formulas then coincide
			}
			user, pw := []byte{}, []byte{}
			if r.Chance(20) {
				user, pw = []byte("user"), r.Bytes(r.Intn(10))
			}
			o.emit("C05", "HSH", hx(key), hx(salt), hx(nonce), hx(chost), hx(shost), hx(user), hx(pw), tampers[r.Intn(len(tampers))])
		}
	}
}
