package main

import (
	"sync/atomic"
	"runtime"
	"os"
	"errors"
	"fmt"
	"io"
	"net"
	"strings"
	"sync"
	"time"

	"github.com/IBM/fluent-forward-go/fluent/client"
	"github.com/IBM/fluent-forward-go/fluent/client/ws"
	"github.com/IBM/fluent-forward-go/fluent/client/ws/ext"
	"github.com/IBM/fluent-forward-go/fluent/protocol"
	"github.com/gorilla/websocket"
)

// A fake of the underlying websocket connection (ext.Conn): frames written are logged, reads are
// scripted through a channel, Close is counted.  A plain "canary" field is touched without
// synchronisation by WriteMessage and by ReadMessage so that two overlapping writes (or reads) are a
// data race the -race build reports.

type readRes struct {
	mt   int
	p    []byte
	err  error
	ping bool // a ping control frame: handled inside the read call, as gorilla/websocket does
}

type fakeWS struct {
	mu        sync.Mutex
	id        int
	frames    []string // "<type>:<hex>"
	writeErr  bool     // the next WriteMessage fails
	writeErrKind string // f: a transport error, c: websocket.ErrCloseSent, n: net.ErrClosed, t: a timeout, z: as c, while the peer closes normally
	onFailWrite  func() // kind z: run inside the failing frame write (the peer's normal closure arrives in that window)
	closes    int
	reads     chan readRes
	closeH    func(code int, text string) error
	pingH     func(appData string) error
	wCanary   int
	rCanary   int
	inRead    int
	maxInRead int
	inWrite   int
	maxInWrite int
	dlErr     bool
	slowClose time.Duration // Close fails the pending reads at once but returns only after this long
	echoClose bool // the peer answers a close frame with a close frame
	abnOnClose bool // … or reacts to it by dropping the connection (the reader sees close 1006)
	log       func(string)
}

func newFakeWS(id int) *fakeWS {
	return &fakeWS{id: id, reads: make(chan readRes, 16), echoClose: true}
}

func (f *fakeWS) ev(s string) {
	if f.log != nil {
		f.log(s)
	}
}

func (f *fakeWS) WriteMessage(mt int, data []byte) error {
	f.wCanary++
	f.mu.Lock()
	f.inWrite++
	if f.inWrite > f.maxInWrite {
		f.maxInWrite = f.inWrite
	}
	closed := f.closes > 0
	fail := f.writeErr
	f.writeErr = false
	if !fail && !closed {
		f.frames = append(f.frames, fmt.Sprintf("%d:%s", mt, hx(data)))
	}
	echo := mt == websocket.CloseMessage && f.echoClose && !fail && !closed
	f.mu.Unlock()
	f.ev(fmt.Sprintf("wm%d:%d", f.id, mt))
	// a frame write takes a moment: give other goroutines the chance to show up inside it
	runtime.Gosched()
	runtime.Gosched()
	if echo {
		code := websocket.CloseNormalClosure
		if f.abnOnClose {
			code = websocket.CloseAbnormalClosure
		}
		select {
		case f.reads <- readRes{err: &websocket.CloseError{Code: code, Text: "bye"}}:
		default:
		}
	}
	f.mu.Lock()
	f.inWrite--
	f.mu.Unlock()
	if closed {
		return net.ErrClosed
	}
	if fail {
		switch f.writeErrKind {
		case "z":
			if f.onFailWrite != nil {
				f.onFailWrite()
			}
			return websocket.ErrCloseSent
		case "c":
			return websocket.ErrCloseSent
		case "n":
			return net.ErrClosed
		case "t":
			return &net.OpError{Op: "write", Err: os.ErrDeadlineExceeded}
		}
		return errors.New("write failed")
	}
	return nil
}

func (f *fakeWS) ReadMessage() (int, []byte, error) {
	f.rCanary++
	f.mu.Lock()
	f.inRead++
	if f.inRead > f.maxInRead {
		f.maxInRead = f.inRead
	}
	f.mu.Unlock()
	r := <-f.reads
	for r.ping {
		// gorilla/websocket runs the ping handler on the reading goroutine and goes on reading; its built-in
		// handler answers through WriteControl, which the library makes safe alongside other writers, so here:
		// nothing unless the code under test installed a handler of its own
		f.mu.Lock()
		ph := f.pingH
		f.mu.Unlock()
		if ph != nil {
			if err := ph("p"); err != nil {
				f.mu.Lock()
				f.inRead--
				f.mu.Unlock()
				return 0, nil, err
			}
		}
		r = <-f.reads
	}
	f.mu.Lock()
	f.inRead--
	h := f.closeH
	f.mu.Unlock()
	if ce, ok := r.err.(*websocket.CloseError); ok && h != nil {
		_ = h(ce.Code, ce.Text) // gorilla calls the close handler before returning the CloseError
	}
	return r.mt, r.p, r.err
}

func (f *fakeWS) Close() error {
	f.mu.Lock()
	f.closes++
	n := f.closes
	f.mu.Unlock()
	f.ev(fmt.Sprintf("cl%d", f.id))
	if n == 1 {
		// pending and future reads fail like reads on a closed socket
		go func() {
			for i := 0; i < 4; i++ {
				select {
				case f.reads <- readRes{err: net.ErrClosed}:
				default:
				}
			}
		}()
	}
	if f.slowClose > 0 {
		time.Sleep(f.slowClose)
	}
	return nil
}

func (f *fakeWS) Subprotocol() string                                          { return "" }
func (f *fakeWS) LocalAddr() net.Addr                                          { return &net.TCPAddr{} }
func (f *fakeWS) RemoteAddr() net.Addr                                         { return &net.TCPAddr{} }
// NextWriter behaves like gorilla's message writer: the data is buffered and the (last fragment of
// the) message goes to the network in Close, which is where a write error surfaces.
func (f *fakeWS) NextWriter(mt int) (io.WriteCloser, error) { return &fakeMsgWriter{f: f, mt: mt}, nil }

type fakeMsgWriter struct {
	f    *fakeWS
	mt   int
	buf  []byte
	done bool
}

func (w *fakeMsgWriter) Write(p []byte) (int, error) {
	if w.done {
		return 0, errors.New("websocket: write closed")
	}
	w.buf = append(w.buf, p...)
	return len(p), nil
}

func (w *fakeMsgWriter) Close() error {
	if w.done {
		return nil
	}
	w.done = true
	return w.f.WriteMessage(w.mt, w.buf)
}

func (f *fakeWS) WriteControl(mt int, data []byte, _ time.Time) error { return f.WriteMessage(mt, data) }
func (f *fakeWS) WritePreparedMessage(*websocket.PreparedMessage) error        { return nil }
func (f *fakeWS) SetWriteDeadline(time.Time) error                             { return nil }
func (f *fakeWS) NextReader() (int, io.Reader, error)                          { return 0, nil, errors.New("unsupported") }
func (f *fakeWS) SetReadLimit(int64)                                           {}
func (f *fakeWS) CloseHandler() func(code int, text string) error              { return f.closeH }
func (f *fakeWS) SetCloseHandler(h func(code int, text string) error)          { f.mu.Lock(); f.closeH = h; f.mu.Unlock() }
func (f *fakeWS) PingHandler() func(string) error                              { return nil }
func (f *fakeWS) SetPingHandler(h func(string) error)                          { f.mu.Lock(); f.pingH = h; f.mu.Unlock() }
func (f *fakeWS) PongHandler() func(string) error                              { return nil }
func (f *fakeWS) SetPongHandler(func(string) error)                            {}
func (f *fakeWS) UnderlyingConn() net.Conn                                     { return nil }
func (f *fakeWS) EnableWriteCompression(bool)                                  {}
func (f *fakeWS) SetCompressionLevel(int) error                                { return nil }
func (f *fakeWS) SetReadDeadline(time.Time) error {
	if f.dlErr {
		return errors.New("deadline failed")
	}
	return nil
}

var _ ext.Conn = (*fakeWS)(nil)

// ---- WSClient over the fake ---------------------------------------------------------------------

type wsFactory struct {
	mu    sync.Mutex
	conns []*fakeWS
	next  string // "ok;ok" dial;newconn for the next New()
	dials int
	// when set: New() first waits until this many background listeners have finished (the old session's error, if
	// any, has then been recorded), so that what Reconnect does afterwards does not depend on goroutine timing
	waitDone int32
	doneN    *int32
}

func (f *wsFactory) New() (ext.Conn, error) {
	if f.waitDone > 0 && f.doneN != nil {
		for i := 0; i < 2000 && atomic.LoadInt32(f.doneN) < f.waitDone; i++ {
			time.Sleep(500 * time.Microsecond)
		}
		f.waitDone = 0
	}
	f.mu.Lock()
	defer f.mu.Unlock()
	spec := strings.Split(f.next, ";")
	f.next = "ok;ok"
	if spec[0] != "ok" {
		return nil, errors.New("dial failed")
	}
	f.dials++
	c := newFakeWS(len(f.conns))
	if len(spec) > 1 && spec[1] != "ok" {
		c.dlErr = true // ws.NewConnection fails on SetReadDeadline
	}
	f.conns = append(f.conns, c)
	return c, nil
}

func (f *wsFactory) NewSession(c ws.Connection) *client.WSSession {
	return &client.WSSession{URL: "ws://fake", Connection: c}
}

// WSEQ <op>… => <O(res;X(k;v…))>…      operation sequences on client.WSClient
//   CON(dial;newconn) DIS REC(dial;newconn) SND(msg;w) RAW(hex;w) LEND(kind)
//   w: - | f (the frame write fails)    kind: err (transport error) | abn (1006) | away (1001) | norm (1000)
//   observation: res, frames written during the op per connection, dials so far, closes per connection

type wsRun struct {
	f     *wsFactory
	c     *client.WSClient
	done  chan interface{}
	seenF []int
}

func (r *wsRun) cur() *fakeWS {
	r.f.mu.Lock()
	defer r.f.mu.Unlock()
	if len(r.f.conns) == 0 {
		return nil
	}
	return r.f.conns[len(r.f.conns)-1]
}

func (r *wsRun) snapshot() string {
	r.f.mu.Lock()
	defer r.f.mu.Unlock()
	var parts []string
	for i, c := range r.f.conns {
		c.mu.Lock()
		for len(r.seenF) <= i {
			r.seenF = append(r.seenF, 0)
		}
		nf := c.frames[r.seenF[i]:]
		r.seenF[i] = len(c.frames)
		parts = append(parts, fmt.Sprintf("c%d", i), fmt.Sprintf("%s|%d", strings.Join(nf, ","), c.closes))
		c.mu.Unlock()
	}
	return strings.Join(append(parts, "dials", fmt.Sprint(r.f.dials)), ";")
}

func (r *wsRun) waitListenDone() {
	select {
	case <-r.done:
	case <-time.After(3 * time.Second):
	}
}

func runWSeq(args []string) ([]string, string) {
	f := &wsFactory{next: "ok;ok"}
	c := client.NewWS(client.WSConnectionOptions{Factory: f, ConnectionOptions: ws.ConnectionOptions{CloseDeadline: 200 * time.Millisecond}})
	r := &wsRun{f: f, c: c, done: make(chan interface{}, 64)}
	started := make(chan struct{}, 64)
	var doneN int32
	f.doneN = &doneN
	client.VerifAt = func(label string, arg interface{}) {
		if arg != interface{}(c) {
			return
		}
		switch label {
		case "listen.start":
			started <- struct{}{}
		case "listen.done":
			atomic.AddInt32(&doneN, 1)
			r.done <- arg
		}
	}
	waitStarted := func() {
		select {
		case <-started:
		case <-time.After(3 * time.Second):
		}
	}
	defer func() { client.VerifAt = nil }()
	var outs []string
	listening := 0 // sessions whose background listener is presumably running
	for _, a := range args {
		op, _ := parseTTree(a, 0)
		name := op.name
		if !op.node {
			name = op.atom
		}
		res := ""
		opDone := make(chan struct{})
		go func() {
			defer close(opDone)
			defer func() {
				if p := recover(); p != nil {
					res = "panic"
				}
			}()
			arg := func(i int) string {
				if i < len(op.kids) {
					return op.kids[i].atom
				}
				return ""
			}
			switch name {
			case "CON":
				f.next = arg(0) + ";" + arg(1)
				err := c.Connect()
				res = resOf(err)
				if err == nil {
					waitStarted() // the background listener of the new session is running
					listening++
				}
			case "DIS":
				had := c.Session() != nil
				if arg(0) == "silent" {
					// the peer never answers the close frame: Disconnect has to give up at the close deadline (200 ms here)
					if cn := r.cur(); cn != nil {
						cn.mu.Lock()
						cn.echoClose = false
						cn.mu.Unlock()
					}
				}
				res = resOf(c.Disconnect())
				if had && listening > 0 {
					// closing ends the reader: wait for the background goroutine of that session
					r.waitListenDone()
					listening--
				}
			case "REC":
				had := c.Session() != nil
				f.next = arg(0) + ";" + arg(1)
				if arg(2) == "abn" {
					// the old session's peer reacts to the close frame by dropping the connection: its listener ends
					// with an error while Reconnect is closing it
					if cn := r.cur(); cn != nil && had && listening > 0 {
						cn.mu.Lock()
						cn.abnOnClose = true
						cn.mu.Unlock()
						f.waitDone = atomic.LoadInt32(&doneN) + 1
					}
				}
				err := c.Reconnect()
				res = resOf(err)
				if had && listening > 0 {
					r.waitListenDone()
					listening--
				}
				if err == nil {
					waitStarted()
					listening++
				}
			case "SND", "RAW":
				endedInWrite := false
				if cn := r.cur(); cn != nil {
					cn.mu.Lock()
					cn.writeErr = arg(1) != "-"
					cn.writeErrKind = arg(1)
					cn.onFailWrite = nil
					if sess := c.Session(); arg(1) == "z" && listening > 0 && sess != nil && sess.Connection != nil && !sess.Connection.Closed() {
						// the peer's normal closure reaches the reader while the frame write is failing: by the time the write
						// returns, the connection reports Closed() and the listener has no error to show
						conn := sess.Connection
						cn.onFailWrite = func() {
							endedInWrite = true
							cn.reads <- readRes{err: &websocket.CloseError{Code: websocket.CloseNormalClosure, Text: "bye"}}
							for i := 0; i < 2000 && !conn.Closed(); i++ {
								time.Sleep(time.Millisecond)
							}
						}
					}
					cn.mu.Unlock()
				}
				var err error
				if name == "RAW" {
					err = c.SendRaw(unhx(arg(0)))
				} else {
					m := parseAbsTree(op.kids[0]).build(nil).(protocol.ChunkEncoder)
					err = c.Send(m)
				}
				if cn := r.cur(); cn != nil {
					cn.mu.Lock()
					cn.writeErr = false
					cn.onFailWrite = nil
					cn.mu.Unlock()
				}
				res = resOf(err)
				if endedInWrite {
					r.waitListenDone()
					listening--
					res += "+ended" // the failing write was reached, the listener has ended
				}
			case "LEND":
				cn := r.cur()
				if cn == nil || c.Session() == nil || listening == 0 {
					res = "none"
					break
				}
				var e error
				switch arg(0) {
				case "err":
					e = &net.OpError{Op: "read", Err: errors.New("connection reset by peer")}
				case "abn":
					e = &websocket.CloseError{Code: websocket.CloseAbnormalClosure, Text: "abnormal"}
				case "away":
					e = &websocket.CloseError{Code: websocket.CloseGoingAway, Text: "going away"}
				default:
					e = &websocket.CloseError{Code: websocket.CloseNormalClosure, Text: "bye"}
				}
				cn.reads <- readRes{err: e}
				r.waitListenDone()
				listening--
				res = "ended"
			}
		}()
		select {
		case <-opDone:
		case <-time.After(5 * time.Second):
			// the operation does not return (a deadlock, or a wait without a deadline): the sequence ends here, short of its operations
			return args, strings.Join(outs, " ")
		}
		outs = append(outs, fmt.Sprintf("O(%s;X(%s))", res, r.snapshot()))
	}
	// tear down
	_ = c.Disconnect()
	return args, strings.Join(outs, " ")
}

func genWsOp(r *Rng) string {
	switch r.Intn(12) {
	case 0:
		return fmt.Sprintf("CON(%s;%s)", []string{"ok", "ok", "ok", "fail"}[r.Intn(4)], []string{"ok", "ok", "ok", "fail"}[r.Intn(4)])
	case 1:
		return "DIS"
	case 2:
		if r.Chance(15) {
			return "REC(ok;ok;abn)"
		}
		return fmt.Sprintf("REC(%s;%s)", []string{"ok", "ok", "fail"}[r.Intn(3)], []string{"ok", "ok", "ok", "fail"}[r.Intn(4)])
	case 3, 4:
		return fmt.Sprintf("LEND(%s)", []string{"err", "abn", "away", "norm"}[r.Intn(4)])
	case 5, 6:
		sz := 1 + r.Intn(40)
		if r.Chance(20) {
			sz = []int{125, 126, 4095, 4096, 4097, 5000, 65535, 65536, 70000}[r.Intn(9)]
		}
		return fmt.Sprintf("RAW(%s;%s)", hx(r.Bytes(sz)), []string{"-", "-", "-", "-", "-", "f", "c", "n", "t", "z"}[r.Intn(10)])
	default:
		return fmt.Sprintf("SND(%s;%s)", genSendTokNoRaw(r), []string{"-", "-", "-", "-", "-", "f", "c", "n", "t", "z"}[r.Intn(10)])
	}
}

func genSendTokNoRaw(r *Rng) string {
	for {
		t := genSendTok(r)
		if !strings.HasPrefix(t, "RAWM") {
			return t
		}
	}
}

func init() {
	opsArgs["WSEQ"] = runWSeq
	suites["wsclient"] = func(o *Out, r *Rng, n int, tier string) {
		for _, sz := range writerEdgeSizes {
			o.emit("C17", "WSEQ", "CON(ok;ok)", fmt.Sprintf("SND(%s;-)", pfmOfSize(r, sz)), fmt.Sprintf("RAW(%s;-)", hx(r.Bytes(3))))
		}
		// a frame write that fails while the peer's normal closure arrives: the failure is the send's result (no stored error explains it away)
		for k := 0; k < 4; k++ {
			o.emit("C17", "WSEQ", "CON(ok;ok)", fmt.Sprintf("RAW(%s;-)", hx(r.Bytes(3))), fmt.Sprintf("SND(%s;z)", pfmOfSize(r, 10)), fmt.Sprintf("RAW(%s;-)", hx(r.Bytes(3))))
			o.emit("C17", "WSEQ", "CON(ok;ok)", fmt.Sprintf("RAW(%s;z)", hx(r.Bytes(5))), "REC(ok;ok)", fmt.Sprintf("RAW(%s;-)", hx(r.Bytes(3))))
		}
		// a peer that never answers the close frame: Disconnect / Reconnect return at the close deadline and later calls still work
		for k := 0; k < 3; k++ {
			o.emit("C17", "WSEQ", "CON(ok;ok)", fmt.Sprintf("RAW(%s;-)", hx(r.Bytes(3))), "DIS(silent)", "CON(ok;ok)", fmt.Sprintf("RAW(%s;-)", hx(r.Bytes(3))), "DIS")
		}
		// the replaced session's listener ends with an error during a successful Reconnect: the new session starts clean
		for k := 0; k < 6; k++ {
			o.emit("C17", "WSEQ", "CON(ok;ok)", fmt.Sprintf("RAW(%s;-)", hx(r.Bytes(3))), "REC(ok;ok;abn)", fmt.Sprintf("RAW(%s;-)", hx(r.Bytes(3))), fmt.Sprintf("SND(%s;-)", pfmOfSize(r, 10)))
		}
		for i := 0; i < n; i++ {
			var args []string
			if r.Chance(75) {
				args = append(args, "CON(ok;ok)")
			}
			for j, ln := 0, 2+r.Intn(8); j < ln; j++ {
				args = append(args, genWsOp(r))
			}
			o.emit("C17", "WSEQ", args...)
		}
	}
}
