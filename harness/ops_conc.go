package main

import (
	"bytes"
	"errors"
	"fmt"
	"io"
	"net"
	"runtime"
	"sync"
	"sync/atomic"
	"time"

	"github.com/IBM/fluent-forward-go/fluent/client"
	"github.com/IBM/fluent-forward-go/fluent/protocol"
)

// CONC <scenario> <seed> => bad=<n> <details…>
//   concurrent scenarios on client.Client (real goroutines, real scheduler; the -race build of the
//   harness additionally reports unsynchronised accesses).  The connection is a mock whose Write is
//   deliberately NOT atomic (it accepts the bytes in several pieces and yields in between), as the
//   net.Conn interface permits for a user-supplied ConnectionFactory, and which touches a plain
//   "canary" variable so that overlapping use of the connection is a data race the detector can see.
//
//   sendmix   4 goroutines x 12 sends of distinct messages (1..9 KiB), without ack
//   sendack   the same with RequireAck; the peer acknowledges every complete message it has received
//   hsmix     senders with ack while another goroutine runs Handshake / TransportPhase
//   lifecycle goroutines calling Connect / Disconnect / Reconnect / TransportPhase / Send at random

type concConn struct {
	mu      sync.Mutex // protects the mock's own bookkeeping only
	wire    []byte
	closed  int32
	canary  int // touched without synchronisation by Write and Read
	inW     int32
	overlap int32
	acks    chan []byte
	pend    []byte
	ackMode bool
	pongKey []byte
	pongDelay time.Duration // the PONG arrives this long after the PING
	gotPing chan struct{}   // signalled when a PING has been written
	rbuf    []byte
	id      int
	w       *concWorld
}

type concWorld struct {
	mu         sync.Mutex
	open, max  int
	dials      int
	closes     map[int]int
	afterClose int32
}

func (c *concConn) Write(b []byte) (int, error) {
	if atomic.LoadInt32(&c.closed) != 0 {
		atomic.AddInt32(&c.w.afterClose, 1)
		return 0, net.ErrClosed
	}
	if atomic.AddInt32(&c.inW, 1) > 1 {
		atomic.AddInt32(&c.overlap, 1)
	}
	c.canary++
	// accept the bytes in three pieces, yielding in between
	for i, p := 0, 0; i < 3; i++ {
		q := len(b) * (i + 1) / 3
		c.mu.Lock()
		c.wire = append(c.wire, b[p:q]...)
		c.mu.Unlock()
		p = q
		runtime.Gosched()
	}
	atomic.AddInt32(&c.inW, -1)
	if c.pongKey != nil {
		var ping protocol.Ping
		if _, err := ping.UnmarshalMsg(b); err == nil {
			d := hexDigest(ping.SharedKeySalt, []byte("srv"), []byte("n"), c.pongKey)
			p, _ := (&protocol.Pong{MessageType: "PONG", AuthResult: true, ServerHostname: "srv", SharedKeyHexDigest: string(d)}).MarshalMsg(nil)
			if c.gotPing != nil {
				select {
				case c.gotPing <- struct{}{}:
				default:
				}
			}
			if c.pongDelay > 0 {
				go func() { time.Sleep(c.pongDelay); c.acks <- p }()
			} else {
				c.acks <- p
			}
		}
	}
	if c.ackMode {
		c.mu.Lock()
		c.pend = append(c.pend, b...)
		for {
			t, n, err := mpParse(c.pend, 0)
			if err != nil {
				break
			}
			var ch []byte
			if t.K == KArr && len(t.A) >= 3 && t.A[len(t.A)-1].K == KMap {
				o := t.A[len(t.A)-1]
				for i := 0; i+1 < len(o.A); i += 2 {
					if string(o.A[i].S) == "chunk" {
						ch = o.A[i+1].S
					}
				}
			}
			c.pend = c.pend[n:]
			a, _ := (&protocol.AckMessage{Ack: string(ch)}).MarshalMsg(nil)
			c.acks <- a
		}
		c.mu.Unlock()
	}
	return len(b), nil
}

func (c *concConn) Read(p []byte) (int, error) {
	if atomic.LoadInt32(&c.closed) != 0 {
		return 0, net.ErrClosed
	}
	c.canary++
	c.mu.Lock()
	empty := len(c.rbuf) == 0
	c.mu.Unlock()
	if empty {
		select {
		case a := <-c.acks:
			c.mu.Lock()
			c.rbuf = append(c.rbuf, a...)
			c.mu.Unlock()
		case <-time.After(300 * time.Millisecond):
			return 0, timeoutErr{}
		}
	}
	c.mu.Lock()
	n := copy(p, c.rbuf)
	c.rbuf = c.rbuf[n:]
	c.mu.Unlock()
	return n, nil
}

func (c *concConn) Close() error {
	atomic.StoreInt32(&c.closed, 1)
	c.w.mu.Lock()
	c.w.open--
	c.w.closes[c.id]++
	c.w.mu.Unlock()
	return nil
}
func (c *concConn) LocalAddr() net.Addr                { return &net.TCPAddr{} }
func (c *concConn) RemoteAddr() net.Addr               { return &net.TCPAddr{} }
func (c *concConn) SetDeadline(t time.Time) error      { return nil }
func (c *concConn) SetReadDeadline(t time.Time) error  { return nil }
func (c *concConn) SetWriteDeadline(t time.Time) error { return nil }

type concFactory struct {
	w       *concWorld
	pongDelay time.Duration
	pongKey []byte
	ack     bool
	conns []*concConn
	mu    sync.Mutex
	helo  []byte
}

func (f *concFactory) New() (net.Conn, error) {
	f.w.mu.Lock()
	f.w.dials++
	id := f.w.dials
	f.w.open++
	if f.w.open > f.w.max {
		f.w.max = f.w.open
	}
	f.w.mu.Unlock()
	c := &concConn{acks: make(chan []byte, 1024), ackMode: f.ack, id: id, w: f.w, pongKey: f.pongKey, pongDelay: f.pongDelay,
		gotPing: make(chan struct{}, 1)}
	if f.helo != nil {
		c.rbuf = append([]byte{}, f.helo...)
	}
	f.mu.Lock()
	f.conns = append(f.conns, c)
	f.mu.Unlock()
	return c, nil
}

func concMsg(g, j int, r *Rng) (*protocol.Message, []byte) {
	sz := 1000 + r.Intn(8000)
	m := &protocol.Message{Tag: fmt.Sprintf("g%d.m%d", g, j), Timestamp: int64(g*1000 + j),
		Record: map[string]interface{}{"p": string(bytes.Repeat([]byte{byte('a' + g)}, sz))}}
	return m, nil
}

func init() {
	ops["CONC"] = func(a []string) string {
		scen, seed := a[0], uint64(atoi64(a[1]))
		w := &concWorld{closes: map[int]int{}}
		switch scen {
		case "sendmix", "sendack", "hsmix":
			ack := scen != "sendmix"
			f := &concFactory{w: w, ack: ack}
			c := client.New(client.ConnectionOptions{Factory: f, RequireAck: ack, ConnectionTimeout: 2 * time.Second})
			if err := c.Connect(); err != nil {
				return "bad=1 connect"
			}
			const G, K = 4, 12
			var wg sync.WaitGroup
			errs := int32(0)
			want := make([][]string, G)
			stop := int32(0)
			if scen == "hsmix" {
				wg.Add(1)
				go func() {
					defer wg.Done()
					for atomic.LoadInt32(&stop) == 0 {
						_ = c.TransportPhase()
						_ = c.Handshake() // no HELO is coming: times out / fails, must not disturb the senders
						runtime.Gosched()
					}
				}()
			}
			var sg sync.WaitGroup
			for g := 0; g < G; g++ {
				sg.Add(1)
				go func(g int) {
					defer sg.Done()
					r := &Rng{s: seed + uint64(g)*104729}
					for j := 0; j < K; j++ {
						m, _ := concMsg(g, j, r)
						var err error
						if j%4 == 3 && !ack {
							b, _ := m.MarshalMsg(nil)
							err = c.SendRaw(b)
						} else {
							err = c.Send(m)
						}
						if err != nil {
							atomic.AddInt32(&errs, 1)
						} else {
							want[g] = append(want[g], m.Tag)
						}
					}
				}(g)
			}
			done := make(chan struct{})
			go func() { sg.Wait(); atomic.StoreInt32(&stop, 1); wg.Wait(); close(done) }()
			select {
			case <-done:
			case <-time.After(60 * time.Second):
				return "bad=1 deadlock-or-hang"
			}
			cn := f.conns[0]
			// the wire must be a concatenation of complete encodings, each successful send exactly once
			seen := map[string]int{}
			bad := 0
			off := 0
			detail := ""
			for off < len(cn.wire) {
				t, n, err := mpParse(cn.wire[off:], 0)
				if err != nil || t.K != KArr || len(t.A) < 3 || t.A[0].K != KStr {
					bad++
					detail = fmt.Sprintf("wire-not-a-sequence-of-messages@%d", off)
					break
				}
				// the record must be intact: one repeated letter matching the tag's goroutine
				tag := string(t.A[0].S)
				rec := t.A[2]
				if rec.K != KMap || len(rec.A) != 2 || len(rec.A[1].S) == 0 || bytes.Count(rec.A[1].S, rec.A[1].S[:1]) != len(rec.A[1].S) || rec.A[1].S[0] != byte('a'+tag[1]-'0') {
					bad++
					detail = "message-content-mixed " + tag
				}
				seen[tag]++
				off += n
			}
			for g := range want {
				for _, tag := range want[g] {
					if seen[tag] != 1 {
						bad++
						detail = fmt.Sprintf("successful-send-%s-appears-%d-times", tag, seen[tag])
					}
				}
			}
			if ack && errs > 0 {
				bad++
				detail += fmt.Sprintf(" %d-sends-failed-though-every-message-was-acknowledged", errs)
			}
			return fmt.Sprintf("bad=%d overlap=%d errs=%d %s", bad, atomic.LoadInt32(&cn.overlap), errs, detail)
		case "helpermix":
			// the Send* helpers and SendRaw from several goroutines at once, without acks; payload sizes around the
			// buffer sizes a helper might treat specially (2 KiB, 4 KiB, 64 KiB)
			f := &concFactory{w: w}
			c := client.New(client.ConnectionOptions{Factory: f, ConnectionTimeout: 2 * time.Second})
			if err := c.Connect(); err != nil {
				return "bad=1 connect"
			}
			const G, K = 4, 10
			sizes := []int{40, 2047, 2049, 4097, 9000, 65535, 65536, 70000, 140000}
			type exp struct {
				kind string
				size int
			}
			want := make([]map[string]exp, G)
			var sg sync.WaitGroup
			for g := 0; g < G; g++ {
				want[g] = map[string]exp{}
				sg.Add(1)
				go func(g int) {
					defer sg.Done()
					r := &Rng{s: seed + uint64(g)*104729}
					for j := 0; j < K; j++ {
						sz := sizes[r.Intn(len(sizes))]
						letters := bytes.Repeat([]byte{byte('a' + g)}, sz)
						kind := []string{"msg", "fwd", "pfb", "pfb", "raw", "lst"}[r.Intn(6)]
						tag := fmt.Sprintf("g%d.%s%d", g, kind, j)
						var err error
						switch kind {
						case "msg":
							err = c.SendMessage(tag, map[string]interface{}{"p": string(letters)})
						case "fwd":
							err = c.SendForward(tag, protocol.EntryList{{Timestamp: protocol.EventTimeNow(), Record: map[string]interface{}{"p": string(letters)}}})
						case "lst":
							// a record holding a list (a kind of value whose encoded size a guess may get wrong)
							lst := make([]interface{}, 0, sz/50+1)
							for k := 0; k < sz; k += 50 {
								e := k + 50
								if e > sz {
									e = sz
								}
								lst = append(lst, string(letters[k:e]))
							}
							err = c.SendMessage(tag, map[string]interface{}{"p": lst})
						case "pfb":
							err = c.SendPackedFromBytes(tag, letters)
						default:
							b, _ := (&protocol.Message{Tag: tag, Timestamp: 1, Record: map[string]interface{}{"p": string(letters)}}).MarshalMsg(nil)
							err = c.SendRaw(b)
						}
						if err == nil {
							want[g][tag] = exp{kind, sz}
						}
					}
				}(g)
			}
			done := make(chan struct{})
			go func() { sg.Wait(); close(done) }()
			select {
			case <-done:
			case <-time.After(60 * time.Second):
				return "bad=1 deadlock-or-hang"
			}
			cn := f.conns[0]
			seen := map[string]int{}
			bad, off, detail := 0, 0, ""
			allSame := func(b []byte, ch byte, n int) bool { return len(b) == n && bytes.Count(b, []byte{ch}) == n }
			for off < len(cn.wire) {
				t, n, err := mpParse(cn.wire[off:], 0)
				if err != nil || t.K != KArr || len(t.A) < 2 || t.A[0].K != KStr || len(t.A[0].S) < 4 {
					bad++
					detail = fmt.Sprintf("wire-not-a-sequence-of-messages@%d", off)
					break
				}
				tag := string(t.A[0].S)
				g := int(tag[1] - '0')
				if g < 0 || g >= G {
					bad++
					detail = "unknown-tag " + tag
					break
				}
				e, ok := want[g][tag]
				seen[tag]++
				if ok {
					ch := byte('a' + g)
					good := false
					switch e.kind {
					case "msg", "raw":
						good = len(t.A) >= 3 && t.A[2].K == KMap && len(t.A[2].A) == 2 && allSame(t.A[2].A[1].S, ch, e.size)
					case "lst":
						good = len(t.A) >= 3 && t.A[2].K == KMap && len(t.A[2].A) == 2 && t.A[2].A[1].K == KArr
						if good {
							total := 0
							for _, el := range t.A[2].A[1].A {
								if bytes.Count(el.S, []byte{ch}) != len(el.S) {
									good = false
								}
								total += len(el.S)
							}
							good = good && total == e.size
						}
					case "fwd":
						good = t.A[1].K == KArr && len(t.A[1].A) == 1 && len(t.A[1].A[0].A) == 2 && t.A[1].A[0].A[1].K == KMap &&
							len(t.A[1].A[0].A[1].A) == 2 && allSame(t.A[1].A[0].A[1].A[1].S, ch, e.size)
					case "pfb":
						good = t.A[1].K == KBin && allSame(t.A[1].S, ch, e.size)
					}
					if !good {
						bad++
						detail = "message-content-mixed " + tag
					}
				}
				off += n
			}
			for g := range want {
				for tag := range want[g] {
					if seen[tag] != 1 {
						bad++
						detail = fmt.Sprintf("successful-send-%s-appears-%d-times", tag, seen[tag])
					}
				}
			}
			return fmt.Sprintf("bad=%d overlap=%d %s", bad, atomic.LoadInt32(&cn.overlap), detail)
		case "hsrec":
			// a Reconnect arrives while a handshake is waiting for its PONG; afterwards the client may be in transport
			// phase only on a connection that saw a PING
			key := []byte("k")
			bad, detail := 0, ""
			for round := 0; round < 4 && bad == 0; round++ {
				f := &concFactory{w: w, pongDelay: 25 * time.Millisecond}
				c := client.New(client.ConnectionOptions{Factory: f, ConnectionTimeout: time.Second, AuthInfo: client.AuthInfo{SharedKey: key}})
				c.Hostname = "h"
				helo, _ := protocol.NewHelo(&protocol.HeloOpts{Nonce: []byte("n"), Auth: []byte{}, Keepalive: true}).MarshalMsg(nil)
				f.helo = helo
				f.pongKey = key
				if err := c.Connect(); err != nil {
					return "bad=1 connect"
				}
				hs := make(chan error, 1)
				go func() { hs <- c.Handshake() }()
				select {
				case <-f.conns[0].gotPing:
				case <-time.After(2 * time.Second):
				}
				rec := make(chan error, 1)
				go func() { rec <- c.Reconnect() }()
				for _, ch := range []chan error{hs, rec} {
					select {
					case <-ch:
					case <-time.After(5 * time.Second):
						return "bad=1 deadlock-or-hang"
					}
				}
				if c.TransportPhase() {
					_ = c.SendRaw([]byte{0xc0})
				}
				f.mu.Lock()
				for _, cn := range f.conns {
					cn.mu.Lock()
					wire := append([]byte{}, cn.wire...)
					cn.mu.Unlock()
					if len(wire) == 0 {
						continue
					}
					var ping protocol.Ping
					if _, err := ping.UnmarshalMsg(wire); err != nil || ping.MessageType != "PING" {
						bad++
						detail = fmt.Sprintf("event-data-on-connection-%d-that-never-saw-a-PING", cn.id)
					}
				}
				f.mu.Unlock()
				_ = c.Disconnect()
			}
			return fmt.Sprintf("bad=%d %s", bad, detail)
		case "hsrace":
			// one goroutine completes honest handshakes (Reconnect + Handshake) while others poll TransportPhase
			key := []byte("k")
			f := &concFactory{w: w}
			c := client.New(client.ConnectionOptions{Factory: f, ConnectionTimeout: time.Second, AuthInfo: client.AuthInfo{SharedKey: key}})
			c.Hostname = "h"
			helo, _ := protocol.NewHelo(&protocol.HeloOpts{Nonce: []byte("n"), Auth: []byte{}, Keepalive: true}).MarshalMsg(nil)
			f.helo = helo
			f.pongKey = key
			stop := int32(0)
			var wg sync.WaitGroup
			for g := 0; g < 3; g++ {
				wg.Add(1)
				go func() {
					defer wg.Done()
					for atomic.LoadInt32(&stop) == 0 {
						_ = c.TransportPhase()
						runtime.Gosched()
					}
				}()
			}
			okHs := 0
			for i := 0; i < 40; i++ {
				_ = c.Reconnect()
				if c.Handshake() == nil {
					okHs++
				}
			}
			atomic.StoreInt32(&stop, 1)
			wg.Wait()
			bad := 0
			if okHs == 0 {
				bad = 1
			}
			return fmt.Sprintf("bad=%d handshakes=%d", bad, okHs)
		case "lifecycle":
			f := &concFactory{w: w}
			c := client.New(client.ConnectionOptions{Factory: f, ConnectionTimeout: time.Second})
			var wg sync.WaitGroup
			panics := int32(0)
			for g := 0; g < 6; g++ {
				wg.Add(1)
				go func(g int) {
					defer wg.Done()
					defer func() {
						if r := recover(); r != nil {
							atomic.AddInt32(&panics, 1)
						}
					}()
					r := &Rng{s: seed + uint64(g)*7919}
					for j := 0; j < 200; j++ {
						switch r.Intn(6) {
						case 0:
							_ = c.Connect()
						case 1:
							_ = c.Disconnect()
						case 2:
							_ = c.Reconnect()
						case 3:
							_ = c.TransportPhase()
						case 4:
							_ = c.SendRaw([]byte{0xc0})
						default:
							_ = c.SendMessage("t", map[string]interface{}{"k": "v"})
						}
					}
				}(g)
			}
			done := make(chan struct{})
			go func() { wg.Wait(); close(done) }()
			select {
			case <-done:
			case <-time.After(60 * time.Second):
				return "bad=1 deadlock-or-hang"
			}
			_ = c.Disconnect()
			bad := 0
			detail := ""
			if w.max > 1 {
				bad++
				detail += fmt.Sprintf(" %d-connections-open-at-once", w.max)
			}
			if w.open != 0 {
				bad++
				detail += fmt.Sprintf(" %d-connections-left-open", w.open)
			}
			for id, n := range w.closes {
				if n != 1 {
					bad++
					detail += fmt.Sprintf(" conn%d-closed-%d-times", id, n)
				}
			}
			if len(w.closes) != w.dials {
				bad++
				detail += " a-connection-was-never-closed"
			}
			if panics > 0 {
				bad++
				detail += " panic"
			}
			if w.afterClose > 0 {
				bad++
				detail += fmt.Sprintf(" %d-writes-after-close", w.afterClose)
			}
			return fmt.Sprintf("bad=%d dials=%d%s", bad, w.dials, detail)
		}
		return "bad-scenario"
	}
	suites["conc"] = func(o *Out, r *Rng, n int, tier string) {
		sc := []string{"sendmix", "sendack", "hsmix", "lifecycle", "hsrace", "helpermix", "hsrec"}
		for i := 0; i < n; i++ {
			o.emit("C08", "CONC", sc[i%len(sc)], itoa(int64(r.Intn(1000000))))
		}
	}
}

var _ = errors.New
var _ = io.EOF
