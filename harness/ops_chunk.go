package main

import (
	"github.com/IBM/fluent-forward-go/fluent/protocol"
)

// CHUNK <cls> <hex> => ok <hex> | err        protocol.GetChunk / RawMessage.Chunk (must agree)

var chunkOther, _ = (&protocol.Message{Tag: "zzzzzzzzzzzzzzzzzzzzzzzzzzzzzzzzzzzz", Timestamp: 1, Record: map[string]interface{}{"zzzzzzzzzzzzzzzzzzzzzz": "zzzzzzzzzzzzzzzzzzzzzzzzzzzzzzzzzzzzzzzzzzzzzzzzzzzzzzzzzzzzzzzzzzz"},
	Options: &protocol.MessageOptions{Chunk: "ZZZZZZZZZZZZZZZZZZZZZZZZZZZZZZZZZZZZZZZZ"}}).MarshalMsg(nil)
var chunkOther2, _ = (&protocol.PackedForwardMessage{Tag: "y", EventStream: []byte("yyyyyyyyyyyyyyyyyyyyyyyyyyyyyyyyyyyyyyyyyyyyyyyyyyyyyyyyyyyyyyyyyyyyyyyyyyyyyyyyyyyyyyyyyyyyy"),
	Options: &protocol.MessageOptions{Chunk: "YYYYYYYYYYYYYYYYYYYYYYYYYYYYYYYYYYYYYYYYYYYYYYYY"}}).MarshalMsg(nil)

func init() {
	ops["CHUNK"] = func(a []string) string {
		b := unhx(a[1])
		return withWatchdog(func() string {
			c, err := protocol.GetChunk(append([]byte{}, b...))
			c2, err2 := protocol.RawMessage(append([]byte{}, b...)).Chunk()
			if (err == nil) != (err2 == nil) || c != c2 {
				return "raw-disagrees"
			}
			if err != nil {
				return "err"
			}
			// the returned string must be an independent value: look at it again after the library has
			// processed another message with the same recycled reader
			snap := string(append([]byte{}, c...))
			_, _ = protocol.GetChunk(chunkOther)
			_, _ = protocol.GetChunk(chunkOther2)
			if c != snap {
				return "ok " + hx([]byte(snap)) + " unstable"
			}
			return "ok " + hx([]byte(c))
		})
	}
	suites["chunk"] = genChunk
}

// keep extension objects out of the ext32 format (and, conservatively, ext16): msgp v1.1.9's Reader.Skip peeks five
// bytes of the six-byte ext32 header and fails; the finding is exercised separately on the EventTime (see genChunk)
func capExt(n *Node) {
	if n.K == KExt && n.W >= 3 && len(n.S)%7 == 3 {
		return // now and then an ext32 stays wherever it is (records, entries, option values)
	}
	if n.K == KExt {
		switch len(n.S) {
		case 1, 2, 4, 8, 16:
			if n.W > 1 {
				n.W = 1
			}
		default:
			n.W = 0
		}
	}
	for _, c := range n.A {
		capExt(c)
	}
}

// well-formed option maps for C11: non-empty string keys, no duplicates, chunk at any position
func genOptionsWF(r *Rng, tier string) *Node {
	var kv []*Node
	seen := map[string]bool{}
	add := func(k string, v *Node) {
		if seen[k] || k == "" {
			return
		}
		seen[k] = true
		kv = append(kv, nStr([]byte(k)), v)
	}
	if r.Chance(50) {
		add("size", nInt(int64(r.Intn(100000))))
	}
	if r.Chance(60) {
		if r.Chance(6) {
			add("chunk", nStr(nil)) // a chunk entry whose value is the empty string: present, and empty
		} else if r.Chance(10) {
			add("chunk", nBin(genChunkID(r)))
		} else {
			add("chunk", nStr(genChunkID(r)))
		}
	}
	if r.Chance(40) {
		add("compressed", nStr([]byte("gzip")))
	}
	for i, nu := 0, r.Intn(4); i < nu; i++ {
		k := []string{"x", "unknown", "chunks", "Chunk", "chun", "fluent_signal", "k", "chunk\x00"}[r.Intn(8)]
		v := genNode(r, 2, tier, true)
		add(k, v)
	}
	np := len(kv) / 2
	for i := np - 1; i > 0; i-- {
		j := r.Intn(i + 1)
		kv[2*i], kv[2*j] = kv[2*j], kv[2*i]
		kv[2*i+1], kv[2*j+1] = kv[2*j+1], kv[2*i+1]
	}
	return nMap(kv...)
}

func genChunkMsg(r *Rng, tier string) *Node {
	tail := func() []*Node {
		switch r.Intn(5) {
		case 0:
			return nil
		case 1:
			return []*Node{nNil()}
		default:
			return []*Node{genOptionsWF(r, tier)}
		}
	}
	rec := func() *Node { return genMapNode(r, 3, tier, true) } // decoy "chunk" keys come from commonKeys
	tag := nStr(genTag(r, tier))
	switch r.Intn(4) {
	case 0:
		return nArr(append([]*Node{tag, genTimeNode(r), rec()}, tail()...)...)
	case 1:
		return nArr(append([]*Node{tag, nExt(0, etPayload(r)), rec()}, tail()...)...)
	case 2:
		n := r.Intn(4)
		es := make([]*Node, n)
		for i := range es {
			es[i] = nArr(nExt(0, etPayload(r)), rec())
		}
		return nArr(append([]*Node{tag, nArr(es...)}, tail()...)...)
	default:
		var s []byte
		for i, n := 0, r.Intn(3); i < n; i++ {
			s = append(s, nArr(nExt(0, etPayload(r)), rec()).Enc()...)
		}
		return nArr(append([]*Node{tag, nBin(s)}, tail()...)...)
	}
}

func genChunk(o *Out, r *Rng, n int, tier string) {
	for i := 0; i < n; i++ {
		switch r.Intn(10) {
		case 0, 1: // library encodings
			ty := codecTypes[r.Intn(4)]
			m := genGoMsg(r, ty, tier)
			if ce, ok := m.(interface{ Chunk() (string, error) }); ok && r.Bool() {
				_, _ = ce.Chunk()
			}
			b, err := m.MarshalMsg(nil)
			if err == nil {
				o.emit("C11", "CHUNK", "v", hx(b))
			}
		case 2: // malformed
			m := genChunkMsg(r, tier)
			capExt(m)
			o.emit("C10", "CHUNK", "m", hx(mutate(r, m.Enc())))
		default: // alternative encodings of well-formed messages
			m := genChunkMsg(r, tier)
			altHints(r, m, 30)
			capExt(m)
			if r.Chance(3) && len(m.A) >= 2 && m.A[1].K == KExt {
				// the EventTime in the ext32 format: legal msgpack, and where msgp v1.1.9's stream Skip gives up
				// (known finding C11-ext32-skip)
				m.A[1].W = 9
			}
			o.emit("C11", "CHUNK", "a", hx(m.Enc()))
		}
	}
}
