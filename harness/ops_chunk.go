package main

import (
	"bytes"
	"fmt"
	"runtime"
	"sort"
	"strings"
	"sync"

	"github.com/IBM/fluent-forward-go/fluent/protocol"
	"github.com/tinylib/msgp/msgp"
)

// CHUNK <cls> <hex> => ok <hex> | err        protocol.GetChunk / RawMessage.Chunk (must agree)

var chunkOther, _ = (&protocol.Message{Tag: "zzzzzzzzzzzzzzzzzzzzzzzzzzzzzzzzzzzz", Timestamp: 1, Record: map[string]interface{}{"zzzzzzzzzzzzzzzzzzzzzz": "zzzzzzzzzzzzzzzzzzzzzzzzzzzzzzzzzzzzzzzzzzzzzzzzzzzzzzzzzzzzzzzzzzz"},
	Options: &protocol.MessageOptions{Chunk: "ZZZZZZZZZZZZZZZZZZZZZZZZZZZZZZZZZZZZZZZZ"}}).MarshalMsg(nil)
var chunkOther2, _ = (&protocol.PackedForwardMessage{Tag: "y", EventStream: []byte("yyyyyyyyyyyyyyyyyyyyyyyyyyyyyyyyyyyyyyyyyyyyyyyyyyyyyyyyyyyyyyyyyyyyyyyyyyyyyyyyyyyyyyyyyyyyy"),
	Options: &protocol.MessageOptions{Chunk: "YYYYYYYYYYYYYYYYYYYYYYYYYYYYYYYYYYYYYYYYYYYYYYYY"}}).MarshalMsg(nil)

func init() {
	ops["CHUNK"] = func(a []string) string {
		b := unhx(a[1])
		return withWatchdog(func() string {
			c, err := protocol.GetChunk(append([]byte{}, b...))
			c2, err2 := protocol.RawMessage(append([]byte{}, b...)).Chunk()
			if (err == nil) != (err2 == nil) || c != c2 {
				return "raw-disagrees"
			}
			if err != nil {
				return "err"
			}
			// the returned string must be an independent value: look at it again after the library has
			// processed another message with the same recycled reader
			snap := string(append([]byte{}, c...))
			_, _ = protocol.GetChunk(chunkOther)
			_, _ = protocol.GetChunk(chunkOther2)
			if c != snap {
				return "ok " + hx([]byte(snap)) + " unstable"
			}
			return "ok " + hx([]byte(c))
		})
	}
	// CHUNKC <hex>… => per message the distinct outcomes seen, "|"-separated (ok_<hex> / err / raw-disagrees / panic)
	// one goroutine pair per message (GetChunk and RawMessage.Chunk), all running at once, many calls each: the
	// answer for a message must not depend on what other goroutines are looking up at the same moment
	ops["CHUNKC"] = func(a []string) string {
		return withWatchdog(func() string {
			type res struct {
				mu   sync.Mutex
				seen map[string]bool
			}
			rs := make([]*res, len(a))
			var wg sync.WaitGroup
			start := make(chan struct{})
			for i := range a {
				rs[i] = &res{seen: map[string]bool{}}
				b := unhx(a[i])
				for k := 0; k < 2; k++ {
					wg.Add(1)
					go func(i, k int) {
						defer wg.Done()
						defer func() {
							if r := recover(); r != nil {
								rs[i].mu.Lock()
								rs[i].seen["panic"] = true
								rs[i].mu.Unlock()
							}
						}()
						<-start
						for it := 0; it < 300; it++ {
							var c string
							var err error
							if k == 0 {
								c, err = protocol.GetChunk(append([]byte{}, b...))
							} else {
								c, err = protocol.RawMessage(append([]byte{}, b...)).Chunk()
							}
							out := "err"
							if err == nil {
								out = "ok_" + hx([]byte(c))
							}
							rs[i].mu.Lock()
							rs[i].seen[out] = true
							rs[i].mu.Unlock()
							if it%16 == 0 {
								runtime.Gosched()
							}
						}
					}(i, k)
				}
			}
			close(start)
			wg.Wait()
			out := make([]string, len(a))
			for i, r := range rs {
				var ks []string
				for k := range r.seen {
					ks = append(ks, k)
				}
				sort.Strings(ks)
				out[i] = strings.Join(ks, "|")
			}
			return strings.Join(out, " ")
		})
	}
	// RAWE <hex> <followhex> => same | diff <len> <firstdiff>     RawMessage.EncodeMsg through a msgp.Writer, then a second
	// message through the same writer: the stream must be the raw bytes verbatim followed by the second message
	ops["RAWE"] = func(a []string) string {
		b, f := unhx(a[0]), unhx(a[1])
		return withWatchdog(func() string {
			var buf bytes.Buffer
			w := msgp.NewWriter(&buf)
			if err := protocol.RawMessage(b).EncodeMsg(w); err != nil {
				return "err"
			}
			if err := protocol.RawMessage(f).EncodeMsg(w); err != nil {
				return "err"
			}
			if err := w.Flush(); err != nil {
				return "err"
			}
			want := append(append([]byte{}, b...), f...)
			if len(b) == 0 {
				want = append([]byte{0xc0}, f...)
			}
			got := buf.Bytes()
			if bytes.Equal(got, want) {
				return "same"
			}
			i := 0
			for i < len(got) && i < len(want) && got[i] == want[i] {
				i++
			}
			return fmt.Sprintf("diff %d %d", len(got), i)
		})
	}
	suites["chunk"] = genChunk
}

// keep extension objects out of the ext32 format (and, conservatively, ext16): msgp v1.1.9's Reader.Skip peeks five
// bytes of the six-byte ext32 header and fails; the finding is exercised separately on the EventTime (see genChunk)
func capExt(n *Node) {
	if n.K == KExt && n.W >= 3 && len(n.S)%7 == 3 {
		return // now and then an ext32 stays wherever it is (records, entries, option values)
	}
	if n.K == KExt {
		switch len(n.S) {
		case 1, 2, 4, 8, 16:
			if n.W > 1 {
				n.W = 1
			}
		default:
			n.W = 0
		}
	}
	for _, c := range n.A {
		capExt(c)
	}
}

// well-formed option maps for C11: non-empty string keys, no duplicates, chunk at any position
func genOptionsWF(r *Rng, tier string) *Node {
	var kv []*Node
	seen := map[string]bool{}
	add := func(k string, v *Node) {
		if seen[k] || k == "" {
			return
		}
		seen[k] = true
		kv = append(kv, nStr([]byte(k)), v)
	}
	if r.Chance(50) {
		add("size", nInt(int64(r.Intn(100000))))
	}
	if r.Chance(60) {
		if r.Chance(6) {
			add("chunk", nStr(nil)) // a chunk entry whose value is the empty string: present, and empty
		} else if r.Chance(10) {
			add("chunk", nBin(genChunkID(r)))
		} else {
			add("chunk", nStr(genChunkID(r)))
		}
	}
	if r.Chance(40) {
		add("compressed", nStr([]byte("gzip")))
	}
	for i, nu := 0, r.Intn(4); i < nu; i++ {
		k := []string{"x", "unknown", "chunks", "Chunk", "chun", "fluent_signal", "k", "chunk\x00"}[r.Intn(8)]
		v := genNode(r, 2, tier, true)
		add(k, v)
	}
	np := len(kv) / 2
	for i := np - 1; i > 0; i-- {
		j := r.Intn(i + 1)
		kv[2*i], kv[2*j] = kv[2*j], kv[2*i]
		kv[2*i+1], kv[2*j+1] = kv[2*j+1], kv[2*i+1]
	}
	return nMap(kv...)
}

func genChunkMsg(r *Rng, tier string) *Node {
	tail := func() []*Node {
		switch r.Intn(5) {
		case 0:
			return nil
		case 1:
			return []*Node{nNil()}
		default:
			return []*Node{genOptionsWF(r, tier)}
		}
	}
	rec := func() *Node { return genMapNode(r, 3, tier, true) } // decoy "chunk" keys come from commonKeys
	tag := nStr(genTag(r, tier))
	switch r.Intn(4) {
	case 0:
		return nArr(append([]*Node{tag, genTimeNode(r), rec()}, tail()...)...)
	case 1:
		return nArr(append([]*Node{tag, nExt(0, etPayload(r)), rec()}, tail()...)...)
	case 2:
		n := r.Intn(4)
		es := make([]*Node, n)
		for i := range es {
			es[i] = nArr(nExt(0, etPayload(r)), rec())
		}
		return nArr(append([]*Node{tag, nArr(es...)}, tail()...)...)
	default:
		var s []byte
		for i, n := 0, r.Intn(3); i < n; i++ {
			s = append(s, nArr(nExt(0, etPayload(r)), rec()).Enc()...)
		}
		return nArr(append([]*Node{tag, nBin(s)}, tail()...)...)
	}
}

func genChunk(o *Out, r *Rng, n int, tier string) {
	// raw messages of every size around the stream writer's buffer (2 KiB) and beyond, each followed by another message
	for _, sz := range []int{0, 1, 17, 1000, 2040, 2047, 2048, 2049, 2100, 4095, 4096, 4097, 8192, 70000} {
		m := nArr(nStr([]byte("raw.tag")), nInt(int64(sz)), nMap(nStr([]byte("pad")), nBin(r.Bytes(sz))))
		b := m.Enc()
		if sz == 0 {
			b = nil
		} else if len(b) > sz && sz > 40 {
			// the message itself sz bytes long: shrink the padding by the framing overhead
			m = nArr(nStr([]byte("raw.tag")), nInt(int64(sz)), nMap(nStr([]byte("pad")), nBin(r.Bytes(sz-(len(b)-sz)))))
			b = m.Enc()
		}
		o.emit("C13", "RAWE", hx(b), hx(genChunkMsg(r, tier).Enc()))
	}
	// the chunk key at every offset around the reader's buffer edges (2 KiB, 4 KiB), with kilobytes of option data
	// behind it: a key that is looked at after the reader has moved on
	for _, base := range []int{1900, 3950} {
		for pad := base; pad < base+260; pad++ {
			id := genChunkID(r)
			m := nArr(nStr(bytes.Repeat([]byte("t"), pad)), nInt(7), nMap(),
				nMap(nStr([]byte("chunk")), nStr(id), nStr([]byte("zz")), nBin(bytes.Repeat([]byte{0x7a}, 3000))))
			o.emit("C11", "CHUNK", "a", hx(m.Enc()))
		}
	}
	for i := 0; i < n; i++ {
		if r.Chance(2) {
			// several messages looked up at the same time, each by its own goroutines
			k := 2 + r.Intn(6)
			ms := make([]string, k)
			for j := range ms {
				m := genChunkMsg(r, tier)
				altHints(r, m, 30)
				capExt(m)
				ms[j] = hx(m.Enc())
			}
			o.emit("C11", "CHUNKC", ms...)
			continue
		}
		switch r.Intn(10) {
		case 0, 1: // library encodings
			ty := codecTypes[r.Intn(4)]
			m := genGoMsg(r, ty, tier)
			if ce, ok := m.(interface{ Chunk() (string, error) }); ok && r.Bool() {
				_, _ = ce.Chunk()
			}
			b, err := m.MarshalMsg(nil)
			if err == nil {
				o.emit("C11", "CHUNK", "v", hx(b))
			}
		case 2: // malformed
			m := genChunkMsg(r, tier)
			capExt(m)
			o.emit("C10", "CHUNK", "m", hx(mutate(r, m.Enc())))
		default: // alternative encodings of well-formed messages
			m := genChunkMsg(r, tier)
			altHints(r, m, 30)
			capExt(m)
			if r.Chance(3) && len(m.A) >= 2 && m.A[1].K == KExt {
				// the EventTime in the ext32 format: legal msgpack, and where msgp v1.1.9's stream Skip gives up
				// (known finding C11-ext32-skip)
				m.A[1].W = 9
			}
			o.emit("C11", "CHUNK", "a", hx(m.Enc()))
		}
	}
}
